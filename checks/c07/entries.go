package main

// Entry points of C07: every decoder / parser named by the property, wrapped
// as func(input) outcome. Everything here runs ONLY inside a worker
// subprocess (virtual-memory cap, watchdog) or, for the corpus self-check,
// on valid encodings produced by the repository's own writers.

import (
	"bytes"
	"fmt"
	"reflect"
	"sort"

	"github.com/lugu/qiloop/bus"
	"github.com/lugu/qiloop/bus/directory"
	"github.com/lugu/qiloop/bus/net"
	"github.com/lugu/qiloop/meta/idl"
	"github.com/lugu/qiloop/meta/signature"
	"github.com/lugu/qiloop/type/basic"
	"github.com/lugu/qiloop/type/encoding"
	"github.com/lugu/qiloop/type/object"
	"github.com/lugu/qiloop/type/value"
)

// outcome of one evaluation: accepted (a value was returned) or the error.
type outcome struct {
	accepted bool
	err      string
	unusable string // accepted, but the returned value fails the use step (use.go): which requirement
}

func res(err error) outcome {
	if err != nil {
		return outcome{accepted: false, err: err.Error()}
	}
	return outcome{accepted: true}
}

// item is a valid encoding for an entry point, built with the repository's
// writers (or, where a map makes the writer's output order random, with the
// canonical sorted-key writer below, validated against the repository's
// reader and writer at start-up).
type item struct {
	label string
	data  []byte
}

// target is one (entry point, sub-case) pair.
type target struct {
	entry  string // fingerprint component, e.g. "ReadMetaObject"
	sub    string // signature / Go type / action id
	binary bool   // takes Bytes(L,A)
	noByte bool   // excluded from Bytes(L,A) (see rule in evidence)
	aux    bool   // serves one family only (recursive.go): no generic universe, no input stream
	run    func(in []byte) outcome
	corpus []item
	extra  [][]byte // further inputs (family "hand-built"): nothing says the decoder accepts them
}

// ---------------------------------------------------------------- helpers

type enc struct{ bytes.Buffer }

func (e *enc) u8(v uint8) *enc   { basic.WriteUint8(v, e); return e }
func (e *enc) u32(v uint32) *enc { basic.WriteUint32(v, e); return e }
func (e *enc) u64(v uint64) *enc { basic.WriteUint64(v, e); return e }
func (e *enc) str(s string) *enc { basic.WriteString(s, e); return e }
func (e *enc) f64(f float64) *enc {
	basic.WriteFloat64(f, e)
	return e
}
func (e *enc) val(v value.Value) *enc { v.Write(e); return e }
func (e *enc) raw(b []byte) *enc      { e.Write(b); return e }
func (e *enc) b() []byte              { return append([]byte{}, e.Bytes()...) }
func n() *enc                         { return &enc{} }

// canonical (sorted key) writers for the map-bearing structures; the
// repository's generated writers iterate Go maps, so their byte order is
// random. Validated in selfCheck: the repository's reader must return a
// deep-equal object and the repository's writer an equally long encoding.

func canonMetaObject(m object.MetaObject, e *enc) {
	var mk []uint32
	for k := range m.Methods {
		mk = append(mk, k)
	}
	sort.Slice(mk, func(i, j int) bool { return mk[i] < mk[j] })
	e.u32(uint32(len(mk)))
	for _, k := range mk {
		mm := m.Methods[k]
		e.u32(k)
		e.u32(mm.Uid).str(mm.ReturnSignature).str(mm.Name).str(mm.ParametersSignature).str(mm.Description)
		e.u32(uint32(len(mm.Parameters)))
		for _, p := range mm.Parameters {
			e.str(p.Name).str(p.Description)
		}
		e.str(mm.ReturnDescription)
	}
	var sk []uint32
	for k := range m.Signals {
		sk = append(sk, k)
	}
	sort.Slice(sk, func(i, j int) bool { return sk[i] < sk[j] })
	e.u32(uint32(len(sk)))
	for _, k := range sk {
		s := m.Signals[k]
		e.u32(k).u32(s.Uid).str(s.Name).str(s.Signature)
	}
	var pk []uint32
	for k := range m.Properties {
		pk = append(pk, k)
	}
	sort.Slice(pk, func(i, j int) bool { return pk[i] < pk[j] })
	e.u32(uint32(len(pk)))
	for _, k := range pk {
		p := m.Properties[k]
		e.u32(k).u32(p.Uid).str(p.Name).str(p.Signature)
	}
	e.str(m.Description)
}

func canonCapMap(m bus.CapabilityMap, e *enc) {
	var ks []string
	for k := range m {
		ks = append(ks, k)
	}
	sort.Strings(ks)
	e.u32(uint32(len(ks)))
	for _, k := range ks {
		e.str(k).val(m[k])
	}
}

// ------------------------------------------------------------ fake bus

type fakeEndPoint struct{}

func (fakeEndPoint) String() string                                              { return "fake" }
func (fakeEndPoint) Send(m net.Message) error                                    { return nil }
func (fakeEndPoint) ReceiveAny() (chan *net.Message, error)                      { return nil, fmt.Errorf("fake") }
func (fakeEndPoint) MakeHandler(net.Filter, chan<- *net.Message, net.Closer) int { return 1 }
func (fakeEndPoint) AddHandler(net.Filter, net.Consumer, net.Closer) int         { return 1 }
func (fakeEndPoint) RemoveHandler(id int) error                                  { return nil }
func (fakeEndPoint) Close() error                                                { return nil }

// fakeChannel records what the stub answers.
type fakeChannel struct {
	cap     bus.CapabilityMap
	replies int
	errors  int
	lastErr string
	sends   int
}

func (c *fakeChannel) Cap() bus.CapabilityMap  { return c.cap }
func (c *fakeChannel) EndPoint() net.EndPoint  { return fakeEndPoint{} }
func (c *fakeChannel) Send(*net.Message) error { c.sends++; return nil }
func (c *fakeChannel) SendError(m *net.Message, err error) error {
	c.errors++
	if err != nil {
		c.lastErr = err.Error()
	}
	return nil
}
func (c *fakeChannel) SendReply(*net.Message, []byte) error { c.replies++; return nil }
func (c *fakeChannel) Authenticate() error                  { return nil }
func (c *fakeChannel) Authenticated() bool                  { return true }
func (c *fakeChannel) SetAuthenticated()                    {}

func (c *fakeChannel) outcome(err error) outcome {
	if err != nil {
		return outcome{accepted: false, err: "receive: " + err.Error()}
	}
	if c.errors > 0 {
		return outcome{accepted: false, err: "error-reply: " + c.lastErr}
	}
	return outcome{accepted: true}
}

type nopActor struct{}

func (nopActor) Receive(m *net.Message, from bus.Channel) error {
	return from.SendError(m, bus.ErrActionNotFound)
}
func (nopActor) Activate(bus.Activation) error { return nil }
func (nopActor) OnTerminate()                  {}

// fakeDirectory implements the exported part of ServiceDirectoryImplementor;
// the interface has an unexported method (_socketOfService) which can only be
// promoted from the embedded (nil) interface, hence action 109 is excluded.
type fakeDirectory struct {
	directory.ServiceDirectoryImplementor
}

func (fakeDirectory) Activate(bus.Activation, directory.ServiceDirectorySignalHelper) error {
	return nil
}
func (fakeDirectory) OnTerminate() {}
func (fakeDirectory) Service(string) (directory.ServiceInfo, error) {
	return directory.ServiceInfo{Name: "a"}, nil
}
func (fakeDirectory) Services() ([]directory.ServiceInfo, error) { return nil, nil }
func (fakeDirectory) RegisterService(i directory.ServiceInfo) (uint32, error) {
	if p := useServiceInfo(&i); p != "" { // the implementor is the consumer of the decoded argument
		panic("unusable argument: " + p)
	}
	return 2, nil
}
func (fakeDirectory) UnregisterService(uint32) error { return nil }
func (fakeDirectory) ServiceReady(uint32) error      { return nil }
func (fakeDirectory) UpdateServiceInfo(i directory.ServiceInfo) error {
	if p := useServiceInfo(&i); p != "" {
		panic("unusable argument: " + p)
	}
	return nil
}
func (fakeDirectory) MachineId() (string, error) { return "m", nil }

func activation() bus.Activation {
	return bus.Activation{ServiceID: 1, ObjectID: 1, Terminate: func() {}}
}

func receive(a bus.Actor, action uint32, in []byte) outcome {
	msg := net.NewMessage(net.NewHeader(net.Call, 1, 1, action, 7), in)
	ch := &fakeChannel{cap: bus.CapabilityMap{}}
	err := a.Receive(&msg, ch)
	return ch.outcome(err)
}

// the two IDL entry points, each followed by its use step; the running
// phase is published so that a case that kills the worker is attributed
func runParsePackage(in []byte) outcome {
	phaseHook("ParsePackage")
	pkg, err := idl.ParsePackage(in)
	if err != nil {
		return res(err)
	}
	return used(func() string { return usePackage(pkg) })
}

// useStepMaxInput: above this input length the IDL targets run the parsers only.
const useStepMaxInput = 16 << 10

func runParseIDL(in []byte) outcome {
	phaseHook("ParseIDL")
	metas, err := idl.ParseIDL(bytes.NewReader(in))
	if err != nil {
		return res(err)
	}
	return used(func() string { return useMetaObjects(metas) })
}

// ------------------------------------------------------------ targets

var reflectTypes = []struct {
	name   string
	typ    reflect.Type
	sample interface{}
}{
	{"bool", reflect.TypeOf(false), true},
	{"int16", reflect.TypeOf(int16(0)), int16(-2)},
	{"uint16", reflect.TypeOf(uint16(0)), uint16(0x0102)},
	{"int32", reflect.TypeOf(int32(0)), int32(-2)},
	{"uint32", reflect.TypeOf(uint32(0)), uint32(0x01020304)},
	{"int64", reflect.TypeOf(int64(0)), int64(-2)},
	{"uint64", reflect.TypeOf(uint64(0)), uint64(0x0102030405060708)},
	{"float32", reflect.TypeOf(float32(0)), float32(1.5)},
	{"float64", reflect.TypeOf(float64(0)), float64(1.5)},
	{"string", reflect.TypeOf(""), "ab"},
	{"[]int32", reflect.TypeOf([]int32{}), []int32{1, 2}},
	{"[]string", reflect.TypeOf([]string{}), []string{"a", "bc"}},
	{"[][]string", reflect.TypeOf([][]string{}), [][]string{{"a"}, {}}},
	{"[]uint64", reflect.TypeOf([]uint64{}), []uint64{1, 2}},
	{"map[string]int32", reflect.TypeOf(map[string]int32{}), map[string]int32{"a": 1}},
	{"map[int32]string", reflect.TypeOf(map[int32]string{}), map[int32]string{1: "a"}},
	{"map[string][]string", reflect.TypeOf(map[string][]string{}), map[string][]string{"a": {"b"}}},
	{"[]map[string]int32", reflect.TypeOf([]map[string]int32{}), []map[string]int32{{"a": 1}, {}}},
	{"map[string]map[string]bool", reflect.TypeOf(map[string]map[string]bool{}), map[string]map[string]bool{"a": {"b": true}}},
	{"struct{A int32;B string}", reflect.TypeOf(struct {
		A int32
		B string
	}{}), struct {
		A int32
		B string
	}{7, "x"}},
	{"[]struct{A string;B []int32}", reflect.TypeOf([]struct {
		A string
		B []int32
	}{}), []struct {
		A string
		B []int32
	}{{"a", []int32{1}}, {"", nil}}},
	{"struct{A []string;M map[string]string}", reflect.TypeOf(struct {
		A []string
		M map[string]string
	}{}), struct {
		A []string
		M map[string]string
	}{[]string{"a"}, map[string]string{"k": "v"}}},
	{"struct{V value.Value}", reflect.TypeOf(struct{ V value.Value }{}), struct{ V value.Value }{value.String("a")}},
	{"[]value.Value", reflect.TypeOf([]value.Value{}), []value.Value{value.Int(1), value.String("a")}},
	{"map[string]value.Value", reflect.TypeOf(map[string]value.Value{}), map[string]value.Value{"a": value.Bool(true)}},
	{"[]struct{}", reflect.TypeOf([]struct{}{}), []struct{}{{}, {}}},
	{"directory.ServiceInfo", reflect.TypeOf(directory.ServiceInfo{}), directory.ServiceInfo{Name: "a", ServiceId: 1, MachineId: "m", ProcessId: 2, Endpoints: []string{"tcp://h:1"}, SessionId: "s", ObjectUid: "u"}},
	{"object.MetaMethod", reflect.TypeOf(object.MetaMethod{}), object.MetaMethod{Uid: 1, ReturnSignature: "v", Name: "f", ParametersSignature: "(s)", Parameters: []object.MetaMethodParameter{{Name: "a", Description: "d"}}}},
}

var smallMeta = object.MetaObject{
	Description: "T",
	Methods: map[uint32]object.MetaMethod{100: {
		Uid: 100, ReturnSignature: "v", Name: "f", ParametersSignature: "(si)", Description: "d",
		Parameters:        []object.MetaMethodParameter{{Name: "a", Description: "x"}, {Name: "b", Description: ""}},
		ReturnDescription: "r",
	}},
	Signals:    map[uint32]object.MetaSignal{101: {Uid: 101, Name: "s", Signature: "(i)"}},
	Properties: map[uint32]object.MetaProperty{102: {Uid: 102, Name: "p", Signature: "s"}},
}

var emptyMeta = object.MetaObject{
	Methods: map[uint32]object.MetaMethod{}, Signals: map[uint32]object.MetaSignal{}, Properties: map[uint32]object.MetaProperty{},
}

const sampleIDL = `package p
struct S
	a: int32
	b: Vec<str> // c
end
enum E
	x = 1
end
interface I // doc
	fn f(a: int32, b: Map<str,S>) -> Vec<S> // m
	fn g()
	sig s(a: Tuple<int32,str>)
	prop p(v: any)
end
`

// sigSet: signatures fed to signature.MakeReader(sig).Read. zero marks the
// zero-width element signatures (their reader consumes nothing per element).
var sigSet = []struct {
	sig    string
	zero   bool
	corpus func() [][]byte
}{
	{"i", false, func() [][]byte { return [][]byte{n().u32(0x01020304).b()} }},
	{"s", false, func() [][]byte { return [][]byte{n().str("ab").b(), n().str("").b()} }},
	{"m", false, func() [][]byte {
		return [][]byte{n().val(value.Int(7)).b(), n().val(value.String("ab")).b(), n().str("[s]").u32(1).str("a").b()}
	}},
	{"d", false, func() [][]byte { return [][]byte{n().f64(1.5).b()} }},
	{"[s]", false, func() [][]byte { return [][]byte{n().u32(2).str("a").str("bc").b(), n().u32(0).b()} }},
	{"[i]", false, func() [][]byte { return [][]byte{n().u32(2).u32(1).u32(2).b()} }},
	{"[C]", false, func() [][]byte { return [][]byte{n().u32(3).u8(1).u8(2).u8(3).b()} }},
	{"{sm}", false, func() [][]byte { return [][]byte{n().u32(1).str("k").val(value.Bool(true)).b()} }},
	{"{is}", false, func() [][]byte { return [][]byte{n().u32(2).u32(1).str("a").u32(2).str("").b()} }},
	{"[[s]]", false, func() [][]byte { return [][]byte{n().u32(2).u32(1).str("a").u32(0).b()} }},
	{"[{ss}]", false, func() [][]byte { return [][]byte{n().u32(1).u32(1).str("k").str("v").b()} }},
	{"{s[s]}", false, func() [][]byte { return [][]byte{n().u32(1).str("k").u32(1).str("v").b()} }},
	{"(sI)<S,a,b>", false, func() [][]byte { return [][]byte{n().str("a").u32(5).b()} }},
	{"[(sI)<S,a,b>]", false, func() [][]byte { return [][]byte{n().u32(2).str("a").u32(5).str("").u32(6).b()} }},
	{"(s[m])", false, func() [][]byte { return [][]byte{n().str("a").u32(1).val(value.Int(1)).b()} }},
	{"[m]", false, func() [][]byte { return [][]byte{n().u32(2).val(value.Int(1)).val(value.String("a")).b()} }},
	{"X", false, func() [][]byte { return nil }},
	{"[v]", true, func() [][]byte { return [][]byte{n().u32(2).b()} }},
	{"{vv}", true, func() [][]byte { return [][]byte{n().u32(1).b()} }},
	{"[()]", true, func() [][]byte { return [][]byte{n().u32(2).b()} }},
	{"[[()]]", false, func() [][]byte { return [][]byte{n().u32(2).u32(1).u32(0).b()} }},
}

func items(prefix string, bs ...[]byte) []item {
	var out []item
	for i, b := range bs {
		out = append(out, item{fmt.Sprintf("%s#%d", prefix, i), b})
	}
	return out
}

func buildTargets() []*target {
	var ts []*target
	add := func(t *target) { ts = append(ts, t) }

	// 1. Message.Read
	{
		var c [][]byte
		for _, p := range [][]byte{{}, {1, 2, 3, 4}, n().str("abcd").u32(9).b()} {
			m := net.NewMessage(net.NewHeader(net.Call, 1, 2, 3, 4), p)
			var buf bytes.Buffer
			m.Write(&buf)
			c = append(c, buf.Bytes())
		}
		add(&target{entry: "Message.Read", binary: true, corpus: items("msg", c...),
			run: func(in []byte) outcome {
				var m net.Message
				if err := m.Read(bytes.NewReader(in)); err != nil {
					return res(err)
				}
				return used(func() string { return useMessage(&m) })
			}})
	}
	// 2. value.NewValue
	{
		vals := []value.Value{
			value.Bool(true), value.Int8(-2), value.Uint8(3), value.Int16(-2), value.Uint16(3),
			value.Int(-2), value.Uint(3), value.Long(-2), value.Ulong(3), value.Float(1.5),
			value.String("ab"), value.String(""), value.Raw([]byte{1, 2, 3}), value.Void(),
			value.List([]value.Value{value.Int(1), value.String("a")}),
			value.List([]value.Value{value.List([]value.Value{value.Bool(true)}), value.Void()}),
			value.Opaque("[s]", n().u32(2).str("a").str("bc").b()),
			value.Opaque("{sm}", n().u32(1).str("k").val(value.Int(1)).b()),
			value.Opaque("(sI)<S,a,b>", n().str("a").u32(5).b()),
			value.Opaque("d", n().f64(1.5).b()),
			value.Opaque("[()]", n().u32(2).b()),
			value.Opaque("[v]", n().u32(2).b()),
			value.Opaque("{vv}", n().u32(1).b()),
			value.Opaque("[[i]]", n().u32(1).u32(2).u32(1).u32(2).b()),
			value.Opaque("(m)", n().val(value.String("a")).b()),
		}
		var c []item
		seenSig := map[string]int{}
		for _, v := range vals {
			seenSig[v.Signature()]++
			c = append(c, item{fmt.Sprintf("val:%s#%d", v.Signature(), seenSig[v.Signature()]-1), n().val(v).b()})
		}
		// nested dynamic value and an object reference
		c = append(c, item{"val:m#0", n().str("m").val(value.Int(5)).b()})
		ref := n().str("o")
		canonMetaObject(smallMeta, ref)
		ref.u32(1).u32(2)
		c = append(c, item{"val:o#0", ref.b()})
		add(&target{entry: "value.NewValue", binary: true, corpus: c,
			run: func(in []byte) outcome {
				v, err := value.NewValue(bytes.NewReader(in))
				if err != nil {
					return res(err)
				}
				return used(func() string { return useValue(v, "NewValue-result") })
			}})
	}
	// 3. signature readers
	for _, s := range sigSet {
		s := s
		var rd signature.TypeReader
		var rerr error
		made := false
		t := &target{entry: "sigreader", sub: s.sig, binary: true, noByte: s.zero, corpus: items(s.sig, s.corpus()...)}
		t.run = func(in []byte) outcome {
			if !made {
				rd, rerr = signature.MakeReader(s.sig)
				made = true
			}
			if rerr != nil {
				return res(rerr)
			}
			data, err := rd.Read(bytes.NewReader(in))
			if err != nil {
				return res(err)
			}
			return used(func() string { return useReaderOutput(s.sig, data, len(in)) })
		}
		add(t)
	}
	{
		// the meta-object signature through the signature reader
		var rd signature.TypeReader
		add(&target{entry: "sigreader", sub: "MetaObjectSignature", binary: true,
			corpus: items("meta", func() []byte { e := n(); canonMetaObject(smallMeta, e); return e.b() }()),
			run: func(in []byte) outcome {
				if rd == nil {
					rd, _ = signature.MakeReader(signature.MetaObjectSignature)
				}
				data, err := rd.Read(bytes.NewReader(in))
				if err != nil {
					return res(err)
				}
				return used(func() string { return useReaderOutput(signature.MetaObjectSignature, data, len(in)) })
			}})
	}
	// 4. meta objects and object references
	{
		metas := []object.MetaObject{emptyMeta, smallMeta, object.MetaService0, object.ObjectMetaObject,
			object.FullMetaObject(smallMeta)}
		var c [][]byte
		for _, m := range metas {
			e := n()
			canonMetaObject(m, e)
			c = append(c, e.b())
		}
		add(&target{entry: "ReadMetaObject", binary: true, corpus: items("meta", c...),
			run: func(in []byte) outcome {
				m, err := object.ReadMetaObject(bytes.NewReader(in))
				if err != nil {
					return res(err)
				}
				return used(func() string { return useMetaObject(&m, "MetaObject") })
			}})
		var r [][]byte
		for _, m := range []object.MetaObject{emptyMeta, smallMeta, object.ObjectMetaObject} {
			e := n()
			canonMetaObject(m, e)
			e.u32(3).u32(4)
			r = append(r, e.b())
		}
		add(&target{entry: "ReadObjectReference", binary: true, corpus: items("ref", r...),
			run: func(in []byte) outcome {
				r, err := object.ReadObjectReference(bytes.NewReader(in))
				if err != nil {
					return res(err)
				}
				return used(func() string { return useObjectReference(&r) })
			}})
	}
	// 5. service info
	infos := []directory.ServiceInfo{
		{Name: "a", ServiceId: 1, MachineId: "m", ProcessId: 2, Endpoints: []string{"tcp://h:1", "unix:///x"}, SessionId: "s", ObjectUid: "u"},
		{Name: "", Endpoints: []string{}},
	}
	var infoEnc [][]byte
	for _, i := range infos {
		var buf bytes.Buffer
		directory.WriteServiceInfo(i, &buf)
		infoEnc = append(infoEnc, append([]byte{}, buf.Bytes()...))
	}
	add(&target{entry: "ReadServiceInfo", binary: true, corpus: items("info", infoEnc...),
		run: func(in []byte) outcome {
			i, err := directory.ReadServiceInfo(bytes.NewReader(in))
			if err != nil {
				return res(err)
			}
			return used(func() string { return useServiceInfo(&i) })
		}})
	// 6. capability map
	caps := []bus.CapabilityMap{
		{},
		{"ClientServerSocket": value.Bool(true)},
		{bus.KeyUser: value.String("u"), bus.KeyToken: value.String("t"), "MetaObjectCache": value.Bool(false), "n": value.Uint(3)},
	}
	var capEnc [][]byte
	for _, c := range caps {
		e := n()
		canonCapMap(c, e)
		capEnc = append(capEnc, e.b())
	}
	// maps a Go map cannot express: a key stated twice (same value, other value) for
	// every kind of value a capability can carry (seed C07-16 compared the two decoded
	// values with !=, which panics for list and raw values)
	capVals := [][2]value.Value{
		{value.Bool(true), value.Bool(false)},
		{value.Uint(3), value.Uint(4)},
		{value.String("a"), value.String("b")},
		{value.List([]value.Value{value.Int(1)}), value.List([]value.Value{value.Int(2)})},
		{value.Raw([]byte{1, 2}), value.Raw([]byte{3})},
		{value.Opaque("(ii)", []byte{1, 0, 0, 0, 2, 0, 0, 0}), value.Opaque("(ii)", []byte{3, 0, 0, 0, 4, 0, 0, 0})},
		{value.Void(), value.Void()},
		{value.List([]value.Value{value.Int(1)}), value.Raw([]byte{9})},
	}
	var capExtra [][]byte
	for _, pv := range capVals {
		capExtra = append(capExtra,
			n().u32(2).str("k").val(pv[0]).str("k").val(pv[0]).b(),
			n().u32(2).str("k").val(pv[0]).str("k").val(pv[1]).b(),
			n().u32(3).str("k").val(pv[0]).str("other").val(pv[1]).str("k").val(pv[1]).b())
	}
	add(&target{entry: "ReadCapabilityMap", binary: true, corpus: items("cap", capEnc...), extra: capExtra,
		run: func(in []byte) outcome {
			m, err := bus.ReadCapabilityMap(bytes.NewReader(in))
			if err != nil {
				return res(err)
			}
			return used(func() string { return useCapabilityMap(m) })
		}})
	// 7. reflection decoder
	for _, rt := range reflectTypes {
		rt := rt
		var buf bytes.Buffer
		var c [][]byte
		if err := encoding.NewEncoder(encoding.DefaultCap(), &buf).Encode(rt.sample); err == nil {
			c = append(c, append([]byte{}, buf.Bytes()...))
		}
		add(&target{entry: "reflect-decoder", sub: rt.name, binary: true, corpus: items(rt.name, c...),
			run: func(in []byte) outcome {
				p := reflect.New(rt.typ)
				if err := encoding.NewDecoder(encoding.DefaultCap(), bytes.NewReader(in)).Decode(p.Interface()); err != nil {
					return res(err)
				}
				return used(func() string { return useReflected(p, "decoded") })
			}})
		// the same decoder with a destination that already holds data (a
		// variable decoded into before: maps populated, slices allocated) -
		// code paths that replace or grow existing containers
		if len(c) == 1 {
			sampleEnc := c[0]
			add(&target{entry: "reflect-decoder", sub: rt.name + "/populated-destination", binary: true, corpus: items(rt.name, c...),
				run: func(in []byte) outcome {
					p := reflect.New(rt.typ)
					if err := encoding.NewDecoder(encoding.DefaultCap(), bytes.NewReader(sampleEnc)).Decode(p.Interface()); err != nil {
						return res(nil) // the sample itself is refused: the fresh-destination target reports it
					}
					if err := encoding.NewDecoder(encoding.DefaultCap(), bytes.NewReader(in)).Decode(p.Interface()); err != nil {
						return res(err)
					}
					return used(func() string { return useReflected(p, "decoded twice") })
				}})
		}
	}
	// 8. generated argument decoders through Receive
	objCorpus := map[uint32][][]byte{
		0:  {n().u32(1).u32(86).u64(5).b()},
		1:  {n().u32(1).u32(86).u64(5).b()},
		2:  {n().u32(1).b()},
		3:  {n().u32(1).b()},
		5:  {n().val(value.String("p")).b()},
		6:  {n().val(value.String("p")).val(value.Int(1)).b(), n().val(value.Uint(102)).val(value.String("x")).b()},
		7:  {{}},
		8:  {n().u32(1).u32(2).u64(3).str("(i)").b()},
		80: {{}},
		81: {{1}},
		82: {{}},
		83: {{}},
		84: {{}},
		85: {{1}},
		4:  nil,
		86: nil,
	}
	var objActions []uint32
	for a := range objCorpus {
		objActions = append(objActions, a)
	}
	sort.Slice(objActions, func(i, j int) bool { return objActions[i] < objActions[j] })
	for _, a := range objActions {
		a := a
		add(&target{entry: "stub:Object", sub: fmt.Sprint(a), binary: true, corpus: items(fmt.Sprintf("obj%d", a), objCorpus[a]...),
			run: func(in []byte) outcome {
				// a fresh object per case: no state leaks from case to case
				actor := bus.NewBasicObject(nopActor{}, smallMeta, func(string, []byte) error { return nil })
				actor.Activate(activation())
				return receive(actor, a, in)
			}})
	}
	sdCorpus := map[uint32][][]byte{
		100: {n().str("a").b()},
		101: {{}},
		102: infoEnc,
		103: {n().u32(1).b()},
		104: {n().u32(1).b()},
		105: infoEnc,
		108: {{}},
		106: nil,
	}
	var sdActions []uint32
	for a := range sdCorpus {
		sdActions = append(sdActions, a)
	}
	sort.Slice(sdActions, func(i, j int) bool { return sdActions[i] < sdActions[j] })
	for _, a := range sdActions {
		a := a
		add(&target{entry: "stub:ServiceDirectory", sub: fmt.Sprint(a), binary: true, corpus: items(fmt.Sprintf("sd%d", a), sdCorpus[a]...),
			run: func(in []byte) outcome {
				actor := directory.ServiceDirectoryObject(fakeDirectory{})
				actor.Activate(activation())
				return receive(actor, a, in)
			}})
	}
	// bus.ServiceZeroObject wraps its stub in NewBasicObject, whose Receive
	// dispatches action 8 to RegisterEventWithSignature before the wrapped
	// actor is consulted: stubServiceZero.Authenticate is not reachable from
	// outside the package; the server uses ServiceAuthenticate instead.
	add(&target{entry: "stub:ServiceAuthenticate", sub: "8", binary: true, corpus: items("auth", capEnc...), extra: capExtra,
		run: func(in []byte) outcome {
			return receive(bus.ServiceAuthenticate(bus.Yes{}), 8, in)
		}})
	// 9. text parsers
	add(&target{entry: "signature.Parse",
		corpus: items("sig", []byte("i"), []byte("[s]"), []byte("{s(iI)<P,a,b>}"), []byte(signature.MetaObjectSignature)),
		run: func(in []byte) outcome {
			t, err := signature.Parse(string(in))
			if err != nil {
				return res(err)
			}
			return used(func() string { return useType(t) })
		}})
	add(&target{entry: "idl.ParsePackage", corpus: items("idl", []byte(sampleIDL)),
		run: func(in []byte) outcome {
			if len(in) > useStepMaxInput {
				// scale families: the statement bounds the PARSERS by the input
				// length; the use step (printing, registering and generating from
				// the result: code generators, not parsers) is for small inputs
				phaseHook("ParsePackage")
				if _, err := idl.ParsePackage(in); err != nil {
					return res(err)
				}
				phaseHook("ParseIDL")
				_, err := idl.ParseIDL(bytes.NewReader(in))
				return res(err)
			}
			o := runParsePackage(in)
			if !o.accepted || o.unusable != "" {
				return o
			}
			// the public wrapper additionally converts interfaces to meta-objects
			return runParseIDL(in)
		}})
	ts = append(ts, recursiveTargets()...)
	return ts
}
