package main

import "testing"

// The two parsers of the race side-pass on the texts that the Go 1.23 race
// detector and runtime really print (captured from a tree with an
// unsynchronised package-level map in signature.MakeReader).

const cannedRace = `==================
WARNING: DATA RACE
Write at 0x00c00010e960 by goroutine 9:
  runtime.mapassign_faststr()
      /usr/lib/go-1.23/src/runtime/map_faststr.go:223 +0x0
  github.com/lugu/qiloop/meta/signature.MakeReader()
      /repo/meta/signature/reader.go:144 +0xc4
  github.com/lugu/qiloop/type/value.newOpaque()
      /repo/type/value/value.go:112 +0xc7
  main.raceDriverMain.func1.2()
      /verif/checks/c07/race.go:97 +0xbb

Previous write at 0x00c00010e960 by goroutine 8:
  runtime.mapassign_faststr()
      /usr/lib/go-1.23/src/runtime/map_faststr.go:223 +0x0
  github.com/lugu/qiloop/meta/signature.MakeReader()
      /repo/meta/signature/reader.go:144 +0xc4

Goroutine 9 (running) created at:
  main.raceDriverMain.func1()
      /verif/checks/c07/race.go:97 +0x486
==================
==================
WARNING: DATA RACE
Read at 0x00c000012345 by goroutine 9:
  main.raceDriverMain.func1.2()
      /verif/checks/c07/race.go:97 +0xbb

Previous write at 0x00c000012345 by goroutine 8:
  main.raceDriverMain.func1.1()
      /verif/checks/c07/race.go:96 +0xbb

Goroutine 9 (running) created at:
  github.com/lugu/qiloop/bus.NotAnAccess()
      /repo/bus/x.go:1 +0x1
==================
==================
WARNING: DATA RACE
Read at 0x00c000055555 by goroutine 9:
  main.helper()
      /verif/checks/c07/stream.go:1 +0x1

Previous write at 0x00c000055555 by goroutine 8:
  github.com/lugu/qiloop/type/value.(*OpaqueValue).Write()
      /repo/type/value/value.go:99 +0x1
==================
Found 3 data race(s)
`

const cannedFatal = `fatal error: concurrent map writes

goroutine 920 [running]:
github.com/lugu/qiloop/meta/signature.MakeReader({0xc000110b40, 0x1a})
	/repo/meta/signature/reader.go:144 +0x8f
github.com/lugu/qiloop/type/value.newOpaque({0xc000110b40, 0x1a}, {0x7277c0, 0xc0000ea300})
	/repo/type/value/value.go:112 +0x65
main.raceDriverMain.func1.1()
	/verif/checks/c07/race.go:96 +0x69
created by main.raceDriverMain.func1 in goroutine 1
	/verif/checks/c07/race.go:96 +0x1a6

goroutine 1 [semacquire]:
sync.runtime_Semacquire(0xc0001463c0?)
	/usr/lib/go-1.23/src/runtime/sema.go:71 +0x25
`

func TestParseRaceReports(t *testing.T) {
	old := repoDir
	repoDir = "/repo/"
	defer func() { repoDir = old }()
	sites, harness := parseRaceReports(cannedRace)
	if len(sites) != 2 || sites[0].site != "signature.MakeReader" || sites[1].site != "value.OpaqueValue.Write" {
		t.Fatalf("sites = %+v", sites)
	}
	if len(harness) != 1 {
		t.Fatalf("a report whose access stacks have no repository frame must be set apart (a 'created at' stack is not an access): %d", len(harness))
	}
	if s, h := parseRaceReports("PASS\n"); len(s)+len(h) != 0 {
		t.Fatal("no report expected")
	}
}

func TestFatalMapSite(t *testing.T) {
	old := repoDir
	repoDir = "/repo/"
	defer func() { repoDir = old }()
	s, ok := fatalMapSite(cannedFatal)
	if !ok || s.site != "signature.MakeReader" || s.kind != "fatal error: concurrent map writes" {
		t.Fatalf("%v %+v", ok, s)
	}
	if _, ok := fatalMapSite("fatal error: all goroutines are asleep - deadlock!\n"); ok {
		t.Fatal("only the concurrent map faults are races")
	}
}
