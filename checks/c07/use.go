package main

// USE step of the oracle: "a decoder returns either a usable value or an
// error". Whenever an entry point ACCEPTS an input (nil error), the returned
// value is used the way the repository's consumers of that entry point use
// it; the use must not panic, abort or hang (same isolation, same budgets as
// the decoding itself) and the structural requirements below must hold:
//
//   - a returned map accepts a store (bus.authenticateCall stores the state
//     entry into the decoded capability map, object.FullMetaObject and the
//     generators iterate and copy the three maps of a meta-object);
//   - a returned interface value (value.Value, signature.Type, signature.
//     TypeReader) or pointer is not nil, also not a typed nil pointer;
//   - a returned value.Value answers Signature() and Write();
//   - a returned signature.Type prints (Signature, SignatureIDL, TypeName,
//     Marshal/Unmarshal statements), registers to a type set, and answers
//     Reader() and Type();
//   - a returned message, meta-object, object reference, service info or
//     capability map can be written back with the repository's writer.
//
// A nil SLICE is not a defect (len, range and append treat it as empty).
// A violation of a requirement is reported as <entry>/unusable-result/<what>;
// a panic of the use step as <entry>/unusable-result/panic:<site>:<message>;
// a fatal error or a watchdog expiry during the use step carries the phase
// in its fingerprint (<entry>:use/...).

import (
	"bytes"
	"reflect"

	"github.com/lugu/qiloop/bus"
	"github.com/lugu/qiloop/bus/directory"
	"github.com/lugu/qiloop/bus/net"
	"github.com/lugu/qiloop/meta/idl"
	"github.com/lugu/qiloop/meta/signature"
	"github.com/lugu/qiloop/type/object"
	"github.com/lugu/qiloop/type/value"
)

// phaseHook is set by the worker: it publishes the phase the running case
// has entered (the parent needs it when the case kills the worker).
var phaseHook = func(string) {}

// used runs the use step f of an accepted case; f returns "" or the
// requirement that does not hold.
func used(f func() string) outcome {
	phaseHook("use")
	return outcome{accepted: true, unusable: f()}
}

// isNil: nil interface, or an interface holding a nil pointer / map / func.
func isNil(x interface{}) bool {
	if x == nil {
		return true
	}
	v := reflect.ValueOf(x)
	switch v.Kind() {
	case reflect.Ptr, reflect.Map, reflect.Func, reflect.Chan, reflect.Interface:
		return v.IsNil()
	}
	return false
}

// sink for the writers: counts, keeps nothing.
type countWriter struct{ n int }

func (c *countWriter) Write(p []byte) (int, error) { c.n += len(p); return len(p), nil }

func first(problems ...string) string {
	for _, p := range problems {
		if p != "" {
			return p
		}
	}
	return ""
}

func useValue(v value.Value, where string) string {
	if isNil(v) {
		return "nil-value:" + where
	}
	_ = v.Signature()
	var w countWriter
	if err := v.Write(&w); err != nil {
		return "value-cannot-be-written:" + where
	}
	return ""
}

func useMessage(m *net.Message) string {
	_ = m.Header.String()
	var w countWriter
	if err := m.Write(&w); err != nil {
		return "message-cannot-be-written"
	}
	if w.n != net.HeaderSize+len(m.Payload) {
		return "message-written-with-another-length"
	}
	return ""
}

func useMetaObject(m *object.MetaObject, where string) string {
	switch {
	case m.Methods == nil:
		return "nil-map:" + where + ".Methods"
	case m.Signals == nil:
		return "nil-map:" + where + ".Signals"
	case m.Properties == nil:
		return "nil-map:" + where + ".Properties"
	}
	// the consumers: lookups by name and id, the sorted walk of the
	// generators, the merge with the generic object, the writer; a store
	// (idl.InterfaceType.MetaObject and object.FullMetaObject fill such maps)
	for id, mm := range m.Methods {
		m.MethodID(mm.Name, mm.ParametersSignature)
		m.ActionName(id)
		for range mm.Parameters {
		}
	}
	for _, s := range m.Signals {
		m.SignalID(s.Name, s.Signature)
	}
	for id, p := range m.Properties {
		m.PropertyID(p.Name, p.Signature)
		m.PropertyName(id)
	}
	m.ForEachMethodAndSignal(
		func(object.MetaMethod, string) error { return nil },
		func(object.MetaSignal, string) error { return nil },
		func(object.MetaProperty, string) error { return nil })
	full := object.FullMetaObject(*m)
	if len(full.Methods) < len(m.Methods) {
		return "full-meta-object-lost-methods:" + where
	}
	var w countWriter
	if err := object.WriteMetaObject(*m, &w); err != nil {
		return "meta-object-cannot-be-written:" + where
	}
	const probe = 0xfffffff0
	m.Methods[probe] = object.MetaMethod{Uid: probe}
	m.Signals[probe] = object.MetaSignal{Uid: probe}
	m.Properties[probe] = object.MetaProperty{Uid: probe}
	delete(m.Methods, probe)
	delete(m.Signals, probe)
	delete(m.Properties, probe)
	return ""
}

func useObjectReference(r *object.ObjectReference) string {
	if p := useMetaObject(&r.MetaObject, "ObjectReference.MetaObject"); p != "" {
		return p
	}
	var w countWriter
	if err := object.WriteObjectReference(*r, &w); err != nil {
		return "object-reference-cannot-be-written"
	}
	return ""
}

func useServiceInfo(i *directory.ServiceInfo) string {
	n := 0
	for _, e := range i.Endpoints {
		n += len(e)
	}
	i.Endpoints = append(i.Endpoints, "tcp://h:1")
	i.Endpoints = i.Endpoints[:len(i.Endpoints)-1]
	var w countWriter
	if err := directory.WriteServiceInfo(*i, &w); err != nil {
		return "service-info-cannot-be-written"
	}
	return ""
}

func useCapabilityMap(m bus.CapabilityMap) string {
	if m == nil {
		return "nil-map:CapabilityMap"
	}
	for k, v := range m {
		_ = k
		if p := useValue(v, "CapabilityMap-entry"); p != "" {
			return p
		}
	}
	m.Authenticated()
	m.MetaObjectCache()
	m.ObjectPtrUID()
	m.RemoteCancelableCalls()
	var w countWriter
	if err := bus.WriteCapabilityMap(m, &w); err != nil {
		return "capability-map-cannot-be-written"
	}
	// what bus.authenticateCall does with the map its peer sent
	m.SetAuthenticated()
	if !m.Authenticated() {
		return "store-into-capability-map-lost"
	}
	return ""
}

var valueType = reflect.TypeOf((*value.Value)(nil)).Elem()

// useReflected walks a value filled by the reflection decoder.
func useReflected(v reflect.Value, where string) string {
	switch v.Kind() {
	case reflect.Ptr:
		if v.IsNil() {
			return "nil-pointer:" + where
		}
		return useReflected(v.Elem(), where)
	case reflect.Interface:
		if v.IsNil() {
			return "nil-value:" + where
		}
		if v.Type() == valueType {
			return useValue(v.Interface().(value.Value), where)
		}
		return useReflected(v.Elem(), where)
	case reflect.Map:
		if v.IsNil() {
			return "nil-map:" + where
		}
		it := v.MapRange()
		for it.Next() {
			if p := first(useReflected(it.Key(), where+"-key"), useReflected(it.Value(), where+"-value")); p != "" {
				return p
			}
		}
		// a store of the zero key (and its removal when it was absent)
		k := reflect.Zero(v.Type().Key())
		old := v.MapIndex(k)
		v.SetMapIndex(k, reflect.Zero(v.Type().Elem()))
		v.SetMapIndex(k, old) // an invalid old deletes the entry
	case reflect.Slice, reflect.Array:
		for i := 0; i < v.Len(); i++ {
			if p := useReflected(v.Index(i), where+"-element"); p != "" {
				return p
			}
		}
	case reflect.Struct:
		for i := 0; i < v.NumField(); i++ {
			if p := useReflected(v.Field(i), where+"."+v.Type().Field(i).Name); p != "" {
				return p
			}
		}
	}
	return ""
}

// useReaderOutput: the bytes a signature reader returns are what
// value.Opaque wraps.
func useReaderOutput(sig string, data []byte, inputLen int) string {
	if len(data) > inputLen {
		return "reader-returned-more-bytes-than-it-was-given"
	}
	return useValue(value.Opaque(sig, data), "Opaque")
}

// printType: everything that prints a type.
func printType(t signature.Type) string {
	if isNil(t) {
		return "nil-type"
	}
	_ = t.Signature()
	_ = t.SignatureIDL()
	if isNil(t.TypeName()) {
		return "nil-type-name"
	}
	_ = signature.Print(t)
	return ""
}

// useType: a type returned by signature.Parse (consumers: MakeReader, the
// conversion of dynamic values, the proxy and stub generators).
func useType(t signature.Type) string {
	if p := printType(t); p != "" {
		return p
	}
	// the statements are fragments of a function body: built, not rendered
	if isNil(t.Marshal("a", "w")) {
		return "nil-marshal-statement"
	}
	if isNil(t.Unmarshal("r")) {
		return "nil-unmarshal-statement"
	}
	rd := t.Reader()
	if isNil(rd) {
		return "nil-reader"
	}
	rd.Read(bytes.NewReader(nil)) // may refuse, must not panic
	if isNil(t.Type()) {
		return "nil-go-type"
	}
	t.RegisterTo(signature.NewTypeSet())
	_ = t.Signature()
	return ""
}

// usePackage: a package returned by idl.ParsePackage (consumers: the proxy
// and stub generators: RegisterTo, the printed forms, the meta-object of
// every interface).
func usePackage(p *idl.PackageDeclaration) string {
	if p == nil {
		return "nil-package"
	}
	for _, t := range p.Types {
		if pr := printType(t); pr != "" {
			return pr + ":declaration"
		}
		if itf, ok := t.(*idl.InterfaceType); ok {
			m := itf.MetaObject()
			if pr := useMetaObject(&m, "InterfaceType.MetaObject"); pr != "" {
				return pr
			}
		}
	}
	set := signature.NewTypeSet()
	for _, t := range p.Types {
		t.RegisterTo(set)
	}
	for _, t := range p.Types {
		_ = t.Signature()
	}
	return ""
}

// useMetaObjects: the meta-objects returned by idl.ParseIDL; every signature
// they carry must be text the signature parser reads (they are sent to
// peers, which parse them).
func useMetaObjects(ms []object.MetaObject) string {
	for i := range ms {
		if p := useMetaObject(&ms[i], "ParseIDL-result"); p != "" {
			return p
		}
	}
	return ""
}
