package main

// The finite universes of DESIGN.md 1.1 as indexable, deterministic case
// lists. Parent and worker build the same table; the worker checks a hash.

import (
	"crypto/sha256"
	"encoding/binary"
	"encoding/hex"
	"fmt"
	"os"
	"path/filepath"
	"sort"
	"strings"
	"sync/atomic"
	"verif/internal/report"

	"github.com/lugu/qiloop/type/basic"
)

var byteAlphabet = []byte{0x00, 0x01, 0x02, 0x04, 0x7f, 0x80, 0xff}

// order: the values whose handling is cheap in any decoder first; the last
// five make count-driven loops long. Mut groups are enumerated value-major
// (all offsets with value 0, then all offsets with value 1, ...), one value
// per chunk, so the cheap blocks of every group run before any slow block.
var mutValues = []uint32{0, 1, 4096, 4097, 10 << 20, 10<<20 + 1, 0x80000000, 0xffffffff, 0x7fffffff}

const mutCheap = 4 // number of leading cheap values

var sigAlphabet = []string{"i", "s", "m", "v", "[", "]", "{", "}", "(", ")", "<", ">", ",", "A", "b", "1"}

var idlTokens = []string{
	"package", "p", "interface", "I", "struct", "S", "enum", "E", "end", "fn", "sig", "prop", "f",
	"(", ")", ":", ",", "->", "int32", "str", "any", "Vec<", "Map<", "Tuple<", ">", "=", "1", "// c\n", "\n",
}

type group struct {
	id        int
	t         *target
	kind      string // corpus bytes mut1 mut2 cut family text tok recursive
	label     string
	n         int
	input     func(i int) []byte
	monotone  bool // inputs grow along one axis: stop after the first failure
	everyCase bool // never abandoned: every case is run, whatever the number of failures (recursive.go)
	// caseClass, when set, names the class of input i: the third fingerprint
	// component of a case that kills its worker or runs out of time
	caseClass func(i int, phase string) string
	describe  func(i int) string // optional: what case i is, for the report
	chunk     int
	priority  int
	abandoned atomic.Bool
	slow      atomic.Bool // produced a failure or a case slower than 300 ms: its remaining chunks run last
}

func (g *group) name() string {
	s := g.t.entry
	if g.t.sub != "" {
		s += "[" + g.t.sub + "]"
	}
	s += "/" + g.kind
	if g.label != "" {
		s += ":" + g.label
	}
	return s
}

// words(L, k): all sequences of length <= L over k symbols, ordered by length
// then lexicographically.
func wordsCount(L, k int) int {
	n, p := 0, 1
	for l := 0; l <= L; l++ {
		n += p
		p *= k
	}
	return n
}

func wordAt(i, L, k int) []int {
	p := 1
	for l := 0; l <= L; l++ {
		if i < p {
			w := make([]int, l)
			for j := l - 1; j >= 0; j-- {
				w[j] = i % k
				i /= k
			}
			return w
		}
		i -= p
		p *= k
	}
	panic("wordAt: index out of range")
}

func mutate(e []byte, off int, v uint32) []byte {
	out := append([]byte{}, e...)
	binary.LittleEndian.PutUint32(out[off:], v)
	return out
}

func nest(open, mid, close string) func(n int) string {
	return func(n int) string { return strings.Repeat(open, n) + mid + strings.Repeat(close, n) }
}

var sigFamilies = []struct {
	name string
	f    func(n int) string
}{
	{"open-paren", nest("(", "", "")},
	{"nested-parens", nest("(", "i", ")")},
	{"open-bracket", nest("[", "", "")},
	{"nested-brackets", nest("[", "i", "]")},
	{"open-brace", nest("{", "", "")},
	{"nested-braces", nest("{i", "i", "}")},
	{"nested-list-of-tuple", nest("[(", "", ")]")},
	{"nested-struct", nest("(", "i", ")<A,a>")},
	{"wide-tuple", func(n int) string { return "(" + strings.Repeat("i", n) + ")" }},
	{"wide-struct", func(n int) string {
		names := make([]string, n)
		for i := range names {
			names[i] = fmt.Sprintf("f%d", i)
		}
		return "(" + strings.Repeat("s", n) + ")<S," + strings.Join(names, ",") + ">"
	}},
}

func idlWrap(typ string) string {
	return "package p\ninterface I\n\tfn f(a: " + typ + ")\nend\n"
}

var idlFamilies = []struct {
	name string
	f    func(n int) string
}{
	{"nested-Vec", func(n int) string { return idlWrap(nest("Vec<", "int32", ">")(n)) }},
	{"open-Vec", func(n int) string { return idlWrap(nest("Vec<", "", "")(n)) }},
	{"nested-Map", func(n int) string { return idlWrap(nest("Map<str,", "int32", ">")(n)) }},
	{"nested-Map-key", func(n int) string { return idlWrap(nest("Map<", "int32", ",str>")(n)) }},
	{"nested-Tuple", func(n int) string { return idlWrap(nest("Tuple<", "int32", ">")(n)) }},
	{"open-Tuple", func(n int) string { return idlWrap(nest("Tuple<", "", "")(n)) }},
	{"wide-params", func(n int) string {
		ps := make([]string, n)
		for i := range ps {
			ps[i] = fmt.Sprintf("a%d: int32", i)
		}
		return "package p\ninterface I\n\tfn f(" + strings.Join(ps, ", ") + ")\nend\n"
	}},
	{"many-methods", func(n int) string {
		s := "package p\ninterface I\n"
		for i := 0; i < n; i++ {
			s += fmt.Sprintf("\tfn f%d(a: Vec<str>) -> int32 // c\n", i)
		}
		return s + "end\n"
	}},
	{"many-structs", func(n int) string {
		s := "package p\n"
		for i := 0; i < n; i++ {
			ref := "int32"
			if i > 0 {
				ref = fmt.Sprintf("S%d", i-1)
			}
			s += fmt.Sprintf("struct S%d\n\ta: %s\nend\n", i, ref)
		}
		return s
	}},
	{"struct-forward-refs", func(n int) string {
		s := "package p\n"
		for i := 0; i < n; i++ {
			s += fmt.Sprintf("struct S%d\n\ta: Vec<S%d>\nend\n", i, i+1)
		}
		return s + fmt.Sprintf("struct S%d\n\ta: int32\nend\ninterface I\n\tfn f(a: S0)\nend\n", n)
	}},
	{"many-comments", func(n int) string { return "package p\n" + strings.Repeat("// c\n", n) + "interface I\nend\n" }},
}

const maxDepth = 64

// Scale families: the COUNT of a repeated construct taken to the tens of thousands (an
// IDL file of a few hundred kilobytes): a parser step that rescans what it has seen -
// quadratic numbering of actions, repeated scope walks - stays far below the time budget
// at 64 repetitions and far above it here (seed C07-17: automatic action ids found by
// rescanning from 100 on every action; 23 000 actions: 0.3 s before, 18 s after).
var scaleSizes = []int{1000, 8000, 30000}

var idlScaleFamilies = []struct {
	name string
	f    func(n int) string
}{
	{"scale-methods-without-uid", func(n int) string {
		var sb strings.Builder
		sb.WriteString("package p\ninterface I\n")
		for i := 0; i < n; i++ {
			fmt.Fprintf(&sb, "\tfn f%d(a: int32)\n", i)
		}
		sb.WriteString("end\n")
		return sb.String()
	}},
	{"scale-actions-mixed-uid", func(n int) string {
		var sb strings.Builder
		sb.WriteString("package p\ninterface I\n")
		for i := 0; i < n; i++ {
			switch i % 4 {
			case 0:
				fmt.Fprintf(&sb, "\tfn f%d(a: int32) //uid:%d\n", i, 200000+i)
			case 1:
				fmt.Fprintf(&sb, "\tsig s%d(a: int32)\n", i)
			case 2:
				fmt.Fprintf(&sb, "\tprop p%d(a: int32)\n", i)
			default:
				fmt.Fprintf(&sb, "\tfn g%d() -> str\n", i)
			}
		}
		sb.WriteString("end\n")
		return sb.String()
	}},
	{"scale-struct-members", func(n int) string {
		var sb strings.Builder
		sb.WriteString("package p\nstruct S\n")
		for i := 0; i < n; i++ {
			fmt.Fprintf(&sb, "\tm%d: int32\n", i)
		}
		sb.WriteString("end\n")
		return sb.String()
	}},
	{"scale-interfaces", func(n int) string {
		var sb strings.Builder
		sb.WriteString("package p\n")
		n /= 3 // three lines per interface
		for i := 0; i < n; i++ {
			fmt.Fprintf(&sb, "interface I%d\n\tfn f(a: int32)\nend\n", i)
		}
		return sb.String()
	}},
	{"scale-enum-constants", func(n int) string {
		var sb strings.Builder
		sb.WriteString("package p\nenum E\n")
		for i := 0; i < n; i++ {
			fmt.Fprintf(&sb, "\tc%d = %d\n", i, i)
		}
		sb.WriteString("end\n")
		return sb.String()
	}},
}

func lenPrefixed(s string) []byte {
	e := n()
	basic.WriteString(s, e)
	return e.b()
}

func buildGroups(ts []*target, tier string) []*group {
	var gs []*group
	add := func(g *group) {
		if g.n == 0 {
			return
		}
		g.id = len(gs)
		if g.chunk == 0 {
			g.chunk = 4000
		}
		gs = append(gs, g)
	}
	L := 5
	sigL, tokL := 4, 3
	if tier == "thorough" {
		L, sigL, tokL = 6, 5, 4
	}
	byTarget := map[string]*target{}
	for _, t := range ts {
		t := t
		if t.aux {
			continue
		}
		byTarget[t.entry] = t
		// corpus self-check: every item must be accepted
		if len(t.corpus) > 0 {
			add(&group{t: t, kind: "corpus", n: len(t.corpus), input: func(i int) []byte { return t.corpus[i].data }, priority: 1})
		}
		if len(t.extra) > 0 {
			add(&group{t: t, kind: "family", label: "hand-built", n: len(t.extra), chunk: len(t.extra), priority: 1,
				input: func(i int) []byte { return t.extra[i] }})
		}
		if t.binary && !t.noByte {
			k := len(byteAlphabet)
			add(&group{t: t, kind: "bytes", label: fmt.Sprintf("L%d", L), n: wordsCount(L, k), priority: 3,
				input: func(i int) []byte {
					w := wordAt(i, L, k)
					b := make([]byte, len(w))
					for j, d := range w {
						b[j] = byteAlphabet[d]
					}
					return b
				}})
		}
		for _, it := range t.corpus {
			it := it
			if len(it.data) >= 4 && t.binary {
				offs := len(it.data) - 3
				add(&group{t: t, kind: "mut1", label: it.label, n: offs * len(mutValues), priority: 2, chunk: offs,
					input: func(i int) []byte {
						return mutate(it.data, i%offs, mutValues[i/offs])
					}})
			}
			add(&group{t: t, kind: "cut", label: it.label, n: len(it.data), priority: 2,
				input: func(i int) []byte { return it.data[:i] }})
		}
		if tier == "thorough" && t.binary {
			for _, it := range t.corpus {
				it := it
				if len(it.data) < 8 || len(it.data) > 48 {
					continue
				}
				type pr struct{ a, b int }
				var pairs []pr
				for a := 0; a+4 <= len(it.data); a++ {
					for b := a + 4; b+4 <= len(it.data); b++ {
						pairs = append(pairs, pr{a, b})
					}
				}
				nv := len(mutValues)
				add(&group{t: t, kind: "mut2", label: it.label, n: len(pairs) * nv * nv, priority: 5,
					input: func(i int) []byte {
						p := pairs[i/(nv*nv)]
						r := i % (nv * nv)
						return mutate(mutate(it.data, p.a, mutValues[r/nv]), p.b, mutValues[r%nv])
					}})
			}
		}
	}
	// text universes
	if t := byTarget["signature.Parse"]; t != nil {
		k := len(sigAlphabet)
		add(&group{t: t, kind: "text", label: fmt.Sprintf("L%d", sigL), n: wordsCount(sigL, k), priority: 4, chunk: 20000,
			input: func(i int) []byte {
				var sb strings.Builder
				for _, d := range wordAt(i, sigL, k) {
					sb.WriteString(sigAlphabet[d])
				}
				return []byte(sb.String())
			}})
		for _, f := range sigFamilies {
			f := f
			add(&group{t: t, kind: "family", label: f.name, n: maxDepth, monotone: true, chunk: maxDepth, priority: 0,
				input: func(i int) []byte { return []byte(f.f(i + 1)) }})
		}
	}
	if t := byTarget["value.NewValue"]; t != nil {
		// the same signature families reached from the wire: a dynamic value
		// whose signature is the nested text, followed by no data
		for _, f := range sigFamilies {
			f := f
			add(&group{t: t, kind: "family", label: "sig:" + f.name, n: maxDepth, monotone: true, chunk: maxDepth, priority: 0,
				input: func(i int) []byte { return lenPrefixed(f.f(i + 1)) }})
		}
		// nested dynamic values: "m" "m" ... "i" 0
		add(&group{t: t, kind: "family", label: "nested-m", n: maxDepth, monotone: true, chunk: maxDepth, priority: 0,
			input: func(i int) []byte {
				e := n()
				for j := 0; j <= i; j++ {
					e.str("m")
				}
				return e.str("i").u32(7).b()
			}})
		// nested lists of values: "[m]" 1 "[m]" 1 ...
		add(&group{t: t, kind: "family", label: "nested-list", n: maxDepth, monotone: true, chunk: maxDepth, priority: 0,
			input: func(i int) []byte {
				e := n()
				for j := 0; j <= i; j++ {
					e.str("[m]").u32(1)
				}
				return e.str("i").u32(7).b()
			}})
	}
	if t := byTarget["idl.ParsePackage"]; t != nil {
		k := len(idlTokens)
		add(&group{t: t, kind: "tok", label: fmt.Sprintf("L%d", tokL), n: wordsCount(tokL, k), priority: 4, chunk: 2000,
			input: func(i int) []byte {
				w := wordAt(i, tokL, k)
				parts := make([]string, len(w))
				for j, d := range w {
					parts[j] = idlTokens[d]
				}
				return []byte(strings.Join(parts, " "))
			}})
		for _, f := range idlFamilies {
			f := f
			add(&group{t: t, kind: "family", label: f.name, n: maxDepth, monotone: true, chunk: maxDepth, priority: 0,
				input: func(i int) []byte { return []byte(f.f(i + 1)) }})
		}
		for _, f := range idlScaleFamilies {
			f := f
			add(&group{t: t, kind: "family", label: f.name, n: len(scaleSizes), monotone: true, chunk: len(scaleSizes), priority: 0,
				input: func(i int) []byte { return []byte(f.f(scaleSizes[i])) }})
		}
		if tier == "thorough" {
			// every prefix of the repository's own IDL files (read-only)
			files, _ := filepath.Glob(report.RepoDir() + "/bus/*.idl")
			more, _ := filepath.Glob(report.RepoDir() + "/bus/directory/*.idl")
			files = append(files, more...)
			sort.Strings(files)
			for _, f := range files {
				data, err := os.ReadFile(f)
				if err != nil || len(data) == 0 || len(data) > 16<<10 {
					continue
				}
				add(&group{t: t, kind: "cut", label: filepath.Base(f), n: len(data), priority: 5, chunk: 200,
					input: func(i int) []byte { return data[:i] }})
			}
		}
	}
	for _, g := range recursiveGroups(ts, tier) {
		add(g)
	}
	return gs
}

// tableHash identifies the case table (parent and workers must agree).
func tableHash(gs []*group) string {
	h := sha256.New()
	for _, g := range gs {
		fmt.Fprintf(h, "%d|%s|%d|", g.id, g.name(), g.n)
		for _, i := range []int{0, g.n / 2, g.n - 1} {
			h.Write(g.input(i))
			h.Write([]byte{0xfe})
		}
	}
	return hex.EncodeToString(h.Sum(nil))[:16]
}
