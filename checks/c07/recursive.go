package main

// IDL-text family "recursive declarations" (kind "recursive"): structures
// that refer to themselves, for idl.ParsePackage and for idl.ParseIDL, each
// followed by its use step (use.go).
//
// The family is the full product of three small dimensions (duplicates of
// the same text removed):
//
//	shape    how the structures refer to each other: a self reference (direct,
//	         through Vec, Map value, Map key, Tuple, nested containers, in the
//	         second member), mutual recursion of two structures (direct,
//	         through containers, declared in reverse order), of three
//	         structures (direct, through containers), a structure that leads
//	         into a cycle it is not part of; and, as controls, structures that
//	         are NOT recursive (plain, forward reference, shared sub-structure,
//	         unresolved reference);
//	declared once; the whole group twice in a row; the first structure again
//	         at the end of the text, identical; the first structure again at
//	         the end of the text with other members;
//	used     by no interface at all; next to an interface that does not
//	         mention them; as method parameter, method result, signal
//	         parameter, property, inside a container parameter, through the
//	         last structure of the group, by an interface declared BEFORE the
//	         structures.
//
// A runaway recursion is a fatal error of the Go runtime (stack overflow): the
// case kills its worker. Workers run with a 16 MiB stack limit (worker.go), the
// parent attributes the death to the case and to the phase it had entered,
// starts a new worker and goes on: every case of the family is run, whatever
// the number of failures. The fingerprint of such a death is
//
//	<entry point>[:use]/fatal:stack-overflow/<class of the input>
//
// where the class is [non-]recursive-struct[-declared-twice][-used-by-interface]
// for the parsing phase and [non-]recursive-struct for the use step (which
// only looks at the declarations).

import (
	"fmt"
	"strings"
)

type idlStruct struct {
	name    string
	members []string // "name: type"
}

func (s idlStruct) text() string {
	return "struct " + s.name + "\n\t" + strings.Join(s.members, "\n\t") + "\nend\n"
}

type recShape struct {
	name      string
	structs   []idlStruct
	recursive bool
}

func st(name string, members ...string) idlStruct { return idlStruct{name, members} }

var recShapes = []recShape{
	{"self-direct", []idlStruct{st("A", "a: A")}, true},
	{"self-Vec", []idlStruct{st("A", "a: Vec<A>")}, true},
	{"self-Map-value", []idlStruct{st("A", "a: Map<str,A>")}, true},
	{"self-Map-key", []idlStruct{st("A", "a: Map<A,str>")}, true},
	{"self-Tuple", []idlStruct{st("A", "a: Tuple<int32,A>")}, true},
	{"self-nested-containers", []idlStruct{st("A", "a: Vec<Map<str,Tuple<A,int32>>>")}, true},
	{"self-second-member", []idlStruct{st("A", "x: int32", "a: Vec<A>")}, true},
	{"mutual-2", []idlStruct{st("A", "b: B"), st("B", "a: A")}, true},
	{"mutual-2-containers", []idlStruct{st("A", "b: Vec<B>"), st("B", "x: str", "a: Map<str,A>")}, true},
	{"mutual-2-reverse-order", []idlStruct{st("B", "a: A"), st("A", "b: B")}, true},
	{"mutual-3", []idlStruct{st("A", "b: B"), st("B", "c: C"), st("C", "a: A")}, true},
	{"mutual-3-containers", []idlStruct{st("A", "b: Vec<B>"), st("B", "c: Map<str,C>"), st("C", "a: Tuple<A,int32>")}, true},
	{"leads-into-cycle", []idlStruct{st("A", "b: B"), st("B", "b: Vec<B>")}, true},
	// controls: no cycle
	{"plain", []idlStruct{st("A", "a: int32")}, false},
	{"forward-reference", []idlStruct{st("A", "b: Vec<B>"), st("B", "x: int32")}, false},
	{"shared-sub-structure", []idlStruct{st("A", "b: B", "c: C"), st("B", "c: Vec<C>"), st("C", "x: str")}, false},
	{"unresolved-reference", []idlStruct{st("A", "a: Vec<Zzz>")}, false},
}

var recDeclared = []string{"once", "twice-in-a-row", "first-again-at-the-end", "first-again-with-other-members"}

type recUse struct {
	name string
	itf  func(first, last string) string // "" = no interface
	used bool
	head bool // the interface comes before the structures
}

func itf(action string) string { return "interface I\n\t" + action + "\nend\n" }

var recUses = []recUse{
	{"no-interface", func(string, string) string { return "" }, false, false},
	{"interface-without-mention", func(string, string) string { return itf("fn g(x: int32) -> str") }, false, false},
	{"method-parameter", func(f, _ string) string { return itf("fn f(x: " + f + ")") }, true, false},
	{"method-result", func(f, _ string) string { return itf("fn f() -> " + f) }, true, false},
	{"signal-parameter", func(f, _ string) string { return itf("sig s(x: " + f + ")") }, true, false},
	{"property", func(f, _ string) string { return itf("prop p(x: " + f + ")") }, true, false},
	{"container-parameter", func(f, _ string) string { return itf("fn f(x: Map<str,Vec<" + f + ">>)") }, true, false},
	{"last-structure", func(_, l string) string { return itf("fn f(x: " + l + ") -> int32") }, true, false},
	{"interface-first", func(f, _ string) string { return itf("fn f(x: " + f + ")") }, true, true},
}

type recCase struct {
	label     string
	use       string
	text      string
	recursive bool
	twice     bool
	used      bool
}

// parseClass / useClass: the classes of the input for the two phases.
func (c recCase) parseClass() string {
	s := "recursive-struct"
	if !c.recursive {
		s = "non-recursive-struct"
	}
	if c.twice {
		s += "-declared-twice"
	}
	if c.used {
		s += "-used-by-interface"
	}
	return s
}

func (c recCase) useClass() string {
	if !c.recursive {
		return "non-recursive-struct"
	}
	return "recursive-struct"
}

func recursiveCases() []recCase {
	var out []recCase
	seen := map[string]bool{}
	for _, sh := range recShapes {
		for _, d := range recDeclared {
			for _, u := range recUses {
				var decl strings.Builder
				for _, s := range sh.structs {
					decl.WriteString(s.text())
				}
				if d == "twice-in-a-row" {
					for _, s := range sh.structs {
						decl.WriteString(s.text())
					}
				}
				first, last := sh.structs[0], sh.structs[len(sh.structs)-1]
				// the names an interface refers to: A is always the structure
				// the shape is about
				tail := ""
				switch d {
				case "first-again-at-the-end":
					tail = first.text()
				case "first-again-with-other-members":
					tail = st(first.name, "other: int32", "more: str").text()
				}
				it := u.itf("A", last.name)
				text := "package p\n"
				if u.head {
					text += it + decl.String() + tail
				} else {
					text += decl.String() + it + tail
				}
				if seen[text] {
					continue
				}
				seen[text] = true
				out = append(out, recCase{
					label:     fmt.Sprintf("%s/%s/%s", sh.name, d, u.name),
					use:       u.name,
					text:      text,
					recursive: sh.recursive,
					twice:     d != "once",
					used:      u.used,
				})
			}
		}
	}
	return out
}

// recursiveTargets: the two entry points on their own (the generic target
// idl.ParsePackage calls one after the other, so a death in the first hides
// the second).
func recursiveTargets() []*target {
	return []*target{
		{entry: "idl.ParsePackage", sub: "alone", aux: true, run: runParsePackage},
		{entry: "idl.ParseIDL", sub: "alone", aux: true, run: runParseIDL},
	}
}

func recursiveGroups(ts []*target, tier string) []*group {
	all := recursiveCases()
	var gs []*group
	for _, t := range ts {
		t := t
		if !t.aux {
			continue
		}
		cases := all
		if tier != "thorough" && t.entry == "idl.ParsePackage" {
			// quick tier: ParsePackage does not look into the actions of an
			// interface (type references are resolved later), so of the nine
			// "used" variants only the four that differ for it are kept: no
			// interface, an unrelated one, one after and one before the
			// structures. idl.ParseIDL gets the full product in both tiers.
			cases = nil
			for _, c := range all {
				switch c.use {
				case "no-interface", "interface-without-mention", "method-parameter", "interface-first":
					cases = append(cases, c)
				}
			}
		}
		gs = append(gs, &group{t: t, kind: "recursive", label: "declarations", n: len(cases), priority: 1, chunk: 4, everyCase: true,
			input:    func(i int) []byte { return []byte(cases[i].text) },
			describe: func(i int) string { return cases[i].label },
			caseClass: func(i int, phase string) string {
				if strings.HasSuffix(phase, "use") {
					return cases[i].useClass()
				}
				return cases[i].parseClass()
			}})
	}
	return gs
}
