package main

// Unbiased stack samples of a spinning goroutine. runtime.Stack can only
// observe a goroutine where the scheduler managed to stop it (after an
// allocation, at a call), which makes "the function present in every sample"
// depend on where preemption lands. The CPU profiler samples the program
// counter from a timer signal at arbitrary instructions; its output (gzipped
// protobuf, profile.proto) is decoded here by hand: samples -> locations ->
// lines -> (function name, file name).

import (
	"bytes"
	"compress/gzip"
	"io"
	"runtime/pprof"
	"strings"
	"time"
)

type pbuf struct {
	b []byte
	i int
}

func (p *pbuf) varint() uint64 {
	var x uint64
	var s uint
	for p.i < len(p.b) {
		c := p.b[p.i]
		p.i++
		x |= uint64(c&0x7f) << s
		if c < 0x80 {
			break
		}
		s += 7
	}
	return x
}

// next returns the next field: number, wire type, varint value or bytes.
func (p *pbuf) next() (num int, wt int, v uint64, data []byte, ok bool) {
	if p.i >= len(p.b) {
		return 0, 0, 0, nil, false
	}
	key := p.varint()
	num, wt = int(key>>3), int(key&7)
	switch wt {
	case 0:
		v = p.varint()
	case 1:
		p.i += 8
	case 2:
		n := int(p.varint())
		if p.i+n > len(p.b) {
			n = len(p.b) - p.i
		}
		data = p.b[p.i : p.i+n]
		p.i += n
	case 5:
		p.i += 4
	default:
		return 0, 0, 0, nil, false
	}
	return num, wt, v, data, true
}

type frame struct{ fn, file string }

// decodeProfile returns, per sample, its frames innermost first.
func decodeProfile(raw []byte) [][]frame {
	zr, err := gzip.NewReader(bytes.NewReader(raw))
	if err != nil {
		return nil
	}
	data, err := io.ReadAll(zr)
	if err != nil && len(data) == 0 {
		return nil
	}
	type fun struct{ name, file uint64 }
	funcs := map[uint64]fun{}
	locs := map[uint64][]uint64{} // location id -> function ids, innermost first
	var strs []string
	var samples [][]uint64
	p := &pbuf{b: data}
	for {
		num, wt, _, d, ok := p.next()
		if !ok {
			break
		}
		if wt != 2 {
			continue
		}
		switch num {
		case 2: // Sample
			var ids []uint64
			q := &pbuf{b: d}
			for {
				n, w, v, dd, ok := q.next()
				if !ok {
					break
				}
				if n == 1 {
					if w == 2 {
						r := &pbuf{b: dd}
						for r.i < len(r.b) {
							ids = append(ids, r.varint())
						}
					} else {
						ids = append(ids, v)
					}
				}
			}
			samples = append(samples, ids)
		case 4: // Location
			var id uint64
			var fids []uint64
			q := &pbuf{b: d}
			for {
				n, w, v, dd, ok := q.next()
				if !ok {
					break
				}
				if n == 1 && w == 0 {
					id = v
				}
				if n == 4 && w == 2 { // Line
					r := &pbuf{b: dd}
					for {
						n2, w2, v2, _, ok := r.next()
						if !ok {
							break
						}
						if n2 == 1 && w2 == 0 {
							fids = append(fids, v2)
						}
					}
				}
			}
			locs[id] = fids
		case 5: // Function
			var id uint64
			var f fun
			q := &pbuf{b: d}
			for {
				n, w, v, _, ok := q.next()
				if !ok {
					break
				}
				if w != 0 {
					continue
				}
				switch n {
				case 1:
					id = v
				case 2:
					f.name = v
				case 4:
					f.file = v
				}
			}
			funcs[id] = f
		case 6:
			strs = append(strs, string(d))
		}
	}
	str := func(i uint64) string {
		if int(i) < len(strs) {
			return strs[i]
		}
		return ""
	}
	var out [][]frame
	for _, ids := range samples {
		var fs []frame
		for _, l := range ids {
			for _, fid := range locs[l] {
				f := funcs[fid]
				fs = append(fs, frame{str(f.name), str(f.file)})
			}
		}
		out = append(out, fs)
	}
	return out
}

// spinSite samples the process for d and returns the repository function that
// owns the spinning loop: the last frame of the longest common prefix
// (outermost first) of the repository frames of every sample of the case
// goroutine (the samples that contain caseFn); "deep-recursion" when the
// samples are truncated by the profiler's depth limit, or "unknown".
func spinSite(d time.Duration, caseFn string) (site string, nsamples int) {
	// sample in slices until enough samples exist (a loaded machine gives the
	// process little CPU time, and the profiler ticks on CPU time), at most
	// four times d
	var samples [][]frame
	enough := func() bool {
		n, deep := 0, 0
		for _, fs := range samples {
			for _, f := range fs {
				if f.fn == caseFn {
					n++
					break
				}
			}
			if len(fs) >= 64 {
				deep++
			}
		}
		return n >= 100 || deep >= 100
	}
	for round := 0; round < 4; round++ {
		var buf bytes.Buffer
		if err := pprof.StartCPUProfile(&buf); err != nil {
			return "unknown", 0
		}
		time.Sleep(d)
		pprof.StopCPUProfile()
		samples = append(samples, decodeProfile(buf.Bytes())...)
		if enough() {
			break
		}
	}
	const depthLimit = 64
	// the longest common prefix, from the outermost frame, of the repository
	// frames of every complete sample of the case goroutine: the frames above
	// the spinning loop are frozen, the first frame that varies is below it
	var lcp []string
	valid, deep := 0, 0
	for _, fs := range samples {
		isCase := false
		for _, f := range fs {
			if f.fn == caseFn {
				isCase = true
			}
		}
		if !isCase {
			if len(fs) >= depthLimit {
				deep++
			}
			continue
		}
		var repo []string // outermost first
		for i := len(fs) - 1; i >= 0; i-- {
			if strings.HasPrefix(fs[i].file, repoDir) {
				repo = append(repo, fs[i].fn)
			}
		}
		if valid == 0 {
			lcp = repo
		} else {
			n := 0
			for n < len(lcp) && n < len(repo) && lcp[n] == repo[n] {
				n++
			}
			lcp = lcp[:n]
		}
		valid++
	}
	// samples truncated by the profiler's depth limit are ignored as long as
	// enough complete ones exist
	if deep > valid && deep >= 30 {
		return "deep-recursion", deep
	}
	if valid >= 10 {
		if len(lcp) > 0 {
			return normSite(lcp[len(lcp)-1]), valid
		}
		return "unknown", valid
	}
	if deep >= 30 {
		return "deep-recursion", deep
	}
	return "unknown", valid
}
