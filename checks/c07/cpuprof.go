package main

// Unbiased stack samples of a spinning goroutine. runtime.Stack can only
// observe a goroutine where the scheduler managed to stop it (after an
// allocation, at a call), which makes "the function present in every sample"
// depend on where preemption lands. The CPU profiler samples the program
// counter from a timer signal at arbitrary instructions; its output (gzipped
// protobuf, profile.proto) is decoded here by hand: samples -> locations ->
// lines -> (function name, file name).

import (
	"bytes"
	"compress/gzip"
	"io"
	"runtime/pprof"
	"strings"
	"time"
)

type pbuf struct {
	b []byte
	i int
}

func (p *pbuf) varint() uint64 {
	var x uint64
	var s uint
	for p.i < len(p.b) {
		c := p.b[p.i]
		p.i++
		x |= uint64(c&0x7f) << s
		if c < 0x80 {
			break
		}
		s += 7
	}
	return x
}

// next returns the next field: number, wire type, varint value or bytes.
func (p *pbuf) next() (num int, wt int, v uint64, data []byte, ok bool) {
	if p.i >= len(p.b) {
		return 0, 0, 0, nil, false
	}
	key := p.varint()
	num, wt = int(key>>3), int(key&7)
	switch wt {
	case 0:
		v = p.varint()
	case 1:
		p.i += 8
	case 2:
		n := int(p.varint())
		if p.i+n > len(p.b) {
			n = len(p.b) - p.i
		}
		data = p.b[p.i : p.i+n]
		p.i += n
	case 5:
		p.i += 4
	default:
		return 0, 0, 0, nil, false
	}
	return num, wt, v, data, true
}

type frame struct{ fn, file string }

// decodeProfile returns, per sample, its frames innermost first.
func decodeProfile(raw []byte) [][]frame {
	zr, err := gzip.NewReader(bytes.NewReader(raw))
	if err != nil {
		return nil
	}
	data, err := io.ReadAll(zr)
	if err != nil && len(data) == 0 {
		return nil
	}
	type fun struct{ name, file uint64 }
	funcs := map[uint64]fun{}
	locs := map[uint64][]uint64{} // location id -> function ids, innermost first
	var strs []string
	var samples [][]uint64
	p := &pbuf{b: data}
	for {
		num, wt, _, d, ok := p.next()
		if !ok {
			break
		}
		if wt != 2 {
			continue
		}
		switch num {
		case 2: // Sample
			var ids []uint64
			q := &pbuf{b: d}
			for {
				n, w, v, dd, ok := q.next()
				if !ok {
					break
				}
				if n == 1 {
					if w == 2 {
						r := &pbuf{b: dd}
						for r.i < len(r.b) {
							ids = append(ids, r.varint())
						}
					} else {
						ids = append(ids, v)
					}
				}
			}
			samples = append(samples, ids)
		case 4: // Location
			var id uint64
			var fids []uint64
			q := &pbuf{b: d}
			for {
				n, w, v, dd, ok := q.next()
				if !ok {
					break
				}
				if n == 1 && w == 0 {
					id = v
				}
				if n == 4 && w == 2 { // Line
					r := &pbuf{b: dd}
					for {
						n2, w2, v2, _, ok := r.next()
						if !ok {
							break
						}
						if n2 == 1 && w2 == 0 {
							fids = append(fids, v2)
						}
					}
				}
			}
			locs[id] = fids
		case 5: // Function
			var id uint64
			var f fun
			q := &pbuf{b: d}
			for {
				n, w, v, _, ok := q.next()
				if !ok {
					break
				}
				if w != 0 {
					continue
				}
				switch n {
				case 1:
					id = v
				case 2:
					f.name = v
				case 4:
					f.file = v
				}
			}
			funcs[id] = f
		case 6:
			strs = append(strs, string(d))
		}
	}
	str := func(i uint64) string {
		if int(i) < len(strs) {
			return strs[i]
		}
		return ""
	}
	var out [][]frame
	for _, ids := range samples {
		var fs []frame
		for _, l := range ids {
			for _, fid := range locs[l] {
				f := funcs[fid]
				fs = append(fs, frame{str(f.name), str(f.file)})
			}
		}
		out = append(out, fs)
	}
	return out
}

// spinSite samples the process for d and returns the innermost repository
// function present in every sample of the case goroutine (the samples that
// contain caseFn), "deep-recursion" when most samples are truncated by the
// profiler's depth limit, or "unknown".
func spinSite(d time.Duration, caseFn string) (site string, nsamples int) {
	var buf bytes.Buffer
	if err := pprof.StartCPUProfile(&buf); err != nil {
		return "unknown", 0
	}
	time.Sleep(d)
	pprof.StopCPUProfile()
	samples := decodeProfile(buf.Bytes())
	const depthLimit = 64
	count := map[string]int{}
	var order []string
	valid, deep := 0, 0
	for _, fs := range samples {
		isCase := false
		for _, f := range fs {
			if f.fn == caseFn {
				isCase = true
			}
		}
		if !isCase {
			if len(fs) >= depthLimit {
				deep++
			}
			continue
		}
		valid++
		seen := map[string]bool{}
		var repo []string
		for _, f := range fs {
			if strings.HasPrefix(f.file, repoDir) && !seen[f.fn] {
				seen[f.fn] = true
				count[f.fn]++
				repo = append(repo, f.fn)
			}
		}
		if len(repo) > len(order) {
			order = repo
		}
	}
	// samples truncated by the profiler's depth limit are ignored as long as
	// enough complete ones exist
	if valid >= 10 {
		for _, f := range order {
			if count[f] == valid {
				return normSite(f), valid
			}
		}
		return "unknown", valid
	}
	if deep >= 30 {
		return "deep-recursion", deep
	}
	return "unknown", valid
}
