package main

// RETENTION family: what a decoder keeps reachable after the call returned.
//
// For every (entry point, sub-case) one worker (same isolation as the
// enumeration: address-space cap, GOMAXPROCS=1, per-input watchdog) is fed a
// stream of pairwise distinct small valid inputs (stream.go). After a warm-up of a few
// inputs (one-time initialisation is not counted) the live heap is measured
// (runtime.GC twice, MemStats.HeapAlloc), measured again after N inputs and
// again after 2N. Oracle: the growth at both checkpoints stays below
//
//	retainBase + retainPerInput * (size of the largest input of the stream)
//
// a bound that does not depend on N: a decoder that keeps something per
// distinct input (a memo table, an interning map, a registry that is never
// emptied) grows linearly and crosses it; the second checkpoint shows in the
// evidence that a passing entry point does not grow with the number of
// inputs processed.

import (
	"bufio"
	"encoding/hex"
	"fmt"
	"runtime"
	"strconv"
	"strings"
	"sync"
	"time"

	"verif/internal/report"
)

const (
	retainBase     = 256 << 10
	retainPerInput = 16
	retainWarmup   = 32
)

func retainN() int {
	if report.Tier() == "thorough" {
		return 20000
	}
	return 2000
}

func liveHeap() (alloc, inuse, objects uint64) {
	var ms runtime.MemStats
	runtime.GC()
	runtime.GC()
	runtime.ReadMemStats(&ms)
	return ms.HeapAlloc, ms.HeapInuse, ms.HeapObjects
}

// workerStream serves "STREAM <k> <sub> <warm> <n>": inputs [0,warm) unmeasured,
// then [warm,warm+n) and [warm+n,warm+2n). Answers
//
//	S <k> <alloc0> <alloc1> <alloc2> <inuse0> <inuse1> <inuse2> <objs0> <objs1> <objs2> <bytes fed> <largest input> <rejected> <first rejected idx> <class>
func workerStream(w *bufio.Writer, ss []*streamEntry, k, sub, warm, n int) {
	if k < 0 || k >= len(ss) || sub < 0 || sub >= len(ss[k].subs) {
		fmt.Fprintf(w, "X bad stream %d %d\n", k, sub)
		w.Flush()
		return
	}
	s := ss[k]
	var fed, largest uint64
	rejected, firstRej, rejClass := 0, -1, "-"
	feed := func(lo, hi int) {
		for i := lo; i < hi; i++ {
			in := s.gen(sub, i)
			if i%64 == 0 {
				fmt.Fprintf(w, "B %d\n", i)
				w.Flush()
			}
			curIdx.Store(int64(i))
			curSeq.Add(1)
			curStart.Store(time.Now().UnixNano())
			o := runStreamInput(in)
			curStart.Store(0)
			fed += uint64(len(in.data))
			if uint64(len(in.data)) > largest {
				largest = uint64(len(in.data))
			}
			if !acceptable(s.entry, o) {
				if rejected == 0 {
					firstRej, rejClass = i, msgClass(o.err, 80)
				}
				rejected++
			}
		}
	}
	feed(0, warm)
	a0, u0, o0 := liveHeap()
	feed(warm, warm+n)
	a1, u1, o1 := liveHeap()
	feed(warm+n, warm+2*n)
	a2, u2, o2 := liveHeap()
	fmt.Fprintf(w, "S %d %d %d %d %d %d %d %d %d %d %d %d %d %d %s\n", k, a0, a1, a2, u0, u1, u2, o0, o1, o2, fed, largest, rejected, firstRej, rejClass)
	w.Flush()
}

type retainResult struct {
	entry, sub, varies string
	n                  int
	alloc, inuse, objs [3]uint64
	fed, largest       uint64
	rejected, firstRej int
	rejClass           string
	failClass          string // worker died / watchdog: class, site, message
	failSite, failMsg  string
	failIdx            int
	err                error
	seconds            float64
}

func (r *retainResult) growth(c int) int64 { return int64(r.alloc[c]) - int64(r.alloc[0]) }
func (r *retainResult) bound() int64       { return retainBase + retainPerInput*int64(r.largest) }

func (r *retainResult) name() string { return r.entry + "[" + r.sub + "]" }

// runStream feeds sub-case sub of stream k to a fresh worker and returns the
// measurements.
func runStream(ss []*streamEntry, k, sub, n int, budget time.Duration) *retainResult {
	s := ss[k]
	r := &retainResult{entry: s.entry, sub: s.subs[sub], varies: s.varies, n: n, firstRej: -1}
	t0 := time.Now()
	defer func() { r.seconds = time.Since(t0).Seconds() }()
	p, err := startProc()
	if err != nil {
		r.err = err
		return r
	}
	defer p.kill()
	if _, e := fmt.Fprintf(p.stdin, "STREAM %d %d %d %d\n", k, sub, retainWarmup, n); e != nil {
		r.err = fmt.Errorf("cannot talk to worker: %v", e)
		return r
	}
	last := -1
	lastLine := time.Now()
	tick := time.NewTicker(250 * time.Millisecond)
	defer tick.Stop()
	for {
		select {
		case l, ok := <-p.lines:
			if !ok {
				class, site, msg := crashInfo(p.stderr.String())
				if class == "fatal:unknown" {
					r.err = fmt.Errorf("worker died in stream %s near input %d without a crash report (exit: %v) stderr=%q", r.name(), last, p.cmd.ProcessState, tail(p.stderr.String(), 300))
					return r
				}
				r.failClass, r.failSite, r.failMsg, r.failIdx = class, site, msg, last
				return r
			}
			lastLine = time.Now()
			f := strings.Fields(l)
			if len(f) == 0 {
				continue
			}
			switch f[0] {
			case "B":
				if len(f) > 1 {
					last, _ = strconv.Atoi(f[1])
				}
			case "T":
				r.failClass, r.failSite, r.failMsg, r.failIdx = "time>budget", "unknown", fmt.Sprintf("one valid input still running after %v", budget), last
				if len(f) >= 3 {
					r.failIdx, _ = strconv.Atoi(f[1])
					r.failSite = f[2]
				}
				return r
			case "X":
				r.err = fmt.Errorf("worker: %s", l)
				return r
			case "S":
				if len(f) != 16 {
					r.err = fmt.Errorf("worker: malformed stream answer %q", l)
					return r
				}
				u := func(i int) uint64 { v, _ := strconv.ParseUint(f[i], 10, 64); return v }
				for c := 0; c < 3; c++ {
					r.alloc[c], r.inuse[c], r.objs[c] = u(2+c), u(5+c), u(8+c)
				}
				r.fed, r.largest = u(11), u(12)
				r.rejected, _ = strconv.Atoi(f[13])
				r.firstRej, _ = strconv.Atoi(f[14])
				r.rejClass = f[15]
				return r
			}
		case <-tick.C:
			if time.Since(lastLine) > budget+30*time.Second {
				r.err = fmt.Errorf("worker unresponsive in stream %s near input %d: %s", r.name(), last, tail(p.stderr.String(), 300))
				return r
			}
		}
	}
}

// retentionPass runs every stream (in parallel, one worker each), applies the
// oracle, confirms a growth over the bound by a second run in a fresh worker
// and reports. It returns the evidence block.
func retentionPass(chk lockedChk, ss []*streamEntry, budget time.Duration, par int) map[string]interface{} {
	t0 := time.Now()
	n := retainN()
	type unit struct{ k, sub int }
	var units []unit
	for k, s := range ss {
		for sub := range s.subs {
			units = append(units, unit{k, sub})
		}
	}
	res := make([]*retainResult, len(units))
	again := make([]*retainResult, len(units))
	jobs := make(chan int, len(units))
	// the slow streams start first
	for pass := 0; pass < 2; pass++ {
		for u := range units {
			if (ss[units[u].k].slow > 1) == (pass == 0) {
				jobs <- u
			}
		}
	}
	close(jobs)
	var wg sync.WaitGroup
	for w := 0; w < par; w++ {
		wg.Add(1)
		go func() {
			defer wg.Done()
			for u := range jobs {
				k, sub := units[u].k, units[u].sub
				if err := distinctCheck(ss[k], sub, 0, retainWarmup+2*n); err != nil {
					res[u] = &retainResult{entry: ss[k].entry, sub: ss[k].subs[sub], varies: ss[k].varies, n: n, err: err}
					continue
				}
				res[u] = runStream(ss, k, sub, n, budget)
				r := res[u]
				if r.err == nil && (r.failClass != "" || r.growth(1) > r.bound() || r.growth(2) > r.bound()) {
					again[u] = runStream(ss, k, sub, n, budget)
				}
			}
		}()
	}
	wg.Wait()

	per := map[string]interface{}{}
	perEntryMax := map[string]int64{}
	var samples []map[string]interface{}
	inputs, violations, completed := 0, 0, 0
	for u, r := range res {
		s := ss[units[u].k]
		sub := units[u].sub
		if r.err != nil {
			chk.EngineError("retention stream %s: %v", r.name(), r.err)
			continue
		}
		if r.failClass != "" {
			// a valid input killed the worker or ran into the watchdog
			a := again[u]
			if a == nil || a.err != nil || a.failClass != r.failClass || a.failSite != r.failSite {
				chk.EngineError("retention stream %s: %s at %s near input %d (%s) did not reproduce in a second worker: not reported", r.name(), r.failClass, r.failSite, r.failIdx, r.failMsg)
				continue
			}
			violations++
			fp := report.FPEscape(s.entry + "/" + r.failClass + "/" + r.failSite + "/valid-input-stream:" + r.sub)
			in := s.gen(sub, r.failIdx)
			chk.Report(fp, fmt.Sprintf("%s: %s at %s while a stream of pairwise distinct VALID inputs was decoded one after the other in one process, near input %d of the stream (%s); reproduced in a second fresh worker",
				r.name(), r.failClass, r.failSite, r.failIdx, r.failMsg),
				map[string]interface{}{"entry_point": s.entry, "family": "retention", "sub_case": r.sub, "near_input_index": r.failIdx, "input_hex_near": hex.EncodeToString(in.data),
					"replay": fmt.Sprintf("feed inputs 0..%d of stream %s (checks/c07/stream.go) to one process", r.failIdx+64, r.name())})
			continue
		}
		if r.rejected > 0 {
			in := s.gen(sub, r.firstRej)
			chk.EngineError("retention stream %s: %d of %d generated inputs are not accepted by their own decoder (first: #%d [%s] %s: %s)", r.name(), r.rejected, retainWarmup+2*n, r.firstRej, in.label, shortHex(hex.EncodeToString(in.data)), r.rejClass)
		}
		completed++
		inputs += retainWarmup + 2*n
		e := map[string]interface{}{
			"varies":                         s.varies,
			"inputs_fed":                     retainWarmup + 2*n,
			"bytes_fed":                      r.fed,
			"largest_input_bytes":            r.largest,
			"bound_bytes":                    r.bound(),
			"retained_growth_bytes_after_N":  r.growth(1),
			"retained_growth_bytes_after_2N": r.growth(2),
			"retained_bytes_per_input_between_N_and_2N": float64(r.growth(2)-r.growth(1)) / float64(n),
			"heap_inuse_growth_bytes_after_2N":          int64(r.inuse[2]) - int64(r.inuse[0]),
			"heap_objects_growth_after_2N":              int64(r.objs[2]) - int64(r.objs[0]),
			"live_heap_after_warmup_bytes":              r.alloc[0],
			"seconds":                                   r.seconds,
		}
		per[r.name()] = e
		for c := 1; c <= 2; c++ {
			if g := r.growth(c); g > perEntryMax[s.entry] {
				perEntryMax[s.entry] = g
			}
		}
		if _, ok := perEntryMax[s.entry]; !ok {
			perEntryMax[s.entry] = 0
		}
		if sub == 0 && len(samples) < 6 {
			in := s.gen(sub, retainWarmup)
			samples = append(samples, map[string]interface{}{"stream": r.name(), "index": retainWarmup, "sub_case": in.label, "input_hex": shortHex(hex.EncodeToString(in.data))})
		}
		if r.growth(1) <= r.bound() && r.growth(2) <= r.bound() {
			continue
		}
		a := again[u]
		if a == nil || a.err != nil || a.failClass != "" || (a.growth(1) <= a.bound() && a.growth(2) <= a.bound()) {
			chk.EngineError("retention stream %s: growth %d / %d bytes over the bound %d did not reproduce in a second worker: not reported", r.name(), r.growth(1), r.growth(2), r.bound())
			continue
		}
		violations++
		e["second_run_growth_bytes_after_N_2N"] = []int64{a.growth(1), a.growth(2)}
		fp := report.FPEscape(s.entry + "/retained>budget/" + r.sub + ":" + s.varies)
		first := s.gen(sub, retainWarmup)
		chk.Report(fp, fmt.Sprintf("%s keeps memory reachable per input processed: after a warm-up of %d inputs, %d pairwise distinct small VALID inputs (varying: %s; %d bytes in total, largest %d bytes) fed one after the other to one process leave the live heap (HeapAlloc after two runtime.GC) %d bytes larger after the first %d and %d bytes larger after all of them (%.0f bytes per input); bound %d bytes = 256KiB + 16 x largest input, independent of the number of inputs; reproduced in a second fresh worker (%d / %d bytes)",
			r.name(), retainWarmup, 2*n, s.varies, r.fed, r.largest, r.growth(1), n, r.growth(2), float64(r.growth(2)-r.growth(1))/float64(n), r.bound(), a.growth(1), a.growth(2)),
			map[string]interface{}{"entry_point": s.entry, "family": "retention", "sub_case": r.sub, "varies": s.varies, "warmup": retainWarmup, "N": n,
				"retained_growth_bytes_after_N": r.growth(1), "retained_growth_bytes_after_2N": r.growth(2), "bound_bytes": r.bound(),
				"first_measured_input_hex": hex.EncodeToString(first.data), "first_measured_sub_case": first.label,
				"replay": fmt.Sprintf("in one process: feed inputs 0..%d of stream %s (checks/c07/stream.go: gen(sub,j)), runtime.GC twice + HeapAlloc after input %d, %d and %d", retainWarmup+2*n-1, r.name(), retainWarmup-1, retainWarmup+n-1, retainWarmup+2*n-1)})
	}
	return map[string]interface{}{
		"entry_points":      len(ss),
		"streams":           len(units),
		"streams_completed": completed,
		"N":                 n,
		"warmup_inputs":     retainWarmup,
		"inputs_fed":        inputs,
		"bound":             "growth of HeapAlloc (after runtime.GC twice) since the end of the warm-up <= 262144 + 16 * largest input of the stream, at both checkpoints (after N and after 2N inputs)",
		"per_stream":        per,
		"max_retained_growth_bytes_per_entry_point": perEntryMax,
		"streams_over_bound":                        violations,
		"samples":                                   samples,
		"seconds":                                   time.Since(t0).Seconds(),
	}
}

// lockedChk serialises the reports of the two passes, which run side by side.
type lockedChk struct {
	c  *report.Checker
	mu *sync.Mutex
}

func (l lockedChk) Report(fp, what string, replay interface{}) {
	l.mu.Lock()
	defer l.mu.Unlock()
	l.c.Report(fp, what, replay)
}

func (l lockedChk) EngineError(format string, args ...interface{}) {
	l.mu.Lock()
	defer l.mu.Unlock()
	l.c.EngineError(format, args...)
}
