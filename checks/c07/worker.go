package main

// Worker side: runs inside `sh -c "ulimit -v ...; exec check -worker"` with
// GOMAXPROCS=1. Protocol on stdin: "RUN <gid> <lo> <hi>"; on stdout:
//   H <table hash>
//   B <idx>                                  before each case (flushed)
//   P <phase>                                 the case entered a phase (flushed): the entry point's own
//                                             name for composite targets, "use" / "<name>:use" for the
//                                             use step of an accepted input (use.go)
//   V <idx> <class> <site> <alloc> <ns> <msg> violation observed in the case
//   T <idx> <site>                            time budget exceeded; worker exits 3
//   D <json>                                  chunk finished, statistics
// and "STREAM <k> <sub> <warm> <n>" (retention family, retain.go), answered by B lines
// (every 64th input), possibly T, and one S line with the heap measurements.
// A fatal runtime error (out of memory, stack overflow) kills the worker; the
// parent knows the case from the last B line and the site from stderr.

import (
	"bufio"
	"fmt"
	"os"
	"regexp"
	"runtime"
	"runtime/debug"
	"strconv"
	"strings"
	"sync/atomic"
	"time"
	"verif/internal/report"
)

// a frame belongs to the repository iff its source file is under repoDir
// (closures of third-party combinators inlined into repository functions
// carry repository function names but third-party file names)
var repoDir = report.RepoDir() + "/"

const (
	allocBase    = 64 << 20
	allocPerByte = 64
	// scale families (universe.go): inputs of hundreds of kilobytes
	allocPerByteScale = 2048
	scaleTimeBudget   = 4 * time.Second
)

func timeBudget() time.Duration {
	// development aid only (used to test the watchdog path quickly); the
	// registered commands never set it
	if s := os.Getenv("C07_DEV_TIME_BUDGET_MS"); s != "" {
		if n, err := strconv.Atoi(s); err == nil && n > 0 {
			return time.Duration(n) * time.Millisecond
		}
	}
	return 10 * time.Second
}

var funcSuffix = regexp.MustCompile(`(\.func\d+|\.\d+|\.gowrap\d+|\[\.\.\.\])+$`)

// normSite turns a full function name into "pkg.Type.Func".
func normSite(fn string) string {
	if i := strings.LastIndex(fn, "/"); i >= 0 {
		fn = fn[i+1:]
	}
	fn = strings.ReplaceAll(fn, "(*", "")
	fn = strings.ReplaceAll(fn, ")", "")
	fn = funcSuffix.ReplaceAllString(fn, "")
	return fn
}

var digits = regexp.MustCompile(`[0-9]+`)
var spaces = regexp.MustCompile(`[^A-Za-z0-9_.:<>=\[\]-]+`)

func msgClass(msg string, limit int) string {
	msg = digits.ReplaceAllString(msg, "N")
	msg = spaces.ReplaceAllString(msg, "_")
	if len(msg) > limit {
		msg = msg[:limit]
	}
	return strings.Trim(msg, "_")
}

type caseResult struct {
	out      outcome
	panicked bool
	inUse    bool // the panic came from the use step
	panicMsg string
	site     string
}

func runCase(t *target, in []byte) (r caseResult) {
	defer func() {
		if p := recover(); p != nil {
			r.panicked = true
			r.inUse = strings.HasSuffix(phaseNow(), "use")
			r.panicMsg = fmt.Sprint(p)
			pcs := make([]uintptr, 128)
			n := runtime.Callers(0, pcs)
			frames := runtime.CallersFrames(pcs[:n])
			seenPanic := false
			first := ""
			for {
				f, more := frames.Next()
				if f.Function == "runtime.gopanic" {
					seenPanic = true
				} else if seenPanic {
					if strings.HasPrefix(f.File, repoDir) {
						r.site = normSite(f.Function)
						break
					}
					if first == "" && !strings.HasPrefix(f.Function, "runtime.") {
						first = normSite(f.Function)
					}
				}
				if !more {
					break
				}
			}
			if r.site == "" {
				r.site = "outside-repo:" + first
			}
		}
	}()
	r.out = t.run(in)
	return
}

// phase of the running case (written by the case goroutine, read by the
// watchdog)
var (
	curPhase  atomic.Value // string
	phaseBase string
	phaseOut  *bufio.Writer
)

func phaseNow() string {
	s, _ := curPhase.Load().(string)
	return s
}

func resetPhase() { phaseBase = ""; curPhase.Store("") }

// publishPhase is the worker's phaseHook.
func publishPhase(p string) {
	if p == "use" {
		if phaseBase != "" {
			p = phaseBase + ":use"
		}
	} else {
		phaseBase = p
	}
	curPhase.Store(p)
	if phaseOut != nil {
		phaseOut.WriteString("P " + p + "\n")
		phaseOut.Flush()
	}
}

// maxStack: a runaway recursion ends in "fatal error: stack overflow" after
// 16 MiB of stack (well under the worker's address-space cap, within a
// fraction of a second) instead of Go's default of 1 GB, which the cap would
// turn into an out-of-memory abort. The deepest legitimate inputs of the
// universes (nesting depth 64) use a few KiB.
const maxStack = 16 << 20

// maxStackRecursive: the limit while a case of the "recursive declarations"
// family runs (texts of at most 200 bytes, nesting depth <= 3: a legitimate
// parse uses a few KiB). Most of its recursive cases end in a stack overflow
// on the unchanged tree; the cost of one is proportional to the limit (the
// stack is copied at every doubling).
const maxStackRecursive = 2 << 20

var (
	curStart atomic.Int64 // unix nanos of the running case, 0 if none
	// curBudget: time budget of the running case in nanoseconds, 0 = the default. The
	// scale families run under scaleTimeBudget: the unchanged parsers need 0.1-0.8 s for
	// these inputs, a rescan per repetition 10 s and more
	curBudget atomic.Int64
	curIdx    atomic.Int64
	curSeq    atomic.Int64
	inStream  atomic.Bool // the running case is an input of a retention stream
)

// runStreamInput is the frame the watchdog looks for in a retention stream.
//
//go:noinline
func runStreamInput(in streamInput) outcome { return in.run() }

var frameLine = regexp.MustCompile(`^([^\s].*)\(.*\)$`)

// repoFrames extracts the repository functions (innermost first) of the first
// goroutine whose header starts with hdr from a Go stack dump.
func repoFrames(dump, hdr string) []string {
	var out []string
	in := false
	fn := ""
	for _, line := range strings.Split(dump, "\n") {
		if strings.HasPrefix(line, "goroutine ") {
			if in {
				break
			}
			in = strings.HasPrefix(line, hdr)
			continue
		}
		if !in || line == "" {
			continue
		}
		if line[0] == '\t' {
			if fn != "" && strings.HasPrefix(line[1:], repoDir) {
				out = append(out, fn)
			}
			fn = ""
			continue
		}
		fn = ""
		if m := frameLine.FindStringSubmatch(line); m != nil {
			fn = m[1]
		}
	}
	return out
}

// watchdog: when the running case exceeds the time budget, sample the
// program with the CPU profiler for 3 s; the site is the last repository
// function of the stack prefix common to every sample of the case goroutine
// (the function that owns the loop or the runaway call). Then report and exit: a goroutine cannot
// be killed.
func watchdog(budget time.Duration) {
	for {
		time.Sleep(20 * time.Millisecond)
		st := curStart.Load()
		b := budget
		if cb := curBudget.Load(); cb > 0 && time.Duration(cb) < b {
			b = time.Duration(cb)
		}
		if st == 0 || time.Since(time.Unix(0, st)) <= b {
			continue
		}
		idx := curIdx.Load()
		seq := curSeq.Load()
		caseFn := "main.runCase"
		if inStream.Load() {
			caseFn = "main.runStreamInput"
		}
		site, n := spinSite(3*time.Second, caseFn)
		if curSeq.Load() != seq || curStart.Load() == 0 {
			// the case ended while it was being sampled (within seconds of the
			// budget): it is not "still running"
			continue
		}
		if os.Getenv("C07_DEV_DEBUG") != "" {
			fmt.Fprintf(os.Stderr, "WATCHDOG case %d site %s from %d samples\n", idx, site, n)
		}
		os.Stdout.WriteString(fmt.Sprintf("T %d %s\n", idx, site))
		os.Exit(3)
	}
}

// allocSite attributes an over-budget case. If the case allocated few, huge
// objects (average >= 256 KiB, from the exact MemStats counters: a make() sized
// from the wire) the site is the first repository frame of the heaviest record
// that appeared in the heap profile since the previous snapshot (allocations
// that large are always sampled). Otherwise the bytes are the sum of many small
// allocations (runaway loop or recursion) and the site is "many-small".
type profSnap map[[32]uintptr]int64

func takeProfile() ([]runtime.MemProfileRecord, profSnap) {
	runtime.GC()
	runtime.GC()
	n, _ := runtime.MemProfile(nil, true)
	recs := make([]runtime.MemProfileRecord, n+50)
	n, ok := runtime.MemProfile(recs, true)
	if !ok {
		return nil, profSnap{}
	}
	recs = recs[:n]
	snap := profSnap{}
	for _, r := range recs {
		snap[r.Stack0] += r.AllocBytes
	}
	return recs, snap
}

func allocSite(prev profSnap, bytes, objects uint64) (string, profSnap) {
	if objects == 0 || bytes/objects < 256<<10 {
		return "many-small", prev
	}
	recs, snap := takeProfile()
	var best *runtime.MemProfileRecord
	var bestDelta int64
	for i := range recs {
		d := snap[recs[i].Stack0] - prev[recs[i].Stack0]
		if d > bestDelta {
			bestDelta, best = d, &recs[i]
		}
	}
	if best == nil {
		return "unknown", snap
	}
	frames := runtime.CallersFrames(best.Stack())
	first := ""
	for {
		f, more := frames.Next()
		if strings.HasPrefix(f.File, repoDir) {
			return normSite(f.Function), snap
		}
		if first == "" && f.Function != "" && !strings.HasPrefix(f.Function, "runtime.") {
			first = normSite(f.Function)
		}
		if !more {
			break
		}
	}
	return "outside-repo:" + first, snap
}

func outcomeClass(in []byte, o outcome) string {
	if o.accepted {
		return "accepted"
	}
	msg := o.err
	if len(in) > 0 {
		msg = strings.ReplaceAll(msg, string(in), "<in>")
	}
	return msgClass(msg, 60)
}

func workerMain() {
	tier := os.Getenv("VERIF_TIER")
	if tier != "thorough" {
		tier = "quick"
	}
	ts := buildTargets()
	gs := buildGroups(ts, tier)
	ss := buildStreams()
	w := bufio.NewWriterSize(os.Stdout, 1<<16)
	fmt.Fprintf(w, "H %s\n", tableHash(gs))
	w.Flush()
	debug.SetMaxStack(maxStack)
	phaseOut = w
	phaseHook = publishPhase
	resetPhase()
	budget := timeBudget()
	go watchdog(budget)
	_, prof := takeProfile()
	sc := bufio.NewScanner(os.Stdin)
	var ms runtime.MemStats
	classID := map[string]int{}
	for sc.Scan() {
		f := strings.Fields(sc.Text())
		if len(f) == 5 && f[0] == "STREAM" {
			k, _ := strconv.Atoi(f[1])
			sub, _ := strconv.Atoi(f[2])
			warm, _ := strconv.Atoi(f[3])
			cnt, _ := strconv.Atoi(f[4])
			inStream.Store(true)
			workerStream(w, ss, k, sub, warm, cnt)
			inStream.Store(false)
			continue
		}
		if len(f) != 4 || f[0] != "RUN" {
			continue
		}
		gid, _ := strconv.Atoi(f[1])
		lo, _ := strconv.Atoi(f[2])
		hi, _ := strconv.Atoi(f[3])
		if gid < 0 || gid >= len(gs) {
			fmt.Fprintf(w, "X bad group %d\n", gid)
			w.Flush()
			continue
		}
		g := gs[gid]
		if g.kind == "recursive" {
			debug.SetMaxStack(maxStackRecursive)
		} else {
			debug.SetMaxStack(maxStack)
		}
		for i := lo; i < hi && i < g.n; i++ {
			in := g.input(i)
			fmt.Fprintf(w, "B %d\n", i)
			w.Flush()
			runtime.ReadMemStats(&ms)
			a0, m0 := ms.TotalAlloc, ms.Mallocs
			curIdx.Store(int64(i))
			curSeq.Add(1)
			resetPhase()
			t0 := time.Now()
			if strings.HasPrefix(g.label, "scale-") {
				curBudget.Store(int64(scaleTimeBudget))
			} else {
				curBudget.Store(0)
			}
			curStart.Store(t0.UnixNano())
			r := runCase(g.t, in)
			ns := time.Since(t0).Nanoseconds()
			curStart.Store(0)
			runtime.ReadMemStats(&ms)
			alloc := ms.TotalAlloc - a0
			cls := ""
			switch {
			case r.panicked && r.inUse:
				// the decoder accepted the input and its result cannot be used
				cls = "unusable-result:panic:" + msgClass(r.panicMsg, 60)
				fmt.Fprintf(w, "V %d unusable-result panic:%s:%s %d %d accepted_then_the_use_of_the_result_panicked:_%s\n", i, r.site, msgClass(r.panicMsg, 48), alloc, ns, msgClass(r.panicMsg, 200))
			case r.panicked:
				cls = "panic:" + msgClass(r.panicMsg, 60)
				fmt.Fprintf(w, "V %d panic %s:%s %d %d %s\n", i, r.site, msgClass(r.panicMsg, 48), alloc, ns, msgClass(r.panicMsg, 200))
			case r.out.accepted && r.out.unusable != "":
				what := msgClass(r.out.unusable, 80)
				cls = "unusable-result:" + what
				fmt.Fprintf(w, "V %d unusable-result %s %d %d accepted_(nil_error)_but_the_returned_value_is_not_usable:_%s\n", i, what, alloc, ns, what)
			default:
				cls = outcomeClass(in, r.out)
			}
			perByte := uint64(allocPerByte)
			if strings.HasPrefix(g.label, "scale-") {
				// the parser combinators cost a few hundred bytes per byte of IDL text
				// (measured: 260-410 B/byte, linear from 1 000 to 60 000 repetitions when measured without an address-space cap,
				// twice for ParsePackage + ParseIDL); a rescan per repetition costs
				// gigabytes at these sizes
				perByte = allocPerByteScale
			}
			if alloc > allocBase+perByte*uint64(len(in)) {
				var site string
				site, prof = allocSite(prof, alloc, ms.Mallocs-m0)
				fmt.Fprintf(w, "V %d alloc>budget %s %d %d allocated_%d_bytes_for_%d_input_bytes\n", i, site, alloc, ns, alloc, len(in))
				cls = "alloc>budget:" + cls
			}
			id, ok := classID[cls]
			if !ok {
				id = len(classID)
				classID[cls] = id
				fmt.Fprintf(w, "C %d %s\n", id, cls)
			}
			fmt.Fprintf(w, "E %d %d %d\n", alloc, ns, id)
			if alloc > 4<<20 {
				// give big garbage back before the next case so that an innocent
				// case cannot hit the address-space cap because of its predecessors.
				// The worker maps about 0.9 GiB at start (VmSize 930 MB measured,
				// go1.23), so under the 1 GiB cap the heap can grow by one or two
				// 64 MiB arenas only: a run of cases that each leave 8-12 MB of
				// garbage (a legitimate string of up to MaxStringSize, then EOF) has
				// been seen to kill a worker with 62 MB "in use" on a 12 MB request
				// when the concurrent collector lagged behind (GOMAXPROCS=1); the
				// case passed 5/5 alone
				debug.FreeOSMemory()
			}
		}
		fmt.Fprintf(w, "D\n")
		w.Flush()
	}
}
