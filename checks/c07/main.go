// C07 — decoders and parsers are total and resource-bounded on arbitrary
// input. Bounded-exhaustive exploration (engine A): every case of the stated
// universes is executed in a worker subprocess with an address-space cap, a
// per-case allocation account and a wall-clock watchdog (DESIGN.md 1.3).
//
// Everything above looks at ONE call. Two more families look at what a decoder
// keeps between calls (both tiers, after the enumeration):
//
//   - retention (retain.go): for every (entry point, sub-case) a stream of
//     2N pairwise distinct small valid inputs (stream.go) is fed to one
//     worker; the live heap after the stream must not have grown by more than
//     256 KiB + 16 x the largest input, whatever N;
//   - race side-pass (race.go; the "separate free-running race-detector pass"
//     of DESIGN.md 2.5): the check is rebuilt with `go build -race` from the
//     current tree and, for every unordered pair of entry points, two calls
//     on fresh valid inputs are released together from two goroutines; a data
//     race in repository code or a `fatal error: concurrent map ...` abort is
//     a violation. It complements the enumeration, it does not replace it.
package main

import (
	"bufio"
	"bytes"
	"encoding/hex"
	"fmt"
	"io"
	"os"
	"os/exec"
	"path/filepath"
	"regexp"
	"runtime"
	"sort"
	"strconv"
	"strings"
	"sync"
	"sync/atomic"
	"syscall"
	"time"

	"verif/internal/report"
)

// address-space cap of one worker (ulimit -v, KiB): 1 GiB. The Go runtime
// itself reserves about 0.6 GiB of address space, which leaves roughly 0.4 GiB
// of heap: six times the allocation budget, and an allocation sized from a
// hostile count fails at once instead of being zeroed and scanned.
const vmemCapKiB = 1048576

// a group is abandoned (remaining cases not run, evidence says so) after this
// many failures: the defect is established and every further failing case
// costs up to seconds (address-space exhaustion, watchdog)
const (
	maxFailuresPerGroup = 16
	maxTimeoutsDense    = 1 // bytes / text / tok universes: neighbours fail alike
)

// other universes: 1 in the quick tier, 4 in the thorough tier
func maxTimeoutsOther() int {
	if report.Tier() == "thorough" {
		return 4
	}
	return 1
}

type failure struct {
	g      *group
	idx    int
	class  string // panic | alloc>budget | time>budget | fatal:<kind>
	site   string
	alloc  uint64
	ns     int64
	msg    string
	seenIn string // informational: function observed by the watchdog
	phase  string // phase the case had entered when it killed its worker or ran out of time ("" = decoding)
}

// fp: <entry>/<class>/<site>. When a case kills its worker or runs out of
// time AFTER its decoder returned (use step, second entry point of a composite
// target) the phase is part of the entry component. In the families that set
// caseClass (recursive.go) the third component of such a failure is the class
// of the INPUT: the frame at which a runaway recursion happens to hit the
// stack limit is arbitrary.
func (f failure) fp() string {
	entry, site := f.g.t.entry, f.site
	if f.abort() {
		short := entry[strings.LastIndex(entry, ".")+1:]
		ph := strings.TrimPrefix(strings.TrimPrefix(f.phase, short), ":")
		if ph != "" {
			entry += ":" + ph
		}
		if f.g.caseClass != nil {
			site = f.g.caseClass(f.idx, f.phase)
		}
	}
	return report.FPEscape(entry + "/" + f.class + "/" + site)
}

func (f failure) abort() bool {
	return strings.HasPrefix(f.class, "fatal:") || f.class == "time>budget"
}

// ------------------------------------------------------------ worker process

type proc struct {
	cmd     *exec.Cmd
	stdin   io.WriteCloser
	lines   chan string
	stderr  *capBuf
	done    chan struct{}
	classes map[string]string
}

type capBuf struct {
	mu sync.Mutex
	b  bytes.Buffer
}

func (c *capBuf) Write(p []byte) (int, error) {
	c.mu.Lock()
	defer c.mu.Unlock()
	if c.b.Len() < 256<<10 {
		c.b.Write(p)
	}
	return len(p), nil
}
func (c *capBuf) String() string { c.mu.Lock(); defer c.mu.Unlock(); return c.b.String() }

var (
	self     string
	wantHash string
	procsMu  sync.Mutex
	procs    = map[*proc]bool{}
	spawned  atomic.Int64
)

func startProc() (*proc, error) {
	cmd := exec.Command("sh", "-c", fmt.Sprintf(`ulimit -v %d; exec "$0" -worker`, vmemCapKiB), self)
	cmd.Env = append(os.Environ(), "GOMAXPROCS=1", "VERIF_TIER="+report.Tier(), "GODEBUG=")
	in, err := cmd.StdinPipe()
	if err != nil {
		return nil, err
	}
	out, err := cmd.StdoutPipe()
	if err != nil {
		return nil, err
	}
	p := &proc{cmd: cmd, stdin: in, lines: make(chan string, 4096), stderr: &capBuf{}, done: make(chan struct{}), classes: map[string]string{}}
	cmd.Stderr = p.stderr
	if err := cmd.Start(); err != nil {
		return nil, err
	}
	spawned.Add(1)
	procsMu.Lock()
	procs[p] = true
	procsMu.Unlock()
	go func() {
		rd := bufio.NewReaderSize(out, 1<<16)
		for {
			line, err := rd.ReadString('\n')
			if len(line) > 0 && line[len(line)-1] == '\n' {
				p.lines <- line[:len(line)-1]
			}
			if err != nil {
				break
			}
		}
		cmd.Wait()
		close(p.lines)
		close(p.done)
	}()
	select {
	case l, ok := <-p.lines:
		if !ok || !strings.HasPrefix(l, "H ") {
			p.kill()
			return nil, fmt.Errorf("worker did not start: %q stderr=%s", l, tail(p.stderr.String(), 400))
		}
		if l[2:] != wantHash {
			p.kill()
			return nil, fmt.Errorf("worker case table differs from the parent's (%s vs %s)", l[2:], wantHash)
		}
	case <-time.After(60 * time.Second):
		p.kill()
		return nil, fmt.Errorf("worker start timed out")
	}
	return p, nil
}

func (p *proc) kill() {
	if p == nil {
		return
	}
	p.cmd.Process.Kill()
	p.stdin.Close()
	go func() {
		for range p.lines {
		}
	}()
	select {
	case <-p.done:
	case <-time.After(5 * time.Second):
	}
	procsMu.Lock()
	delete(procs, p)
	procsMu.Unlock()
}

func tail(s string, n int) string {
	if len(s) > n {
		return s[len(s)-n:]
	}
	return s
}

var oomBlock = regexp.MustCompile(`cannot allocate (\d+)-byte block`)

// crashInfo classifies a fatal runtime error from the worker's stderr.
func crashInfo(stderr string) (class, site, msg string) {
	msg = "worker died without a Go crash report"
	class = "fatal:unknown"
	for _, line := range strings.Split(stderr, "\n") {
		if strings.HasPrefix(line, "fatal error: ") || strings.HasPrefix(line, "runtime: out of memory") ||
			strings.HasPrefix(line, "runtime: goroutine stack exceeds") {
			msg = line
			break
		}
	}
	low := strings.ToLower(stderr)
	// memory refused while a goroutine stack was being grown (under the
	// address-space cap the copy of a stack of several MiB may not fit): the
	// defect is the runaway recursion, as when the stack limit is reached
	stackGrowth := false
	if i := strings.Index(stderr, "\nruntime stack:\n"); i >= 0 {
		sys := stderr[i:]
		if j := strings.Index(sys, "\n\ngoroutine "); j >= 0 {
			sys = sys[:j]
		}
		stackGrowth = strings.Contains(sys, "runtime.stackalloc(") || strings.Contains(sys, "runtime.copystack(") || strings.Contains(sys, "runtime.newstack(")
	}
	switch {
	case stackGrowth && (strings.Contains(low, "out of memory") || strings.Contains(low, "cannot allocate")):
		class = "fatal:stack-overflow"
		msg += " (while growing a goroutine stack)"
	case strings.Contains(low, "out of memory") || strings.Contains(low, "cannot allocate"):
		class = "alloc>budget"
	case strings.Contains(low, "stack overflow") || strings.Contains(low, "stack exceeds"):
		class = "fatal:stack-overflow"
	case strings.Contains(stderr, "fatal error: "):
		class = "fatal:" + msgClass(strings.TrimPrefix(msg, "fatal error: "), 30)
	}
	site = "unknown"
	// the first repository frame of the first goroutine trace
	if i := strings.Index(stderr, "\ngoroutine "); i >= 0 {
		if fs := repoFrames(stderr[i+1:], "goroutine "); len(fs) > 0 {
			site = normSite(fs[0])
		}
	}
	// address space exhausted by a small request: the memory went into many
	// earlier allocations, the request that happened to fail is arbitrary
	if m := oomBlock.FindStringSubmatch(stderr); m != nil && class == "alloc>budget" {
		if n, err := strconv.ParseUint(m[1], 10, 64); err == nil && n < 16<<20 {
			site = "many-small"
		}
	}
	return
}

// events of one segment run
type sink struct {
	onCase func(idx int, alloc uint64, ns int64, class string)
	onFail func(f failure)
}

// runSegment runs cases [lo,hi) of g in p. It returns the index to resume
// from and whether the worker is still usable.
func runSegment(p *proc, g *group, lo, hi int, s sink, budget time.Duration, stop func() bool) (next int, alive bool, err error) {
	if _, e := fmt.Fprintf(p.stdin, "RUN %d %d %d\n", g.id, lo, hi); e != nil {
		return lo, false, fmt.Errorf("cannot talk to worker: %v", e)
	}
	last := -1
	phase := ""
	lastLine := time.Now()
	tick := time.NewTicker(250 * time.Millisecond)
	defer tick.Stop()
	for {
		select {
		case l, ok := <-p.lines:
			if !ok {
				// worker died
				if last < 0 {
					return lo, false, fmt.Errorf("worker died outside a case: %s", tail(p.stderr.String(), 600))
				}
				class, site, msg := crashInfo(p.stderr.String())
				if class == "fatal:unknown" {
					return last + 1, false, fmt.Errorf("worker died in case %s#%d without a crash report (exit: %v) stderr=%q",
						g.name(), last, p.cmd.ProcessState, tail(p.stderr.String(), 300))
				}
				s.onFail(failure{g: g, idx: last, class: class, site: site, msg: msg, phase: phase})
				s.onCase(last, 0, 0, "killed:"+class)
				return last + 1, false, nil
			}
			lastLine = time.Now()
			if len(l) < 1 {
				continue
			}
			switch l[0] {
			case 'B':
				if len(l) > 2 {
					last, _ = strconv.Atoi(l[2:])
				}
				phase = ""
			case 'P':
				if len(l) > 2 {
					phase = l[2:]
				}
			case 'C':
				f := strings.SplitN(l, " ", 3)
				if len(f) == 3 {
					p.classes[f[1]] = f[2]
				}
			case 'E':
				f := strings.Fields(l)
				if len(f) == 4 {
					a, _ := strconv.ParseUint(f[1], 10, 64)
					ns, _ := strconv.ParseInt(f[2], 10, 64)
					s.onCase(last, a, ns, p.classes[f[3]])
				}
			case 'V':
				f := strings.SplitN(l, " ", 7)
				if len(f) == 7 {
					idx, _ := strconv.Atoi(f[1])
					a, _ := strconv.ParseUint(f[4], 10, 64)
					ns, _ := strconv.ParseInt(f[5], 10, 64)
					s.onFail(failure{g: g, idx: idx, class: f[2], site: f[3], alloc: a, ns: ns, msg: f[6]})
				}
			case 'T':
				f := strings.Fields(l)
				idx := last
				seen := "unknown"
				if len(f) >= 3 {
					idx, _ = strconv.Atoi(f[1])
					seen = f[2]
				}
				s.onFail(failure{g: g, idx: idx, class: "time>budget", site: seen, ns: int64(budget), seenIn: seen, phase: phase,
					msg: fmt.Sprintf("still running after %v in %s", budget, seen)})
				s.onCase(idx, 0, int64(budget), "killed:time>budget")
				p.kill()
				return idx + 1, false, nil
			case 'D':
				return hi, true, nil
			case 'X':
				return lo, true, fmt.Errorf("worker: %s", l)
			}
		case <-tick.C:
			if stop != nil && stop() {
				p.kill()
				if last < 0 {
					return lo, false, nil
				}
				return last, false, nil
			}
			if time.Since(lastLine) > budget+20*time.Second {
				p.cmd.Process.Signal(syscall.SIGQUIT)
				time.Sleep(300 * time.Millisecond)
				if os.Getenv("C07_DEV_DEBUG") != "" {
					fmt.Fprintf(os.Stderr, "UNRESPONSIVE %s last=%d stderr:\n%s\n", g.name(), last, tail(p.stderr.String(), 6000))
				}
				p.kill()
				if last < 0 {
					return lo, false, fmt.Errorf("worker unresponsive outside a case")
				}
				s.onFail(failure{g: g, idx: last, class: "time>budget", site: "unresponsive", seenIn: "unresponsive", phase: phase, msg: "worker unresponsive, killed by the parent"})
				s.onCase(last, 0, 0, "killed:time>budget")
				return last + 1, false, nil
			}
		}
	}
}

// ------------------------------------------------------------ bookkeeping

type groupStat struct {
	evals     int
	accepted  int
	stopped   bool // monotone family stopped at its first fatal / time failure
	firstFail int  // smallest failing index + 1 (0 = none)
	timeFails int
	fails     int
	why       string
}

type state struct {
	mu        sync.Mutex
	chk       *report.Checker
	groups    []*group
	gstat     []groupStat
	fails     map[string][]failure
	classes   map[string]bool // entry|sub|class seen on a non-empty input
	samples   []map[string]interface{}
	sampled   map[string]bool
	perEntry  map[string]int
	perEntryA map[string]int
	perKind   map[string]int
	recStats  map[string]int // recursive-declarations family: "<entry>: <class of the input> -> <outcome>" -> cases
	maxAlloc  uint64
	maxAllocC string
	maxNs     int64
	maxNsC    string
	evals     int
}

func emptyInput(g *group, idx int) bool {
	switch g.kind {
	case "bytes", "text", "tok", "cut":
		return idx == 0
	}
	return false
}

func (st *state) onCase(g *group, idx int, alloc uint64, ns int64, class string) {
	st.mu.Lock()
	defer st.mu.Unlock()
	st.evals++
	gs := &st.gstat[g.id]
	gs.evals++
	st.perEntry[g.t.entry]++
	st.perKind[g.kind]++
	if class == "accepted" {
		gs.accepted++
		st.perEntryA[g.t.entry]++
	}
	if g.kind == "recursive" && g.caseClass != nil {
		st.recStats[g.t.entry+": "+g.caseClass(idx, "")+" -> "+class]++
	}
	// a stub may answer a well-formed call with an application error
	appErr := strings.HasPrefix(g.t.entry, "stub:") && strings.HasPrefix(class, "error-reply:") && !strings.HasPrefix(class, "error-reply:_cannot_read")
	// (an accepted item whose result is unusable, a panic or an over-budget
	// case is a violation reported on its own, not a defect of the corpus)
	reported := strings.HasPrefix(class, "killed:") || strings.HasPrefix(class, "unusable-result:") || strings.HasPrefix(class, "panic:") || strings.HasPrefix(class, "alloc>budget:")
	if g.kind == "corpus" && class != "accepted" && !appErr && !reported {
		st.chk.EngineError("corpus item %s#%d is not accepted by its own decoder: %q", g.name(), idx, class)
	}
	killed := strings.HasPrefix(class, "killed:") || strings.HasPrefix(class, "alloc>budget:")
	if alloc > st.maxAlloc && !killed {
		st.maxAlloc, st.maxAllocC = alloc, fmt.Sprintf("%s#%d", g.name(), idx)
	}
	if ns > st.maxNs && !killed {
		st.maxNs, st.maxNsC = ns, fmt.Sprintf("%s#%d", g.name(), idx)
	}
	if ns > 300e6 || killed {
		g.slow.Store(true)
	}
	if !emptyInput(g, idx) {
		key := g.t.entry + "|" + g.t.sub + "|" + class
		if !st.classes[key] {
			st.classes[key] = true
			ek := g.t.entry + "|" + class
			if len(st.samples) < 24 && !st.sampled[ek] && g.kind != "corpus" {
				st.sampled[ek] = true
				in := g.input(idx)
				h := hex.EncodeToString(in)
				if len(h) > 128 {
					h = h[:128] + "..."
				}
				st.samples = append(st.samples, map[string]interface{}{
					"case": fmt.Sprintf("%s#%d", g.name(), idx), "input_hex": h, "outcome": class})
			}
		}
	}
}

func (st *state) onFail(f failure) {
	st.mu.Lock()
	defer st.mu.Unlock()
	st.fails[f.fp()] = append(st.fails[f.fp()], f)
	gs := &st.gstat[f.g.id]
	if gs.firstFail == 0 || f.idx+1 < gs.firstFail {
		gs.firstFail = f.idx + 1
	}
	gs.fails++
	f.g.slow.Store(true)
	if f.class == "time>budget" {
		gs.timeFails++
	}
	g := f.g
	if g.monotone || g.everyCase || g.abandoned.Load() {
		return
	}
	maxT := maxTimeoutsOther()
	if g.kind == "bytes" || g.kind == "text" || g.kind == "tok" {
		maxT = maxTimeoutsDense
	}
	switch {
	case gs.timeFails >= maxT:
		gs.why = fmt.Sprintf("%d cases over the time budget", gs.timeFails)
		g.abandoned.Store(true)
	case gs.fails >= maxFailuresPerGroup:
		gs.why = fmt.Sprintf("%d failing cases", gs.fails)
		g.abandoned.Store(true)
	}
}

// ------------------------------------------------------------ scheduling

type job struct {
	g      *group
	lo, hi int
	prio   int
}

type scheduler struct {
	mu       sync.Mutex
	jobs     []job
	deferred []job // jobs of groups flagged slow, served after all others
	cur      int
	deadline time.Time
	timedOut bool
}

func (s *scheduler) next() *job {
	s.mu.Lock()
	defer s.mu.Unlock()
	for s.cur < len(s.jobs) {
		if time.Now().After(s.deadline) {
			s.timedOut = true
			return nil
		}
		j := &s.jobs[s.cur]
		s.cur++
		if j.g.abandoned.Load() {
			continue
		}
		if j.g.slow.Load() && !j.g.monotone {
			s.deferred = append(s.deferred, *j)
			continue
		}
		return j
	}
	for len(s.deferred) > 0 {
		if time.Now().After(s.deadline) {
			s.timedOut = true
			return nil
		}
		j := s.deferred[0]
		s.deferred = s.deferred[1:]
		if j.g.abandoned.Load() {
			continue
		}
		return &j
	}
	return nil
}

func workerLoop(s *scheduler, st *state, budget time.Duration, wg *sync.WaitGroup) {
	defer wg.Done()
	var p *proc
	defer func() { p.kill() }()
	engineErr := func(err error) {
		st.mu.Lock()
		st.chk.EngineError("%v", err)
		st.mu.Unlock()
	}
	for {
		j := s.next()
		if j == nil {
			return
		}
		g := j.g
		pos := j.lo
		for pos < j.hi && !g.abandoned.Load() {
			if time.Now().After(s.deadline.Add(12 * time.Second)) {
				break
			}
			if p == nil {
				var err error
				if p, err = startProc(); err != nil {
					engineErr(err)
					return
				}
			}
			next, alive, err := runSegment(p, g, pos, j.hi, sink{
				onCase: func(idx int, a uint64, ns int64, c string) { st.onCase(g, idx, a, ns, c) },
				onFail: st.onFail,
			}, budget, func() bool { return g.abandoned.Load() || time.Now().After(s.deadline.Add(12*time.Second)) })
			if err != nil {
				engineErr(err)
			}
			if !alive {
				p.kill()
				p = nil
			}
			killed := !alive && err == nil && next > pos
			pos = next
			if err != nil && alive {
				break
			}
			if g.monotone && killed {
				// the family is enumerated up to its first fatal / time failure
				st.mu.Lock()
				st.gstat[g.id].stopped = true
				st.mu.Unlock()
				g.abandoned.Store(true)
			}
		}
	}
}

// confirmOnce re-runs one case alone in a fresh worker.
func confirmOnce(g *group, idx int, budget time.Duration) ([]failure, error) {
	p, err := startProc()
	if err != nil {
		return nil, err
	}
	defer p.kill()
	var fs []failure
	_, _, err = runSegment(p, g, idx, idx+1, sink{
		onCase: func(int, uint64, int64, string) {},
		onFail: func(f failure) { fs = append(fs, f) },
	}, budget, nil)
	return fs, err
}

func less(a, b failure) bool {
	ia, ib := a.g.input(a.idx), b.g.input(b.idx)
	if len(ia) != len(ib) {
		return len(ia) < len(ib)
	}
	if c := bytes.Compare(ia, ib); c != 0 {
		return c < 0
	}
	if a.g.id != b.g.id {
		return a.g.id < b.g.id
	}
	return a.idx < b.idx
}

// listedFindings reads the fingerprints listed for C07 in known-findings.txt
// (listed fingerprints are reported from the enumeration's observation; only
// unlisted ones, which decide the exit status, are re-confirmed 5 times).
func listedFindings() map[string]bool {
	out := map[string]bool{}
	data, err := os.ReadFile(filepath.Join(report.Root(), "known-findings.txt"))
	if err != nil {
		return out
	}
	re := regexp.MustCompile(`^finding:\s+property=C07\s+fp=(\S+)`)
	for _, line := range strings.Split(string(data), "\n") {
		if m := re.FindStringSubmatch(strings.TrimSpace(line)); m != nil {
			out[m[1]] = true
		}
	}
	return out
}

type conf struct {
	others    []string // fingerprints seen instead while re-running
	fp        string
	cands     []failure // candidates, minimal first
	confirmed *failure
	runIdx    int
	tried     []string
}

// confirm5 runs the case alone 5 times; all 5 must show the fingerprint.
func confirm5(fp string, g *group, idx int, budget time.Duration, sem chan struct{}) (int, []string) {
	var mu sync.Mutex
	var wg sync.WaitGroup
	same := 0
	var other []string
	for r := 0; r < 5; r++ {
		wg.Add(1)
		go func() {
			defer wg.Done()
			sem <- struct{}{}
			defer func() { <-sem }()
			got, err := confirmOnce(g, idx, budget)
			mu.Lock()
			defer mu.Unlock()
			if err != nil {
				other = append(other, "error:"+err.Error())
				return
			}
			hit := false
			for _, f := range got {
				if f.fp() == fp {
					hit = true
				} else {
					other = append(other, f.fp())
				}
			}
			if hit {
				same++
			} else if len(got) == 0 {
				other = append(other, "no-failure")
			}
		}()
	}
	wg.Wait()
	return same, other
}

func main() {
	if len(os.Args) > 1 && os.Args[1] == "-worker" {
		workerMain()
		return
	}
	if len(os.Args) > 1 && os.Args[1] == "-racepair" {
		raceDriverMain(os.Args[2:]) // only in the -race build of this check (race.go)
		return
	}
	if len(os.Args) > 1 && os.Args[1] == "-list" {
		// development aid: print the case table
		gs := buildGroups(buildTargets(), report.Tier())
		tot := 0
		for _, g := range gs {
			fmt.Printf("%4d %-60s n=%d\n", g.id, g.name(), g.n)
			tot += g.n
		}
		fmt.Println("total", tot, "hash", tableHash(gs))
		return
	}
	start := time.Now()
	chk := report.New("C07", "exploration")
	tier := report.Tier()
	var err error
	self, err = os.Executable()
	if err != nil {
		chk.EngineError("os.Executable: %v", err)
		os.Exit(chk.Finish(map[string]interface{}{"evaluations": 0}, nil))
	}
	// clean scratch (keep only the check binary built by vcheck and the race
	// driver of a run that may still be going on)
	work := filepath.Join(report.Root(), ".work", "c07")
	if ents, err := os.ReadDir(work); err == nil {
		for _, e := range ents {
			if strings.HasPrefix(e.Name(), "check.race.") {
				if fi, err := e.Info(); err == nil && time.Since(fi.ModTime()) < 2*time.Hour {
					continue
				}
			}
			if filepath.Join(work, e.Name()) != self && e.Name() != "check" {
				os.RemoveAll(filepath.Join(work, e.Name()))
			}
		}
	}
	budget := timeBudget()
	ts := buildTargets()
	groups := buildGroups(ts, tier)
	wantHash = tableHash(groups)
	streams := buildStreams()
	if err := streamsCoverTargets(ts, streams); err != nil {
		chk.EngineError("%v", err)
	}
	// the race driver is (re)built from the current tree while the
	// enumeration runs
	type raceBuild struct {
		bin string
		s   float64
		err error
	}
	raceCh := make(chan raceBuild, 1)
	go func() {
		bin, s, err := buildRaceDriver()
		raceCh <- raceBuild{bin, s, err}
	}()

	// job order: by priority class, then chunk number, then group: the first
	// chunk of every group runs before any second chunk, so a group that
	// drowns in failures is abandoned before its other chunks start
	var jobs []job
	var only *regexp.Regexp
	if re := os.Getenv("C07_DEV_ONLY"); re != "" {
		only = regexp.MustCompile(re) // development aid: restrict the run
	}
	for _, g := range groups {
		if only != nil && !only.MatchString(g.name()) {
			continue
		}
		for lo := 0; lo < g.n; lo += g.chunk {
			hi := lo + g.chunk
			if hi > g.n {
				hi = g.n
			}
			pr := g.priority
			if g.kind == "mut1" && lo/g.chunk >= mutCheap {
				pr = 6 // the value blocks that make count-driven loops long come last
			}
			jobs = append(jobs, job{g, lo, hi, pr})
		}
	}
	sort.SliceStable(jobs, func(i, j int) bool {
		a, b := jobs[i], jobs[j]
		if a.prio != b.prio {
			return a.prio < b.prio
		}
		if ca, cb := a.lo/a.g.chunk, b.lo/b.g.chunk; ca != cb {
			return ca < cb
		}
		return a.g.id < b.g.id
	})
	enumBudget := 75 * time.Second
	if tier == "thorough" {
		enumBudget = 12 * time.Minute
	}
	if s := os.Getenv("C07_DEV_ENUM_BUDGET_S"); s != "" {
		if n, err := strconv.Atoi(s); err == nil {
			enumBudget = time.Duration(n) * time.Second
		}
	}
	st := &state{chk: chk, groups: groups, gstat: make([]groupStat, len(groups)), fails: map[string][]failure{},
		classes: map[string]bool{}, sampled: map[string]bool{}, perEntry: map[string]int{}, perEntryA: map[string]int{}, perKind: map[string]int{}, recStats: map[string]int{}}
	sched := &scheduler{jobs: jobs, deadline: start.Add(enumBudget)}
	nw := runtime.NumCPU()
	if nw > 16 {
		nw = 16
	}
	if nw < 2 {
		nw = 2
	}
	var wg sync.WaitGroup
	for i := 0; i < nw; i++ {
		wg.Add(1)
		go workerLoop(sched, st, budget, &wg)
	}
	wg.Wait()
	enumS := time.Since(start).Seconds()

	// ---------------------------------------------------------------- confirm
	listed := listedFindings()
	var fps []string
	for fp := range st.fails {
		fps = append(fps, fp)
	}
	sort.Strings(fps)
	confs := make([]*conf, len(fps))
	sem := make(chan struct{}, nw)
	var cwg sync.WaitGroup
	for i, fp := range fps {
		fs := append([]failure{}, st.fails[fp]...)
		sort.SliceStable(fs, func(a, b int) bool { return less(fs[a], fs[b]) })
		c := &conf{fp: fp, cands: fs}
		confs[i] = c
		if listed[fp] {
			c.confirmed = &fs[0]
			c.runIdx = fs[0].idx
			continue
		}
		cwg.Add(1)
		go func() {
			defer cwg.Done()
			// candidates: the minimal case first; a case whose cost is near a
			// budget is not a reliable witness, so up to 3 candidates are tried
			tried := map[string]bool{}
			n := 0
			for k := range c.cands {
				f := c.cands[k]
				idx := f.idx
				if f.class == "time>budget" && f.g.monotone {
					// the first depth over the budget depends on the machine
					// load; two levels deeper the cost is a multiple of it
					if idx += 2; idx > f.g.n-1 {
						idx = f.g.n - 1
					}
				}
				key := fmt.Sprintf("%d/%d", f.g.id, idx)
				if tried[key] {
					continue
				}
				tried[key] = true
				same, other := confirm5(c.fp, f.g, idx, budget, sem)
				c.others = append(c.others, other...)
				c.tried = append(c.tried, fmt.Sprintf("%s#%d: %d/5 %v", f.g.name(), idx, same, other))
				if same == 5 {
					c.confirmed, c.runIdx = &c.cands[k], idx
					return
				}
				if n++; n >= 3 {
					return
				}
			}
		}()
	}
	cwg.Wait()
	established := map[string]bool{}
	for _, c := range confs {
		if c.confirmed != nil {
			established[c.fp] = true
		}
	}
	var reattributed []string
	for _, c := range confs {
		if c.confirmed == nil {
			// the same cases, re-run alone, consistently show other fingerprints
			// that are established (listed or confirmed): the observation under
			// load was a different face of those defects (e.g. address space
			// exhausted before the watchdog fired), not a finding of its own
			// (for the wall-clock oracle, the only load-sensitive one, a re-run
			// that stays within the budget is load noise as well)
			ok := len(c.others) > 0
			for _, o := range c.others {
				if !established[o] && !(o == "no-failure" && strings.Contains(c.fp, "/time>budget/")) {
					ok = false
				}
			}
			if ok {
				reattributed = append(reattributed, fmt.Sprintf("%s -> %v", c.fp, uniq(c.others)))
				continue
			}
			chk.EngineError("fingerprint %s was observed in %d cases but no candidate reproduced it 5/5 alone in a fresh worker (%v; first observation: %s): not reported as a violation",
				c.fp, len(c.cands), c.tried, c.cands[0].msg)
			continue
		}
		f := *c.confirmed
		in := f.g.input(c.runIdx)
		h := hex.EncodeToString(in)
		txt := ""
		if !f.g.t.binary {
			txt = string(in)
		}
		how := "reproduced 5/5 alone in a fresh worker"
		if listed[c.fp] {
			how = "listed in known-findings.txt: observed in the enumeration, not re-run"
		}
		during := ""
		if f.phase != "" {
			during = " during phase " + f.phase
		}
		inputDesc := shortHex(h)
		if !f.g.t.binary && len(in) <= 200 {
			inputDesc = strconv.Quote(string(in))
		}
		caseDesc := ""
		if f.g.describe != nil {
			caseDesc = " [case " + f.g.describe(c.runIdx) + "]"
		}
		what := fmt.Sprintf("%s %s%s at %s on %d-byte input %s%s (%s; %d cases of this run share the fingerprint; %s; budget: alloc <= 64MiB+64*len (scale families 64MiB+2048*len), time <= %v)",
			f.g.t.entry+subOf(f.g), f.class, during, f.site, len(in), inputDesc, caseDesc, f.msg, len(c.cands), how, budget)
		chk.Report(c.fp, what, map[string]interface{}{
			"entry_point": f.g.t.entry, "sub_case": f.g.t.sub, "universe": f.g.kind + ":" + f.g.label,
			"group": f.g.name(), "index": c.runIdx, "first_failing_index_in_this_run": f.idx, "input_hex": h, "input_text": txt,
			"class": f.class, "site": f.site, "phase": f.phase, "case": caseDesc, "observed": f.msg, "alloc_bytes": f.alloc,
			"cases_with_this_fingerprint": len(c.cands), "confirmation": how, "attempts": c.tried,
			"replay": fmt.Sprintf("feed input_hex to entry point %s%s (see checks/c07/entries.go) in a process with ulimit -v %d", f.g.t.entry, subOf(f.g), vmemCapKiB),
		})
	}

	// ------------------------------------------- retention family, race side-pass
	confirmS := time.Since(start).Seconds() - enumS
	sideStart := time.Now()
	var retainCov, raceCov map[string]interface{}
	var swg sync.WaitGroup
	swg.Add(2)
	skipSide := os.Getenv("C07_DEV_SKIP_SIDE") != "" // development aid only: the registered commands never set it
	go func() {
		defer swg.Done()
		if skipSide {
			retainCov = map[string]interface{}{"not_run": "C07_DEV_SKIP_SIDE"}
			return
		}
		retainCov = retentionPass(lockedChk{chk, &st.mu}, streams, budget, nw)
	}()
	go func() {
		defer swg.Done()
		rb := <-raceCh
		if skipSide && rb.err == nil {
			os.Remove(rb.bin)
			raceCov = map[string]interface{}{"not_run": "C07_DEV_SKIP_SIDE"}
			return
		}
		if rb.err != nil {
			st.mu.Lock()
			chk.EngineError("race side-pass not run: %v", rb.err)
			st.mu.Unlock()
			raceCov = map[string]interface{}{"pairs_run": 0, "not_run": rb.err.Error()}
			return
		}
		defer os.Remove(rb.bin)
		par := nw * 3 / 4 // each driver keeps at most two cores busy
		if par < 2 {
			par = 2
		}
		raceCov = racePass(lockedChk{chk, &st.mu}, streams, rb.bin, rb.s, par)
	}()
	swg.Wait()
	sideS := time.Since(sideStart).Seconds()
	asInt := func(m map[string]interface{}, k string) int { n, _ := m[k].(int); return n }
	st.perKind["retention-stream-input"] = asInt(retainCov, "inputs_fed")
	st.perKind["race-pair-call"] = asInt(raceCov, "calls_run")

	// ---------------------------------------------------------------- evidence
	exhaustive := !sched.timedOut && only == nil && !skipSide
	var unfinished, abandoned []string
	total := 0
	for _, g := range groups {
		gs := st.gstat[g.id]
		total += g.n
		if g.monotone && gs.stopped {
			continue
		}
		if g.abandoned.Load() {
			abandoned = append(abandoned, fmt.Sprintf("%s (%d of %d run; %s)", g.name(), gs.evals, g.n, gs.why))
			exhaustive = false
			continue
		}
		if gs.evals < g.n {
			unfinished = append(unfinished, fmt.Sprintf("%s (%d of %d run)", g.name(), gs.evals, g.n))
			exhaustive = false
		}
	}
	if len(unfinished) > 40 {
		unfinished = append(unfinished[:40], fmt.Sprintf("... and %d more groups", len(unfinished)-40))
	}
	families := map[string]interface{}{}
	for _, g := range groups {
		if g.monotone {
			gs := st.gstat[g.id]
			v := fmt.Sprintf("depths 1..%d run, no failure", gs.evals)
			if gs.firstFail > 0 {
				v = fmt.Sprintf("depths 1..%d run, first failure at depth %d", gs.evals, gs.firstFail)
			}
			if gs.stopped {
				v += " (killed the worker: larger depths not run)"
			}
			families[g.name()] = v
		}
	}
	useSteps := 0
	for _, n := range st.perEntryA {
		useSteps += n
	}
	recCases := map[string]int{}
	for _, g := range groups {
		if g.kind == "recursive" {
			recCases[g.t.entry] = g.n
		}
	}
	var shapeNames, useNames []string
	for _, sh := range recShapes {
		shapeNames = append(shapeNames, sh.name)
	}
	for _, u := range recUses {
		useNames = append(useNames, u.name)
	}
	cov := map[string]interface{}{
		"evaluations":         st.evals + asInt(retainCov, "inputs_fed") + asInt(raceCov, "calls_run"),
		"distinct_nontrivial": len(st.classes),
		"rule": "universes (DESIGN.md 1.1, C07): for every binary entry point Bytes(L, {00,01,02,04,7f,80,ff}) with L=5 quick / 6 thorough " +
			"(except the signature readers over zero-width elements [v] {vv} [()], whose only input-dependent field is the count, enumerated by Mut); " +
			"for every valid encoding e of the corpus (built with the repository's writers) Mut(e) = every offset x 9 values {0,1,0x7fffffff,0x80000000,0xffffffff,4096,4097,10MiB,10MiB+1} " +
			"(thorough: also all pairs of non-overlapping offsets for encodings of 8..48 bytes) and Cut(e) = every strict prefix; " +
			"signature.Parse: all strings of length <= 4|5 over the 16-symbol grammar alphabet; idl.ParsePackage: all sequences of <= 3|4 of 29 IDL tokens; " +
			"nesting families in increasing depth 1..64, each up to the first depth that kills its worker. The chunks of a group that produced a failure or a case slower than 300 ms are run after all other groups. A group (entry point x universe x corpus item) is abandoned, and listed, after 16 failing cases or after " +
			"1 (Bytes/text/token universes; every universe in the quick tier) or 4 (other universes, thorough tier) cases over the time budget. Mut groups are enumerated value-major and the three values that make count-driven loops long (10MiB, 10MiB+1, 0x7fffffff) are scheduled last. Oracle per case: no panic, no fatal error, TotalAlloc delta <= 64MiB + 64*len(input) (scale families - 1 000 to 30 000 repetitions of a method, action, struct member, interface or enum constant, parsers only, no use step - 64MiB + 2048*len and 4 s instead of 10 s: the unchanged parsers take 0.1-0.8 s), still running after 10s = violation. " +
			"USE step (checks/c07/use.go; key 'use_step'): every case of every universe above that its entry point ACCEPTS (nil error; count-0 maps and lists, empty strings and the minimal encodings are in the Bytes, Mut, Cut and corpus universes) is followed, inside the same worker and under the same budgets, by a use of the returned value the way the repository's consumers use it: " +
			"a returned map must be non-nil and accept a store (capability map: SetAuthenticated as bus.authenticateCall does, the three maps of a meta-object, every map reached in a value filled by the reflection decoder), a returned interface or pointer must not be nil, a value.Value must answer Signature() and Write(), a message / meta-object / object reference / service info / capability map must be written back by the repository's writer, the bytes of a signature reader must wrap into value.Opaque, " +
			"a signature.Type must print (Signature, SignatureIDL, TypeName), build its Marshal / Unmarshal statements, answer Reader() (and that reader must take an empty stream) and Type(), and register to a type set; the types of an IDL package must print, register and give the meta-object of every interface, the meta-objects of ParseIDL must pass the meta-object use; nil slices are not defects. " +
			"Fingerprints: <entry>/unusable-result/<requirement> (e.g. nil-map:CapabilityMap) or <entry>/unusable-result/panic:<site>:<message>; a fatal error or a watchdog expiry after the decoder returned carries the phase in the entry component (<entry>:use/...). " +
			"RECURSIVE DECLARATIONS family (checks/c07/recursive.go; universe 'recursive', key 'recursive_declarations'): IDL texts = the full product (identical texts once) of 17 shapes of structure references (13 recursive: self reference direct / through Vec / Map value / Map key / Tuple / nested containers / in the second member, mutual recursion of 2 structures direct / through containers / in reverse order, of 3 structures direct / through containers, a structure leading into a cycle; 4 non-recursive controls: plain, forward reference, shared sub-structure, unresolved reference) " +
			"x 4 ways of declaring (once; the whole group twice in a row; the first structure again at the end, identical; again with other members) x 9 uses (no interface; an interface that does not mention them; method parameter; method result; signal parameter; property; inside a container parameter; through the last structure of the group; by an interface declared before the structures), " +
			"each fed to idl.ParseIDL alone and to idl.ParsePackage alone (quick tier: ParsePackage gets the 4 uses that differ for it - none, unrelated, after, before; thorough: all 9), each followed by its use step. A runaway recursion is a fatal stack overflow: workers run with a stack limit of 16 MiB (2 MiB during this family), the case that kills its worker is known from the last B line, its phase from the last P line, a new worker is started and EVERY case of the family is run (no abandonment); " +
			"fingerprint <entry>[:use]/fatal:stack-overflow/<class of the input> with class = [non-]recursive-struct[-declared-twice][-used-by-interface] for the parsing phase and [non-]recursive-struct for the use step (the frame that happens to hit the limit is arbitrary and is not part of the fingerprint). " +
			"distinct_nontrivial = number of distinct (entry point, sub-case, normalised outcome) triples observed on non-empty inputs of the enumeration, " +
			"where the outcome is 'accepted' or the returned error text with the echoed input and all digits removed (first 60 characters), or the violation class " +
			"(the inputs of the two families below are all valid and accepted: they add to evaluations, not to distinct_nontrivial). " +
			"RETENTION family (key 'retention'): for every (entry point, sub-case) one worker is fed, after a warm-up of 32 inputs, 2N pairwise distinct small VALID inputs (N = 2000 quick / 20000 thorough; distinctness asserted) " +
			"derived from the composite signatures of Sig(2,2) made fresh by a structure name / a tuple prefix spelling the index / a list around it, with strings and 32-bit integers spelling the index; " +
			"oracle: HeapAlloc after two runtime.GC, minus the same measurement at the end of the warm-up, <= 256KiB + 16 x the largest input of the stream, after N and after 2N inputs (a bound independent of N; both growths are in the evidence per stream); a growth over the bound must reproduce in a second fresh worker. " +
			"RACE side-pass (key 'race_side_pass'): the check rebuilt with go build -race from the current tree; for every unordered pair of entry points (with itself included) a fresh driver process runs max(R, number of sub-case combinations) repetitions (R = 200 quick / 1000 thorough; a fifth of that for pairs with idl.ParsePackage), walking through every combination of sub-cases; " +
			"a repetition is two releases of two goroutines held at one channel: two different never-seen inputs, then the same never-seen index on both sides; any 'WARNING: DATA RACE' with a repository frame in an access stack, or a 'fatal error: concurrent map' abort, is a violation <entryA>||<entryB>/data-race/<top repository frame>, reported if it shows again in at least one of two re-runs of the pair. This pass is a free-running side-pass: it complements the exhaustive enumeration and does not replace it",
		"samples":                            st.samples,
		"exhaustive":                         exhaustive,
		"universe_size":                      total,
		"groups":                             len(groups),
		"per_entry_point":                    st.perEntry,
		"per_entry_point_accepted":           st.perEntryA,
		"per_universe":                       st.perKind,
		"nesting_families":                   families,
		"unfinished_groups":                  unfinished,
		"abandoned_groups":                   abandoned,
		"max_alloc_bytes_within_budget_case": map[string]interface{}{"bytes": st.maxAlloc, "case": st.maxAllocC},
		"max_ns_of_a_completed_case":         map[string]interface{}{"ns": st.maxNs, "case": st.maxNsC},
		"fingerprints_observed":              fps,
		"workers":                            nw,
		"worker_processes_started":           spawned.Load(),
		"vmem_cap_kib":                       vmemCapKiB,
		"enumeration_s":                      enumS,
		"confirmation_s":                     confirmS,
		"deadline_hit":                       sched.timedOut,
		"reattributed_observations":          reattributed,
		"enumeration_evaluations":            st.evals,
		"use_step": map[string]interface{}{
			"accepted_cases_followed_by_a_use_of_the_result": useSteps,
			"per_entry_point": st.perEntryA,
		},
		"recursive_declarations": map[string]interface{}{
			"shapes": shapeNames, "declared": recDeclared, "uses": useNames,
			"cases_per_entry_point":   recCases,
			"stack_limit_bytes":       maxStackRecursive,
			"outcomes_by_input_class": st.recStats,
		},
		"retention":            retainCov,
		"race_side_pass":       raceCov,
		"retention_and_race_s": sideS,
	}
	assumptions := []string{
		"small-scope hypothesis: hostile inputs are the stated byte strings of length <= L, single (thorough: double) 4-byte field mutations and prefixes of valid encodings, and short token sequences; longer random inputs are not explored",
		"the allocation account is runtime.MemStats.TotalAlloc (cumulative bytes allocated, an upper bound of the memory in use) around the call in a GOMAXPROCS=1 worker; when the average object allocated by the case is >= 256 KiB the allocation site is the first repository frame of the heaviest heap-profile record (or of the crash trace), otherwise the site is 'many-small'",
		"the time oracle is a 10 s wall-clock watchdog against microsecond-scale normal cost; the site of a time violation is the last repository function of the call-stack prefix common to every CPU-profiler sample (3 s at 100 Hz) of the spinning goroutine, or 'deep-recursion' when the samples exceed the profiler's 64-frame limit",
		"the generated ServiceDirectory stub is driven with a fake implementor; action 109 (_socketOfService, unexported) is excluded; stubServiceZero.Authenticate is unreachable from outside package bus (action 8 is intercepted by the generic object) and is not driven",
		"readers are in-memory (bytes.Reader): read fragmentation is C01's subject",
		"fingerprints listed in known-findings.txt are reported from the enumeration's observation; unlisted fingerprints are reported only if a witness reproduces 5/5 alone in a fresh worker",
		"retention: 'memory kept' is the growth of runtime.MemStats.HeapAlloc after two forced collections in a GOMAXPROCS=1 worker; memory held outside the Go heap, or released only by a finalizer that needs a third collection, is not seen; a leak smaller than (256KiB + 16 x input) / 2N bytes per input (about 66 bytes quick, 7 bytes thorough) stays under the bound; only valid inputs are streamed (what a decoder keeps after REFUSING an input is not measured)",
		"race side-pass: the decoders are plain functions over their own reader (no documented restriction to one goroutine; the bus calls them from one goroutine per connection), so any unsynchronised state shared by two calls on different readers is taken as a defect; the detector sees only the accesses that the repetitions execute (valid inputs, pairs of calls, not triples), decides on happens-before within its history window, and misses nothing that aborts the process (concurrent map faults are caught from the crash trace); it is a side-pass next to the exhaustive enumeration, not a replacement for it",
		"use step: 'usable' means what the repository's own consumers of the entry point need (the requirements are listed in the rule); whether the decoded value is the RIGHT one is the subject of C01-C03, C09 and C18; Reader() and Type() are not called on IDL declarations (idl.InterfaceType implements them as 'not yet implemented' panics and no consumer of a parsed package calls them); statements returned by Marshal / Unmarshal are built, not rendered (they are fragments of a function body)",
		"a runaway recursion is recognised from the Go runtime's fatal error under a goroutine stack limit of 16 MiB (2 MiB while the recursive-declarations family runs) instead of Go's default of 1 GB, which the worker's address-space cap cannot hold; an input that legitimately needed a deeper stack would be reported as an overflow (the universes nest at most 64 levels, a few KiB of stack); memory refused while a goroutine stack is being grown is classed as a stack overflow as well",
		"recursive-declarations family: 'recursive' is decided on the text (a structure reaches itself through member types by name); when a name is declared twice the first declaration is the one in scope, which is the recursive one in every 'declared twice' variant",
		"the Go types bool, int16, uint16 and []struct{} of the reflection decoder have no retention stream and no race sub-case (their encodings cannot be pairwise distinct over thousands of inputs); the enumeration covers them",
	}
	os.RemoveAll(filepath.Join(report.Root(), "replays", "C07")) // stale replay files of earlier runs
	code := chk.Finish(cov, assumptions)
	procsMu.Lock()
	for p := range procs {
		p.cmd.Process.Kill()
	}
	procsMu.Unlock()
	os.Exit(code)
}

func uniq(xs []string) []string {
	m := map[string]bool{}
	var out []string
	for _, x := range xs {
		if !m[x] {
			m[x] = true
			out = append(out, x)
		}
	}
	sort.Strings(out)
	return out
}

func subOf(g *group) string {
	if g.t.sub == "" {
		return ""
	}
	return "[" + g.t.sub + "]"
}

func shortHex(h string) string {
	if len(h) > 96 {
		return h[:96] + "...(" + strconv.Itoa(len(h)/2) + " bytes, full input in the replay file)"
	}
	if h == "" {
		return "(empty)"
	}
	return h
}
