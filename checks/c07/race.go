package main

// RACE side-pass (DESIGN.md 2.5): a free-running race-detector pass over the
// decoders. It complements the exhaustive enumeration, it does not replace
// it: the enumeration decides the single-call clauses of the property on
// every input of the stated universes; this pass only asks whether two calls
// on two different readers share mutable state (the decoders are documented
// as plain functions over their own reader, so any such state is a defect:
// a racing Go map aborts the process with "fatal error: concurrent map
// writes", which no recover() can stop).
//
// The check rebuilds itself from the current tree with `go build -race`
// (output under .work/c07/). For every unordered pair of entry points
// (an entry point with itself included) one fresh driver process runs R
// repetitions (at least one per combination of sub-cases of the two entry
// points, which the repetitions walk through). A repetition is two releases:
// two goroutines, held at one channel and released together by closing it,
// each decode one input of the streams of stream.go that no earlier release
// used - first two different never-seen inputs (fresh signatures, so that a
// lazily filled global is written, not only read), then the same never-seen
// index on both sides (the same fresh signature at the same time). A fresh
// process per pair makes the first repetition the first use of both entry
// points in that process (one-time lazy initialisation races too) and keeps
// the detector's per-process de-duplication from hiding a site from later
// pairs. The detector decides on happens-before, not on timing: one
// unsynchronised pair of accesses in one repetition is enough.

import (
	"bytes"
	"fmt"
	"os"
	"os/exec"
	"path/filepath"
	"regexp"
	"sort"
	"strconv"
	"strings"
	"sync"
	"time"

	"verif/internal/report"
)

func raceReps() int {
	if report.Tier() == "thorough" {
		return 1000
	}
	return 200
}

// index range of the race pass: disjoint from the retention streams' range
const raceBase = 1 << 17

// pairReps: at least one repetition per combination of sub-cases; an entry
// point of cost class c divides the count by c.
func pairReps(a, b *streamEntry, reps int) int {
	if c := len(a.subs) * len(b.subs); c > reps {
		reps = c
	}
	slow := a.slow
	if b.slow > slow {
		slow = b.slow
	}
	if r := reps / slow; r >= len(a.subs)*len(b.subs) {
		return r
	}
	return len(a.subs) * len(b.subs)
}

// ------------------------------------------------------------ driver process

// raceDriverMain: check.race -racepair <a> <b> <reps> <base>
func raceDriverMain(args []string) {
	if len(args) != 4 {
		fmt.Println("X usage")
		os.Exit(2)
	}
	a, _ := strconv.Atoi(args[0])
	b, _ := strconv.Atoi(args[1])
	reps, _ := strconv.Atoi(args[2])
	base, _ := strconv.Atoi(args[3])
	ss := buildStreams()
	if a < 0 || b < 0 || a >= len(ss) || b >= len(ss) {
		fmt.Println("X bad pair")
		os.Exit(2)
	}
	sa, sb := ss[a], ss[b]
	rejected := 0
	firstRej := "-"
	pa, pb := len(sa.subs), len(sb.subs)
	release := func(inA, inB streamInput, ja, jb int) {
		var oa, ob outcome
		start := make(chan struct{})
		var wg sync.WaitGroup
		wg.Add(2)
		go func() { defer wg.Done(); <-start; oa = inA.run() }()
		go func() { defer wg.Done(); <-start; ob = inB.run() }()
		close(start)
		wg.Wait()
		for _, x := range []struct {
			s *streamEntry
			i int
			o outcome
		}{{sa, ja, oa}, {sb, jb, ob}} {
			if !acceptable(x.s.entry, x.o) {
				if rejected == 0 {
					firstRej = fmt.Sprintf("%s#%d:%s", x.s.entry, x.i, msgClass(x.o.err, 80))
				}
				rejected++
			}
		}
	}
	for r := 0; r < reps; r++ {
		subA, subB := r%pa, (r/pa)%pb
		ja, jb, jc := base+3*r, base+3*r+1, base+3*r+2
		release(sa.gen(subA, ja), sb.gen(subB, jb), ja, jb)
		release(sa.gen(subA, jc), sb.gen(subB, jc), jc, jc)
	}
	fmt.Printf("OK %d %d %s\n", reps, rejected, firstRej)
}

// ------------------------------------------------------------ parent side

// buildRaceDriver rebuilds this check with the race detector from the
// current tree (VERIF_REPO and VERIF_OVERLAY honoured exactly as vcheck does
// for the plain build: GoEnv keeps the -modfile of a redirected run).
func buildRaceDriver() (string, float64, error) {
	t0 := time.Now()
	root := report.Root()
	work := filepath.Join(root, ".work", "c07")
	os.MkdirAll(work, 0o755)
	bin := filepath.Join(work, fmt.Sprintf("check.race.%d", os.Getpid()))
	args := []string{"build", "-race", "-o", bin}
	if ov := os.Getenv("VERIF_OVERLAY"); ov != "" {
		args = append(args, "-overlay", ov)
	}
	args = append(args, "./checks/c07")
	cmd := exec.Command("go", args...)
	cmd.Dir = root
	cmd.Env = report.GoEnv()
	out, err := cmd.CombinedOutput()
	if err != nil {
		return "", time.Since(t0).Seconds(), fmt.Errorf("go build -race ./checks/c07: %v\n%s", err, tail(string(out), 2000))
	}
	return bin, time.Since(t0).Seconds(), nil
}

type raceSite struct {
	site   string // top repository frame of the first access stack that has one
	kind   string // "race-report" | "fatal error: concurrent map ..."
	report string
}

type pairRun struct {
	sites    []raceSite
	harness  []string // race reports without a repository frame
	rejected int
	firstRej string
	reps     int
	err      error
	seconds  float64
}

var (
	raceFn   = regexp.MustCompile(`^  (\S.*)\(\)$`)
	raceFile = regexp.MustCompile(`^      (\S+):\d+ \+0x`)
)

// parseRaceReports splits the detector's output into reports and extracts,
// for each, the top repository frame of the first access stack that has one
// (the stacks under "... created at:" are not access stacks).
func parseRaceReports(stderr string) (sites []raceSite, harness []string) {
	for _, blk := range strings.Split(stderr, "==================") {
		if !strings.Contains(blk, "WARNING: DATA RACE") {
			continue
		}
		site := ""
		access := false
		fn := ""
		for _, line := range strings.Split(blk, "\n") {
			switch {
			case strings.HasPrefix(line, "Read at ") || strings.HasPrefix(line, "Write at ") ||
				strings.HasPrefix(line, "Previous read at ") || strings.HasPrefix(line, "Previous write at ") ||
				strings.HasPrefix(line, "Atomic ") || strings.HasPrefix(line, "Previous atomic "):
				access = true
				continue
			case strings.HasPrefix(line, "Goroutine ") || strings.HasPrefix(line, "Mutex "):
				access = false
				continue
			}
			if !access || site != "" {
				continue
			}
			if m := raceFn.FindStringSubmatch(line); m != nil {
				fn = m[1]
				continue
			}
			if m := raceFile.FindStringSubmatch(line); m != nil {
				if fn != "" && strings.HasPrefix(m[1], repoDir) {
					site = normSite(fn)
				}
				fn = ""
			}
		}
		if site == "" {
			harness = append(harness, strings.TrimSpace(blk))
			continue
		}
		sites = append(sites, raceSite{site: site, kind: "race-report", report: strings.TrimSpace(blk)})
	}
	return
}

// fatalMapSite recognises the Go runtime's abort on a racing map ("fatal
// error: concurrent map writes" and its variants) and returns the first
// repository frame of the goroutine that hit it.
func fatalMapSite(es string) (raceSite, bool) {
	i := strings.Index(es, "fatal error: concurrent map")
	if i < 0 {
		return raceSite{}, false
	}
	msg := es[i:]
	if j := strings.IndexByte(msg, '\n'); j >= 0 {
		msg = msg[:j]
	}
	site := "unknown"
	if k := strings.Index(es[i:], "\ngoroutine "); k >= 0 {
		if fs := repoFrames(es[i+k+1:], "goroutine "); len(fs) > 0 {
			site = normSite(fs[0])
		}
	}
	rep := es[i:]
	if len(rep) > 4000 {
		rep = rep[:4000]
	}
	return raceSite{site: site, kind: msg, report: rep}, true
}

func runPair(bin string, a, b, reps, base int) *pairRun {
	t0 := time.Now()
	pr := &pairRun{}
	defer func() { pr.seconds = time.Since(t0).Seconds() }()
	cmd := exec.Command(bin, "-racepair", strconv.Itoa(a), strconv.Itoa(b), strconv.Itoa(reps), strconv.Itoa(base))
	cmd.Env = append(os.Environ(), "GOMAXPROCS=4", "GODEBUG=", "GORACE=halt_on_error=0 atexit_sleep_ms=0", "VERIF_TIER="+report.Tier())
	var stdout bytes.Buffer
	stderr := &capBuf{}
	cmd.Stdout = &stdout
	cmd.Stderr = stderr
	if err := cmd.Start(); err != nil {
		pr.err = err
		return pr
	}
	done := make(chan error, 1)
	go func() { done <- cmd.Wait() }()
	var werr error
	select {
	case werr = <-done:
	case <-time.After(10 * time.Minute):
		cmd.Process.Kill()
		<-done
		pr.err = fmt.Errorf("race driver still running after 10 minutes: %s", tail(stderr.String(), 400))
		return pr
	}
	es := stderr.String()
	pr.sites, pr.harness = parseRaceReports(es)
	if fs, ok := fatalMapSite(es); ok {
		pr.sites = append(pr.sites, fs)
		return pr
	}
	f := strings.Fields(strings.TrimSpace(stdout.String()))
	if len(f) == 4 && f[0] == "OK" {
		pr.reps, _ = strconv.Atoi(f[1])
		pr.rejected, _ = strconv.Atoi(f[2])
		pr.firstRej = f[3]
		return pr // exit status 66 = races were reported
	}
	if len(pr.sites) == 0 {
		pr.err = fmt.Errorf("race driver ended without a verdict (%v): stdout=%q stderr=%q", werr, tail(stdout.String(), 200), tail(es, 600))
	}
	return pr
}

func allSeenAgain(sites []raceSite, reruns []*pairRun) bool {
	for _, s := range sites {
		found := false
		for _, r := range reruns {
			for _, rs := range r.sites {
				if rs.site == s.site {
					found = true
				}
			}
		}
		if !found {
			return false
		}
	}
	return true
}

// racePass builds the driver (already started by the caller: binCh), runs every
// unordered pair in a fresh process, confirms each (pair, site) by re-running
// the pair, reports, and returns the evidence block.
func racePass(chk lockedChk, ss []*streamEntry, bin string, buildS float64, par int) map[string]interface{} {
	t0 := time.Now()
	reps := raceReps()
	type pair struct{ a, b, reps int }
	var pairs []pair
	for a := range ss {
		for b := a; b < len(ss); b++ {
			pairs = append(pairs, pair{a, b, pairReps(ss[a], ss[b], reps)})
		}
	}
	stride := 0 // index range of one pair: 3 indices per repetition
	combos := 0
	for _, p := range pairs {
		if 3*p.reps > stride {
			stride = 3 * p.reps
		}
		combos += len(ss[p.a].subs) * len(ss[p.b].subs)
	}
	// the expensive pairs start first
	order := make([]int, len(pairs))
	for k := range order {
		order[k] = k
	}
	sort.SliceStable(order, func(i, j int) bool {
		pi, pj := pairs[order[i]], pairs[order[j]]
		ci := (ss[pi.a].slow + ss[pi.b].slow) * pi.reps
		cj := (ss[pj.a].slow + ss[pj.b].slow) * pj.reps
		return ci > cj
	})
	runs := make([]*pairRun, len(pairs))
	confirm := make([][]*pairRun, len(pairs))
	var wg sync.WaitGroup
	jobs := make(chan int, len(pairs))
	for _, k := range order {
		jobs <- k
	}
	close(jobs)
	for w := 0; w < par; w++ {
		wg.Add(1)
		go func() {
			defer wg.Done()
			for k := range jobs {
				p := pairs[k]
				base := raceBase + k*stride
				runs[k] = runPair(bin, p.a, p.b, p.reps, base)
				// every site seen must show again in a re-run of the pair: two
				// re-runs, two more while a site is still missing
				for c := 0; c < 4 && len(runs[k].sites) > 0; c++ {
					if c >= 2 && allSeenAgain(runs[k].sites, confirm[k]) {
						break
					}
					confirm[k] = append(confirm[k], runPair(bin, p.a, p.b, p.reps, base))
				}
			}
		}()
	}
	wg.Wait()

	pairsRun, repsRun, reportsSeen, pairsRacing := 0, 0, 0, 0
	var slowest float64
	fps := map[string]bool{}
	var unstable []string
	harnessSeen := 0
	for k, p := range pairs {
		r := runs[k]
		name := ss[p.a].entry + "||" + ss[p.b].entry
		if r.err != nil {
			chk.EngineError("race side-pass %s: %v", name, r.err)
			continue
		}
		pairsRun++
		repsRun += r.reps
		if r.seconds > slowest {
			slowest = r.seconds
		}
		if r.rejected > 0 {
			chk.EngineError("race side-pass %s: %d generated inputs were not accepted by their own decoder (first: %s)", name, r.rejected, r.firstRej)
		}
		for _, h := range r.harness {
			harnessSeen++
			if harnessSeen <= 3 {
				chk.EngineError("race side-pass %s: the detector reported a race without any repository frame in its access stacks (a race of the harness itself?):\n%s", name, tail(h, 1500))
			}
		}
		reportsSeen += len(r.sites)
		if len(r.sites) == 0 {
			continue
		}
		pairsRacing++
		bySite := map[string]raceSite{}
		var order []string
		for _, s := range r.sites {
			if _, ok := bySite[s.site]; !ok {
				bySite[s.site] = s
				order = append(order, s.site)
			}
		}
		sort.Strings(order)
		seenAgain := func(site string) int {
			again := 0
			for _, c := range confirm[k] {
				for _, cs := range c.sites {
					if cs.site == site {
						again++
						break
					}
				}
			}
			return again
		}
		confirmedHere := 0
		for _, site := range order {
			if seenAgain(site) > 0 {
				confirmedHere++
			}
		}
		for _, site := range order {
			s := bySite[site]
			again := seenAgain(site)
			fp := report.FPEscape(name + "/data-race/" + site)
			if again == 0 {
				if confirmedHere > 0 {
					// a second face of a race of this pair that is reported (which
					// accesses collide after an unsynchronised publication depends on
					// the timing): noted, not a fingerprint of its own
					unstable = append(unstable, fmt.Sprintf("%s (seen once, in none of %d re-runs; %d other site(s) of the pair confirmed)", fp, len(confirm[k]), confirmedHere))
					continue
				}
				chk.EngineError("race side-pass: %s was seen once but in none of %d re-runs of the pair: not reported as a violation\n%s", fp, len(confirm[k]), tail(s.report, 1500))
				continue
			}
			fps[fp] = true
			what := "the race detector reported unsynchronised accesses to the same memory"
			if s.kind != "race-report" {
				what = "the Go runtime aborted the process (" + s.kind + ")"
			}
			chk.Report(fp, fmt.Sprintf("%s and %s, each decoding its own VALID input from its own reader in its own goroutine, share unsynchronised mutable state at %s: %s within %d repetitions (two goroutines released together, fresh never-seen inputs each time, every combination of sub-cases); seen again in %d of %d re-runs of the pair in a fresh process",
				ss[p.a].entry, ss[p.b].entry, site, what, p.reps, again, len(confirm[k])),
				map[string]interface{}{"family": "race-side-pass", "entry_points": []string{ss[p.a].entry, ss[p.b].entry}, "site": site, "kind": s.kind, "report": s.report,
					"replay": fmt.Sprintf("go build -race -o d ./checks/c07 && GORACE=halt_on_error=0 ./d -racepair %d %d %d %d", p.a, p.b, p.reps, raceBase+k*stride)})
		}
	}
	var fpl []string
	for fp := range fps {
		fpl = append(fpl, fp)
	}
	sort.Strings(fpl)
	return map[string]interface{}{
		"entry_points":            len(ss),
		"pairs":                   len(pairs),
		"pairs_run":               pairsRun,
		"repetitions_per_pair":    fmt.Sprintf("max(%d, number of sub-case combinations of the pair), divided by 5 (but not below the number of combinations) for pairs with idl.ParsePackage", reps),
		"sub_case_combinations":   combos,
		"releases_per_repetition": 2,
		"repetitions_run":         repsRun,
		"calls_run":               4 * repsRun,
		"race_reports_seen":       reportsSeen,
		"pairs_with_a_race":       pairsRacing,
		"harness_only_reports":    harnessSeen,
		"sites_seen_once_next_to_a_confirmed_site_of_the_same_pair": unstable,
		"fingerprints":              fpl,
		"driver_build_s":            buildS,
		"slowest_pair_s":            slowest,
		"seconds":                   time.Since(t0).Seconds(),
		"parallel_driver_processes": par,
		"driver":                    "this check rebuilt with go build -race from the current tree; one fresh process per pair, GOMAXPROCS=4, GORACE=halt_on_error=0",
		"role":                      "side-pass (assumption check on shared mutable state between calls); complements the exhaustive enumeration, does not replace it",
	}
}
