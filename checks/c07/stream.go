package main

// Streams of pairwise distinct, small, VALID inputs, one generator per entry
// point of the check. They feed the two families that look at what a decoder
// keeps BETWEEN calls (everything else in this check looks at one call):
//
//   - the retention family (retain.go): for every (entry point, sub-case) N
//     inputs one after the other in one worker, heap retained after the
//     stream;
//   - the race side-pass (race.go): two calls released together from two
//     goroutines of a -race build, every combination of sub-cases of the two
//     entry points.
//
// Input i of an entry point is derived from the existing universes: the
// composite signatures of Sig(2,2) (internal/enum, the universe of C02/C08)
// made fresh by a structure name, a tuple prefix that spells i, or a list
// around it; values are the distinguished value of the type with every string
// and 32-bit integer replaced by one that spells i. Pairwise distinctness is
// asserted by the parent over the index range it uses (engine error if not).

import (
	"bytes"
	"crypto/sha256"
	"fmt"
	"reflect"
	"strings"
	"sync"

	"verif/internal/enum"
	"verif/internal/refmodel"

	"github.com/lugu/qiloop/bus"
	"github.com/lugu/qiloop/bus/directory"
	"github.com/lugu/qiloop/bus/net"
	"github.com/lugu/qiloop/meta/idl"
	"github.com/lugu/qiloop/meta/signature"
	"github.com/lugu/qiloop/type/encoding"
	"github.com/lugu/qiloop/type/object"
	"github.com/lugu/qiloop/type/value"
)

// streamInput is one valid input: its bytes (size accounting, distinctness,
// samples) and the call that feeds it to the entry point.
type streamInput struct {
	label string // sub-case reached (signature, Go type, action id)
	data  []byte
	run   func() outcome
}

type streamEntry struct {
	entry  string   // same name as target.entry
	varies string   // what is pairwise distinct from input to input (fingerprint component)
	subs   []string // sub-cases (shape of the input, Go type, action id): one retention stream each
	// gen returns input j of sub-case sub; for a fixed sub-case the inputs are
	// pairwise distinct in j
	gen func(sub, j int) streamInput
	// cost class for the race side-pass: a pair runs reps/max(slow) repetitions
	// (one idl.ParsePackage call costs ~20 ms under the race detector, a
	// hundred times the others)
	slow int
}

// ---------------------------------------------------------------- signatures

var (
	shapesOnce sync.Once
	shapes     []*refmodel.Type
)

// sigShapes: the composite members of Sig(2,2) (same options as C02/C08).
func sigShapes() []*refmodel.Type {
	shapesOnce.Do(func() {
		for _, t := range enum.Sigs(enum.SigOpts{Depth: 2, Width: 2, Outer: "cCwWiIlLfdbsm", Inner: "isbmC",
			OuterKeys: "cCwWiIlLbs", InnerKeys: "isC", Structs: true}) {
			if !t.IsAtom() {
				shapes = append(shapes, t)
			}
		}
	})
	return shapes
}

const digitAtoms = "isbCd"
const digitWidth = 10 // 5^10 indices

var freshForms = []string{"struct", "tuple", "list-of-struct"}

// freshType returns a signature never produced for another index: shape
// i mod |Sig(2,2)| made unique by (form 0) a structure named P<i> around
// it, (1) a tuple whose first ten members spell i in base 5 over the atoms
// i s b C d, (2) a list of the structure of form 0.
func freshType(form, i int) *refmodel.Type {
	sh := sigShapes()
	t := sh[i%len(sh)]
	st := refmodel.StructOf(fmt.Sprintf("P%d", i), []string{"a", "b"}, t, refmodel.Atom('i'))
	switch form {
	case 0:
		return st
	case 1:
		var m []*refmodel.Type
		for k, n := 0, i; k < digitWidth; k, n = k+1, n/len(digitAtoms) {
			m = append(m, refmodel.Atom(digitAtoms[n%len(digitAtoms)]))
		}
		return refmodel.TupleOf(append(m, t)...)
	}
	return refmodel.ListOf(st)
}

// datumFor is enum.Dist with every string and 32-bit integer spelling i.
func datumFor(t *refmodel.Type, i int) *refmodel.Datum {
	switch t.Kind {
	case refmodel.String:
		return &refmodel.Datum{T: t, S: fmt.Sprintf("s%d", i)}
	case refmodel.Value:
		return &refmodel.Datum{T: t, Dyn: &refmodel.Datum{T: refmodel.Atom('s'), S: fmt.Sprintf("v%d", i)}}
	case refmodel.List:
		return &refmodel.Datum{T: t, Elems: []*refmodel.Datum{datumFor(t.Elem, i)}}
	case refmodel.Map:
		return &refmodel.Datum{T: t, Elems: []*refmodel.Datum{datumFor(t.Key, i), datumFor(t.Elem, i)}}
	case refmodel.Tuple, refmodel.Struct:
		d := &refmodel.Datum{T: t}
		for _, m := range t.Members {
			d.Elems = append(d.Elems, datumFor(m, i))
		}
		return d
	}
	if t.Kind.Width() == 4 && t.Kind != refmodel.Float {
		return &refmodel.Datum{T: t, U: uint64(uint32(i))}
	}
	return enum.Dist(t)
}

// freshForm returns the signature text of freshType(form, i) and a valid
// encoding of it; fresh rotates the form with i.
func freshForm(form, i int) (string, []byte) {
	t := freshType(form, i)
	return t.String(), refmodel.Encode(datumFor(t, i))
}

func fresh(i int) (string, []byte) { return freshForm(i%3, i) }

func freshValue(i int) value.Value {
	sig, data := fresh(i)
	return value.Opaque(sig, data)
}

// ---------------------------------------------------------------- structures

func metaFor(i int) object.MetaObject {
	sig, _ := fresh(i)
	uid := uint32(100 + i%1000)
	return object.MetaObject{
		Description: fmt.Sprintf("T%d", i),
		Methods: map[uint32]object.MetaMethod{uid: {
			Uid: uid, ReturnSignature: sig, Name: fmt.Sprintf("f%d", i), ParametersSignature: "(" + sig + "i)", Description: fmt.Sprintf("d%d", i),
			Parameters:        []object.MetaMethodParameter{{Name: fmt.Sprintf("a%d", i), Description: "x"}, {Name: "b", Description: ""}},
			ReturnDescription: "r",
		}},
		Signals:    map[uint32]object.MetaSignal{uid + 1: {Uid: uid + 1, Name: fmt.Sprintf("s%d", i), Signature: "(" + sig + ")"}},
		Properties: map[uint32]object.MetaProperty{uid + 2: {Uid: uid + 2, Name: fmt.Sprintf("p%d", i), Signature: sig}},
	}
}

func infoFor(i int) []byte {
	var buf bytes.Buffer
	directory.WriteServiceInfo(directory.ServiceInfo{Name: fmt.Sprintf("svc%d", i), ServiceId: uint32(i), MachineId: fmt.Sprintf("m%d", i),
		ProcessId: uint32(i + 1), Endpoints: []string{fmt.Sprintf("tcp://h%d:1", i), "unix:///x"}, SessionId: fmt.Sprintf("s%d", i), ObjectUid: "u"}, &buf)
	return append([]byte{}, buf.Bytes()...)
}

func capFor(i int) []byte {
	e := n()
	canonCapMap(bus.CapabilityMap{
		"ClientServerSocket":     value.Bool(true),
		fmt.Sprintf("k%d", i):    value.String(fmt.Sprintf("v%d", i)),
		fmt.Sprintf("o%d", i):    freshValue(i),
		bus.KeyUser:              value.String(fmt.Sprintf("u%d", i)),
		bus.KeyToken:             value.String(fmt.Sprintf("t%d", i)),
		fmt.Sprintf("n%d", i%97): value.Uint(uint32(i)),
	}, e)
	return e.b()
}

// fill builds a value of Go type t whose strings, integers and dynamic
// values spell i.
func fill(t reflect.Type, i int) reflect.Value {
	v := reflect.New(t).Elem()
	switch t.Kind() {
	case reflect.Bool:
		v.SetBool(i%2 == 0)
	case reflect.Int8, reflect.Int16, reflect.Int32, reflect.Int64, reflect.Int:
		v.SetInt(int64(i % 120))
		if t.Kind() == reflect.Int32 || t.Kind() == reflect.Int64 {
			v.SetInt(int64(i))
		}
	case reflect.Uint8, reflect.Uint16, reflect.Uint32, reflect.Uint64, reflect.Uint:
		v.SetUint(uint64(i % 250))
		if t.Kind() == reflect.Uint32 || t.Kind() == reflect.Uint64 {
			v.SetUint(uint64(i))
		}
	case reflect.Float32, reflect.Float64:
		v.SetFloat(float64(i) + 0.5)
	case reflect.String:
		v.SetString(fmt.Sprintf("s%d", i))
	case reflect.Slice:
		s := reflect.MakeSlice(t, 2, 2)
		s.Index(0).Set(fill(t.Elem(), i))
		s.Index(1).Set(fill(t.Elem(), i+1))
		v.Set(s)
	case reflect.Map:
		m := reflect.MakeMap(t)
		m.SetMapIndex(fill(t.Key(), i), fill(t.Elem(), i))
		v.Set(m)
	case reflect.Struct:
		for k := 0; k < t.NumField(); k++ {
			v.Field(k).Set(fill(t.Field(k).Type, i))
		}
	case reflect.Interface: // value.Value: a never-seen signature
		v.Set(reflect.ValueOf(freshValue(i)))
	default:
		panic("c07 stream: cannot fill " + t.String())
	}
	return v
}

func idlFor(i int) []byte {
	return []byte(fmt.Sprintf(`package p%d
struct S%d
	a%d: int32
	b: Vec<str> // c%d
end
enum E%d
	x%d = %d
end
interface I%d // doc %d
	fn f%d(a: int32, b: Map<str,S%d>) -> Vec<S%d> // m
	fn g%d()
	sig s%d(a: Tuple<int32,str>)
	prop p%d(v: any)
end
`, i, i, i, i, i, i, i%1000, i, i, i, i, i, i, i, i))
}

// acceptable: every stream input must be accepted by its own decoder (a stub
// may answer a well-formed call with an application error, as in the corpus
// self-check).
func acceptable(entry string, o outcome) bool {
	if o.accepted {
		return true
	}
	return strings.HasPrefix(entry, "stub:") && strings.HasPrefix(o.err, "error-reply: ") &&
		!strings.HasPrefix(o.err, "error-reply: cannot read")
}

// ---------------------------------------------------------------- entries

func buildStreams() []*streamEntry {
	var ss []*streamEntry
	add := func(entry, varies string, subs []string, gen func(sub, i int) streamInput) *streamEntry {
		e := &streamEntry{entry: entry, varies: varies, subs: subs, gen: gen, slow: 1}
		ss = append(ss, e)
		return e
	}
	simple := func(label string, data []byte, f func(in []byte) error) streamInput {
		return streamInput{label, data, func() outcome { return res(f(data)) }}
	}

	add("Message.Read", "header-and-payload", []string{"call"}, func(_, i int) streamInput {
		m := net.NewMessage(net.NewHeader(net.Call, uint32(1+i%7), uint32(1+i%5), uint32(i%200), uint32(i)), n().str(fmt.Sprintf("p%d", i)).u32(uint32(i)).b())
		var buf bytes.Buffer
		m.Write(&buf)
		return simple("call", append([]byte{}, buf.Bytes()...), func(in []byte) error {
			var m net.Message
			return m.Read(bytes.NewReader(in))
		})
	})

	add("value.NewValue", "signature-and-content", []string{"opaque", "string", "int", "list", "raw", "nested"}, func(sub, i int) streamInput {
		var v value.Value
		switch sub {
		case 0:
			v = freshValue(i)
		case 1:
			v = value.String(fmt.Sprintf("s%d", i))
		case 2:
			v = value.Int(int32(i))
		case 3:
			v = value.List([]value.Value{value.String(fmt.Sprintf("e%d", i)), value.Long(int64(i)), freshValue(i)})
		case 4:
			v = value.Raw([]byte(fmt.Sprintf("r%d", i)))
		default:
			v = value.Opaque("m", n().val(freshValue(i)).b()) // a fresh signature nested in a dynamic value
		}
		return simple(v.Signature(), n().val(v).b(), func(in []byte) error {
			_, err := value.NewValue(bytes.NewReader(in))
			return err
		})
	})

	add("sigreader", "signature-and-content", freshForms, func(sub, i int) streamInput {
		sig, data := freshForm(sub, i)
		return streamInput{sig, append(lenPrefixed(sig), data...), func() outcome {
			rd, err := signature.MakeReader(sig)
			if err != nil {
				return res(err)
			}
			_, err = rd.Read(bytes.NewReader(data))
			return res(err)
		}}
	})

	add("ReadMetaObject", "names-and-signatures", []string{"meta"}, func(_, i int) streamInput {
		e := n()
		canonMetaObject(metaFor(i), e)
		return simple("meta", e.b(), func(in []byte) error {
			_, err := object.ReadMetaObject(bytes.NewReader(in))
			return err
		})
	})

	add("ReadObjectReference", "names-signatures-and-ids", []string{"ref"}, func(_, i int) streamInput {
		e := n()
		canonMetaObject(metaFor(i), e)
		e.u32(uint32(i)).u32(uint32(i + 1))
		return simple("ref", e.b(), func(in []byte) error {
			_, err := object.ReadObjectReference(bytes.NewReader(in))
			return err
		})
	})

	add("ReadServiceInfo", "names-and-ids", []string{"info"}, func(_, i int) streamInput {
		return simple("info", infoFor(i), func(in []byte) error {
			_, err := directory.ReadServiceInfo(bytes.NewReader(in))
			return err
		})
	})

	add("ReadCapabilityMap", "keys-and-value-signatures", []string{"cap"}, func(_, i int) streamInput {
		return simple("cap", capFor(i), func(in []byte) error {
			_, err := bus.ReadCapabilityMap(bytes.NewReader(in))
			return err
		})
	})

	// the Go types of entries.go that can spell i (a bool, a 16-bit integer or a
	// list of empty structures cannot be pairwise distinct over thousands of
	// inputs; the enumeration covers them)
	var spell []int
	var spellNames []string
	for k, rt := range reflectTypes {
		switch rt.name {
		case "bool", "int16", "uint16", "[]struct{}":
		default:
			spell = append(spell, k)
			spellNames = append(spellNames, rt.name)
		}
	}
	add("reflect-decoder", "content-and-value-signatures", spellNames, func(sub, i int) streamInput {
		rt := reflectTypes[spell[sub]]
		var buf bytes.Buffer
		if err := encoding.NewEncoder(encoding.DefaultCap(), &buf).Encode(fill(rt.typ, i).Interface()); err != nil {
			return streamInput{rt.name, nil, func() outcome { return outcome{accepted: false, err: "stream generator: encode: " + err.Error()} }}
		}
		return simple(rt.name, append([]byte{}, buf.Bytes()...), func(in []byte) error {
			return encoding.NewDecoder(encoding.DefaultCap(), bytes.NewReader(in)).Decode(reflect.New(rt.typ).Interface())
		})
	})

	add("stub:Object", "arguments-and-value-signatures",
		[]string{"0:registerEvent", "1:unregisterEvent", "5:property-unknown-name", "6:setProperty-string", "6:setProperty-fresh-signature", "8:registerEventWithSignature"},
		func(sub, i int) streamInput {
			var action uint32
			var in []byte
			switch sub {
			case 0:
				action, in = 0, n().u32(1).u32(86).u64(uint64(i)).b()
			case 1:
				action, in = 1, n().u32(1).u32(86).u64(uint64(i)).b()
			case 2:
				action, in = 5, n().val(value.String(fmt.Sprintf("q%d", i))).b() // decoded, then refused
			case 3:
				action, in = 6, n().val(value.String("p")).val(value.String(fmt.Sprintf("x%d", i))).b()
			case 4:
				action, in = 6, n().val(value.String("p")).val(freshValue(i)).b() // wrongly typed: decoded, then refused
			default:
				sig, _ := fresh(i)
				action, in = 8, n().u32(1).u32(86).u64(uint64(i)).str(sig).b()
			}
			return streamInput{fmt.Sprint(action), in, func() outcome {
				actor := bus.NewBasicObject(nopActor{}, smallMeta, func(string, []byte) error { return nil })
				actor.Activate(activation())
				return receive(actor, action, in)
			}}
		})

	add("stub:ServiceDirectory", "names-and-ids", []string{"100:service", "102:registerService", "103:unregisterService", "105:updateServiceInfo"}, func(sub, i int) streamInput {
		var action uint32
		var in []byte
		switch sub {
		case 0:
			action, in = 100, n().str(fmt.Sprintf("svc%d", i)).b()
		case 1:
			action, in = 102, infoFor(i)
		case 2:
			action, in = 103, n().u32(uint32(i)).b()
		default:
			action, in = 105, infoFor(i)
		}
		return streamInput{fmt.Sprint(action), in, func() outcome {
			actor := directory.ServiceDirectoryObject(fakeDirectory{})
			actor.Activate(activation())
			return receive(actor, action, in)
		}}
	})

	add("stub:ServiceAuthenticate", "keys-and-value-signatures", []string{"8:authenticate"}, func(_, i int) streamInput {
		in := capFor(i)
		return streamInput{"8", in, func() outcome { return receive(bus.ServiceAuthenticate(bus.Yes{}), 8, in) }}
	})

	add("signature.Parse", "signature", freshForms, func(sub, i int) streamInput {
		sig, _ := freshForm(sub, i)
		return simple("sig", []byte(sig), func(in []byte) error {
			_, err := signature.Parse(string(in))
			return err
		})
	})

	add("idl.ParsePackage", "declared-names", []string{"package"}, func(_, i int) streamInput {
		return simple("idl", idlFor(i), func(in []byte) error {
			if _, err := idl.ParsePackage(in); err != nil {
				return err
			}
			_, err := idl.ParseIDL(bytes.NewReader(in))
			return err
		})
	}).slow = 5
	return ss
}

// streamsCoverTargets: every entry point of the enumeration has a stream and
// vice versa (a new entry point added to entries.go without a stream is an
// engine error, not a silent gap).
func streamsCoverTargets(ts []*target, ss []*streamEntry) error {
	have := map[string]bool{}
	for _, s := range ss {
		have[s.entry] = true
	}
	want := map[string]bool{}
	for _, t := range ts {
		if t.aux {
			continue // family-only targets (recursive.go)
		}
		want[t.entry] = true
		if !have[t.entry] {
			return fmt.Errorf("entry point %s has no input stream (checks/c07/stream.go)", t.entry)
		}
	}
	for e := range have {
		if !want[e] {
			return fmt.Errorf("input stream %s has no entry point in entries.go", e)
		}
	}
	return nil
}

// distinctCheck asserts that inputs [lo,hi) of sub-case sub of s are pairwise
// different.
func distinctCheck(s *streamEntry, sub, lo, hi int) error {
	seen := make(map[[32]byte]int, hi-lo)
	for i := lo; i < hi; i++ {
		in := s.gen(sub, i)
		h := sha256.Sum256(append([]byte(in.label+"\x00"), in.data...))
		if j, ok := seen[h]; ok {
			return fmt.Errorf("stream %s[%s]: inputs %d and %d are identical", s.entry, s.subs[sub], j, i)
		}
		seen[h] = i
	}
	return nil
}
