package main

// Family "stub": the generated argument decoders reached through Receive.
//
// Three generated stubs with recording implementations (bus/logger:
// LogManager, LogProvider, LogListener; the ServiceDirectory implementor
// interface has an unexported method and cannot be implemented out of tree)
// plus the generic Object actions every stub inherits. For every method of
// the stub's own meta-object that takes arguments, for boundary values of
// the argument tuple, for every strict prefix of the argument encoding, a
// Call message carrying the prefix is handed to Receive with a recording
// channel. Demanded: the truncation is reported (an error reply is sent or
// Receive returns an error), no normal reply is sent, and the implementation
// is not invoked.

import (
	"fmt"
	"sort"

	"github.com/lugu/qiloop/bus"
	"github.com/lugu/qiloop/bus/logger"
	"github.com/lugu/qiloop/bus/net"
	"github.com/lugu/qiloop/type/object"

	"bytes"

	"verif/internal/enum"
	"verif/internal/refmodel"
)

type recChannel struct {
	errors, replies int
	lastReply       []byte
}

func (c *recChannel) Cap() bus.CapabilityMap { return bus.CapabilityMap{} }
func (c *recChannel) EndPoint() net.EndPoint { return nil }
func (c *recChannel) Authenticate() error    { return nil }
func (c *recChannel) Authenticated() bool    { return true }
func (c *recChannel) SetAuthenticated()      {}
func (c *recChannel) Send(m *net.Message) error {
	if m.Header.Type == net.Error {
		c.errors++
	} else {
		c.replies++
		c.lastReply = m.Payload
	}
	return nil
}
func (c *recChannel) SendError(m *net.Message, err error) error { c.errors++; return nil }
func (c *recChannel) SendReply(m *net.Message, response []byte) error {
	c.replies++
	c.lastReply = response
	return nil
}

type recorder struct{ calls int }

type recManager struct{ recorder }

func (r *recManager) Activate(bus.Activation, logger.LogManagerSignalHelper) error { return nil }
func (r *recManager) OnTerminate()                                                 {}
func (r *recManager) Log(messages []logger.LogMessage) error                       { r.calls++; return nil }
func (r *recManager) CreateListener() (logger.LogListenerProxy, error) {
	r.calls++
	return nil, fmt.Errorf("not available")
}
func (r *recManager) GetListener() (logger.LogListenerProxy, error) {
	r.calls++
	return nil, fmt.Errorf("not available")
}
func (r *recManager) AddProvider(source logger.LogProviderProxy) (int32, error) {
	r.calls++
	return 0, nil
}
func (r *recManager) RemoveProvider(sourceID int32) error { r.calls++; return nil }

type recProvider struct{ recorder }

func (r *recProvider) Activate(bus.Activation, logger.LogProviderSignalHelper) error { return nil }
func (r *recProvider) OnTerminate()                                                  {}
func (r *recProvider) SetVerbosity(level logger.LogLevel) error                      { r.calls++; return nil }
func (r *recProvider) SetCategory(category string, level logger.LogLevel) error {
	r.calls++
	return nil
}
func (r *recProvider) ClearAndSet(filters map[string]logger.LogLevel) error { r.calls++; return nil }

type recListener struct{ recorder }

func (r *recListener) Activate(bus.Activation, logger.LogListenerSignalHelper) error { return nil }
func (r *recListener) OnTerminate()                                                  {}
func (r *recListener) SetLevel(level logger.LogLevel) error                          { r.calls++; return nil }
func (r *recListener) AddFilter(category string, level logger.LogLevel) error {
	r.calls++
	return nil
}
func (r *recListener) ClearFilters() error                          { r.calls++; return nil }
func (r *recListener) OnLogLevelChange(level logger.LogLevel) error { r.calls++; return nil }

type stubCase struct {
	name  string
	actor bus.Actor
	rec   *recorder
}

// deliver hands a Call with the given payload to the stub and classifies the
// reaction: "" = the truncation was reported, else the violated clause.
func deliver(sc stubCase, action uint32, payload []byte) (out, detail string) {
	defer func() {
		if x := recover(); x != nil {
			out, detail = "panic", fmt.Sprint(x)
		}
	}()
	ch := &recChannel{}
	msg := net.NewMessage(net.NewHeader(net.Call, 1, 1, action, 77), payload)
	before := sc.rec.calls
	err := sc.actor.Receive(&msg, ch)
	switch {
	case sc.rec.calls != before:
		return "invoked", "the implementation was invoked with arguments decoded from a truncated payload"
	case ch.replies > 0:
		return "replied", fmt.Sprintf("a normal reply (%d bytes) was sent for a truncated payload", len(ch.lastReply))
	case ch.errors == 0 && err == nil:
		return "silent", "Receive returned nil and sent no error reply"
	}
	return "", ""
}

func familyStubs() {
	fam := run.Family("stub")
	mgr, prov, lis := &recManager{}, &recProvider{}, &recListener{}
	cases := []stubCase{
		{"LogManager", logger.LogManagerObject(mgr), &mgr.recorder},
		{"LogProvider", logger.LogProviderObject(prov), &prov.recorder},
		{"LogListener", logger.LogListenerObject(lis), &lis.recorder},
	}
	nmethods, nvals := 0, 0
	for _, sc := range cases {
		// the stub's own description of its methods
		ch := &recChannel{}
		msg := net.NewMessage(net.NewHeader(net.Call, 1, 1, 2, 1), []byte{0, 0, 0, 0})
		if err := sc.actor.Receive(&msg, ch); err != nil || ch.replies != 1 {
			run.EngineError("stub %s: cannot fetch the meta-object: %v", sc.name, err)
			continue
		}
		meta, err := object.ReadMetaObject(bytes.NewReader(ch.lastReply))
		if err != nil {
			run.EngineError("stub %s: cannot read the meta-object: %v", sc.name, err)
			continue
		}
		var uids []int
		for uid := range meta.Methods {
			uids = append(uids, int(uid))
		}
		sort.Ints(uids)
		for _, u := range uids {
			m := meta.Methods[uint32(u)]
			t, err := refmodel.ParseSig(m.ParametersSignature)
			if err != nil || t.Kind != refmodel.Tuple || len(t.Members) == 0 {
				continue
			}
			if t.Contains(refmodel.Unknown) || t.Contains(refmodel.Raw) {
				continue
			}
			// generic Object actions are exercised on the first stub only
			if u < 100 && sc.name != cases[0].name {
				continue
			}
			nmethods++
			vals := []*refmodel.Datum{enum.Dist(t), enum.Zero(t)}
			all := enum.Vals(t)
			if len(all) > 24 {
				all = all[:24]
			}
			vals = append(vals, all...)
			for _, d := range vals {
				nvals++
				enc, spans := refmodel.EncodeSpans(d)
				for k := 0; k < len(enc); k++ {
					out, det := deliver(sc, uint32(u), enc[:k])
					run.Eval(fam, 1)
					sp, _ := refmodel.SpanAt(spans, k)
					where := enum.FieldPath(d, sp.Path)
					if i := bytes.Index([]byte(where), []byte("<dyn>")); i >= 0 {
						where = where[:i+5]
					}
					where += ":" + sp.String()
					res := "refused"
					if out != "" {
						res = out
					}
					run.Distinct(fmt.Sprintf("stub|%s.%s|%s|%s", sc.name, m.Name, where, res))
					if out == "" {
						continue
					}
					scope := sc.name
					if u < 100 {
						scope = "Object"
					}
					k, u, sc := k, u, sc
					run.Violation(fmt.Sprintf("cut/stub/%s/%s.%s/%s", out, scope, m.Name, where), fmt.Sprintf("%06d|%06d", len(enc), k),
						fmt.Sprintf("stub %s, method %s%s (action %d): a Call carrying the first %d of the %d argument bytes %s: %s", sc.name, m.Name, m.ParametersSignature, u, k, len(enc), hexs(enc), det),
						map[string]interface{}{"decoder": "stub Receive", "stub": sc.name, "method": m.Name, "action": u, "parameters_signature": m.ParametersSignature,
							"arguments_hex": hexs(enc), "cut": k, "cut_in": where, "observed": det, "expected": "an error reply (or an error from Receive), no normal reply, implementation not invoked"},
						func() bool { o, _ := deliver(sc, uint32(u), enc[:k]); return o == out })
				}
			}
		}
	}
	run.Note("stub corpus: %d methods with arguments over 3 generated stubs (bus/logger) and the generic Object actions, %d argument tuples, each cut at every position", nmethods, nvals)
	run.Sample(12, map[string]interface{}{"family": "stub", "stub": "LogProvider", "method": "setCategory(s(i)<LogLevel,level>)",
		"arguments_hex": hexs(refmodel.Encode(enum.Dist(refmodel.MustParse("(s(i)<LogLevel,level>)"))))})
}
