package main

// Family "long-string": encodings whose LAST item is a long variable-length
// leaf (a string, or the raw buffer of a dynamic value), cut like every other
// encoding of the corpus.
//
// Val(T) stops at 255-byte strings, so nothing in the other families reaches
// a code path a decoder takes only from a certain announced length on (a
// pre-allocation limit, a chunked or streamed copy, a 16-bit counter). The
// lengths enumerated here sit around such plausible internal thresholds:
//
//	quick     65535, 65536, 65537 (2^16 -1/0/+1) and 70000
//	thorough  the same plus 4095, 4096, 4097 (2^12 -1/0/+1), 131073 and
//	          1048577 (2^20 + 1)
//
// The long leaf is the last item decoded (a cut inside it leaves nothing
// after it whose absence could reveal the truncation by accident) at every
// entry point that can end in one:
//
//	ReadString         basic.ReadString
//	sigreader          signature.Parse(sig).Reader().Read for s, (is), [s]
//	reflect-decode     encoding.NewDecoder(..).Decode(*T) for s, (is), [s]
//	newvalue           value.NewValue of a string value m<s>, a raw value
//	                   m<r> and an opaque composite m<(is)>
//	ReadMetaObject     object.ReadMetaObject, description (last field)
//	ReadServiceInfo    directory.ReadServiceInfo, objectUid (last field)
//	ReadCapabilityMap  bus.ReadCapabilityMap, {"k": m<s>}
//
// (no method of the three stubs driven by the stub family ends in a string
// whose acceptance could be observed: Object.registerEventWithSignature(IILs)
// answers every call with an error.)
//
// Cut positions (see longPlan): EVERY strict prefix 0 <= k < len(e) for the
// ReadString encodings (thorough: also sigreader s, reflect-decode s, newvalue
// m<s> and m<r>, i.e. every path that reads a long leaf, taken alone) with up
// to 70000 content bytes; the other encodings at the stated set {every
// k < c+16, every k >= len(e)-16, c + 256*j + {-1,0,1} for every j}, c being
// the offset of the first content byte; 131073 and 1048577 content bytes at
// the stated set with 4096*j. Each prefix is delivered in the three ways of
// the other families (fragmenting reader data+EOF, fragmenting reader EOF
// separate, *bytes.Buffer). Oracle: a strict prefix is refused with an error
// (no panic, no hang); the full encoding is accepted, consumed exactly (a
// sentinel follows it), and decodes to the original.
//
// A truncation that is not refused is attributed by experiment: the smallest
// content length m for which the same prefix length is still accepted is
// located by bisection (m-1 refused, m accepted) and named in the
// fingerprint: cut/<decoder>/<outcome>/long-string/n=<m>[/<delivery>].

import (
	"bytes"
	"fmt"
	"io"
	"reflect"
	"runtime/debug"
	"sort"
	"sync"
	"time"

	"github.com/lugu/qiloop/bus"
	"github.com/lugu/qiloop/bus/directory"
	"github.com/lugu/qiloop/type/basic"
	"github.com/lugu/qiloop/type/encoding"
	"github.com/lugu/qiloop/type/object"
	"github.com/lugu/qiloop/type/value"

	"verif/internal/enum"
	"verif/internal/enum/gobridge"
	"verif/internal/refmodel"
)

// longEvery is the largest content length cut at every position; longer
// leaves are cut at the stated set of positions.
const longEvery = 70000

var (
	longQuick    = []int{65535, 65536, 65537, 70000}
	longThorough = []int{4095, 4096, 4097, 65535, 65536, 65537, 70000, 131073, 1<<20 + 1}
)

// longContent is the content of a long leaf: printable, and neither 4096-
// nor 65536-periodic, so that a chunk copied to the wrong place or a
// wrapped counter changes the decoded value.
func longContent(n int) string {
	b := make([]byte, n)
	for i := range b {
		b[i] = byte(0x21 + (i+7*(i>>8)+13*(i>>12)+29*(i>>16))%94)
	}
	return string(b)
}

// longEntry is one entry point of the family.
type longEntry struct {
	decoder string // names the entry point in fingerprints
	shape   string // what is decoded
	// build returns the datum whose last item is a leaf holding content.
	build func(content string) *refmodel.Datum
	// decode runs the entry point; on success it returns a witness of what
	// was decoded: the content of the long leaf, or (wantEnc) the bytes the
	// decoded value serializes to, which must equal the encoding.
	decode  func(r io.Reader) (string, error)
	wantEnc bool
}

func (e longEntry) f() decodeFn {
	return func(r io.Reader) error { _, err := e.decode(r); return err }
}

func longLeaf(t *refmodel.Type, content string) *refmodel.Datum {
	if t.Kind == refmodel.Raw {
		return &refmodel.Datum{T: t, B: []byte(content)}
	}
	return &refmodel.Datum{T: t, S: content}
}

// withLastString returns a copy of d (the distinguished or zero value of a
// type whose last item is a string or a raw buffer) in which that last item
// holds content.
func withLastString(d *refmodel.Datum, content string) *refmodel.Datum {
	switch d.T.Kind {
	case refmodel.String, refmodel.Raw:
		return longLeaf(d.T, content)
	case refmodel.Value:
		c := *d
		c.Dyn = withLastString(d.Dyn, content)
		return &c
	}
	if len(d.Elems) == 0 {
		panic("long-string: " + d.T.String() + " has no last item")
	}
	c := *d
	c.Elems = append([]*refmodel.Datum(nil), d.Elems...)
	c.Elems[len(c.Elems)-1] = withLastString(d.Elems[len(d.Elems)-1], content)
	return &c
}

func longEntries() []longEntry {
	var out []longEntry
	typed := func(sig string) func(string) *refmodel.Datum {
		t := refmodel.MustParse(sig)
		return func(content string) *refmodel.Datum { return withLastString(enum.Dist(t), content) }
	}
	out = append(out, longEntry{decoder: "ReadString", shape: "s", build: typed("s"),
		decode: func(r io.Reader) (string, error) { return basic.ReadString(r) }})
	for _, sig := range []string{"s", "(is)", "[s]"} {
		sig := sig
		t := refmodel.MustParse(sig)
		out = append(out, longEntry{decoder: "sigreader", shape: sig, build: typed(sig), wantEnc: true,
			decode: func(r io.Reader) (string, error) {
				pt, err := repoParse(sig)
				if err != nil {
					return "", err
				}
				b, err := pt.Reader().Read(r)
				return string(b), err
			}})
		rt := gobridge.GoType(t)
		out = append(out, longEntry{decoder: "reflect-decode", shape: sig, build: typed(sig), wantEnc: true,
			decode: func(r io.Reader) (string, error) {
				p := reflect.New(rt)
				if err := encoding.NewDecoder(encoding.DefaultCap(), r).Decode(p.Interface()); err != nil {
					return "", err
				}
				back, err := gobridge.FromGo(p.Elem(), t)
				if err != nil {
					return "cannot read the decoded value back: " + err.Error(), nil
				}
				return string(refmodel.Encode(back)), nil
			}})
	}
	mT := refmodel.Atom('m')
	for _, sig := range []string{"s", "r", "(is)"} {
		t := refmodel.MustParse(sig)
		out = append(out, longEntry{decoder: "newvalue", shape: "m<" + sig + ">", wantEnc: true,
			build: func(content string) *refmodel.Datum {
				return &refmodel.Datum{T: mT, Dyn: withLastString(enum.Dist(t), content)}
			},
			decode: func(r io.Reader) (string, error) {
				v, err := value.NewValue(r)
				if err != nil {
					return "", err
				}
				var buf bytes.Buffer
				if err := v.Write(&buf); err != nil {
					return "cannot write the decoded value: " + err.Error(), nil
				}
				return buf.String(), nil
			}})
	}
	out = append(out, longEntry{decoder: "ReadMetaObject", shape: "MetaObject.description",
		build: func(content string) *refmodel.Datum {
			return withLastString(enum.Zero(refmodel.MustParse(refmodel.MetaObjectSig)), content)
		},
		decode: func(r io.Reader) (string, error) { m, err := object.ReadMetaObject(r); return m.Description, err }})
	out = append(out, longEntry{decoder: "ReadServiceInfo", shape: "ServiceInfo.objectUid",
		build: func(content string) *refmodel.Datum {
			return withLastString(enum.Dist(refmodel.MustParse(serviceInfoSig)), content)
		},
		decode: func(r io.Reader) (string, error) { s, err := directory.ReadServiceInfo(r); return s.ObjectUid, err }})
	capT := refmodel.MustParse("{sm}")
	out = append(out, longEntry{decoder: "ReadCapabilityMap", shape: "{\"k\": m<s>}",
		build: func(content string) *refmodel.Datum {
			return &refmodel.Datum{T: capT, Elems: []*refmodel.Datum{
				{T: refmodel.Atom('s'), S: "k"},
				{T: mT, Dyn: &refmodel.Datum{T: refmodel.Atom('s'), S: content}}}}
		},
		decode: func(r io.Reader) (string, error) {
			m, err := bus.ReadCapabilityMap(r)
			if err != nil {
				return "", err
			}
			s, ok := m["k"].(value.StringValue)
			if !ok || len(m) != 1 {
				return fmt.Sprintf("not the one-entry map: %d entries, m[\"k\"] is a %T", len(m), m["k"]), nil
			}
			return s.Value(), nil
		}})
	return out
}

// longCuts returns the cut positions of an encoding of length n whose long
// leaf (content bytes of content) has its first content byte at offset c:
// every position when every is set, else the stated set
//
//	every k < c+16            (all that precedes the leaf, its length, the
//	                           first 16 content bytes)
//	every k >= n-16           (the last 16 content bytes)
//	c + stride*j + {-1,0,+1}  for every j >= 0 (in range)
func longCuts(n, c, stride int, every bool) []int {
	var cuts []int
	if every {
		cuts = make([]int, n)
		for k := range cuts {
			cuts[k] = k
		}
		return cuts
	}
	seen := map[int]bool{}
	add := func(k int) {
		if k >= 0 && k < n && !seen[k] {
			seen[k] = true
			cuts = append(cuts, k)
		}
	}
	for k := 0; k < c+16; k++ {
		add(k)
	}
	for k := n - 16; k < n; k++ {
		add(k)
	}
	for j := 0; c+stride*j-1 < n; j++ {
		add(c + stride*j - 1)
		add(c + stride*j)
		add(c + stride*j + 1)
	}
	sort.Ints(cuts)
	return cuts
}

// longPlan says how an encoding is cut. Content lengths above longEvery
// (thorough tier) are cut at the stated set with a stride of 4096. Up to
// longEvery an encoding is cut at every position
//
//	quick     for the decoder ReadString (the primitive every other entry
//	          point reads its strings with)
//	thorough  for the five entry points that read a long leaf and nothing
//	          else, one per distinct reading path: ReadString, sigreader s,
//	          reflect-decode s, newvalue m<s>, newvalue m<r>
//
// and at the stated set with a stride of 256 otherwise (a decode of a prefix
// of a 70000-byte string costs a 70000-byte allocation; every position of
// every entry point and length would be 11 million such decodes, two minutes
// on a loaded machine).
func longPlan(e longEntry, content int, thorough bool) (every bool, stride int) {
	if content > longEvery {
		return false, 4096
	}
	alone := e.shape == "s" || e.shape == "m<s>" || e.shape == "m<r>"
	if e.decoder == "ReadString" || (thorough && alone) {
		return true, 0
	}
	return false, 256
}

// longZone names the part of the encoding that holds the first missing byte.
func longZone(k, c, n int) string {
	switch {
	case k < c-4:
		return "before-the-leaf"
	case k < c:
		return "length"
	case k < c+16:
		return "content-first-16"
	case k >= n-16:
		return "content-last-16"
	}
	return "content-middle"
}

type longCase struct {
	e       longEntry
	content int
	enc     []byte
	c       int // offset of the first content byte
	want    string
}

func newLongCase(e longEntry, content int) longCase {
	s := longContent(content)
	enc := refmodel.Encode(e.build(s))
	lc := longCase{e: e, content: content, enc: enc, c: len(enc) - content, want: s}
	if e.wantEnc {
		lc.want = string(enc)
	}
	return lc
}

// fullDelivery says how the full encoding reaches the decoder.
type fullDelivery struct {
	name  string
	mode  enum.EOFMode
	chunk int
	buf   bool
}

var fullDeliveries = []fullDelivery{
	{"more-follows/unfragmented", enum.NoEOF, 0, false},
	{"more-follows/4093-byte-reads", enum.NoEOF, 4093, false},
	{"data+EOF/unfragmented", enum.EOFWithData, 0, false},
	{"EOF-separate/unfragmented", enum.EOFSeparate, 0, false},
	{"bytes.Buffer/more-follows", 0, 0, true},
}

// longFull is the clause on the full encoding (followed by a sentinel in
// the more-follows deliveries); it returns "" or the violated clause.
func longFull(lc longCase, dl fullDelivery) (string, string) {
	var r io.Reader
	var fr *enum.FragReader
	var bb *bytes.Buffer
	if dl.buf {
		bb = bytes.NewBuffer(append(append([]byte(nil), lc.enc...), enum.Sentinel...))
		r = bb
	} else {
		fr = enum.NewFragReader(lc.enc, nil, dl.mode, dl.chunk)
		r = fr
	}
	var got string
	out, det := outcome(func(r io.Reader) error { var err error; got, err = lc.e.decode(r); return err }, r)
	switch out {
	case "panic":
		return "panic", det
	case "":
		return "error", det
	}
	taken := 0
	if dl.buf {
		taken = len(lc.enc) + len(enum.Sentinel) - bb.Len()
	} else {
		taken = fr.Pos()
	}
	if taken != len(lc.enc) {
		return "consumed-wrong", fmt.Sprintf("took %d of the %d bytes", taken, len(lc.enc))
	}
	if got != lc.want {
		i := 0
		for i < len(got) && i < len(lc.want) && got[i] == lc.want[i] {
			i++
		}
		return "value-differs", fmt.Sprintf("decoded %d bytes where %d were encoded; the first difference is at offset %d", len(got), len(lc.want), i)
	}
	return "", ""
}

// longFiled remembers the fingerprint under which a truncation that was not
// refused has been filed, per (entry point, content length, delivery, zone of
// the cut, outcome): a decoder that forgives a short read does so at tens of
// thousands of cut positions, and the attribution (a bisection over the
// content length) is made once per such class; the other cuts of the class
// are counted under the same fingerprint.
var longFiled sync.Map

// fileLong attributes and records one truncation that was not refused.
func fileLong(lc longCase, k int, dl delivery, out string) {
	e := lc.e
	memo := fmt.Sprintf("%s|%s|%d|%s|%s|%s", e.decoder, e.shape, lc.content, dl, longZone(k, lc.c, len(lc.enc)), out)
	if fp, ok := longFiled.Load(memo); ok {
		run.Fail(fp.(string), "\xff")
		return
	}
	accepted := func(x longCase, kk int, d delivery) (string, string) {
		if kk >= len(x.enc) {
			kk = len(x.enc) - 1
		}
		return outcome(e.f(), d.reader(x.enc[:kk]))
	}
	fails := func(m int) bool {
		o, _ := accepted(newLongCase(e, m), k, dl)
		return o != ""
	}
	// smallest content length for which the same prefix length is accepted
	min, reduced := lc.content, false
	if !fails(0) {
		lo, hi := 0, lc.content
		for hi-lo > 1 {
			mid := (lo + hi) / 2
			if fails(mid) {
				hi = mid
			} else {
				lo = mid
			}
		}
		if fails(hi) && !fails(hi-1) {
			min, reduced = hi, true
		}
	} else {
		min, reduced = 0, true
	}
	mc := newLongCase(e, min)
	cut := k
	if cut >= len(mc.enc) {
		cut = len(mc.enc) - 1
	}
	res, det := accepted(mc, cut, dl)
	if res == "" {
		run.Unstable(fmt.Sprintf("cut/%s/accepted/long-string", e.decoder), fmt.Sprintf("%s %s with %d content bytes: a strict prefix (cut at %d) was accepted during the enumeration but refused when the case was re-run", e.decoder, e.shape, lc.content, k), map[string]interface{}{"decoder": e.decoder, "shape": e.shape, "content": lc.content, "cut": k})
		return
	}
	suffix := ""
	if dl.buf {
		if onlyBuffer(e.f(), mc.enc[:cut]) {
			suffix = bufferSuffix
		}
	} else {
		other := delivery{mode: enum.EOFSeparate}
		if dl.mode == enum.EOFSeparate {
			other = delivery{mode: enum.EOFWithData}
		}
		if o, _ := accepted(mc, cut, other); o == "" {
			suffix = "/" + dl.mode.String()
		}
	}
	detail := fmt.Sprintf("n=%d", min)
	if !reduced {
		detail += "/unreduced"
	}
	fp := fmt.Sprintf("cut/%s/%s/long-string/%s%s", e.decoder, res, detail, suffix)
	longFiled.Store(memo, fp)
	rank := fmt.Sprintf("%08d|%08d|%s", len(mc.enc), cut, e.shape)
	if run.Fail(fp, rank) {
		run.Keep(fp, rank, fmt.Sprintf("%s of %s whose last item holds %d bytes (encoding of %d bytes %s, content = longContent(%d), first content byte at offset %d) over the first %d bytes delivered as %s: %s; with %d content bytes the same prefix length is refused",
			e.decoder, e.shape, min, len(mc.enc), hexs(mc.enc), min, mc.c, cut, dl, det, min-1),
			map[string]interface{}{"decoder": e.decoder, "shape": e.shape, "content_bytes": min, "content_bytes_refused": min - 1,
				"content_rule": "byte i = 0x21 + (i + 7*(i>>8) + 13*(i>>12) + 29*(i>>16)) % 94",
				"encoding_hex": hexs(mc.enc), "encoding_length": len(mc.enc), "content_offset": mc.c, "cut": cut,
				"eof_mode": dl.String(), "reader": dl.readerType(), "observed": det, "expected": "a non-nil error",
				"found_in": fmt.Sprintf("%d content bytes cut at %d", lc.content, k)},
			func() bool { o, _ := accepted(newLongCase(e, min), cut, dl); return o == res })
	}
}

func familyLongStrings(thorough bool) {
	fam := run.Family("long-string")
	started := time.Now()
	// every decode of a prefix allocates the announced length: with the
	// default pacing the collector would run every few dozen decodes
	oldGC, oldLimit := debug.SetGCPercent(-1), debug.SetMemoryLimit(1<<30)
	defer func() { debug.SetGCPercent(oldGC); debug.SetMemoryLimit(oldLimit) }()
	lengths := longQuick
	if thorough {
		lengths = longThorough
	}
	entries := longEntries()
	var cases []longCase
	for _, e := range entries {
		for _, n := range lengths {
			cases = append(cases, newLongCase(e, n))
		}
	}
	// self-check of the construction: the long leaf ends the encoding and the
	// reference model reads it back
	for _, lc := range cases {
		d := lc.e.build(longContent(lc.content))
		back, n, err := refmodel.Decode(d.T, lc.enc)
		if err != nil || n != len(lc.enc) || !bytes.Equal(refmodel.Encode(back), lc.enc) ||
			string(lc.enc[lc.c:]) != longContent(lc.content) || lc.c < 4 ||
			int(lc.enc[lc.c-4])|int(lc.enc[lc.c-3])<<8|int(lc.enc[lc.c-2])<<16|int(lc.enc[lc.c-1])<<24 != lc.content {
			run.EngineError("long-string: %s %s with %d content bytes is not built as intended: %v", lc.e.decoder, lc.e.shape, lc.content, err)
			return
		}
	}
	// work items: a range of cut positions of one case
	type item struct {
		ci   int
		cuts []int
		full bool
	}
	const chunk = 1024
	var items []item
	ncuts, nevery := 0, 0
	stated := map[string]int{}
	for ci, lc := range cases {
		items = append(items, item{ci: ci, full: true})
		every, stride := longPlan(lc.e, lc.content, thorough)
		cuts := longCuts(len(lc.enc), lc.c, stride, every)
		ncuts += len(cuts)
		if every {
			nevery++
		} else {
			stated[fmt.Sprintf("n=%d/stride=%d", lc.content, stride)] = len(cuts) - lc.c
		}
		for i := 0; i < len(cuts); i += chunk {
			j := i + chunk
			if j > len(cuts) {
				j = len(cuts)
			}
			items = append(items, item{ci: ci, cuts: cuts[i:j]})
		}
	}
	guards := make(chan *enum.Guard, run.Workers+1)
	for i := 0; i <= run.Workers; i++ {
		guards <- run.NewGuard()
	}
	done, all := run.Parallel(len(items), func(i int) {
		g := <-guards
		defer func() { guards <- g }()
		it := items[i]
		lc := cases[it.ci]
		e := lc.e
		f := e.f()
		local := map[string]int{}
		tag := fmt.Sprintf("long-string|%s|%s|n=%d|", e.decoder, e.shape, lc.content)
		if it.full {
			for _, dl := range fullDeliveries {
				dl := dl
				g.Begin("full/"+e.decoder+"/hang/long-string", func() (string, interface{}) {
					return fmt.Sprintf("%s of %s over the full encoding with %d content bytes", e.decoder, e.shape, lc.content),
						map[string]interface{}{"decoder": e.decoder, "shape": e.shape, "content_bytes": lc.content}
				}, func() { longFull(lc, dl) })
				clause, det := longFull(lc, dl)
				g.End()
				run.Eval(fam, 1)
				if clause == "" {
					local[tag+"full|accepted-and-equal"]++
					continue
				}
				local[tag+"full|"+clause]++
				fp := fmt.Sprintf("full/%s/%s/long-string/n=%d", e.decoder, clause, lc.content)
				run.Violation(fp, fmt.Sprintf("%08d|%s", len(lc.enc), e.shape),
					fmt.Sprintf("%s of %s over the FULL valid encoding (%d bytes %s, last item of %d content bytes) delivered as %s: %s", e.decoder, e.shape, len(lc.enc), hexs(lc.enc), lc.content, dl.name, det),
					map[string]interface{}{"decoder": e.decoder, "shape": e.shape, "content_bytes": lc.content, "encoding_hex": hexs(lc.enc), "delivery": dl.name, "clause": clause, "observed": det},
					func() bool { c, _ := longFull(lc, dl); return c == clause })
				break
			}
			run.DistinctSet(local)
			return
		}
		rd := enum.NewFragReader(nil, nil, 0, 0)
		for _, k := range it.cuts {
			zone := longZone(k, lc.c, len(lc.enc))
			for _, dl := range deliveries {
				k, dl := k, dl
				g.Begin("cut/"+e.decoder+"/hang/long-string", func() (string, interface{}) {
					return fmt.Sprintf("%s of %s over the first %d of the %d bytes (last item of %d content bytes)", e.decoder, e.shape, k, len(lc.enc), lc.content),
						map[string]interface{}{"decoder": e.decoder, "shape": e.shape, "content_bytes": lc.content, "cut": k}
				}, func() { outcome(f, dl.reader(lc.enc[:k])) })
				var r io.Reader = rd
				if dl.buf {
					r = dl.reader(lc.enc[:k])
				} else {
					rd.Reset(lc.enc[:k], nil, dl.mode, 0)
				}
				out, _ := outcome(f, r)
				g.End()
				run.Eval(fam, 1)
				if out == "" {
					local[tag+zone+"|refused"]++
					continue
				}
				local[tag+zone+"|"+out]++
				fileLong(lc, k, dl, out)
				break
			}
		}
		run.DistinctSet(local)
	})
	if !all {
		run.Note("long-string: %d of %d work items completed before the deadline", done, len(items))
	}
	how := fmt.Sprintf("%d encodings cut at every position", nevery)
	if len(stated) > 0 {
		how += fmt.Sprintf("; %d encodings cut at the stated set {every k < c+16, every k >= len-16, c + stride*j + {-1,0,+1} for every j}, c = offset of the first content byte: %v cuts per encoding (+c) by content length and stride", len(cases)-nevery, stated)
	}
	run.Note("long-string corpus: %d entry points x content lengths %v = %d encodings, %d cut positions (%s), each under 3 deliveries, plus the full encoding of each under 5 deliveries (a sentinel follows: unfragmented / 4093-byte reads / *bytes.Buffer; data+EOF; EOF separate); %.1f s", len(entries), lengths, len(cases), ncuts, how, time.Since(started).Seconds())
	lc := cases[len(lengths)-1]
	if len(lc.enc) > 0 {
		run.Sample(12, map[string]interface{}{"family": "long-string", "decoder": lc.e.decoder, "shape": lc.e.shape, "content_bytes": lc.content,
			"encoding_hex": hexs(lc.enc)})
	}
}
