// C08 - A truncated encoding is never accepted.
//
// For every valid encoding e of the corpus and EVERY cut position
// 0 <= k < len(e), the decoder is run over e[:k] and must return an error
// (DESIGN.md section 3, C08). Corpus and decoders:
//
//	message         net.Message.Read over messages (8 types x payload
//	                lengths 0,1,5,40)
//	newvalue        value.NewValue over: every constructor x Val(T); value
//	                lists of depth <= 2; opaque composites of Sig(D,2)
//	sigreader       signature.Parse(sig).Reader().Read over Sig(D,2) x Val
//	reflect-decode  encoding.NewDecoder(..).Decode(*T) over Sig(D,2) x Val
//	stub            generated argument decoders reached through Receive of the
//	                LogManager/LogProvider/LogListener stubs and the generic
//	                Object actions, with a recording channel (see stubs.go)
//	fixed           object.ReadMetaObject, object.ReadObjectReference,
//	                directory.ReadServiceInfo, bus.ReadCapabilityMap over
//	                boundary values of their types and the real meta-objects
//	long-string     encodings whose last item is a string (or raw buffer) of
//	                65535, 65536, 65537, 70000 bytes (thorough: also 4095,
//	                4096, 4097, 131073, 2^20+1) at every entry point that can
//	                end in one (basic.ReadString, sigreader, reflect-decode,
//	                newvalue, ReadMetaObject, ReadServiceInfo,
//	                ReadCapabilityMap); cut positions and the additional
//	                clause on the full encoding: see longstr.go
//
// Every prefix reaches the decoder under test through the fragmenting reader
// of internal/enum (end-of-stream modes data+EOF and EOF separate) AND as a
// *bytes.Buffer (bytes.NewBuffer(prefix)): production code decodes payloads
// from a *bytes.Buffer, and a decoder may take another path for that dynamic
// type. A truncation that is accepted through the *bytes.Buffer only carries
// the suffix /reader=bytes.Buffer in its fingerprint. The stub family hands
// the prefix as a message payload; the generated code wraps it in a
// *bytes.Buffer itself.
//
// The encodings come from the reference model (internal/refmodel).
package main

import (
	"bytes"
	"encoding/hex"
	"fmt"
	"io"
	"os"
	"reflect"
	"strings"
	"sync"
	"time"

	"github.com/lugu/qiloop/bus"
	"github.com/lugu/qiloop/bus/directory"
	"github.com/lugu/qiloop/bus/net"
	"github.com/lugu/qiloop/meta/signature"
	"github.com/lugu/qiloop/type/encoding"
	"github.com/lugu/qiloop/type/object"
	"github.com/lugu/qiloop/type/value"

	"verif/internal/enum"
	"verif/internal/enum/gobridge"
	"verif/internal/refmodel"
)

var run *enum.Run

func hexs(b []byte) string {
	if len(b) > 96 {
		return hex.EncodeToString(b[:96]) + fmt.Sprintf("...(%d bytes)", len(b))
	}
	return hex.EncodeToString(b)
}

var parsed sync.Map

type parseResult struct {
	t   signature.Type
	err error
}

func repoParse(sig string) (signature.Type, error) {
	if v, ok := parsed.Load(sig); ok {
		p := v.(parseResult)
		return p.t, p.err
	}
	var p parseResult
	func() {
		defer func() {
			if r := recover(); r != nil {
				p.err = fmt.Errorf("panic: %v", r)
			}
		}()
		p.t, p.err = signature.Parse(sig)
	}()
	parsed.Store(sig, p)
	return p.t, p.err
}

// a decoder runs over a reader and says how it ended: "" = error returned
// (what the property demands), "accepted", "panic".
type decodeFn func(r io.Reader) error

func outcome(f decodeFn, r io.Reader) (out string, detail string) {
	defer func() {
		if x := recover(); x != nil {
			out, detail = "panic", fmt.Sprint(x)
		}
	}()
	if err := f(r); err != nil {
		return "", err.Error()
	}
	return "accepted", "the decoder returned a nil error"
}

var modes = []enum.EOFMode{enum.EOFWithData, enum.EOFSeparate}

// delivery says how a prefix is handed to the decoder: through the
// fragmenting reader under an end-of-stream mode, or as a *bytes.Buffer.
type delivery struct {
	mode enum.EOFMode
	buf  bool
}

var (
	viaBuffer = delivery{buf: true}
	// the deliveries in the order they are tried: the *bytes.Buffer comes
	// last, so it is reached for a cut only when the fragmenting reader's
	// modes before it were refused
	deliveries   = []delivery{{mode: enum.EOFWithData}, {mode: enum.EOFSeparate}, viaBuffer}
	deliveriesWB = []delivery{{mode: enum.EOFWithData}, viaBuffer}
)

const bufferSuffix = "/reader=bytes.Buffer"

func (d delivery) String() string {
	if d.buf {
		return "bytes.Buffer"
	}
	return d.mode.String()
}

func (d delivery) readerType() string {
	if d.buf {
		return "*bytes.Buffer (bytes.NewBuffer(prefix))"
	}
	return "*enum.FragReader"
}

// reader builds a fresh reader over the prefix. The capacity of the slice
// given to the buffer is clipped so that nothing can reach the bytes cut off.
func (d delivery) reader(prefix []byte) io.Reader {
	if d.buf {
		return bytes.NewBuffer(prefix[:len(prefix):len(prefix)])
	}
	return enum.NewFragReader(prefix, nil, d.mode, 0)
}

// onlyBuffer says whether the prefix, not refused through a *bytes.Buffer, is
// refused under both end-of-stream modes of the fragmenting reader.
func onlyBuffer(f decodeFn, prefix []byte) bool {
	for _, m := range modes {
		if o, _ := outcome(f, enum.NewFragReader(prefix, nil, m, 0)); o != "" {
			return false
		}
	}
	return true
}

// typedDecoder is an entry point able to decode a datum of any type taken
// alone: given the datum it returns the full encoding, the offset of the
// datum's own bytes in it, and the decode function.
type typedDecoder struct {
	name string
	prep func(d *refmodel.Datum) (enc []byte, off int, f decodeFn, ok bool)
}

var sigreaderDec = typedDecoder{"sigreader", func(d *refmodel.Datum) ([]byte, int, decodeFn, bool) {
	pt, err := repoParse(d.T.String())
	if err != nil {
		return nil, 0, nil, false
	}
	return refmodel.Encode(d), 0, func(r io.Reader) error { _, e := pt.Reader().Read(r); return e }, true
}}

var reflectDec = typedDecoder{"reflect-decode", func(d *refmodel.Datum) ([]byte, int, decodeFn, bool) {
	rt := gobridge.GoType(d.T)
	return refmodel.Encode(d), 0, func(r io.Reader) error {
		return encoding.NewDecoder(encoding.DefaultCap(), r).Decode(reflect.New(rt).Interface())
	}, true
}}

// newvalueDec decodes the datum carried as a dynamic value: signature string
// then the data (a datum that already is an 'm' is decoded as is).
var newvalueDec = typedDecoder{"newvalue", func(d *refmodel.Datum) ([]byte, int, decodeFn, bool) {
	f := func(r io.Reader) error { _, e := value.NewValue(r); return e }
	if d.T.Kind == refmodel.Value {
		return refmodel.Encode(d), 0, f, true
	}
	return refmodel.EncodeValue(d), 4 + len(d.T.String()), f, true
}}

// consumedOnFull runs the decoder over the whole encoding followed by a
// sentinel and returns how many bytes it took and whether it succeeded.
func consumedOnFull(enc []byte, f decodeFn) (int, bool) {
	rd := enum.NewFragReader(enc, nil, enum.NoEOF, 0)
	out, _ := outcome(f, rd)
	return rd.Pos(), out == "accepted"
}

// wrongOnFull says whether the decoder already mishandles the FULL valid
// encoding of d (error, panic, or a consumption different from its length).
// Such a decoder is out of step with the format - what it does with a prefix
// is then a consequence, not a separate defect.
func wrongOnFull(dec typedDecoder, d *refmodel.Datum) bool {
	enc, _, f, ok := dec.prep(d)
	if !ok {
		return false
	}
	n, good := consumedOnFull(enc, f)
	return !good || n != len(enc)
}

// cutAll runs the decoder over every strict prefix of the encoding of d and
// files the ones that are not refused. When the decoder is already wrong on
// the full encoding (it skips or misreads an element, so it never looks at
// the missing bytes or is out of step with them) the datum is filed once
// under "wrong-on-full", attributed to the atom kinds that cause it.
func cutAll(dec typedDecoder, d *refmodel.Datum, fam *int64, dls []delivery, g *enum.Guard, classes map[string]bool) {
	enc, off, f, ok := dec.prep(d)
	if !ok {
		run.EngineError("%s: cannot prepare %s", dec.name, d.T)
		return
	}
	_, spans := refmodel.EncodeSpans(d)
	rd := enum.NewFragReader(nil, nil, 0, 0)
	wrong := wrongOnFull(dec, d)
	filedWrong := false
	for k := 0; k < len(enc); k++ {
		for _, dl := range dls {
			k, dl := k, dl
			if g != nil {
				g.Begin("cut/"+dec.name+"/hang", func() (string, interface{}) {
					return fmt.Sprintf("%s over the first %d of the %d bytes %s (signature %q)", dec.name, k, len(enc), hexs(enc), d.T),
						map[string]interface{}{"decoder": dec.name, "signature": d.T.String(), "encoding_hex": hexs(enc), "cut": k}
				}, func() { outcome(f, dl.reader(enc[:k])) })
			}
			var r io.Reader = rd
			if dl.buf {
				r = dl.reader(enc[:k])
			} else {
				rd.Reset(enc[:k], nil, dl.mode, 0)
			}
			out, _ := outcome(f, r)
			if g != nil {
				g.End()
			}
			run.Eval(fam, 1)
			part := "value-header"
			if k >= off {
				if sp, ok := refmodel.SpanAt(spans, k-off); ok {
					part = sp.String()
				}
			}
			if out == "" {
				classes[part+"|refused"] = true
				continue
			}
			if wrong {
				classes[part+"|"+out+"-decoder-wrong-on-full"] = true
				if !filedWrong {
					filedWrong = true
					fileWrong(dec, d, k, dl)
				}
				break
			}
			classes[part+"|"+out] = true
			fileCut(dec, d, k, off, dl)
			break
		}
	}
}

// fileWrong records a decoder that mishandles a full valid encoding and, as
// a consequence, does not refuse some prefix of it.
func fileWrong(dec typedDecoder, d *refmodel.Datum, k int, dl delivery) {
	detail, min := enum.Blame(d, func(x *refmodel.Datum) bool { return wrongOnFull(dec, x) }, nil)
	menc, _, mf, _ := dec.prep(min)
	c, good := consumedOnFull(menc, mf)
	// a prefix of the reduced case that is not refused, if any
	cut, out := -1, ""
	for kk := 0; kk < len(menc) && cut < 0; kk++ {
		if o, _ := outcome(mf, dl.reader(menc[:kk])); o != "" {
			cut, out = kk, o
		}
	}
	if cut < 0 {
		// the reduced case refuses all its prefixes: keep the original one
		min, menc, mf, cut = d, nil, nil, k
		menc, _, mf, _ = dec.prep(d)
		c, good = consumedOnFull(menc, mf)
		out, _ = outcome(mf, dl.reader(menc[:cut]))
		detail += "/unreduced"
	}
	fp := fmt.Sprintf("cut/%s/%s/wrong-on-full/%s", dec.name, out, detail)
	if dl.buf && onlyBuffer(mf, menc[:cut]) {
		fp += bufferSuffix
	}
	rank := fmt.Sprintf("%06d|%06d|%s", len(menc), cut, min.T)
	if run.Fail(fp, rank) {
		how := fmt.Sprintf("takes %d of the %d bytes", c, len(menc))
		if !good {
			how = "fails on the"
		}
		cutc, outc := cut, out
		run.Keep(fp, rank, fmt.Sprintf("%s %s full valid encoding %s (signature %q, value %s); as a consequence its %d-byte prefix is not refused (%s)", dec.name, how, hexs(menc), min.T, min, cut, out),
			map[string]interface{}{"decoder": dec.name, "signature": min.T.String(), "value": min.String(), "encoding_hex": hexs(menc), "cut": cut,
				"prefix_hex": hexs(menc[:cut]), "eof_mode": dl.String(), "reader": dl.readerType(), "consumed_on_full": c, "expected": "a non-nil error", "found_in": fmt.Sprintf("%s %s", d.T, d)},
			func() bool {
				res, _ := outcome(mf, dl.reader(menc[:cutc]))
				return res == outc
			})
	}
}

// fileCut attributes and records one truncation that was not refused by a
// decoder that handles the full encoding correctly.
func fileCut(dec typedDecoder, d *refmodel.Datum, k, off int, dl delivery) {
	bad := func(x *refmodel.Datum, kk int) bool {
		enc, o, f, ok := dec.prep(x)
		if !ok || o+kk >= len(enc) || kk < 0 {
			return false
		}
		res, _ := outcome(f, dl.reader(enc[:o+kk]))
		return res != ""
	}
	var detail string
	min, mk := d, k-off
	if k < off {
		detail = "leaf=value-header"
	} else {
		detail, min, mk = enum.BlameCut(d, k-off, bad, nil)
	}
	if wrongOnFull(dec, min) {
		fileWrong(dec, min, mk, dl)
		return
	}
	menc, moff, mf, _ := dec.prep(min)
	cut := moff + mk
	out, det := outcome(mf, dl.reader(menc[:cut]))
	if out == "" {
		// the prefix WAS accepted a moment ago: the decoder's answer depends
		// on what it was given before (a detection, not a tool failure)
		run.Unstable(fmt.Sprintf("cut/%s/accepted", dec.name), fmt.Sprintf("%s: a strict prefix (cut at %d) of the encoding of %s %s was accepted during the enumeration but refused when the reduced case was re-run", dec.name, k, d.T, d), map[string]interface{}{"type": fmt.Sprint(d.T), "datum": fmt.Sprint(d), "cut": k})
		return
	}
	// does the way the prefix is delivered matter? A *bytes.Buffer: is the
	// prefix refused through the fragmenting reader (both modes)? The
	// fragmenting reader: is it refused under the other end-of-stream mode?
	suffix := ""
	if dl.buf {
		if onlyBuffer(mf, menc[:cut]) {
			suffix = bufferSuffix
		}
	} else {
		other := enum.EOFSeparate
		if dl.mode == enum.EOFSeparate {
			other = enum.EOFWithData
		}
		if res, _ := outcome(mf, enum.NewFragReader(menc[:cut], nil, other, 0)); res == "" {
			suffix = "/" + dl.mode.String()
		}
	}
	fp := fmt.Sprintf("cut/%s/%s/%s%s", dec.name, out, detail, suffix)
	rank := fmt.Sprintf("%06d|%06d|%s", len(menc), cut, min.T)
	if run.Fail(fp, rank) {
		run.Keep(fp, rank, fmt.Sprintf("%s over the first %d of the %d bytes %s (signature %q, value %s) delivered as %s: %s", dec.name, cut, len(menc), hexs(menc), min.T, min, dl, det),
			map[string]interface{}{"decoder": dec.name, "signature": min.T.String(), "value": min.String(), "encoding_hex": hexs(menc), "cut": cut,
				"prefix_hex": hexs(menc[:cut]), "eof_mode": dl.String(), "reader": dl.readerType(), "observed": det, "expected": "a non-nil error",
				"found_in": fmt.Sprintf("%s %s cut at %d", d.T, d, k)},
			func() bool {
				res, _ := outcome(mf, dl.reader(menc[:cut]))
				return res == out
			})
	}
}

// ------------------------------------------------------------- messages

func familyMessages() {
	fam := run.Family("message")
	f := func(r io.Reader) error { var m net.Message; return m.Read(r) }
	rd := enum.NewFragReader(nil, nil, 0, 0)
	for typ := uint8(1); typ <= 8; typ++ {
		for _, n := range []int{0, 1, 5, 40} {
			p := make([]byte, n)
			for i := range p {
				p[i] = byte(31*i + 7)
			}
			enc := refmodel.EncodeMessage(refmodel.Header{ID: 0x01020304, Type: typ, Flags: typ & 1, Service: 0x05060708, Object: 0x090a0b0c, Action: 0x0d0e0f10}, p)
			for k := 0; k < len(enc); k++ {
				zone := "header"
				if k >= 28 {
					zone = "payload"
				}
				refusedByFrag := true
				for _, mode := range modes {
					for _, chunk := range []int{0, 1} {
						rd.Reset(enc[:k], nil, mode, chunk)
						out, det := outcome(f, rd)
						run.Eval(fam, 1)
						run.Distinct(fmt.Sprintf("message|%s|%s|%s", zone, mode, map[string]string{"": "refused", "accepted": "accepted", "panic": "panic"}[out]))
						if out != "" {
							refusedByFrag = false
							k, mode, chunk := k, mode, chunk
							run.Violation(fmt.Sprintf("cut/message/%s/%s", out, zone), fmt.Sprintf("%06d|%06d", len(enc), k),
								fmt.Sprintf("net.Message.Read over the first %d of the %d bytes %s: %s", k, len(enc), hexs(enc), det),
								map[string]interface{}{"decoder": "net.Message.Read", "encoding_hex": hexs(enc), "cut": k, "eof_mode": mode.String(), "chunk": chunk},
								func() bool { o, _ := outcome(f, enum.NewFragReader(enc[:k], nil, mode, chunk)); return o == out })
						}
					}
				}
				// the same prefix as a *bytes.Buffer
				out, det := outcome(f, viaBuffer.reader(enc[:k]))
				run.Eval(fam, 1)
				run.Distinct(fmt.Sprintf("message|%s|%s|%s", zone, viaBuffer, map[string]string{"": "refused", "accepted": "accepted", "panic": "panic"}[out]))
				if out != "" {
					k := k
					fp := fmt.Sprintf("cut/message/%s/%s", out, zone)
					if refusedByFrag {
						fp += bufferSuffix
					}
					run.Violation(fp, fmt.Sprintf("%06d|%06d", len(enc), k),
						fmt.Sprintf("net.Message.Read over the first %d of the %d bytes %s delivered as a *bytes.Buffer: %s", k, len(enc), hexs(enc), det),
						map[string]interface{}{"decoder": "net.Message.Read", "encoding_hex": hexs(enc), "cut": k, "eof_mode": viaBuffer.String(), "reader": viaBuffer.readerType()},
						func() bool { o, _ := outcome(f, viaBuffer.reader(enc[:k])); return o == out })
				}
			}
		}
	}
	run.Sample(12, map[string]interface{}{"family": "message", "cuts": "every k in [0, 28+len) for 8 types x payload 0,1,5,40", "deliveries": "2 end-of-stream modes x {unfragmented, 1 byte per read}, *bytes.Buffer"})
}

// ------------------------------------------------------------- values

func valueLists() []*refmodel.Datum {
	mT := refmodel.Atom('m')
	wrap := func(d *refmodel.Datum) *refmodel.Datum { return &refmodel.Datum{T: mT, Dyn: d} }
	var base []*refmodel.Datum
	for _, s := range []string{"i", "s", "b", "C", "v", "r", "f", "[i]", "(si)", "{sI}", "(m)"} {
		base = append(base, wrap(enum.Dist(refmodel.MustParse(s))))
	}
	lt := refmodel.MustParse("[m]")
	var prev, out []*refmodel.Datum
	for depth := 1; depth <= 2; depth++ {
		children := append(append([]*refmodel.Datum(nil), base...), prev...)
		var cur []*refmodel.Datum
		cur = append(cur, wrap(&refmodel.Datum{T: lt}))
		for _, c := range children {
			cur = append(cur, wrap(&refmodel.Datum{T: lt, Elems: []*refmodel.Datum{c}}))
		}
		for i, a := range children {
			b := children[(i+1)%len(children)]
			cur = append(cur, wrap(&refmodel.Datum{T: lt, Elems: []*refmodel.Datum{a, b}}))
		}
		prev = cur
		out = append(out, cur...)
	}
	return out
}

func familyValues(depth int, thorough bool) {
	fam := run.Family("newvalue")
	mT := refmodel.Atom('m')
	var corpus []*refmodel.Datum
	// constructors
	for _, l := range "bcCwWiIlLfsrv" {
		for _, d := range enum.Vals(refmodel.Atom(byte(l))) {
			corpus = append(corpus, &refmodel.Datum{T: mT, Dyn: d})
		}
	}
	nctor := len(corpus)
	corpus = append(corpus, valueLists()...)
	nlist := len(corpus) - nctor
	// opaque composites: depth-1 signatures with all of Val, deeper ones with
	// the distinguished and the zero value (thorough: all of Val)
	// 'o' only through a fixed list of signatures: every NewValue of a
	// signature containing 'o' parses the ObjectReference signature twice
	// (~1 ms)
	sigs := enum.Sigs(enum.SigOpts{Depth: depth, Width: 2, Outer: "cCwWiIlLfdbsm", Inner: "isbmC",
		OuterKeys: "cCwWiIlLbs", InnerKeys: "isC", Structs: true})
	for _, s := range []string{"[o]", "(o)", "(oi)", "{so}", "(io)<S,a,b>"} {
		sigs = append(sigs, refmodel.MustParse(s))
	}
	nop := 0
	fullDepth := 1 // signatures up to this depth get all of Val
	if thorough {
		fullDepth = 2
	}
	firstDeep := -1
	for _, t := range sigs {
		if t.IsAtom() {
			continue
		}
		switch {
		case t.Contains(refmodel.Object):
			corpus = append(corpus, enum.Zero(t))
			nop++
		case t.Depth() <= fullDepth:
			for _, d := range enum.Vals(t) {
				corpus = append(corpus, d)
				nop++
			}
		default:
			if firstDeep < 0 {
				firstDeep = len(corpus)
			}
			corpus = append(corpus, enum.Dist(t), enum.Zero(t))
			nop += 2
		}
	}
	_ = firstDeep
	dls := deliveriesWB
	guards := make(chan *enum.Guard, run.Workers+1)
	for i := 0; i <= run.Workers; i++ {
		guards <- run.NewGuard()
	}
	done, all := run.Parallel(len(corpus), func(i int) {
		g := <-guards
		defer func() { guards <- g }()
		d := corpus[i]
		classes := map[string]bool{}
		cutAll(newvalueDec, d, fam, dls, g, classes)
		local := map[string]int{}
		shape := d.T.Shape()
		if d.T.Kind == refmodel.Value {
			shape = "m:" + d.Dyn.T.Shape()
		}
		for c := range classes {
			local["newvalue|"+shape+"|"+c]++
		}
		run.DistinctSet(local)
	})
	if !all {
		run.Note("newvalue: %d of %d corpus values completed before the deadline (order: constructors, lists, opaque composites by construction)", done, len(corpus))
	}
	run.Note("newvalue corpus: %d constructor values, %d list values, %d opaque composite values", nctor, nlist, nop)
	d := enum.Dist(refmodel.MustParse("(s)"))
	run.Sample(12, map[string]interface{}{"family": "newvalue", "signature": "(s)", "encoding_hex": hexs(refmodel.EncodeValue(d)), "cuts": "every k in [0,len)"})
}

// ------------------------------------------------------------- typed data

func familyTyped(depth int, thorough bool) {
	sigs := enum.Sigs(enum.SigOpts{Depth: depth, Width: 2, Outer: "cCwWiIlLfdbsmo", Inner: "isbmC",
		OuterKeys: "cCwWiIlLbs", InnerKeys: "isC", Structs: true})
	famR, famD := run.Family("sigreader"), run.Family("reflect-decode")
	guards := make(chan *enum.Guard, run.Workers+1)
	for i := 0; i <= run.Workers; i++ {
		guards <- run.NewGuard()
	}
	var nvals int64
	var mu sync.Mutex
	done, all := run.Parallel(len(sigs), func(i int) {
		g := <-guards
		defer func() { guards <- g }()
		t := sigs[i]
		cr, cd := map[string]bool{}, map[string]bool{}
		n := 0
		vals := []*refmodel.Datum{enum.Dist(t), enum.Zero(t)}
		dls := deliveries
		switch {
		case t.Depth() <= 1 || (thorough && t.Depth() <= 2):
			vals = enum.Vals(t)
		case t.Depth() >= 3:
			vals = vals[:1]
			dls = deliveriesWB
		}
		for _, d := range vals {
			n++
			cutAll(sigreaderDec, d, famR, dls, g, cr)
			cutAll(reflectDec, d, famD, dls, g, cd)
		}
		local := map[string]int{}
		for c := range cr {
			local["sigreader|"+t.Shape()+"|"+c]++
		}
		for c := range cd {
			local["reflect-decode|"+t.Shape()+"|"+c]++
		}
		run.DistinctSet(local)
		mu.Lock()
		nvals += int64(n)
		mu.Unlock()
	})
	if !all {
		run.Note("typed: %d of %d signatures completed before the deadline", done, len(sigs))
	}
	run.Note("typed corpus: %d signatures, %d values, each cut at every position through the signature reader and the reflection decoder", len(sigs), nvals)
	d := enum.Dist(refmodel.MustParse("(Is)<S,a,b>"))
	run.Sample(12, map[string]interface{}{"family": "typed", "signature": "(Is)<S,a,b>", "encoding_hex": hexs(refmodel.Encode(d)), "cuts": "every k in [0,len)"})
}

// ------------------------------------------------------------- fixed types

const serviceInfoSig = "(sIsI[s]ss)<ServiceInfo,name,serviceId,machineId,processId,endpoints,sessionId,objectUid>"

type fixedDecoder struct {
	name string
	sig  string
	f    decodeFn
	more []*refmodel.Datum
}

func metaDatum(m object.MetaObject) *refmodel.Datum {
	d, err := gobridge.FromGo(reflect.ValueOf(m), refmodel.MustParse(refmodel.MetaObjectSig))
	if err != nil {
		run.EngineError("cannot convert a real meta-object: %v", err)
		return nil
	}
	return d
}

func familyFixed() {
	fam := run.Family("fixed")
	var reals []*refmodel.Datum
	for _, m := range []object.MetaObject{object.ObjectMetaObject, object.MetaService0, object.FullMetaObject(object.MetaService0)} {
		if d := metaDatum(m); d != nil {
			reals = append(reals, d)
		}
	}
	var refs []*refmodel.Datum
	for _, m := range reals {
		rt := refmodel.MustParse(refmodel.ObjectRefSig)
		refs = append(refs, &refmodel.Datum{T: rt, Elems: []*refmodel.Datum{m, enum.Dist(refmodel.Atom('I')), enum.Dist(refmodel.Atom('I'))}})
	}
	decs := []fixedDecoder{
		{"ReadMetaObject", refmodel.MetaObjectSig, func(r io.Reader) error { _, e := object.ReadMetaObject(r); return e }, reals},
		{"ReadObjectReference", refmodel.ObjectRefSig, func(r io.Reader) error { _, e := object.ReadObjectReference(r); return e }, refs},
		{"ReadServiceInfo", serviceInfoSig, func(r io.Reader) error { _, e := directory.ReadServiceInfo(r); return e }, nil},
		{"ReadCapabilityMap", "{sm}", func(r io.Reader) error { _, e := bus.ReadCapabilityMap(r); return e }, nil},
	}
	type item struct {
		dec fixedDecoder
		d   *refmodel.Datum
	}
	var items []item
	for _, dec := range decs {
		t := refmodel.MustParse(dec.sig)
		vals := append([]*refmodel.Datum{enum.Zero(t), enum.Dist(t)}, enum.Vals(t)...)
		vals = append(vals, dec.more...)
		for _, d := range vals {
			items = append(items, item{dec, d})
		}
	}
	run.Parallel(len(items), func(i int) {
		it := items[i]
		enc, spans := refmodel.EncodeSpans(it.d)
		rd := enum.NewFragReader(nil, nil, 0, 0)
		local := map[string]int{}
		for k := 0; k < len(enc); k++ {
			for _, dl := range deliveries {
				var r io.Reader = rd
				if dl.buf {
					r = dl.reader(enc[:k])
				} else {
					rd.Reset(enc[:k], nil, dl.mode, 0)
				}
				out, det := outcome(it.dec.f, r)
				run.Eval(fam, 1)
				sp, _ := refmodel.SpanAt(spans, k)
				where := enum.FieldPath(it.d, sp.Path)
				if i := strings.Index(where, "<dyn>"); i >= 0 {
					where = where[:i+5]
				}
				where += ":" + sp.String()
				res := "refused"
				if out != "" {
					res = out
				}
				local["fixed|"+it.dec.name+"|"+where+"|"+res]++
				if out != "" {
					k, dl := k, dl
					fp := fmt.Sprintf("cut/%s/%s/%s", it.dec.name, out, where)
					if dl.buf {
						// the *bytes.Buffer comes last: both modes of the
						// fragmenting reader were refused for this cut
						fp += bufferSuffix
					}
					run.Violation(fp, fmt.Sprintf("%06d|%06d", len(enc), k),
						fmt.Sprintf("%s over the first %d of the %d bytes %s delivered as %s: %s", it.dec.name, k, len(enc), hexs(enc), dl, det),
						map[string]interface{}{"decoder": it.dec.name, "encoding_hex": hexs(enc), "cut": k, "eof_mode": dl.String(), "reader": dl.readerType(), "cut_in": where},
						func() bool {
							o, _ := outcome(it.dec.f, dl.reader(enc[:k]))
							return o == out
						})
					break
				}
			}
		}
		run.DistinctSet(local)
	})
	run.Note("fixed corpus: %d encodings over 4 decoders (zero, distinguished and boundary values of the type, plus %d real meta-objects)", len(items), len(reals))
	run.Sample(12, map[string]interface{}{"family": "fixed", "decoder": "directory.ReadServiceInfo", "encoding_hex": hexs(refmodel.Encode(enum.Dist(refmodel.MustParse(serviceInfoSig))))})
}

func main() {
	// the quick budget was 42 s before the long-string family (4-7 s) was added
	run = enum.NewRun("C08", 48*time.Second, 9*time.Minute)
	depth := 2
	if run.Thorough() {
		depth = 3
	}
	finish := func() int {
		rule := "corpus x every cut position 0 <= k < len(e) x deliveries {fragmenting reader with data+EOF, fragmenting reader with EOF separate, *bytes.Buffer = bytes.NewBuffer(prefix), the reader type production code decodes payloads from} " +
			"(newvalue and depth-3 typed data: data+EOF and *bytes.Buffer; messages: both end-of-stream modes unfragmented and 1 byte per read, and *bytes.Buffer; stubs: the prefix is the message payload, which the generated code wraps in a *bytes.Buffer itself). " +
			"For one cut the deliveries are tried in that order and the first one that is not refused is filed; a truncation accepted through the *bytes.Buffer although refused through the fragmenting reader carries the suffix /reader=bytes.Buffer in its fingerprint. Corpus: " +
			"messages (8 types x payload 0,1,5,40); dynamic values (13 constructors x Val, value lists of depth <= 2, opaque composites of Sig(2,2) without o plus 5 fixed signatures containing o: " +
			"quick = all of Val for depth-1 signatures, distinguished+zero value for depth 2; thorough = all of Val); typed data of Sig(D,2) (D=2 quick, 3 thorough) through the signature reader and through the reflection decoder " +
			"(quick: all of Val for depth 1, distinguished+zero value for depth 2; thorough: all of Val up to depth 2, the distinguished value for depth 3); " +
			"MetaObject / ObjectReference / ServiceInfo / CapabilityMap boundary values and real meta-objects through their generated readers; argument tuples of every method of three generated stubs through Receive; " +
			"long-string family: encodings whose LAST item is a long string or raw buffer (content lengths 65535, 65536, 65537, 70000; thorough also 4095, 4096, 4097, 131073, 1048577; content byte i = 0x21 + (i + 7*(i>>8) + 13*(i>>12) + 29*(i>>16)) % 94) at 13 entry points " +
			"(basic.ReadString; sigreader and reflect-decode of s, (is), [s]; newvalue of m<s>, m<r>, m<(is)>; ReadMetaObject description; ReadServiceInfo objectUid; ReadCapabilityMap {k: m<s>}), " +
			"cut at every position (up to 70000 content bytes: the ReadString encodings, in the thorough tier also sigreader s, reflect-decode s, newvalue m<s> and m<r>) or at the stated set {every k < c+16, every k >= len-16, c + stride*j + {-1,0,+1} for every j} with c = offset of the first content byte " +
			"(the other entry points, stride 256; content above 70000 bytes, stride 4096), each prefix under the three deliveries; the exact numbers are in the note 'long-string corpus'. " +
			"homonyms family: four function-local named struct types sharing package path, Name() and String(): for every ordered pair, after the first was decoded completely, every strict prefix of the second's encoding (both end-of-stream modes) must be refused and its complete encoding decode exactly. " +
			"over-cap-containers family: maps and lists announcing 4095 / 4096 / 4097 / 5000 entries decoded into nil destinations (alone and as members), cuts around the 4096th entry, at the end and every 97th byte: no prefix accepted, a complete encoding is decoded completely or (above the cap) refused. pointer-members family: also platform-sized int / uint and every scalar Go kind; three Go types with pointer members and elements (*struct in the middle and last, *scalar last, []*struct followed by a pointer), every strict prefix in both end-of-stream modes refused, complete encoding decoded exactly. " +
			"For the long-string family the full encoding is judged too: it must be accepted, consumed exactly and decode to the original under 5 deliveries (fingerprints full/...). " +
			"evaluations counts decoder runs. A case class is (decoder, signature shape or decoder field path, element kind and part containing the first missing byte, outcome); " +
			"distinct_nontrivial counts the distinct classes executed"
		lens := longQuick
		if run.Thorough() {
			lens = longThorough
		}
		extra := map[string]interface{}{"depth": depth, "deliveries": []string{"FragReader/data+EOF", "FragReader/EOF-separate", "*bytes.Buffer"},
			"long_string": map[string]interface{}{"content_lengths": lens, "every_cut_up_to": longEvery, "entry_points": len(longEntries())}}
		assumptions := []string{
			"encodings are produced by the reference model written from doc/about-qimessaging.md",
			"a decoder may behave differently according to the dynamic type of its io.Reader; two reader types are used: the check's own fragmenting reader and *bytes.Buffer (what bus/object.go, bus/signal.go, bus/client.go, bus/proxy.go and the generated stubs pass); other reader types (*bytes.Reader, bufio.Reader, net.Conn) are not enumerated",
			"no strict prefix of a valid encoding is itself a complete encoding (every decoder consumes exactly what it needs), so no cut position is excluded",
			"strings longer than 255 bytes occur only in the long-string family and only as the last item decoded; their lengths are chosen around 2^12, 2^16, 2^17 and 2^20 (plausible internal thresholds), other lengths between 256 and 10 MiB (MaxStringSize) are not enumerated; 12 (quick) or 8 (thorough) of the 13 long-string entry points are cut at a stated set of positions (around every multiple of 256 content bytes, the first and the last 16), not at every position",
			"Object.registerEventWithSignature(IILs) is the only stub method ending in a string; it answers every call with an error, so a truncated string accepted there could not be told from one refused: the long-string family does not drive stubs",
			"generated argument decoders are reached through Receive of the bus/logger stubs and the generic Object actions; the ServiceDirectory stub needs an implementor with an unexported method and is not driven",
			"a panic on a truncated input is filed as a violation with the clause 'panic' (it is not an error report)",
			"a decode that does not return within the hang limit (5 executions) is reported as a violation with the clause 'hang' and ends the enumeration",
		}
		return run.Finish(rule, true, extra, assumptions)
	}
	run.SetAbortFinish(15*time.Second, finish)
	// the long-string family first: a fixed amount of work, never cut short
	// by the deadline
	familyLongStrings(run.Thorough())
	familyHomonyms()
	familyPointers()
	familyOverCap()
	familyMessages()
	familyStubs()
	familyFixed()
	familyTyped(depth, run.Thorough())
	familyValues(2, run.Thorough())
	os.Exit(finish())
}
