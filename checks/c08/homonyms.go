package main

import (
	"bytes"
	"fmt"
	"reflect"

	"github.com/lugu/qiloop/type/encoding"

	"verif/internal/enum"
)

// Named Go types that a per-type memo could confuse: function-local types
// share package path, Name() and String() ("main.rec") although they are
// different types with different members. The reflection decoder is first
// given one of them (a complete encoding, decoded successfully), then the
// other one: every strict prefix of its encoding must still be refused, the
// complete encoding must decode to the original and be consumed exactly.

func homonymShort() (interface{}, interface{}, []byte) {
	type rec struct{ A uint32 }
	return new(rec), &rec{0x01020304}, []byte{4, 3, 2, 1}
}

func homonymLong() (interface{}, interface{}, []byte) {
	type rec struct {
		A uint32
		B string
		C uint32
		D []int32
	}
	enc := []byte{4, 3, 2, 1, 5, 0, 0, 0, 'h', 'e', 'l', 'l', 'o', 8, 7, 6, 5, 2, 0, 0, 0, 1, 0, 0, 0, 2, 0, 0, 0}
	return new(rec), &rec{0x01020304, "hello", 0x05060708, []int32{1, 2}}, enc
}

func homonymOther() (interface{}, interface{}, []byte) {
	// same member names, other kinds and order of widths
	type rec struct {
		A string
		B uint32
	}
	return new(rec), &rec{"ab", 9}, []byte{2, 0, 0, 0, 'a', 'b', 9, 0, 0, 0}
}

func homonymNested() (interface{}, interface{}, []byte) {
	type rec struct{ X uint16 }
	type outer struct {
		R rec
		L []rec
		S string
	}
	return new(outer), &outer{rec{7}, []rec{{1}, {2}}, "z"}, []byte{7, 0, 2, 0, 0, 0, 1, 0, 2, 0, 1, 0, 0, 0, 'z'}
}

func familyHomonyms() {
	fam := run.Family("homonyms")
	makers := []struct {
		name string
		mk   func() (interface{}, interface{}, []byte)
	}{{"short", homonymShort}, {"long", homonymLong}, {"other", homonymOther}, {"nested", homonymNested}}
	decode := func(dst interface{}, r *enum.FragReader) (err error) {
		defer func() {
			if p := recover(); p != nil {
				err = fmt.Errorf("panic: %v", p)
			}
		}()
		return encoding.NewDecoder(encoding.DefaultCap(), r).Decode(dst)
	}
	// every ordered pair (first, then): `first` is decoded completely, then
	// `then` is put through the cut oracle
	for _, first := range makers {
		for _, then := range makers {
			if first.name == then.name {
				continue
			}
			pair := first.name + "-then-" + then.name
			fdst, _, fenc := first.mk()
			if err := decode(fdst, enum.NewFragReader(fenc, nil, enum.EOFSeparate, 0)); err != nil {
				run.Violation("cut/reflect-decode/homonyms/full-refused/"+first.name, "0", fmt.Sprintf("the complete encoding % x of the function-local struct type %v is refused: %v", fenc, reflect.TypeOf(fdst).Elem(), err), map[string]interface{}{"type": first.name, "hex": hexs(fenc)}, func() bool { return true })
				continue
			}
			_, want, enc := then.mk()
			out := "ok"
			for k := 0; k < len(enc); k++ {
				for _, mode := range []enum.EOFMode{enum.EOFWithData, enum.EOFSeparate} {
					dst, _, _ := then.mk()
					run.Eval(fam, 1)
					err := decode(dst, enum.NewFragReader(enc[:k], nil, mode, 0))
					if err == nil || bytes.HasPrefix([]byte(err.Error()), []byte("panic")) {
						clause := "accepted"
						if err != nil {
							clause = "panic"
						}
						out = clause
						kk, mm := k, mode
						run.Violation(fmt.Sprintf("cut/reflect-decode/homonyms/%s/%s", clause, pair), fmt.Sprintf("%04d", k),
							fmt.Sprintf("after a %s struct type named %v was decoded, the first %d of the %d bytes % x of another struct type with the same name (%v) are %s: result %+v, error %v",
								first.name, reflect.TypeOf(fdst).Elem(), k, len(enc), enc, reflect.TypeOf(dst).Elem().String(), clause, reflect.ValueOf(dst).Elem().Interface(), err),
							map[string]interface{}{"first": first.name, "then": then.name, "cut": k, "hex": hexs(enc)},
							func() bool {
								f2, _, fe := first.mk()
								decode(f2, enum.NewFragReader(fe, nil, enum.EOFSeparate, 0))
								d2, _, _ := then.mk()
								e2 := decode(d2, enum.NewFragReader(enc[:kk], nil, mm, 0))
								return e2 == nil || bytes.HasPrefix([]byte(e2.Error()), []byte("panic"))
							})
					}
				}
			}
			dst, _, _ := then.mk()
			rd := enum.NewFragReader(append(append([]byte{}, enc...), 0xEE, 0xEE, 0xEE, 0xEE), nil, enum.NoEOF, 0)
			err := decode(dst, rd)
			switch {
			case err != nil:
				out = "full-refused"
				run.Violation("cut/reflect-decode/homonyms/full-refused/"+pair, "0", fmt.Sprintf("after %s, the complete encoding % x of %s is refused: %v", first.name, enc, then.name, err), map[string]interface{}{"first": first.name, "then": then.name, "hex": hexs(enc)}, func() bool { return true })
			case rd.Pos() != len(enc):
				out = "consumed"
				run.Violation("cut/reflect-decode/homonyms/consumed/"+pair, "0", fmt.Sprintf("after %s, decoding %s consumed %d of %d bytes", first.name, then.name, rd.Pos(), len(enc)), map[string]interface{}{"first": first.name, "then": then.name, "hex": hexs(enc)}, func() bool { return true })
			case !reflect.DeepEqual(dst, want):
				out = "wrong-on-full"
				run.Violation("cut/reflect-decode/homonyms/wrong-on-full/"+pair, "0", fmt.Sprintf("after %s, the complete encoding % x of %s decodes to %+v, expected %+v", first.name, enc, then.name, reflect.ValueOf(dst).Elem().Interface(), reflect.ValueOf(want).Elem().Interface()), map[string]interface{}{"first": first.name, "then": then.name, "hex": hexs(enc)}, func() bool { return true })
			}
			run.Distinct("homonyms|" + pair + "|" + out)
		}
	}
}
