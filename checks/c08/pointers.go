package main

import (
	"fmt"
	"reflect"

	"github.com/lugu/qiloop/type/encoding"

	"verif/internal/enum"
)

// Go types with POINTER members and elements (nil in a fresh destination,
// allocated by the decoder): *struct in the middle and at the end of a struct,
// *scalar last, a slice of pointers, a pointer after a slice. Every strict
// prefix of the encoding is refused, the complete encoding decodes exactly.

type ptrInner struct {
	X uint32
	Y string
}

type ptrRec struct {
	ID uint32
	P  *ptrInner
	N  string
	Q  *uint16
}

type ptrLog struct {
	Entries []*ptrInner
	Tail    *ptrInner
}

type ptrScalarLast struct {
	A string
	B *uint32
	C *uint32
}

func familyPointers() {
	fam := run.Family("pointer-members")
	nine, five, six := uint16(9), uint32(5), uint32(6)
	cases := []struct {
		name string
		mk   func() interface{}
		want interface{}
		enc  []byte
	}{
		{"struct-with-pointer-members", func() interface{} { return new(ptrRec) }, &ptrRec{7, &ptrInner{5, "ab"}, "cd", &nine},
			[]byte{7, 0, 0, 0, 5, 0, 0, 0, 2, 0, 0, 0, 'a', 'b', 2, 0, 0, 0, 'c', 'd', 9, 0}},
		{"slice-of-pointers-then-pointer", func() interface{} { return new(ptrLog) }, &ptrLog{[]*ptrInner{{1, "x"}, {2, "yz"}}, &ptrInner{3, ""}},
			[]byte{2, 0, 0, 0, 1, 0, 0, 0, 1, 0, 0, 0, 'x', 2, 0, 0, 0, 2, 0, 0, 0, 'y', 'z', 3, 0, 0, 0, 0, 0, 0, 0}},
		{"scalar-pointers-last", func() interface{} { return new(ptrScalarLast) }, &ptrScalarLast{"abc", &five, &six},
			[]byte{3, 0, 0, 0, 'a', 'b', 'c', 5, 0, 0, 0, 6, 0, 0, 0}},
	}
	decode := func(dst interface{}, r *enum.FragReader) (err error) {
		defer func() {
			if p := recover(); p != nil {
				err = fmt.Errorf("panic: %v", p)
			}
		}()
		return encoding.NewDecoder(encoding.DefaultCap(), r).Decode(dst)
	}
	for _, c := range cases {
		c := c
		out := "ok"
		for k := 0; k < len(c.enc); k++ {
			for _, mode := range []enum.EOFMode{enum.EOFWithData, enum.EOFSeparate} {
				dst := c.mk()
				run.Eval(fam, 1)
				err := decode(dst, enum.NewFragReader(c.enc[:k], nil, mode, 0))
				if err == nil {
					out = "accepted"
					kk, mm := k, mode
					run.Violation("cut/reflect-decode/pointer-members/accepted/"+c.name, fmt.Sprintf("%04d", k),
						fmt.Sprintf("Decode(*%v) accepts the first %d of the %d bytes % x: result %s", reflect.TypeOf(dst).Elem(), k, len(c.enc), c.enc, dumpPtr(dst)),
						map[string]interface{}{"type": c.name, "cut": k, "hex": hexs(c.enc)},
						func() bool { return decode(c.mk(), enum.NewFragReader(c.enc[:kk], nil, mm, 0)) == nil })
				}
			}
		}
		dst := c.mk()
		rd := enum.NewFragReader(append(append([]byte{}, c.enc...), 0xEE, 0xEE, 0xEE, 0xEE), nil, enum.NoEOF, 0)
		err := decode(dst, rd)
		switch {
		case err != nil:
			out = "full-refused"
			run.Violation("cut/reflect-decode/pointer-members/full-refused/"+c.name, "0", fmt.Sprintf("the complete encoding % x of %v is refused: %v", c.enc, reflect.TypeOf(dst).Elem(), err), map[string]interface{}{"type": c.name, "hex": hexs(c.enc)}, func() bool { return true })
		case rd.Pos() != len(c.enc):
			out = "consumed"
			run.Violation("cut/reflect-decode/pointer-members/consumed/"+c.name, "0", fmt.Sprintf("decoding %v consumed %d of %d bytes", reflect.TypeOf(dst).Elem(), rd.Pos(), len(c.enc)), map[string]interface{}{"type": c.name, "hex": hexs(c.enc)}, func() bool { return true })
		case !reflect.DeepEqual(dst, c.want):
			out = "wrong-on-full"
			run.Violation("cut/reflect-decode/pointer-members/wrong-on-full/"+c.name, "0", fmt.Sprintf("the complete encoding % x decodes to %s, expected %s", c.enc, dumpPtr(dst), dumpPtr(c.want)), map[string]interface{}{"type": c.name, "hex": hexs(c.enc)}, func() bool { return true })
		}
		run.Distinct("pointer-members|" + c.name + "|" + out)
	}
}

// dumpPtr prints a value following pointers.
func dumpPtr(v interface{}) string {
	var walk func(rv reflect.Value) string
	walk = func(rv reflect.Value) string {
		switch rv.Kind() {
		case reflect.Ptr:
			if rv.IsNil() {
				return "nil"
			}
			return "&" + walk(rv.Elem())
		case reflect.Struct:
			s := "{"
			for i := 0; i < rv.NumField(); i++ {
				if i > 0 {
					s += " "
				}
				s += rv.Type().Field(i).Name + ":" + walk(rv.Field(i))
			}
			return s + "}"
		case reflect.Slice:
			s := "["
			for i := 0; i < rv.Len(); i++ {
				if i > 0 {
					s += " "
				}
				s += walk(rv.Index(i))
			}
			return s + "]"
		}
		return fmt.Sprintf("%v", rv.Interface())
	}
	return walk(reflect.ValueOf(v))
}
