package main

import (
	"fmt"
	"reflect"

	"github.com/lugu/qiloop/type/encoding"

	"verif/internal/enum"
)

// Go types with POINTER members and elements (nil in a fresh destination,
// allocated by the decoder): *struct in the middle and at the end of a struct,
// *scalar last, a slice of pointers, a pointer after a slice. Every strict
// prefix of the encoding is refused, the complete encoding decodes exactly.

type ptrInner struct {
	X uint32
	Y string
}

type ptrRec struct {
	ID uint32
	P  *ptrInner
	N  string
	Q  *uint16
}

type ptrLog struct {
	Entries []*ptrInner
	Tail    *ptrInner
}

type ptrScalarLast struct {
	A string
	B *uint32
	C *uint32
}

// Go kinds beyond the sized integers of the signature universe: the platform-sized int
// and uint (64 bits on the wire), alone, behind other members and inside containers
// (seed C08-16 dropped them from the decoder's kind switch: nothing was read, success).
type kindRec struct {
	A int32
	B int
	C uint
	T uint8
}

type kindAll struct {
	I8  int8
	U8  uint8
	I16 int16
	U16 uint16
	I32 int32
	U32 uint32
	I64 int64
	U64 uint64
	I   int
	U   uint
	F32 float32
	F64 float64
	B   bool
	S   string
	T   uint8
}

type kindContainers struct {
	L []int
	M map[uint]int
	P *int
	T uint8
}

func familyPointers() {
	fam := run.Family("pointer-members")
	nine, five, six := uint16(9), uint32(5), uint32(6)
	minus := -4
	le := func(n int, v uint64) []byte {
		b := make([]byte, n)
		for i := range b {
			b[i] = byte(v >> (8 * uint(i)))
		}
		return b
	}
	cat := func(parts ...[]byte) []byte {
		var out []byte
		for _, p := range parts {
			out = append(out, p...)
		}
		return out
	}
	cases := []struct {
		name string
		mk   func() interface{}
		want interface{}
		enc  []byte
	}{
		{"struct-with-pointer-members", func() interface{} { return new(ptrRec) }, &ptrRec{7, &ptrInner{5, "ab"}, "cd", &nine},
			[]byte{7, 0, 0, 0, 5, 0, 0, 0, 2, 0, 0, 0, 'a', 'b', 2, 0, 0, 0, 'c', 'd', 9, 0}},
		{"slice-of-pointers-then-pointer", func() interface{} { return new(ptrLog) }, &ptrLog{[]*ptrInner{{1, "x"}, {2, "yz"}}, &ptrInner{3, ""}},
			[]byte{2, 0, 0, 0, 1, 0, 0, 0, 1, 0, 0, 0, 'x', 2, 0, 0, 0, 2, 0, 0, 0, 'y', 'z', 3, 0, 0, 0, 0, 0, 0, 0}},
		{"scalar-pointers-last", func() interface{} { return new(ptrScalarLast) }, &ptrScalarLast{"abc", &five, &six},
			[]byte{3, 0, 0, 0, 'a', 'b', 'c', 5, 0, 0, 0, 6, 0, 0, 0}},
		{"platform-sized-integers", func() interface{} { return new(kindRec) }, &kindRec{1, -2, 3, 9},
			cat(le(4, 1), le(8, ^uint64(1)), le(8, 3), le(1, 9))},
		{"every-scalar-kind", func() interface{} { return new(kindAll) },
			&kindAll{-1, 2, -3, 4, -5, 6, -7, 8, -9, 10, 1.5, -2.25, true, "ab", 9},
			cat(le(1, 0xff), le(1, 2), le(2, 0xfffd), le(2, 4), le(4, 0xfffffffb), le(4, 6), le(8, ^uint64(6)), le(8, 8), le(8, ^uint64(8)), le(8, 10),
				le(4, 0x3fc00000), le(8, 0xc002000000000000), le(1, 1), le(4, 2), []byte("ab"), le(1, 9))},
		{"platform-sized-integers-in-containers", func() interface{} { return new(kindContainers) },
			&kindContainers{[]int{1, -2}, map[uint]int{7: -8}, &minus, 9},
			cat(le(4, 2), le(8, 1), le(8, ^uint64(1)), le(4, 1), le(8, 7), le(8, ^uint64(7)), le(8, ^uint64(3)), le(1, 9))},
	}
	decode := func(dst interface{}, r *enum.FragReader) (err error) {
		defer func() {
			if p := recover(); p != nil {
				err = fmt.Errorf("panic: %v", p)
			}
		}()
		return encoding.NewDecoder(encoding.DefaultCap(), r).Decode(dst)
	}
	for _, c := range cases {
		c := c
		out := "ok"
		for k := 0; k < len(c.enc); k++ {
			for _, mode := range []enum.EOFMode{enum.EOFWithData, enum.EOFSeparate} {
				dst := c.mk()
				run.Eval(fam, 1)
				err := decode(dst, enum.NewFragReader(c.enc[:k], nil, mode, 0))
				if err == nil {
					out = "accepted"
					kk, mm := k, mode
					run.Violation("cut/reflect-decode/pointer-members/accepted/"+c.name, fmt.Sprintf("%04d", k),
						fmt.Sprintf("Decode(*%v) accepts the first %d of the %d bytes % x: result %s", reflect.TypeOf(dst).Elem(), k, len(c.enc), c.enc, dumpPtr(dst)),
						map[string]interface{}{"type": c.name, "cut": k, "hex": hexs(c.enc)},
						func() bool { return decode(c.mk(), enum.NewFragReader(c.enc[:kk], nil, mm, 0)) == nil })
				}
			}
		}
		dst := c.mk()
		rd := enum.NewFragReader(append(append([]byte{}, c.enc...), 0xEE, 0xEE, 0xEE, 0xEE), nil, enum.NoEOF, 0)
		err := decode(dst, rd)
		switch {
		case err != nil:
			out = "full-refused"
			run.Violation("cut/reflect-decode/pointer-members/full-refused/"+c.name, "0", fmt.Sprintf("the complete encoding % x of %v is refused: %v", c.enc, reflect.TypeOf(dst).Elem(), err), map[string]interface{}{"type": c.name, "hex": hexs(c.enc)}, func() bool { return true })
		case rd.Pos() != len(c.enc):
			out = "consumed"
			run.Violation("cut/reflect-decode/pointer-members/consumed/"+c.name, "0", fmt.Sprintf("decoding %v consumed %d of %d bytes", reflect.TypeOf(dst).Elem(), rd.Pos(), len(c.enc)), map[string]interface{}{"type": c.name, "hex": hexs(c.enc)}, func() bool { return true })
		case !reflect.DeepEqual(dst, c.want):
			out = "wrong-on-full"
			run.Violation("cut/reflect-decode/pointer-members/wrong-on-full/"+c.name, "0", fmt.Sprintf("the complete encoding % x decodes to %s, expected %s", c.enc, dumpPtr(dst), dumpPtr(c.want)), map[string]interface{}{"type": c.name, "hex": hexs(c.enc)}, func() bool { return true })
		}
		run.Distinct("pointer-members|" + c.name + "|" + out)
	}
}

// familyOverCap: maps and lists whose announced size lies around the documented cap of
// 4096 entries, decoded into a nil destination. A decoder may refuse a size above the cap;
// it may not read part of the entries and report success (seed C08-17 clamped the size: a
// stream cut after the 4096th entry was accepted).
func familyOverCap() {
	fam := run.Family("over-cap-containers")
	le := func(n int, v uint64) []byte {
		b := make([]byte, n)
		for i := range b {
			b[i] = byte(v >> (8 * uint(i)))
		}
		return b
	}
	decode := func(dst interface{}, r *enum.FragReader) (err error) {
		defer func() {
			if p := recover(); p != nil {
				err = fmt.Errorf("panic: %v", p)
			}
		}()
		return encoding.NewDecoder(encoding.DefaultCap(), r).Decode(dst)
	}
	type rec struct {
		M map[uint16]uint8
		T uint8
	}
	type recL struct {
		L []uint16
		T uint8
	}
	kinds := []struct {
		name  string
		mk    func() interface{}
		entry func(i int) []byte
		count func(dst interface{}) int
	}{
		{"map", func() interface{} { return new(map[uint16]uint8) }, func(i int) []byte { return append(le(2, uint64(i)), byte(i%251)) },
			func(d interface{}) int { return len(*d.(*map[uint16]uint8)) }},
		{"map-member", func() interface{} { return new(rec) }, func(i int) []byte { return append(le(2, uint64(i)), byte(i%251)) },
			func(d interface{}) int { return len(d.(*rec).M) }},
		{"list-member", func() interface{} { return new(recL) }, func(i int) []byte { return le(2, uint64(i)) },
			func(d interface{}) int { return len(d.(*recL).L) }},
	}
	for _, kd := range kinds {
		for _, n := range []int{4095, 4096, 4097, 5000} {
			enc := le(4, uint64(n))
			for i := 0; i < n; i++ {
				enc = append(enc, kd.entry(i)...)
			}
			if kd.name != "map" {
				enc = append(enc, 9)
			}
			esz := len(kd.entry(0))
			cuts := map[int]bool{}
			for k := 0; k < len(enc); k += 97 {
				cuts[k] = true
			}
			for k := len(enc) - 12; k < len(enc); k++ {
				cuts[k] = true
			}
			for d := -2 * esz; d <= 2*esz; d++ {
				if k := 4 + 4096*esz + d; k >= 0 && k < len(enc) {
					cuts[k] = true
				}
			}
			name := fmt.Sprintf("%s/n=%d", kd.name, n)
			out := "ok"
			for k := range cuts {
				for _, mode := range []enum.EOFMode{enum.EOFWithData, enum.EOFSeparate} {
					run.Eval(fam, 1)
					dst := kd.mk()
					if err := decode(dst, enum.NewFragReader(enc[:k], nil, mode, 0)); err == nil {
						out = "accepted"
						kk, mm := k, mode
						run.Violation("cut/reflect-decode/over-cap/accepted/"+name, fmt.Sprintf("%06d", k),
							fmt.Sprintf("Decode(*%v) accepts the first %d of the %d bytes of a container announcing %d entries (decoded %d entries)", reflect.TypeOf(dst).Elem(), k, len(enc), n, kd.count(dst)),
							map[string]interface{}{"type": kd.name, "entries": n, "cut": k},
							func() bool { return decode(kd.mk(), enum.NewFragReader(enc[:kk], nil, mm, 0)) == nil })
					}
				}
			}
			dst := kd.mk()
			rd := enum.NewFragReader(append(append([]byte{}, enc...), 0xEE, 0xEE, 0xEE, 0xEE), nil, enum.NoEOF, 0)
			err := decode(dst, rd)
			switch {
			case err != nil && n <= 4096:
				out = "full-refused"
				run.Violation("cut/reflect-decode/over-cap/full-refused/"+name, "0", fmt.Sprintf("the complete encoding of a container of %d entries (within the cap) is refused: %v", n, err), map[string]interface{}{"type": kd.name, "entries": n}, func() bool { return true })
			case err == nil && (rd.Pos() != len(enc) || kd.count(dst) != n):
				out = "consumed"
				run.Violation("cut/reflect-decode/over-cap/partly-read/"+name, "0", fmt.Sprintf("decoding a container announcing %d entries reports success after %d of %d bytes with %d entries", n, rd.Pos(), len(enc), kd.count(dst)), map[string]interface{}{"type": kd.name, "entries": n}, func() bool { return true })
			}
			run.Distinct("over-cap|" + name + "|" + out)
		}
	}
}

// dumpPtr prints a value following pointers.
func dumpPtr(v interface{}) string {
	var walk func(rv reflect.Value) string
	walk = func(rv reflect.Value) string {
		switch rv.Kind() {
		case reflect.Ptr:
			if rv.IsNil() {
				return "nil"
			}
			return "&" + walk(rv.Elem())
		case reflect.Struct:
			s := "{"
			for i := 0; i < rv.NumField(); i++ {
				if i > 0 {
					s += " "
				}
				s += rv.Type().Field(i).Name + ":" + walk(rv.Field(i))
			}
			return s + "}"
		case reflect.Slice:
			s := "["
			for i := 0; i < rv.Len(); i++ {
				if i > 0 {
					s += " "
				}
				s += walk(rv.Index(i))
			}
			return s + "]"
		}
		return fmt.Sprintf("%v", rv.Interface())
	}
	return walk(reflect.ValueOf(v))
}
