package main

// Family "zero-width": lists and maps whose ELEMENTS occupy no byte.
//
// The documented serialization of the empty tuple (), of a structure without
// member ()<S>, of void v and of every tuple or structure made of those is
// empty. A list of n such elements is its 32-bit count and nothing else, so
// the count may exceed the number of bytes that follow the list - the one
// situation in which "an element takes at least one byte" is false. Sig x
// Val only has [()] with one and two elements at the end of the data (and
// reaches a decoder that compares a count with what is left only through the
// *bytes.Buffer delivery); this family has the whole class: every zero-width
// element type, counts on both sides of the number of bytes that follow.
//
// Zero-width element types Z (27): Z0 = { (), ()<S>, v }, and the tuples and
// structures of width 1 and 2 over Z0. Containers: [z] for every z of Z with
// 0..8 elements; {kv} for every k, v of Z0 (and {(v)(v)}) with 0 and 1 entry
// (a zero-width key type has a single value, so a map cannot hold two).
// Every container datum c is run through the three entry points
//
//	alone, as the only member of a tuple (c) and of a structure (c)<S,a>,
//	followed by 1..4 bytes of further members (cC) (cw) (cCw) (ci), by a
//	zero-width member (c()), preceded by a member (ic), as list element
//	[c] (two elements), as map value {ic} (one entry), and carried by a
//	dynamic value m<c>,
//
// under the deliveries of the main family (depth is not a criterion here:
// all three deliveries for every datum). The oracle is the usual one.
//
// Counts stay tiny on purpose: huge counts over zero-width elements are the
// subject of known findings of C07 (loops without input), not of C03.
//
// Lists of 4095 and 4096 zero-width elements are part of the boundary family
// (boundary.go).

import (
	"fmt"
	"sync/atomic"

	"verif/internal/enum"
	"verif/internal/enum/gobridge"
	"verif/internal/refmodel"
)

const zeroWidthMaxCount = 8

// zeroWidthExcluded lists the zero-width element types (by signature) the
// unchanged repository does not handle at all, with the reason; data built
// from them are not run (see the evidence, "zero_width.excluded").
var zeroWidthExcluded = map[string]string{}

// zeroWidthTypes returns Z.
func zeroWidthTypes() []*refmodel.Type {
	z0 := []*refmodel.Type{refmodel.TupleOf(), refmodel.StructOf("S", nil), refmodel.Atom('v')}
	out := append([]*refmodel.Type(nil), z0...)
	for _, a := range z0 {
		out = append(out, refmodel.TupleOf(a))
	}
	for _, a := range z0 {
		for _, b := range z0 {
			out = append(out, refmodel.TupleOf(a, b))
		}
	}
	for _, a := range z0 {
		out = append(out, refmodel.StructOf("S", []string{"a"}, a))
	}
	for _, a := range z0 {
		for _, b := range z0 {
			out = append(out, refmodel.StructOf("S", []string{"a", "b"}, a, b))
		}
	}
	return out
}

func isZeroWidth(t *refmodel.Type) bool { return t.ZeroWidth() }

// zeroWidthContainers returns the container data: (container datum, number
// of entries).
func zeroWidthContainers() []*refmodel.Datum {
	var out []*refmodel.Datum
	zs := zeroWidthTypes()
	for _, z := range zs {
		lt := refmodel.ListOf(z)
		for n := 0; n <= zeroWidthMaxCount; n++ {
			d := &refmodel.Datum{T: lt}
			for j := 0; j < n; j++ {
				d.Elems = append(d.Elems, enum.Dist(z))
			}
			out = append(out, d)
		}
	}
	var pairs [][2]*refmodel.Type
	for _, k := range zs[:3] {
		for _, v := range zs[:3] {
			pairs = append(pairs, [2]*refmodel.Type{k, v})
		}
	}
	pairs = append(pairs, [2]*refmodel.Type{zs[5], zs[5]}) // {(v)(v)}
	for _, kv := range pairs {
		mt := refmodel.MapOf(kv[0], kv[1])
		out = append(out, &refmodel.Datum{T: mt})
		out = append(out, &refmodel.Datum{T: mt, Elems: []*refmodel.Datum{enum.Dist(kv[0]), enum.Dist(kv[1])}})
	}
	return out
}

type zeroWidthCase struct {
	c        *refmodel.Datum                         // the container
	build    func(c *refmodel.Datum) *refmodel.Datum // places a container at the position
	d        *refmodel.Datum                         // build(c)
	position string
	entries  int
	after    int // bytes that follow the (last) container in the encoding
}

type zeroWidthPosition struct {
	name  string
	after int
	build func(c *refmodel.Datum) *refmodel.Datum
}

func zeroWidthPositions() []zeroWidthPosition {
	atom := func(l byte) *refmodel.Datum { return enum.Dist(refmodel.Atom(l)) }
	tuple := func(ms ...*refmodel.Datum) *refmodel.Datum {
		var ts []*refmodel.Type
		for _, m := range ms {
			ts = append(ts, m.T)
		}
		return &refmodel.Datum{T: refmodel.TupleOf(ts...), Elems: ms}
	}
	type D = refmodel.Datum
	return []zeroWidthPosition{
		{"alone", 0, func(c *D) *D { return c }},
		{"(c)", 0, func(c *D) *D { return tuple(c) }},
		{"(c)<S,a>", 0, func(c *D) *D {
			return &D{T: refmodel.StructOf("S", []string{"a"}, c.T), Elems: []*D{c}}
		}},
		{"(cC)", 1, func(c *D) *D { return tuple(c, atom('C')) }},
		{"(cw)", 2, func(c *D) *D { return tuple(c, atom('w')) }},
		{"(cCw)", 3, func(c *D) *D { return tuple(c, atom('C'), atom('w')) }},
		{"(ci)", 4, func(c *D) *D { return tuple(c, atom('i')) }},
		{"(c())", 0, func(c *D) *D { return tuple(c, &D{T: refmodel.TupleOf()}) }},
		{"(ic)", 0, func(c *D) *D { return tuple(atom('i'), c) }},
		{"[c]", 0, func(c *D) *D { return &D{T: refmodel.ListOf(c.T), Elems: []*D{c, c}} }},
		{"{ic}", 0, func(c *D) *D {
			return &D{T: refmodel.MapOf(refmodel.Atom('i'), c.T), Elems: []*D{atom('i'), c}}
		}},
		{"m<c>", 0, func(c *D) *D { return &D{T: refmodel.Atom('m'), Dyn: c} }},
	}
}

func entriesOf(c *refmodel.Datum) int {
	if c.T.Kind == refmodel.Map {
		return len(c.Elems) / 2
	}
	return len(c.Elems)
}

// zeroWidthCases places every container datum at every position.
func zeroWidthCases() []zeroWidthCase {
	var out []zeroWidthCase
	ps := zeroWidthPositions()
	for _, c := range zeroWidthContainers() {
		for _, p := range ps {
			out = append(out, zeroWidthCase{c, p.build, p.build(c), p.name, entriesOf(c), p.after})
		}
	}
	return out
}

// refill returns a container of the kind of c (list or map) with n entries of
// the given element types; the keys of a map are the n distinct values
// 1..n of a one-byte key type, or the single value of a zero-width one
// (n <= 1).
func refill(c *refmodel.Datum, key, elem *refmodel.Type, n int) *refmodel.Datum {
	if c.T.Kind == refmodel.Map {
		d := &refmodel.Datum{T: refmodel.MapOf(key, elem)}
		for j := 0; j < n; j++ {
			k := enum.Dist(key)
			if key.Kind == refmodel.Uint8 {
				k = &refmodel.Datum{T: key, U: uint64(j + 1)}
			}
			d.Elems = append(d.Elems, k, enum.Dist(elem))
		}
		return d
	}
	d := &refmodel.Datum{T: refmodel.ListOf(elem)}
	for j := 0; j < n; j++ {
		d.Elems = append(d.Elems, enum.Dist(elem))
	}
	return d
}

// reportZeroWidth attributes a failing case of the family by experiment:
//
//  1. the elements are given one byte each ([C], {CC}), same count, same
//     position: if the case still fails zero width is not the cause and the
//     datum goes through the ordinary attribution;
//  2. the elements are replaced by the simplest zero-width type (): if the
//     case still fails the element type does not matter ("any"), else the
//     shape of the element type is named;
//  3. the smallest failing count m at this position is located (0..entries)
//     and related to the number of bytes that follow the container.
//
// Fingerprint: codec/<entry>/<clause>/zero-width/<list|map>-of-<any|shape>/
// min-count=bytes-after<+d>, d = m - bytes after the container.
func reportZeroWidth(zc zeroWidthCase, ep entryPoint, dl delivery, clause string) {
	fails := func(x *refmodel.Datum) bool {
		c, _ := ep.eval(x, dl)
		return c != ""
	}
	cT := refmodel.Atom('C')
	unit := refmodel.TupleOf()
	n := zc.entries
	if fails(zc.build(refill(zc.c, cT, cT, n))) {
		report(zc.d, ep, dl, clause)
		return
	}
	key, elem, name := zc.c.T.Key, zc.c.T.Elem, "any"
	if fails(zc.build(refill(zc.c, unit, unit, n))) {
		key, elem = unit, unit
	} else {
		name = zc.c.T.Elem.Shape()
		if zc.c.T.Kind == refmodel.Map {
			name = zc.c.T.Key.Shape() + zc.c.T.Elem.Shape()
		}
	}
	m := -1
	for j := 0; j <= n && m < 0; j++ {
		if fails(zc.build(refill(zc.c, key, elem, j))) {
			m = j
		}
	}
	if m < 0 {
		unstable(fmt.Sprintf("codec/%s/%s/zero-width", ep.name, clause), ep, dl, clause, sigName(zc.d), zc.d.String(), refmodel.Encode(zc.d))
		return
	}
	min := zc.build(refill(zc.c, key, elem, m))
	mclause, det := ep.eval(min, dl)
	if mclause == "" {
		unstable(fmt.Sprintf("codec/%s/%s/zero-width", ep.name, clause), ep, dl, clause, sigName(zc.d), zc.d.String(), refmodel.Encode(zc.d))
		return
	}
	fp := fmt.Sprintf("codec/%s/%s/zero-width/%s-of-%s/min-count=bytes-after%+d", ep.name, mclause, containerName(zc.c.T.Kind), name, m-zc.after)
	if len(ep.dls) > 1 {
		if c, _ := ep.eval(min, delivery{mode: enum.EOFSeparate}); c == "" {
			fp += "/" + dl.String()
		}
	}
	b := refmodel.Encode(min)
	rank := fmt.Sprintf("%06d|%04d|%s|%s", len(b), len(sigName(min)), sigName(min), zc.position)
	if run.Fail(fp, rank) {
		run.Keep(fp, rank, fmt.Sprintf("%s on signature %q, value %s (documented serialization %s): a %s of %d zero-width elements followed by %d bytes: %s; the same %s with %d elements, and with %d one-byte elements, is handled",
			ep.name, sigName(min), min, hexs(b), containerName(zc.c.T.Kind), m, zc.after, det, containerName(zc.c.T.Kind), m-1, n),
			map[string]interface{}{"entry": ep.name, "signature": sigName(min), "go_type": gobridge.GoType(min.T).String(), "value": min.String(),
				"position": zc.position, "entries": m, "entries_handled": m - 1, "bytes_after_the_container": zc.after,
				"refmodel_hex": hexs(b), "delivery": dl.String(), "clause": mclause, "observed": det,
				"found_in": fmt.Sprintf("%s %s", sigName(zc.d), zc.d)},
			func() bool { c, _ := ep.eval(min, dl); return c == mclause })
	}
}

// familyZeroWidth runs the family; it returns its description for the
// evidence.
func familyZeroWidth() map[string]interface{} {
	cases := zeroWidthCases()
	fam := map[string]*int64{}
	for _, ep := range entries {
		fam[ep.name] = run.Family("zero-width/" + ep.name)
	}
	// self-check of the construction: every element type is zero-width, the
	// encoding of every container is its count alone, and the bridge inverts
	for _, c := range zeroWidthContainers() {
		n := entriesOf(c)
		b := refmodel.Encode(c)
		if !isZeroWidth(c.T.Elem) || (c.T.Kind == refmodel.Map && !isZeroWidth(c.T.Key)) ||
			len(b) != 4 || int(b[0]) != n || b[1] != 0 || b[2] != 0 || b[3] != 0 {
			run.EngineError("zero-width: container %s with %d entries encodes to %x", c.T, n, b)
			return nil
		}
	}
	var skipped int64
	excluded := func(d *refmodel.Datum) string {
		var why string
		var walk func(t *refmodel.Type)
		walk = func(t *refmodel.Type) {
			if r, ok := zeroWidthExcluded[t.String()]; ok && why == "" {
				why = r
			}
			for _, c := range t.Children() {
				walk(c)
			}
		}
		walk(d.T)
		if d.Dyn != nil && d.T.Kind == refmodel.Value {
			walk(d.Dyn.T)
		}
		return why
	}
	guards := make(chan *enum.Guard, run.Workers+1)
	for i := 0; i <= run.Workers; i++ {
		guards <- run.NewGuard()
	}
	var ndata, nbeyond int64
	done, all := run.Parallel(len(cases), func(i int) {
		g := <-guards
		defer func() { guards <- g }()
		zc := cases[i]
		d := zc.d
		if excluded(d) != "" {
			atomic.AddInt64(&skipped, 1)
			return
		}
		back, err := gobridge.FromGo(gobridge.ToGo(d, gobridge.GoType(d.T)), d.T)
		if err != nil || string(refmodel.Encode(gobridge.Canon(back))) != string(refmodel.Encode(gobridge.Canon(d))) {
			run.EngineError("gobridge self-check failed for %s %s: %v", sigName(d), d, err)
			return
		}
		more := "count<=bytes-after"
		if zc.entries > zc.after {
			more = "count>bytes-after"
			atomic.AddInt64(&nbeyond, 1)
		}
		tag := fmt.Sprintf("zero-width|%s|%s|%s", d.T.Shape(), zc.position, more)
		if d.T.Kind == refmodel.Value {
			tag = fmt.Sprintf("zero-width|m:%s|%s|%s", d.Dyn.T.Shape(), zc.position, more)
		}
		g.Begin("codec/hang/zero-width", func() (string, interface{}) {
			return fmt.Sprintf("a codec call on signature %q, value %s (%s)", sigName(d), d, hexs(refmodel.Encode(d))),
				map[string]interface{}{"signature": sigName(d), "value": d.String(), "refmodel_hex": hexs(refmodel.Encode(d))}
		}, func() { evalZeroWidth(d, nil, func(entryPoint, delivery, string, string) {}) })
		local := map[string]int{}
		failed := map[string]bool{}
		evalZeroWidth(d, fam, func(ep entryPoint, dl delivery, clause, detail string) {
			failed[ep.name] = true
			local[tag+"|"+ep.name+"|"+clause]++
			reportZeroWidth(zc, ep, dl, clause)
		})
		g.End()
		for _, ep := range entries {
			if !failed[ep.name] {
				local[tag+"|"+ep.name+"|ok"]++
			}
		}
		run.DistinctSet(local)
		atomic.AddInt64(&ndata, 1)
	})
	if !all {
		run.Note("zero-width: %d of %d data completed before the deadline", done, len(cases))
	}
	var zs []string
	for _, z := range zeroWidthTypes() {
		zs = append(zs, z.String())
	}
	for _, zc := range cases {
		if zc.position == "(ci)" && zc.entries == 5 && zc.d.Elems[0].T.String() == "[()]" {
			run.Sample(10, map[string]interface{}{"family": "zero-width", "signature": zc.d.T.String(), "go_type": gobridge.GoType(zc.d.T).String(),
				"value": zc.d.String(), "refmodel_hex": hexs(refmodel.Encode(zc.d)), "entries": zc.entries, "bytes_after_the_list": zc.after})
		}
	}
	return map[string]interface{}{
		"element_types": zs, "max_list_count": zeroWidthMaxCount, "map_counts": []int{0, 1},
		"positions":     []string{"alone", "(c)", "(c)<S,a>", "(cC)", "(cw)", "(cCw)", "(ci)", "(c())", "(ic)", "[c] (2 elements)", "{ic} (1 entry)", "m<c>"},
		"data_executed": ndata, "data_with_more_entries_than_bytes_after": nbeyond,
		"excluded": zeroWidthExcluded, "data_excluded": skipped,
	}
}

// evalZeroWidth is evalAll without the depth criterion: every delivery of
// every entry point.
func evalZeroWidth(d *refmodel.Datum, fam map[string]*int64, onFail func(ep entryPoint, dl delivery, clause, detail string)) {
	for _, ep := range entries {
		for _, dl := range ep.dls {
			clause, detail := ep.eval(d, dl)
			if fam != nil {
				run.Eval(fam[ep.name], 1)
			}
			if clause != "" {
				onFail(ep, dl, clause, detail)
				break
			}
		}
	}
}
