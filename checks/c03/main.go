// C03 - All serializers agree with each other and with the documented layout.
//
// For every signature of Sig(D,2) and every datum x of Val(sig)
// (DESIGN.md section 3, C03), with b = reference-model encoding of x:
//
//	reflect-encode  the reflection encoder (encoding.NewEncoder, called the
//	                way generated proxies do: bus.NewParams(sig, x).Write(e),
//	                x passed by value) produces b (maps: b for some order
//	                of the entries; the orders of a map of more than two
//	                entries are not enumerated, the multisets of entries
//	                are compared instead)
//	sigreader       signature.Parse(sig).Reader().Read over b followed by a
//	                sentinel returns exactly b and consumes exactly len(b)
//	reflect-decode  the reflection decoder (encoding.NewDecoder(...).Decode
//	                of a pointer to the Go type) over b followed by a
//	                sentinel succeeds, consumes exactly len(b) and yields a
//	                value that reads back as x
//
// The two decoding entry points receive b in three ways: through the
// fragmenting reader followed by a sentinel, through the fragmenting reader
// one byte per read with a separate EOF, and as a *bytes.Buffer holding
// exactly b (what generated stubs and proxies hand to the decoders; a
// failure under this delivery only carries /reader=bytes.Buffer).
//
// Next to Sig x Val a boundary family (boundary.go) runs lists and maps of
// exactly 4095 and 4096 entries (4096 = the documented cap of the codecs)
// through the same three clauses, and a zero-width family (zerowidth.go)
// lists of 0..8 and maps of 0..1 entries that occupy no byte ([()], [v],
// [(v())], {vv}...), alone and followed by 0..4 bytes of further members, so
// that a count exceeds the number of bytes after it. A length-sweep family
// (lensweep.go) takes every variable-length leaf through a sweep of lengths, a
// signature-shape family (sigshape.go) runs wide and deep signatures (1..40
// sibling or nested composites of every kind, typed and carried by dynamic
// values), a limit family (limits.go) strings and raw buffers of cap-1, cap
// and cap+1 bytes around the documented cap of 10 MiB.
//
// The Go type of a signature is the one generated code uses (see
// internal/enum/gobridge): 'm' is value.Value, 'o' object.ObjectReference.
package main

import (
	"bytes"
	"encoding/hex"
	"fmt"
	"io"
	"os"
	"reflect"
	"strings"
	"sync"
	"time"

	"github.com/lugu/qiloop/bus"
	"github.com/lugu/qiloop/meta/signature"
	"github.com/lugu/qiloop/type/encoding"

	"verif/internal/enum"
	"verif/internal/enum/gobridge"
	"verif/internal/refmodel"
)

var run *enum.Run

// delivery says how an encoding reaches a decoder: through the fragmenting
// reader of internal/enum (followed by a sentinel, or ended by a separate EOF
// and handed out one byte per read), or as a *bytes.Buffer holding exactly
// the encoding - the reader type and extent production code decodes from
// (bytes.NewBuffer(msg.Payload) in the generated stubs and proxies): a
// decoder may take another path for a reader that can tell how much is left.
type delivery struct {
	mode  enum.EOFMode
	chunk int
	buf   bool
	tail  bool // buf: the buffer also holds the sentinel after the encoding (length-sweep family)
}

func (d delivery) String() string {
	if d.buf && d.tail {
		return "reader=bytes.Buffer+more-follows"
	}
	if d.buf {
		return "reader=bytes.Buffer"
	}
	if d.chunk == 1 {
		return d.mode.String() + "/1-byte-reads"
	}
	if d.chunk > 1 {
		return fmt.Sprintf("%s/%d-byte-reads", d.mode, d.chunk)
	}
	return d.mode.String() + "/unfragmented"
}

var deliveries = []delivery{{mode: enum.NoEOF}, {mode: enum.EOFSeparate, chunk: 1}, {buf: true}}

// source is a reader over an encoding and the number of bytes taken from it.
// The decoders are handed r itself (not a wrapper): its dynamic type is part
// of the delivery.
type source struct {
	r     io.Reader
	taken func() int
}

func (d delivery) open(b []byte) source {
	if d.buf && d.tail {
		bb := bytes.NewBuffer(append(append([]byte(nil), b...), enum.Sentinel...))
		return source{bb, func() int { return len(b) + len(enum.Sentinel) - bb.Len() }}
	}
	if d.buf {
		bb := bytes.NewBuffer(append([]byte(nil), b...))
		return source{bb, func() int { return len(b) - bb.Len() }}
	}
	rd := enum.NewFragReader(b, nil, d.mode, d.chunk)
	return source{rd, rd.Pos}
}

func hexs(b []byte) string {
	if len(b) > 96 {
		return hex.EncodeToString(b[:96]) + fmt.Sprintf("...(%d bytes)", len(b))
	}
	return hex.EncodeToString(b)
}

var parsed sync.Map // signature string -> parseResult

type parseResult struct {
	t   signature.Type
	err error
}

func repoParse(sig string) (signature.Type, error) {
	if v, ok := parsed.Load(sig); ok {
		p := v.(parseResult)
		return p.t, p.err
	}
	var p parseResult
	func() {
		defer func() {
			if r := recover(); r != nil {
				p.err = fmt.Errorf("panic: %v", r)
			}
		}()
		p.t, p.err = signature.Parse(sig)
	}()
	parsed.Store(sig, p)
	return p.t, p.err
}

func guarded(f func() error) (err error, panicked bool) {
	defer func() {
		if r := recover(); r != nil {
			err, panicked = fmt.Errorf("panic: %v", r), true
		}
	}()
	return f(), false
}

// ---- the three clauses; each returns "" or the violated clause

func encodeClause(d *refmodel.Datum) (string, string) {
	rt := gobridge.GoType(d.T)
	x := gobridge.ToGo(d, rt).Interface()
	var buf bytes.Buffer
	err, pan := guarded(func() error {
		e := encoding.NewEncoder(encoding.DefaultCap(), &buf)
		p := bus.NewParams("("+d.T.String()+")", x)
		return p.Write(e)
	})
	if pan {
		return "panic", err.Error()
	}
	if err != nil {
		return "error", fmt.Sprintf("Encode(%s) returned %v", rt, err)
	}
	got := buf.Bytes()
	var first []byte
	for _, o := range gobridge.Orders(d, 16) {
		want := refmodel.Encode(o)
		if first == nil {
			first = want
		}
		if bytes.Equal(got, want) {
			return "", ""
		}
	}
	if hasLargeMap(d) && sameUpToMapOrder(got, d) {
		// maps of more than two entries (boundary family): the orders are not
		// enumerated, the multisets of entries are compared
		return "", ""
	}
	return "bytes-differ", fmt.Sprintf("Encode(%s) wrote %d bytes %s, documented serialization is %d bytes %s%s", rt, len(got), hexs(got), len(first), hexs(first), firstDiff(got, first))
}

// firstDiff says where two long byte strings part (nothing for short ones,
// which are printed in full).
func firstDiff(got, want []byte) string {
	if len(got) <= 96 && len(want) <= 96 {
		return ""
	}
	i := 0
	for i < len(got) && i < len(want) && got[i] == want[i] {
		i++
	}
	return fmt.Sprintf(" (first difference at offset %d)", i)
}

func consumed(rd source, n int) (string, string) {
	if rd.taken() == n {
		return "", ""
	}
	k := "over"
	if rd.taken() < n {
		k = "under"
	}
	return "consumed-" + k, fmt.Sprintf("consumed %d bytes of a %d-byte encoding", rd.taken(), n)
}

func readerClause(d *refmodel.Datum, dl delivery) (string, string) {
	sig := d.T.String()
	pt, err := repoParse(sig)
	if err != nil {
		return "parse-error", fmt.Sprintf("signature.Parse(%q) returned %v", sig, err)
	}
	b := refmodel.Encode(d)
	rd := dl.open(b)
	var out []byte
	err, pan := guarded(func() error {
		var e error
		out, e = pt.Reader().Read(rd.r)
		return e
	})
	if pan {
		return "panic", err.Error()
	}
	if err != nil {
		return "error", fmt.Sprintf("Reader().Read returned %v", err)
	}
	if c, det := consumed(rd, len(b)); c != "" {
		return c, det
	}
	if !bytes.Equal(out, b) {
		return "bytes-differ", fmt.Sprintf("Reader().Read returned %d bytes %s for the %d bytes %s%s", len(out), hexs(out), len(b), hexs(b), firstDiff(out, b))
	}
	return "", ""
}

func decodeClause(d *refmodel.Datum, dl delivery) (string, string) {
	rt := gobridge.GoType(d.T)
	b := refmodel.Encode(d)
	rd := dl.open(b)
	p := reflect.New(rt)
	err, pan := guarded(func() error {
		return encoding.NewDecoder(encoding.DefaultCap(), rd.r).Decode(p.Interface())
	})
	if pan {
		return "panic", err.Error()
	}
	if err != nil {
		return "error", fmt.Sprintf("Decode(*%s) returned %v", rt, err)
	}
	if c, det := consumed(rd, len(b)); c != "" {
		return c, det
	}
	back, err := gobridge.FromGo(p.Elem(), d.T)
	if err != nil {
		return "value-differs", fmt.Sprintf("Decode(*%s) of %s gave %#v: %v", rt, hexs(b), p.Elem().Interface(), err)
	}
	if !bytes.Equal(refmodel.Encode(gobridge.Canon(back)), refmodel.Encode(gobridge.Canon(d))) {
		return "value-differs", fmt.Sprintf("Decode(*%s) of %s gave %s, expected %s", rt, hexs(b), back, d)
	}
	return "", ""
}

type entryPoint struct {
	name string
	eval func(d *refmodel.Datum, dl delivery) (string, string)
	dls  []delivery
}

var entries = []entryPoint{
	{"reflect-encode", func(d *refmodel.Datum, _ delivery) (string, string) { return encodeClause(d) }, []delivery{{}}},
	{"sigreader", readerClause, deliveries},
	{"reflect-decode", decodeClause, deliveries},
}

func evalAll(d *refmodel.Datum, fam map[string]*int64, onFail func(ep entryPoint, dl delivery, clause, detail string)) {
	for _, ep := range entries {
		dls := ep.dls
		if d.T.Depth() >= 3 {
			// depth-3 signatures (thorough tier): the sentinel delivery only
			dls = dls[:1]
		}
		for _, dl := range dls {
			clause, detail := ep.eval(d, dl)
			if fam != nil {
				run.Eval(fam[ep.name], 1)
			}
			if clause != "" {
				onFail(ep, dl, clause, detail)
				break
			}
		}
	}
}

// report attributes a failing case. The reduction keeps any failure of the
// same entry point (not only the same clause): a decoder that skips a field
// gets out of step and the visible symptom then depends on what follows, so
// the clause reported is the one of the reduced case.
func report(d *refmodel.Datum, ep entryPoint, dl delivery, clause string) {
	fails := func(x *refmodel.Datum) bool {
		c, _ := ep.eval(x, dl)
		return c != ""
	}
	detail, min := enum.Blame(d, fails, nil)
	mclause, det := ep.eval(min, dl)
	if mclause == "" {
		// the oracle saw the failure, the re-runs of the reduction do not: the
		// code under test keeps state between calls
		unstable(fmt.Sprintf("codec/%s/%s/sig-x-val", ep.name, clause), ep, dl, clause, sigName(d), d.String(), refmodel.Encode(d))
		return
	}
	fp := fmt.Sprintf("codec/%s/%s/%s", ep.name, mclause, detail)
	if len(ep.dls) > 1 {
		if c, _ := ep.eval(min, delivery{mode: enum.EOFSeparate}); c == "" {
			fp += "/" + dl.String()
		}
	}
	b := refmodel.Encode(min)
	rank := fmt.Sprintf("%06d|%s|%s", len(b), min.T, min)
	if run.Fail(fp, rank) {
		run.Keep(fp, rank, fmt.Sprintf("%s on signature %q, value %s (documented serialization %s): %s", ep.name, min.T, min, hexs(b), det),
			map[string]interface{}{"entry": ep.name, "signature": min.T.String(), "go_type": gobridge.GoType(min.T).String(), "value": min.String(),
				"refmodel_hex": hexs(b), "delivery": dl.String(), "clause": mclause, "observed": det,
				"found_in": fmt.Sprintf("%s %s", d.T, d)},
			func() bool { c, _ := ep.eval(min, dl); return c == mclause })
	}
}

// unstable files a failure the oracle observed during the enumeration that
// the re-runs made for its attribution no longer show (a repository that
// keeps state between calls: a pooled buffer, a cache): a violation with the
// fingerprint fp/depends-on-earlier-calls, not a failure of the machinery. fp
// names the entry point, the clause and the family only: on which datum such
// a failure shows is an accident of the order of the calls.
func unstable(fp string, ep entryPoint, dl delivery, clause, sig, val string, b []byte) {
	run.Unstable(fp, fmt.Sprintf("%s on signature %s, value %s (documented serialization %s), %s: clause %s", ep.name, clip(sig, 200), clip(val, 200), hexs(b), dl, clause),
		map[string]interface{}{"entry": ep.name, "signature": clip(sig, 400), "value": clip(val, 400), "refmodel_hex": hexs(b), "refmodel_len": len(b), "delivery": dl.String(), "clause": clause})
}

// outerKind names the outermost constructor of a signature shape.
func outerKind(shape string) string {
	switch {
	case strings.HasPrefix(shape, "(") && strings.Contains(shape[strings.LastIndex(shape, ")"):], "<"):
		return "struct"
	case strings.HasPrefix(shape, "("):
		return "tuple"
	case strings.HasPrefix(shape, "["):
		return "list"
	case strings.HasPrefix(shape, "{"):
		return "map"
	}
	return "atom"
}

func main() {
	run = enum.NewRun("C03", 75*time.Second, 12*time.Minute)
	depth := 2
	if run.Thorough() {
		depth = 3
	}
	sigs := enum.Sigs(enum.SigOpts{Depth: depth, Width: 2, Outer: "cCwWiIlLfdbsmo", Inner: "isbmC",
		OuterKeys: "cCwWiIlLbs", InnerKeys: "isC", Structs: true})
	sigs = append(sigs, refmodel.Atom('v'))
	fam := map[string]*int64{}
	for _, ep := range entries {
		fam[ep.name] = run.Family(ep.name)
	}
	var nvals, nboundary, typeMismatch, typeChecked int64
	var boundaryData []string
	var zeroWidth, lengthSweep, sigShape, limits, strContent map[string]interface{}
	var mu sync.Mutex
	var mismatches []string

	finish := func() int {
		rule := "every signature of Sig(D,2) (outer atoms c C w W i I l L f d b s m o, plus v alone; inner atoms i s b m C; map keys c C w W i I l L b s / i s C; tuples and structs of width <= 2 with at most one composite member) " +
			"x every datum of Val(sig) x 3 entry points (reflect-encode; sigreader and reflect-decode each under 3 deliveries: sentinel follows/unfragmented, separate EOF/1 byte per read, *bytes.Buffer holding exactly the encoding - depth-3 signatures under the first delivery only); " +
			"plus the boundary family (families boundary/<entry point>): lists [i] [C] [s] [m] and maps {ii} {Iw} {wb} {si} taken alone, and a large map or list as struct member (c{Iw}W)<S,a,b,c>, list element [{ii}], map value {i{ii}}, tuple member ([i]) and carried by a dynamic value (m<[i]>, m<[m]>), " +
			"each with exactly 4095 and 4096 entries (4096 = listValueMaxSize, the documented cap; nothing above the cap is enumerated), entry j a fixed function of j with distinct keys, through the same 3 entry points and deliveries " +
			"(reflect-encode of a large map is compared with the documented serialization as a multiset of entries: the output must parse as a datum of the signature, re-encode to itself and equal the datum once every map is sorted by key); the boundary family also holds the lists of zero-width elements [()], [v] and ([()]i); " +
			"plus the zero-width family (families zero-width/<entry point>): element types Z = {(), ()<S>, v} and the tuples and structs of width 1 and 2 over them (27 types, every one serialized to nothing); containers [z] for every z of Z with 0..8 elements, {kv} for k, v in {(), ()<S>, v} and {(v)(v)} with 0 and 1 entry; " +
			"every container c alone and at the positions (c), (c)<S,a>, (cC), (cw), (cCw), (ci) [1..4 bytes follow], (c()), (ic), [c] with two elements, {ic} with one entry, m<c>, through the 3 entry points under all 3 deliveries " +
			"(coverage.zero_width gives the counts, among them the data whose container has more entries than bytes after it); " +
			"plus the length-sweep family (families length-sweep/<entry point>): the variable-length leaves s (string of n bytes), m-signature (dynamic value whose signature string has n >= 1 bytes), m-raw (dynamic value carrying a raw buffer of n bytes; reflection encoder and decoder only) and list ([C] of n <= 4096 elements) " +
			"x every length 0..300 (s, m-signature and m-raw taken alone: every length 0..4200) and, around every power of two from 512 to 64 KiB (thorough: 1 MiB), 2^k-1, 2^k, 2^k+1 and 2^k+2^(k-1), plus 70000 (coverage.length_sweep lists them) " +
			"x the positions alone, tuple-last (ix), tuple-non-last (xi), list-elem-followed [x,y], in-value m<x> and value-in-list-followed [m<x>,m<i>] (the last two not for m-signature and m-raw) - the full product, no subset - " +
			"with position-dependent content without period, through the 3 entry points (decoding ones under 6 deliveries: the 3 above, sentinel follows/4093-byte reads, data+EOF, *bytes.Buffer holding the encoding and a sentinel) and, for s alone, basic.WriteString and basic.ReadString (thorough: s alone at every length 0..70000 through the 5 entry points under the first delivery); " +
			"a failure is attributed to the smallest failing length (bisection between enumerated lengths); " +
			"plus the signature-shape family (families signature-shape/<entry point>): signatures of the shapes wide (n sibling composites as the members of one tuple - of one structure for the kind struct), wide-depth-2 (that tuple as the middle member of (I<wide>s)) and deep (n composites nested around an 'i') " +
			"x the kinds tuple (Ic), struct (Ic)<Pj,x,y>, list [i] (j mod 3 elements), map {is} (j mod 2 entries) and mixed (sibling / level j of kind j mod 4) x every n of 1..40 (thorough: 1..100) " +
			"x the carriers typed (the datum itself), m (the dynamic value carrying it), (Ims) (that value between an integer and a string) and [mm] (the list of that value and m<i>) - the full product, content of sibling j a function of j - through the 3 entry points under the 3 deliveries; " +
			"a failure is attributed to the smallest failing n per entry point and shape (n = 1: ordinary attribution); " +
			"plus the limit family (families limit/<entry point>): the capped variable-length leaves at their documented cap of 10 MiB = 10485760 bytes: s (string) of cap-1, cap and cap+1 bytes, m-raw (dynamic value carrying a raw buffer; reflection encoder and decoder only) of cap-1 and cap bytes " +
			"x the positions alone, tuple-last (ix), tuple-non-last (xi) and, for s, in-value m<s> (thorough: also list-elem-followed and, for s, value-in-list-followed) - the full product, position-dependent content - " +
			"through the 3 entry points (decoding ones under 3 deliveries: sentinel follows/unfragmented, separate EOF/65521-byte reads, *bytes.Buffer holding exactly the encoding) and, for s alone, basic.WriteString and basic.ReadString; " +
			"oracle: up to the cap the usual clauses, at cap+1 every entry point - writers and readers alike - must return an error (clause accepted-above-cap otherwise); " +
			"evaluations counts (datum, entry point, delivery) executions. A case class is (signature shape with struct names dropped - for the boundary family followed by #n=<entries>, for the zero-width family followed by the position and by whether the count exceeds the bytes after the container; for the length-sweep family: leaf, position, length class 0..300 | power-of-two neighbourhood -, entry point, outcome; for the signature-shape family: shape-kind, carrier, class of n (1..8, 9..16, 17..40, 41..100), entry point, outcome; for the limit family: leaf, position, cap-1 | cap | cap+1, entry point, outcome); distinct_nontrivial counts the distinct classes executed"
		mu.Lock()
		mm := append([]string(nil), mismatches...)
		mu.Unlock()
		extra := map[string]interface{}{
			"depth": depth, "signatures": len(sigs), "values": nvals,
			"boundary":                  map[string]interface{}{"documented_cap": sizeCap, "entries": boundaryCounts, "data_executed": nboundary, "data": boundaryData},
			"zero_width":                zeroWidth,
			"length_sweep":              lengthSweep,
			"string_content":            strContent,
			"signature_shape":           sigShape,
			"limit":                     limits,
			"go_type_vs_signature_Type": map[string]interface{}{"compared_m_and_o_free_signatures": typeChecked, "different": typeMismatch, "first": mm},
		}
		assumptions := []string{
			"the documented layout is the reference model written from doc/about-qimessaging.md; 8/16-bit integers little-endian fixed width; booleans one byte; 'v' no byte",
			"the Go type of a signature is the one generated code uses: 'm' = value.Value, 'o' = object.ObjectReference, tuples struct{P0..}, structs with title-cased field names; for signatures without m/o it is compared with signature.Parse(sig).Type() (a difference is a violation: the reflection codec works from that type)",
			"map keys are integers, booleans and strings (no float keys); maps have at most 2 entries except in the boundary family (4095 and 4096 entries), the encoder may emit them in any order",
			"zero-width types (void, the empty tuple, a structure without member, tuples and structures of those) serialize to no byte, so a list of n of them is its 32-bit count alone; a map keyed by a zero-width type has at most one entry (the key type has a single value), wire counts above 1 for such maps are not judged; counts of zero-width elements stay <= 8 (and 4095/4096 in the boundary family): what the codecs do with huge counts over elements that consume no input belongs to C07",
			"decoders are given three reader types/extents: the fragmenting reader with a sentinel after the encoding, the fragmenting reader with a separate EOF, and a *bytes.Buffer holding exactly the encoding (bytes.NewBuffer(payload), what generated code passes); other reader types (*bytes.Reader, bufio.Reader) are not enumerated",
			"4096 entries (listValueMaxSize of type/encoding and type/value) is the largest list or map the codecs are documented to handle: 4095 and 4096 entries must be handled by the three entry points alike; larger counts are refused on purpose by the repository and are not judged",
			"dynamic values carry every scalar kind, strings, void, [i], [s], (is), {sI}; 'r' (raw) is not enumerated by Sig x Val: the repository's signature grammar has no 'r' atom (the length-sweep family passes a raw buffer carried by a value.Value through the reflection encoder and decoder, layout: 32-bit count then the bytes)",
			"length-sweep: thresholds on the length of a leaf are looked for at every length up to 300 (4200 for a string or a signature alone) and next to the powers of two up to 64 KiB (thorough 1 MiB); a defect that only shows for lengths in a narrow band elsewhere (say 1000..1003) is not reached; between 1 MiB + 1 and the cap of 10 MiB only cap-1, cap and cap+1 are enumerated (limit family)",
			"limit: basic.MaxStringSize ('the longest string allowed', 10 MiB) is a documented cap of the format: a string of cap+1 bytes must be refused by the writers and by the readers, a string of cap bytes handled by all of them; the cap is the documented number, not the constant of the tree under test. For a raw buffer carried by a dynamic value (10 MiB, a constant of type/value that is not exported) only cap-1 and cap are enumerated, nothing above; the 10 MiB data are not delivered one byte per read; a signature string of 10 MiB is not enumerated",
			"signature-shape: no limit on the number of members of a tuple or on the nesting depth of a signature is documented, so every entry point must handle all enumerated shapes; n stops at 40 (thorough 100): a threshold above is not reached; dynamic values carry the composites as value.Opaque (signature + reference-model bytes), what generated code builds for a structure passed as a value",
			"a codec call that does not return within the hang limit (5 executions) is reported as a violation with the clause 'hang' and ends the enumeration",
		}
		return run.Finish(rule, true, extra, assumptions)
	}
	run.SetAbortFinish(15*time.Second, finish)

	// self-check of the oracle and of the bridge: ToGo/FromGo invert each
	// other on the distinguished value of every signature
	for _, t := range sigs {
		d := enum.Dist(t)
		back, err := gobridge.FromGo(gobridge.ToGo(d, gobridge.GoType(t)), t)
		if err != nil || !bytes.Equal(refmodel.Encode(gobridge.Canon(back)), refmodel.Encode(gobridge.Canon(d))) {
			run.EngineError("gobridge self-check failed for %s: %v", t, err)
			break
		}
	}

	// the boundary family first: a handful of data, never cut by the deadline
	nboundary, boundaryData = familyBoundary()
	zeroWidth = familyZeroWidth()
	lengthSweep = familyLengthSweep(run.Thorough())
	strContent = familyStringContent(run.Thorough())
	sigShape = familySignatureShape(run.Thorough())
	limits = familyLimit(run.Thorough())

	guards := make(chan *enum.Guard, run.Workers+1)
	for i := 0; i <= run.Workers; i++ {
		guards <- run.NewGuard()
	}
	counts := make([]int64, len(sigs))
	done, all := run.Parallel(len(sigs), func(i int) {
		g := <-guards
		defer func() { guards <- g }()
		t := sigs[i]
		if !t.Contains(refmodel.Value) && !t.Contains(refmodel.Object) {
			if pt, err := repoParse(t.String()); err == nil {
				var rt reflect.Type
				func() {
					defer func() { recover() }()
					rt = pt.Type()
				}()
				mu.Lock()
				typeChecked++
				if rt != gobridge.GoType(t) {
					typeMismatch++
					if len(mismatches) < 5 {
						mismatches = append(mismatches, fmt.Sprintf("%s: Type()=%v, generated-code type=%v", t, rt, gobridge.GoType(t)))
					}
					// the reflection codec works from Go types: the Go type the
					// signature package hands out for a signature (what proxies
					// decode replies into) must be the one whose encoding is the
					// documented layout of that signature
					sig, want := t.String(), gobridge.GoType(t)
					run.Violation("codec/signature.Type()/go-type-differs/"+outerKind(t.Shape()), fmt.Sprintf("%06d|%s", len(sig), sig),
						fmt.Sprintf("signature.Parse(%q).Type() = %v, but the documented layout of %q is that of %v (one member per signature member, same kinds)", sig, rt, sig, want),
						map[string]interface{}{"signature": sig, "Type()": fmt.Sprint(rt), "expected": fmt.Sprint(want), "note": "the enumeration asks for the types of all signatures of the universe in one process, in construction order"},
						func() bool {
							pt, err := repoParse(sig)
							if err != nil {
								return false
							}
							var got reflect.Type
							func() {
								defer func() { recover() }()
								got = pt.Type()
							}()
							return got != want
						})
				}
				mu.Unlock()
			}
		}
		outcomes := map[string]bool{}
		for _, d := range enum.Vals(t) {
			d := d
			counts[i]++
			g.Begin("codec/hang/"+t.Shape(), func() (string, interface{}) {
				return fmt.Sprintf("a codec call on signature %q, value %s (%s)", t, d, hexs(refmodel.Encode(d))),
					map[string]interface{}{"signature": t.String(), "value": d.String(), "refmodel_hex": hexs(refmodel.Encode(d))}
			}, func() { evalAll(d, nil, func(entryPoint, delivery, string, string) {}) })
			failed := map[string]bool{}
			evalAll(d, fam, func(ep entryPoint, dl delivery, clause, detail string) {
				failed[ep.name] = true
				outcomes[ep.name+"|"+clause] = true
				report(d, ep, dl, clause)
			})
			g.End()
			for _, ep := range entries {
				if !failed[ep.name] {
					outcomes[ep.name+"|ok"] = true
				}
			}
		}
		local := map[string]int{}
		for o := range outcomes {
			local[t.Shape()+"|"+o]++
		}
		run.DistinctSet(local)
		if i == 5 || i == 40 || i == len(sigs)/2 || i == len(sigs)-2 {
			d := enum.Dist(t)
			run.Sample(10, map[string]interface{}{"signature": t.String(), "go_type": gobridge.GoType(t).String(), "value": d.String(), "refmodel_hex": hexs(refmodel.Encode(d))})
		}
	})
	for _, c := range counts {
		nvals += c
	}
	if !all {
		run.Note("%d of %d signatures completed before the deadline (signatures are ordered by construction: atoms, lists, maps, tuples, structs)", done, len(sigs))
	}
	os.Exit(finish())
}
