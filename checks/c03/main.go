// C03 - All serializers agree with each other and with the documented layout.
//
// For every signature of Sig(D,2) and every datum x of Val(sig)
// (DESIGN.md section 3, C03), with b = reference-model encoding of x:
//
//	reflect-encode  the reflection encoder (encoding.NewEncoder, called the
//	                way generated proxies do: bus.NewParams(sig, x).Write(e),
//	                x passed by value) produces b (maps: b for some order
//	                of the entries; the orders of a map of more than two
//	                entries are not enumerated, the multisets of entries
//	                are compared instead)
//	sigreader       signature.Parse(sig).Reader().Read over b followed by a
//	                sentinel returns exactly b and consumes exactly len(b)
//	reflect-decode  the reflection decoder (encoding.NewDecoder(...).Decode
//	                of a pointer to the Go type) over b followed by a
//	                sentinel succeeds, consumes exactly len(b) and yields a
//	                value that reads back as x
//
// Next to Sig x Val a boundary family (boundary.go) runs lists and maps of
// exactly 4095 and 4096 entries (4096 = the documented cap of the codecs)
// through the same three clauses.
//
// The Go type of a signature is the one generated code uses (see
// internal/enum/gobridge): 'm' is value.Value, 'o' object.ObjectReference.
package main

import (
	"bytes"
	"encoding/hex"
	"fmt"
	"os"
	"reflect"
	"sync"
	"time"

	"github.com/lugu/qiloop/bus"
	"github.com/lugu/qiloop/meta/signature"
	"github.com/lugu/qiloop/type/encoding"

	"verif/internal/enum"
	"verif/internal/enum/gobridge"
	"verif/internal/refmodel"
)

var run *enum.Run

type delivery struct {
	mode  enum.EOFMode
	chunk int
}

func (d delivery) String() string {
	if d.chunk == 1 {
		return d.mode.String() + "/1-byte-reads"
	}
	return d.mode.String() + "/unfragmented"
}

var deliveries = []delivery{{enum.NoEOF, 0}, {enum.EOFSeparate, 1}}

func hexs(b []byte) string {
	if len(b) > 96 {
		return hex.EncodeToString(b[:96]) + fmt.Sprintf("...(%d bytes)", len(b))
	}
	return hex.EncodeToString(b)
}

var parsed sync.Map // signature string -> parseResult

type parseResult struct {
	t   signature.Type
	err error
}

func repoParse(sig string) (signature.Type, error) {
	if v, ok := parsed.Load(sig); ok {
		p := v.(parseResult)
		return p.t, p.err
	}
	var p parseResult
	func() {
		defer func() {
			if r := recover(); r != nil {
				p.err = fmt.Errorf("panic: %v", r)
			}
		}()
		p.t, p.err = signature.Parse(sig)
	}()
	parsed.Store(sig, p)
	return p.t, p.err
}

func guarded(f func() error) (err error, panicked bool) {
	defer func() {
		if r := recover(); r != nil {
			err, panicked = fmt.Errorf("panic: %v", r), true
		}
	}()
	return f(), false
}

// ---- the three clauses; each returns "" or the violated clause

func encodeClause(d *refmodel.Datum) (string, string) {
	rt := gobridge.GoType(d.T)
	x := gobridge.ToGo(d, rt).Interface()
	var buf bytes.Buffer
	err, pan := guarded(func() error {
		e := encoding.NewEncoder(encoding.DefaultCap(), &buf)
		p := bus.NewParams("("+d.T.String()+")", x)
		return p.Write(e)
	})
	if pan {
		return "panic", err.Error()
	}
	if err != nil {
		return "error", fmt.Sprintf("Encode(%s) returned %v", rt, err)
	}
	got := buf.Bytes()
	var first []byte
	for _, o := range gobridge.Orders(d, 16) {
		want := refmodel.Encode(o)
		if first == nil {
			first = want
		}
		if bytes.Equal(got, want) {
			return "", ""
		}
	}
	if hasLargeMap(d) && sameUpToMapOrder(got, d) {
		// maps of more than two entries (boundary family): the orders are not
		// enumerated, the multisets of entries are compared
		return "", ""
	}
	return "bytes-differ", fmt.Sprintf("Encode(%s) wrote %d bytes %s, documented serialization is %d bytes %s", rt, len(got), hexs(got), len(first), hexs(first))
}

func consumed(rd *enum.FragReader, n int) (string, string) {
	if rd.Pos() == n {
		return "", ""
	}
	k := "over"
	if rd.Pos() < n {
		k = "under"
	}
	return "consumed-" + k, fmt.Sprintf("consumed %d bytes of a %d-byte encoding", rd.Pos(), n)
}

func readerClause(d *refmodel.Datum, dl delivery) (string, string) {
	sig := d.T.String()
	pt, err := repoParse(sig)
	if err != nil {
		return "parse-error", fmt.Sprintf("signature.Parse(%q) returned %v", sig, err)
	}
	b := refmodel.Encode(d)
	rd := enum.NewFragReader(b, nil, dl.mode, dl.chunk)
	var out []byte
	err, pan := guarded(func() error {
		var e error
		out, e = pt.Reader().Read(rd)
		return e
	})
	if pan {
		return "panic", err.Error()
	}
	if err != nil {
		return "error", fmt.Sprintf("Reader().Read returned %v", err)
	}
	if c, det := consumed(rd, len(b)); c != "" {
		return c, det
	}
	if !bytes.Equal(out, b) {
		return "bytes-differ", fmt.Sprintf("Reader().Read returned %d bytes %s for the %d bytes %s", len(out), hexs(out), len(b), hexs(b))
	}
	return "", ""
}

func decodeClause(d *refmodel.Datum, dl delivery) (string, string) {
	rt := gobridge.GoType(d.T)
	b := refmodel.Encode(d)
	rd := enum.NewFragReader(b, nil, dl.mode, dl.chunk)
	p := reflect.New(rt)
	err, pan := guarded(func() error {
		return encoding.NewDecoder(encoding.DefaultCap(), rd).Decode(p.Interface())
	})
	if pan {
		return "panic", err.Error()
	}
	if err != nil {
		return "error", fmt.Sprintf("Decode(*%s) returned %v", rt, err)
	}
	if c, det := consumed(rd, len(b)); c != "" {
		return c, det
	}
	back, err := gobridge.FromGo(p.Elem(), d.T)
	if err != nil {
		return "value-differs", fmt.Sprintf("Decode(*%s) of %s gave %#v: %v", rt, hexs(b), p.Elem().Interface(), err)
	}
	if !bytes.Equal(refmodel.Encode(gobridge.Canon(back)), refmodel.Encode(gobridge.Canon(d))) {
		return "value-differs", fmt.Sprintf("Decode(*%s) of %s gave %s, expected %s", rt, hexs(b), back, d)
	}
	return "", ""
}

type entryPoint struct {
	name string
	eval func(d *refmodel.Datum, dl delivery) (string, string)
	dls  []delivery
}

var entries = []entryPoint{
	{"reflect-encode", func(d *refmodel.Datum, _ delivery) (string, string) { return encodeClause(d) }, []delivery{{}}},
	{"sigreader", readerClause, deliveries},
	{"reflect-decode", decodeClause, deliveries},
}

func evalAll(d *refmodel.Datum, fam map[string]*int64, onFail func(ep entryPoint, dl delivery, clause, detail string)) {
	for _, ep := range entries {
		dls := ep.dls
		if d.T.Depth() >= 3 {
			// depth-3 signatures (thorough tier): the sentinel delivery only
			dls = dls[:1]
		}
		for _, dl := range dls {
			clause, detail := ep.eval(d, dl)
			if fam != nil {
				run.Eval(fam[ep.name], 1)
			}
			if clause != "" {
				onFail(ep, dl, clause, detail)
				break
			}
		}
	}
}

// report attributes a failing case. The reduction keeps any failure of the
// same entry point (not only the same clause): a decoder that skips a field
// gets out of step and the visible symptom then depends on what follows, so
// the clause reported is the one of the reduced case.
func report(d *refmodel.Datum, ep entryPoint, dl delivery, clause string) {
	fails := func(x *refmodel.Datum) bool {
		c, _ := ep.eval(x, dl)
		return c != ""
	}
	detail, min := enum.Blame(d, fails, nil)
	mclause, det := ep.eval(min, dl)
	if mclause == "" {
		run.EngineError("reduction of %s %s lost the failure", d.T, d)
		return
	}
	fp := fmt.Sprintf("codec/%s/%s/%s", ep.name, mclause, detail)
	if len(ep.dls) > 1 {
		if c, _ := ep.eval(min, delivery{enum.EOFSeparate, 0}); c == "" {
			fp += "/" + dl.String()
		}
	}
	b := refmodel.Encode(min)
	rank := fmt.Sprintf("%06d|%s|%s", len(b), min.T, min)
	if run.Fail(fp, rank) {
		run.Keep(fp, rank, fmt.Sprintf("%s on signature %q, value %s (documented serialization %s): %s", ep.name, min.T, min, hexs(b), det),
			map[string]interface{}{"entry": ep.name, "signature": min.T.String(), "go_type": gobridge.GoType(min.T).String(), "value": min.String(),
				"refmodel_hex": hexs(b), "delivery": dl.String(), "clause": mclause, "observed": det,
				"found_in": fmt.Sprintf("%s %s", d.T, d)},
			func() bool { c, _ := ep.eval(min, dl); return c == mclause })
	}
}

func main() {
	run = enum.NewRun("C03", 40*time.Second, 9*time.Minute)
	depth := 2
	if run.Thorough() {
		depth = 3
	}
	sigs := enum.Sigs(enum.SigOpts{Depth: depth, Width: 2, Outer: "cCwWiIlLfdbsmo", Inner: "isbmC",
		OuterKeys: "cCwWiIlLbs", InnerKeys: "isC", Structs: true})
	sigs = append(sigs, refmodel.Atom('v'))
	fam := map[string]*int64{}
	for _, ep := range entries {
		fam[ep.name] = run.Family(ep.name)
	}
	var nvals, nboundary, typeMismatch, typeChecked int64
	var boundaryData []string
	var mu sync.Mutex
	var mismatches []string

	finish := func() int {
		rule := "every signature of Sig(D,2) (outer atoms c C w W i I l L f d b s m o, plus v alone; inner atoms i s b m C; map keys c C w W i I l L b s / i s C; tuples and structs of width <= 2 with at most one composite member) " +
			"x every datum of Val(sig) x 3 entry points (reflect-encode; sigreader and reflect-decode each under 2 deliveries: sentinel follows/unfragmented, separate EOF/1 byte per read - depth-3 signatures under the first delivery only); " +
			"plus the boundary family (families boundary/<entry point>): lists [i] [C] [s] [m] and maps {ii} {Iw} {wb} {si} taken alone, and a large map or list as struct member (c{Iw}W)<S,a,b,c>, list element [{ii}], map value {i{ii}}, tuple member ([i]) and carried by a dynamic value (m<[i]>, m<[m]>), " +
			"each with exactly 4095 and 4096 entries (4096 = listValueMaxSize, the documented cap; nothing above the cap is enumerated), entry j a fixed function of j with distinct keys, through the same 3 entry points and deliveries " +
			"(reflect-encode of a large map is compared with the documented serialization as a multiset of entries: the output must parse as a datum of the signature, re-encode to itself and equal the datum once every map is sorted by key); " +
			"evaluations counts (datum, entry point, delivery) executions. A case class is (signature shape with struct names dropped - for the boundary family followed by #n=<entries> -, entry point, outcome); distinct_nontrivial counts the distinct classes executed"
		mu.Lock()
		mm := append([]string(nil), mismatches...)
		mu.Unlock()
		extra := map[string]interface{}{
			"depth": depth, "signatures": len(sigs), "values": nvals,
			"boundary":                  map[string]interface{}{"documented_cap": sizeCap, "entries": boundaryCounts, "data_executed": nboundary, "data": boundaryData},
			"go_type_vs_signature_Type": map[string]interface{}{"compared_m_and_o_free_signatures": typeChecked, "different": typeMismatch, "first": mm},
		}
		assumptions := []string{
			"the documented layout is the reference model written from doc/about-qimessaging.md; 8/16-bit integers little-endian fixed width; booleans one byte; 'v' no byte",
			"the Go type of a signature is the one generated code uses: 'm' = value.Value, 'o' = object.ObjectReference, tuples struct{P0..}, structs with title-cased field names; for signatures without m/o it is compared with signature.Parse(sig).Type() (reported, not decided)",
			"map keys are integers, booleans and strings (no float keys); maps have at most 2 entries except in the boundary family (4095 and 4096 entries), the encoder may emit them in any order",
			"4096 entries (listValueMaxSize of type/encoding and type/value) is the largest list or map the codecs are documented to handle: 4095 and 4096 entries must be handled by the three entry points alike; larger counts are refused on purpose by the repository and are not judged",
			"dynamic values carry every scalar kind, strings, void, [i], [s], (is), {sI}; 'r' (raw) is not enumerated: the repository's signature grammar has no 'r' atom",
			"a codec call that does not return within the hang limit (5 executions) is reported as a violation with the clause 'hang' and ends the enumeration",
		}
		return run.Finish(rule, true, extra, assumptions)
	}
	run.SetAbortFinish(15*time.Second, finish)

	// self-check of the oracle and of the bridge: ToGo/FromGo invert each
	// other on the distinguished value of every signature
	for _, t := range sigs {
		d := enum.Dist(t)
		back, err := gobridge.FromGo(gobridge.ToGo(d, gobridge.GoType(t)), t)
		if err != nil || !bytes.Equal(refmodel.Encode(gobridge.Canon(back)), refmodel.Encode(gobridge.Canon(d))) {
			run.EngineError("gobridge self-check failed for %s: %v", t, err)
			break
		}
	}

	// the boundary family first: a handful of data, never cut by the deadline
	nboundary, boundaryData = familyBoundary()

	guards := make(chan *enum.Guard, run.Workers+1)
	for i := 0; i <= run.Workers; i++ {
		guards <- run.NewGuard()
	}
	counts := make([]int64, len(sigs))
	done, all := run.Parallel(len(sigs), func(i int) {
		g := <-guards
		defer func() { guards <- g }()
		t := sigs[i]
		if !t.Contains(refmodel.Value) && !t.Contains(refmodel.Object) {
			if pt, err := repoParse(t.String()); err == nil {
				var rt reflect.Type
				func() {
					defer func() { recover() }()
					rt = pt.Type()
				}()
				mu.Lock()
				typeChecked++
				if rt != gobridge.GoType(t) {
					typeMismatch++
					if len(mismatches) < 5 {
						mismatches = append(mismatches, fmt.Sprintf("%s: Type()=%v, generated-code type=%v", t, rt, gobridge.GoType(t)))
					}
				}
				mu.Unlock()
			}
		}
		outcomes := map[string]bool{}
		for _, d := range enum.Vals(t) {
			d := d
			counts[i]++
			g.Begin("codec/hang/"+t.Shape(), func() (string, interface{}) {
				return fmt.Sprintf("a codec call on signature %q, value %s (%s)", t, d, hexs(refmodel.Encode(d))),
					map[string]interface{}{"signature": t.String(), "value": d.String(), "refmodel_hex": hexs(refmodel.Encode(d))}
			}, func() { evalAll(d, nil, func(entryPoint, delivery, string, string) {}) })
			failed := map[string]bool{}
			evalAll(d, fam, func(ep entryPoint, dl delivery, clause, detail string) {
				failed[ep.name] = true
				outcomes[ep.name+"|"+clause] = true
				report(d, ep, dl, clause)
			})
			g.End()
			for _, ep := range entries {
				if !failed[ep.name] {
					outcomes[ep.name+"|ok"] = true
				}
			}
		}
		local := map[string]int{}
		for o := range outcomes {
			local[t.Shape()+"|"+o]++
		}
		run.DistinctSet(local)
		if i == 5 || i == 40 || i == len(sigs)/2 || i == len(sigs)-2 {
			d := enum.Dist(t)
			run.Sample(10, map[string]interface{}{"signature": t.String(), "go_type": gobridge.GoType(t).String(), "value": d.String(), "refmodel_hex": hexs(refmodel.Encode(d))})
		}
	})
	for _, c := range counts {
		nvals += c
	}
	if !all {
		run.Note("%d of %d signatures completed before the deadline (signatures are ordered by construction: atoms, lists, maps, tuples, structs)", done, len(sigs))
	}
	os.Exit(finish())
}
