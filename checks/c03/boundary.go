package main

// Family "boundary": lists and maps holding exactly sizeCap-1 and sizeCap
// entries, sizeCap = 4096 being the documented cap of the repository's
// codecs (listValueMaxSize in type/encoding and type/value). Both counts are
// inside the accepted domain: the encoder writes them and the signature
// reader passes them, so the three entry points must agree on them exactly
// as on the small data of Val(T). Nothing ABOVE the cap is enumerated: there
// the repository refuses on purpose and the property says nothing.
//
// The large container is taken alone (lists [i] [C] [s] [m], maps {ii} {Iw}
// {wb} {si}; lists of zero-width elements [()] [v], also followed by four
// bytes: ([()]i)) and in every kind of position (struct member, list element,
// map value, tuple member, carried by a dynamic value: m<[i]>, m<[m]>).
// Element j is a deterministic function of j (an odd
// multiplier modulo the width: keys are distinct by construction). The
// oracle is the usual one; the entries of a map may be written in any order,
// which for thousands of entries is decided by comparing the multiset of
// entries (see sameUpToMapOrder) instead of enumerating the orders.

import (
	"bytes"
	"fmt"
	"sync/atomic"

	"verif/internal/enum"
	"verif/internal/enum/gobridge"
	"verif/internal/refmodel"
)

const sizeCap = 4096

type boundarySpec struct {
	sig  string
	path []int  // position of the large container (nil: the datum itself)
	dyn  string // for sig "m": the signature of the large container the value carries
}

var boundarySpecs = []boundarySpec{
	{"[i]", nil, ""}, {"[C]", nil, ""}, {"[s]", nil, ""},
	{"{ii}", nil, ""}, {"{Iw}", nil, ""}, {"{wb}", nil, ""}, {"{si}", nil, ""},
	{"(c{Iw}W)<S,a,b,c>", []int{1}, ""}, // struct member
	{"[{ii}]", []int{0}, ""},            // list element
	{"{i{ii}}", []int{1}, ""},           // map value
	{"([i])", []int{0}, ""},             // tuple member
	// dynamic values (type/value has its own copy of the cap): a list of
	// 4096 values, and a value that carries a large list
	{"[m]", nil, ""},
	{"m", []int{0}, "[i]"},
	{"m", []int{0}, "[m]"},
	// lists of elements that occupy no byte (see zerowidth.go): the whole
	// encoding of the list is its count
	{"[()]", nil, ""}, {"[v]", nil, ""},
	{"([()]i)", []int{0}, ""},
}

var boundaryCounts = []int{sizeCap - 1, sizeCap}

type boundaryCase struct {
	d    *refmodel.Datum
	path []int
	n    int
}

// nth is the j-th element of the sequence that fills a large container.
// Integers of 16 bits and more and strings are injective in j for
// j < 65536 (an odd multiplier is a bijection modulo a power of two), so
// they can serve as map keys.
func nth(t *refmodel.Type, j int) *refmodel.Datum {
	switch t.Kind {
	case refmodel.Bool:
		return &refmodel.Datum{T: t, U: uint64((j / 3) & 1)}
	case refmodel.String:
		return &refmodel.Datum{T: t, S: fmt.Sprintf("k%04d", j)}
	case refmodel.Value:
		return &refmodel.Datum{T: t, Dyn: nth(refmodel.Atom('i'), j)}
	}
	if isZeroWidth(t) {
		// a zero-width type has a single value
		return enum.Dist(t)
	}
	w := t.Kind.Width()
	if w <= 0 {
		panic("boundary: no sequence for " + t.String())
	}
	u := uint64(uint32(j+1) * 0x9E3779B1)
	if w == 8 {
		u |= u << 32
	}
	if w < 8 {
		u &= (uint64(1) << (8 * uint(w))) - 1
	}
	return &refmodel.Datum{T: t, U: u}
}

// large builds the list or map of type t with n entries.
func large(t *refmodel.Type, n int) *refmodel.Datum {
	d := &refmodel.Datum{T: t}
	for j := 0; j < n; j++ {
		if t.Kind == refmodel.Map {
			d.Elems = append(d.Elems, nth(t.Key, j))
		}
		d.Elems = append(d.Elems, nth(t.Elem, n-1-j))
	}
	return d
}

// putAt returns a copy of d with the sub-datum at path replaced by nd (same
// type).
func putAt(d *refmodel.Datum, path []int, nd *refmodel.Datum) *refmodel.Datum {
	if len(path) == 0 {
		return nd
	}
	c := *d
	if d.T.Kind == refmodel.Value {
		c.Dyn = putAt(d.Dyn, path[1:], nd)
		return &c
	}
	c.Elems = append([]*refmodel.Datum(nil), d.Elems...)
	c.Elems[path[0]] = putAt(d.Elems[path[0]], path[1:], nd)
	return &c
}

// sigName names the signature of a case; a dynamic value is written with
// the signature it carries.
func sigName(d *refmodel.Datum) string {
	if d.T.Kind == refmodel.Value {
		return "m<" + d.Dyn.T.String() + ">"
	}
	return d.T.String()
}

// withCount returns a copy of d in which the container at path keeps its
// first m entries.
func withCount(d *refmodel.Datum, path []int, m int) *refmodel.Datum {
	cur := d.Child(path)
	c := *cur
	if cur.T.Kind == refmodel.Map {
		m *= 2
	}
	c.Elems = cur.Elems[:m:m]
	return putAt(d, path, &c)
}

func boundaryCases() []boundaryCase {
	var out []boundaryCase
	for _, sp := range boundarySpecs {
		t := refmodel.MustParse(sp.sig)
		base := enum.Dist(t)
		for _, n := range boundaryCounts {
			if sp.dyn != "" {
				out = append(out, boundaryCase{&refmodel.Datum{T: t, Dyn: large(refmodel.MustParse(sp.dyn), n)}, sp.path, n})
				continue
			}
			out = append(out, boundaryCase{putAt(base, sp.path, large(base.Child(sp.path).T, n)), sp.path, n})
		}
	}
	return out
}

// hasLargeMap reports whether d holds a map with more than two entries (the
// ones whose orders gobridge.Orders does not enumerate).
func hasLargeMap(d *refmodel.Datum) bool {
	if d.T.Kind == refmodel.Map && len(d.Elems) > 4 {
		return true
	}
	if d.Dyn != nil && hasLargeMap(d.Dyn) {
		return true
	}
	for _, e := range d.Elems {
		if hasLargeMap(e) {
			return true
		}
	}
	return false
}

// sameUpToMapOrder says whether got is the documented serialization of d
// for SOME order of the entries of its maps: got must parse (reference
// model) as a datum of the type of d that occupies all of got and re-encodes
// to got byte for byte, and that datum must equal d once the entries of
// every map are sorted by the encoding of their key (a comparison of the
// multisets of entries, at every nesting level).
func sameUpToMapOrder(got []byte, d *refmodel.Datum) bool {
	gd, n, err := refmodel.Decode(d.T, got)
	if err != nil || n != len(got) || !bytes.Equal(refmodel.Encode(gd), got) {
		return false
	}
	return bytes.Equal(refmodel.Encode(gobridge.Canon(gd)), refmodel.Encode(gobridge.Canon(d)))
}

func clip(s string, n int) string {
	if len(s) > n {
		return s[:n] + fmt.Sprintf("...(%d characters)", len(s))
	}
	return s
}

func containerName(k refmodel.Kind) string {
	if k == refmodel.Map {
		return "map"
	}
	return "list"
}

// reportBoundary attributes a failing boundary case by experiment:
//
//  1. if the same datum with 2 entries in the large container fails as well
//     the number of entries is not the cause: the 2-entry datum goes through
//     the ordinary attribution (same fingerprints as the small universe);
//  2. otherwise the container is taken alone whenever it fails alone
//     (position "top"), else it stays in the innermost enclosing datum that
//     is needed (position "nested");
//  3. the smallest failing number of entries m is located by bisection
//     between 2 (passes) and n (fails): m-1 entries pass, m entries fail.
//
// Fingerprint: codec/<entry>/<clause>/count/<top|nested>-<list|map>/n=<m>.
func reportBoundary(bc boundaryCase, ep entryPoint, dl delivery, clause string) {
	fails := func(x *refmodel.Datum) bool {
		c, _ := ep.eval(x, dl)
		return c != ""
	}
	if small := withCount(bc.d, bc.path, 2); fails(small) {
		report(small, ep, dl, clause)
		return
	}
	cur, path := bc.d, bc.path
	for len(path) > 0 {
		child := cur.Child(path[:1])
		if !fails(child) {
			break
		}
		cur, path = child, path[1:]
	}
	lo, hi := 2, bc.n
	for hi-lo > 1 {
		mid := (lo + hi) / 2
		if fails(withCount(cur, path, mid)) {
			hi = mid
		} else {
			lo = mid
		}
	}
	min := withCount(cur, path, hi)
	mclause, det := ep.eval(min, dl)
	if mclause == "" || fails(withCount(cur, path, hi-1)) {
		unstable(fmt.Sprintf("codec/%s/%s/count", ep.name, clause), ep, dl, clause, sigName(bc.d), fmt.Sprintf("a large container of %d entries", bc.n), refmodel.Encode(bc.d))
		return
	}
	pos := "top"
	if len(path) > 0 {
		pos = "nested"
	}
	kind := containerName(min.Child(path).T.Kind)
	fp := fmt.Sprintf("codec/%s/%s/count/%s-%s/n=%d", ep.name, mclause, pos, kind, hi)
	if len(ep.dls) > 1 {
		if c, _ := ep.eval(min, delivery{mode: enum.EOFSeparate}); c == "" {
			fp += "/" + dl.String()
		}
	}
	b := refmodel.Encode(min)
	rank := fmt.Sprintf("%06d|%s", len(b), min.T)
	if run.Fail(fp, rank) {
		det = clip(det, 600)
		val := clip(min.String(), 200)
		run.Keep(fp, rank, fmt.Sprintf("%s on signature %s, a %s of %d entries (%d entries are handled): value %s (documented serialization %s): %s",
			ep.name, sigName(min), kind, hi, hi-1, val, hexs(b), det),
			map[string]interface{}{"entry": ep.name, "signature": sigName(min), "go_type": gobridge.GoType(min.T).String(),
				"entries": hi, "entries_handled": hi - 1, "documented_cap": sizeCap, "value": val,
				"value_rule":   "entry j of the large container: key = nth(keytype, j), value = nth(valuetype, entries-1-j), nth = (j+1)*0x9E3779B1 truncated to the width (strings \"k%04d\", booleans (j/3)&1), first entries kept",
				"refmodel_hex": hexs(b), "delivery": dl.String(), "clause": mclause, "observed": det,
				"found_in": fmt.Sprintf("%s with %d entries", sigName(bc.d), bc.n)},
			func() bool { c, _ := ep.eval(min, dl); return c == mclause })
	}
}

// familyBoundary runs the boundary cases through the three entry points. It
// returns the number of data and their descriptions for the evidence.
func familyBoundary() (int64, []string) {
	cases := boundaryCases()
	fam := map[string]*int64{}
	for _, ep := range entries {
		fam[ep.name] = run.Family("boundary/" + ep.name)
	}
	// self-check of the bridge and of the order-insensitive comparison on the
	// data of this family
	for _, bc := range cases {
		d := bc.d
		back, err := gobridge.FromGo(gobridge.ToGo(d, gobridge.GoType(d.T)), d.T)
		if err != nil || !bytes.Equal(refmodel.Encode(gobridge.Canon(back)), refmodel.Encode(gobridge.Canon(d))) {
			run.EngineError("gobridge self-check failed for %s with %d entries: %v", d.T, bc.n, err)
			return 0, nil
		}
		if !sameUpToMapOrder(refmodel.Encode(back), d) || !sameUpToMapOrder(refmodel.Encode(d), d) {
			run.EngineError("order-insensitive comparison self-check failed for %s with %d entries", d.T, bc.n)
			return 0, nil
		}
		if short := withCount(d, bc.path, bc.n-1); sameUpToMapOrder(refmodel.Encode(short), d) {
			run.EngineError("order-insensitive comparison accepts a missing entry for %s with %d entries", d.T, bc.n)
			return 0, nil
		}
		if got := len(d.Child(bc.path).Elems); (d.Child(bc.path).T.Kind == refmodel.Map && got != 2*bc.n) || (d.Child(bc.path).T.Kind == refmodel.List && got != bc.n) {
			run.EngineError("boundary: %s built with %d entries instead of %d", d.T, got, bc.n)
			return 0, nil
		}
	}
	guards := make(chan *enum.Guard, run.Workers+1)
	for i := 0; i <= run.Workers; i++ {
		guards <- run.NewGuard()
	}
	var ndata int64
	descr := make([]string, len(cases))
	done, all := run.Parallel(len(cases), func(i int) {
		g := <-guards
		defer func() { guards <- g }()
		bc := cases[i]
		d := bc.d
		tag := fmt.Sprintf("%s#n=%d", d.T.Shape(), bc.n)
		if d.T.Kind == refmodel.Value {
			tag = fmt.Sprintf("m:%s#n=%d", d.Dyn.T.Shape(), bc.n)
		}
		descr[i] = fmt.Sprintf("%s with %d entries (%d bytes)", sigName(d), bc.n, len(refmodel.Encode(d)))
		g.Begin("codec/hang/"+tag, func() (string, interface{}) {
			return fmt.Sprintf("a codec call on signature %q, large container of %d entries", d.T, bc.n),
				map[string]interface{}{"signature": d.T.String(), "entries": bc.n, "refmodel_hex": hexs(refmodel.Encode(d))}
		}, func() { evalAll(d, nil, func(entryPoint, delivery, string, string) {}) })
		local := map[string]int{}
		failed := map[string]bool{}
		evalAll(d, fam, func(ep entryPoint, dl delivery, clause, detail string) {
			failed[ep.name] = true
			local[tag+"|"+ep.name+"|"+clause]++
			reportBoundary(bc, ep, dl, clause)
		})
		g.End()
		for _, ep := range entries {
			if !failed[ep.name] {
				local[tag+"|"+ep.name+"|ok"]++
			}
		}
		run.DistinctSet(local)
		atomic.AddInt64(&ndata, 1)
	})
	if !all {
		run.Note("boundary: %d of %d data completed before the deadline", done, len(cases))
	}
	var out []string
	for _, s := range descr {
		if s != "" {
			out = append(out, s)
		}
	}
	if len(cases) > 0 {
		bc := cases[len(boundaryCounts)*3+1] // {ii} with sizeCap entries
		run.Sample(10, map[string]interface{}{"family": "boundary", "signature": bc.d.T.String(), "go_type": gobridge.GoType(bc.d.T).String(),
			"entries": bc.n, "value": clip(bc.d.String(), 120), "refmodel_hex": hexs(refmodel.Encode(bc.d))})
	}
	return ndata, out
}
