package main

// Family "length-sweep": every variable-length leaf of the universe taken
// through a sweep of LENGTHS.
//
// Sig x Val stops at 255-byte strings and at lists of two elements (the
// boundary family adds 4095 and 4096 entries), so a path a codec takes only
// from - or up to - a certain length on (an on-stack buffer for short
// strings, a copy streamed through a fixed scratch buffer, a pre-allocation
// limit) is not reached. Such thresholds are small or sit at a power of two:
// see internal/enum/lensweep.go for the set of lengths (every length
// 0..300; 2^k-1, 2^k, 2^k+1 and 2^k+2^(k-1) for 512 <= 2^k <= 64 KiB
// [thorough: 1 MiB]; 70000; s, m-signature and m-raw taken alone: every
// length 0..4200; thorough: s alone at every length up to 70000 under the
// first delivery).
//
// Leaves (the variable-length items of the documented serialization that the
// universe of C03 holds):
//
//	s            a string of n bytes
//	m-signature  a dynamic value whose SIGNATURE STRING has n bytes, n >= 1:
//	             "i" (1), the tuple of n-2 bytes "(C...C)" (2..7), the
//	             structure "(i)<S,<identifier of n-7 characters>>" (8 and
//	             more); the data it carries are 4 bytes (n-2 bytes)
//	m-raw        a dynamic value carrying a raw buffer 'r' of n bytes (count +
//	             bytes); the signature grammar of the repository has no 'r',
//	             so this leaf goes through the reflection encoder and decoder
//	             only (a value.Value field holding a value.RawValue)
//	list         a list [C] of n one-byte elements, n <= 4096 (the documented
//	             cap of the codecs: nothing above it is enumerated)
//
// (a string carried by a dynamic value is the leaf s at the positions
// in-value and value-in-list.)
//
// Positions - what follows the leaf must come out untouched and the number
// of bytes taken from the reader must be exact:
//
//	alone                   x
//	tuple-last              (i x)
//	tuple-non-last          (x i)
//	list-elem-followed      [x, y]      y: a short value of the same type
//	in-value                m<x>        (leaves other than m-signature, m-raw)
//	value-in-list-followed  [m<x>, m<i>]
//
// Content: position-dependent bytes without period (enum.SweepContentRule),
// so that a chunk that is dropped, repeated, stale or misplaced changes the
// value. Every datum goes through the three entry points of the check under
// six deliveries (the three of the main family plus: a sentinel follows and
// reads of at most 4093 bytes; data+EOF; a *bytes.Buffer that holds the
// sentinel after the encoding); the leaf s taken alone also goes through
// basic.WriteString and basic.ReadString, what generated code calls for a
// string parameter. The oracle is the usual one.
//
// Attribution: per (entry point, leaf, position) the smallest failing length
// of the enumeration is refined to the smallest failing length m (bisection
// between the largest enumerated length that passes and the failing one: m-1
// passes, m fails); positions of the same entry point and leaf that share m
// are filed under the first of them (order above). A position at which EVERY
// enumerated length fails is not a matter of length: it is labelled
// every-length instead of n=<m>. Fingerprint:
// codec/<entry>/<clause>/length-sweep/<leaf>/<position>/n=<m>[/<delivery>].

import (
	"bytes"
	"fmt"
	"runtime/debug"
	"sort"
	"strings"
	"sync"
	"sync/atomic"
	"time"

	"github.com/lugu/qiloop/type/basic"

	"verif/internal/enum"
	"verif/internal/enum/gobridge"
	"verif/internal/refmodel"
)

type sweepLeaf struct {
	name     string
	min, max int // admissible lengths (max < 0: no limit)
	build    func(n int) *refmodel.Datum
	sibling  func() *refmodel.Datum // a short datum of the same type
	what     string
}

type sweepPos struct {
	name    string
	build   func(x, y *refmodel.Datum) *refmodel.Datum
	onValue bool // also applies to a leaf that is a dynamic value
}

// sweepSigDatum returns a datum whose signature has exactly n characters.
func sweepSigDatum(n int) *refmodel.Datum {
	switch {
	case n == 1:
		return enum.Dist(refmodel.Atom('i'))
	case n < 8:
		var ms []*refmodel.Type
		d := &refmodel.Datum{}
		for j := 0; j < n-2; j++ {
			ms = append(ms, refmodel.Atom('C'))
			d.Elems = append(d.Elems, &refmodel.Datum{T: ms[j], U: uint64(0xa1 + j)})
		}
		d.T = refmodel.TupleOf(ms...)
		return d
	}
	it := refmodel.Atom('i')
	return &refmodel.Datum{T: refmodel.StructOf("S", []string{enum.SweepIdent(n-7, 0)}, it), Elems: []*refmodel.Datum{enum.Dist(it)}}
}

// T is the type of the leaf.
func (l sweepLeaf) T() *refmodel.Type { return l.sibling().T }

func sweepLeaves() []sweepLeaf {
	sT, mT, cT := refmodel.Atom('s'), refmodel.Atom('m'), refmodel.Atom('C')
	lT := refmodel.ListOf(cT)
	return []sweepLeaf{
		{"s", 0, -1,
			func(n int) *refmodel.Datum { return &refmodel.Datum{T: sT, S: enum.SweepString(n, 0)} },
			func() *refmodel.Datum { return enum.Dist(sT) }, "a string of n bytes"},
		{"m-signature", 1, -1,
			func(n int) *refmodel.Datum { return &refmodel.Datum{T: mT, Dyn: sweepSigDatum(n)} },
			func() *refmodel.Datum { return enum.Dist(mT) },
			"a dynamic value whose signature string has n bytes: \"i\" (n=1), \"(C...C)\" with n-2 members (2..7), \"(i)<S,identifier of n-7 characters>\" (n>=8)"},
		{"m-raw", 0, -1,
			func(n int) *refmodel.Datum {
				return &refmodel.Datum{T: mT, Dyn: &refmodel.Datum{T: refmodel.Atom('r'), B: enum.SweepBytes(n, 0)}}
			},
			func() *refmodel.Datum { return enum.Dist(mT) },
			"a dynamic value carrying a raw buffer of n bytes (reflection encoder and decoder only: the signature grammar of the repository has no 'r')"},
		{"list", 0, sizeCap,
			func(n int) *refmodel.Datum {
				d := &refmodel.Datum{T: lT}
				for _, b := range enum.SweepBytes(n, 0) {
					d.Elems = append(d.Elems, &refmodel.Datum{T: cT, U: uint64(b)})
				}
				return d
			},
			func() *refmodel.Datum { return enum.Dist(lT) }, "a list [C] of n one-byte elements (n <= 4096, the documented cap)"},
	}
}

func sweepPositions() []sweepPos {
	type D = refmodel.Datum
	intD := func() *D { return enum.Dist(refmodel.Atom('i')) }
	mT := refmodel.Atom('m')
	tuple := func(ms ...*D) *D {
		var ts []*refmodel.Type
		for _, m := range ms {
			ts = append(ts, m.T)
		}
		return &D{T: refmodel.TupleOf(ts...), Elems: ms}
	}
	return []sweepPos{
		{"alone", func(x, _ *D) *D { return x }, true},
		{"tuple-last", func(x, _ *D) *D { return tuple(intD(), x) }, true},
		{"tuple-non-last", func(x, _ *D) *D { return tuple(x, intD()) }, true},
		{"list-elem-followed", func(x, y *D) *D { return &D{T: refmodel.ListOf(x.T), Elems: []*D{x, y}} }, true},
		{"in-value", func(x, _ *D) *D { return &D{T: mT, Dyn: x} }, false},
		{"value-in-list-followed", func(x, _ *D) *D {
			return &D{T: refmodel.ListOf(mT), Elems: []*D{{T: mT, Dyn: x}, enum.Dist(mT)}}
		}, false},
	}
}

// the deliveries of the family: those of the main family, then reads of at
// most 4093 bytes with more data behind, data+EOF, and a *bytes.Buffer that
// holds more than the encoding
var sweepDeliveries = append(append([]delivery(nil), deliveries...),
	delivery{mode: enum.NoEOF, chunk: 4093}, delivery{mode: enum.EOFWithData}, delivery{buf: true, tail: true})

// the entry points of the family: the three of the check, and the two string
// primitives generated code calls directly (leaf s alone only)
func sweepEntries() []entryPoint {
	out := append([]entryPoint(nil), entries...)
	out = append(out,
		entryPoint{"basic.WriteString", func(d *refmodel.Datum, _ delivery) (string, string) {
			var buf bytes.Buffer
			err, pan := guarded(func() error { return basic.WriteString(d.S, &buf) })
			if pan {
				return "panic", err.Error()
			}
			if err != nil {
				return "error", fmt.Sprintf("WriteString returned %v", err)
			}
			if want := refmodel.Encode(d); !bytes.Equal(buf.Bytes(), want) {
				return "bytes-differ", fmt.Sprintf("WriteString wrote %d bytes %s, documented serialization is %d bytes %s%s", buf.Len(), hexs(buf.Bytes()), len(want), hexs(want), firstDiff(buf.Bytes(), want))
			}
			return "", ""
		}, []delivery{{}}},
		entryPoint{"basic.ReadString", func(d *refmodel.Datum, dl delivery) (string, string) {
			b := refmodel.Encode(d)
			rd := dl.open(b)
			var got string
			err, pan := guarded(func() error { var e error; got, e = basic.ReadString(rd.r); return e })
			if pan {
				return "panic", err.Error()
			}
			if err != nil {
				return "error", fmt.Sprintf("ReadString returned %v", err)
			}
			if c, det := consumed(rd, len(b)); c != "" {
				return c, det
			}
			if got != d.S {
				return "value-differs", fmt.Sprintf("ReadString returned %d bytes for a string of %d bytes%s", len(got), len(d.S), firstDiff([]byte(got), []byte(d.S)))
			}
			return "", ""
		}, deliveries})
	return out
}

func sweepApplies(ep entryPoint, d *refmodel.Datum) bool {
	if strings.HasPrefix(ep.name, "basic.") {
		return d.T.Kind == refmodel.String
	}
	if ep.name == "sigreader" && sweepHasRaw(d) {
		return false
	}
	return true
}

// sweepHasRaw reports whether a dynamic value of d carries a raw buffer.
func sweepHasRaw(d *refmodel.Datum) bool {
	if d.T.Kind == refmodel.Raw {
		return true
	}
	if d.Dyn != nil && sweepHasRaw(d.Dyn) {
		return true
	}
	for _, e := range d.Elems {
		if sweepHasRaw(e) {
			return true
		}
	}
	return false
}

type sweepCase struct {
	leaf, pos int
	n         int
	prim      bool // thorough tier: one of the every-length data (first delivery only)
}

// sweepDenseAlone: a leaf taken alone goes through every length up to one
// page and its header (the composite positions through every length up to
// enum.SweepDenseMax).
const sweepDenseAlone = 4200

// sweepEveryPrim: in the thorough tier the leaf s taken alone goes through
// every length up to this one (every entry point, first delivery only).
const sweepEveryPrim = 70000

type sweepFailure struct {
	sweepCase
	ep     int
	dl     delivery
	clause string
}

type sweepFamily struct {
	leaves  []sweepLeaf
	pos     []sweepPos
	eps     []entryPoint
	ncases  map[[2]int]int // data planned per (leaf, position)
	lengths [][][]int      // per leaf and position: the enumerated lengths
}

func (f *sweepFamily) datum(c sweepCase) *refmodel.Datum {
	l := f.leaves[c.leaf]
	return f.pos[c.pos].build(l.build(c.n), l.sibling())
}

func (f *sweepFamily) dls(ep entryPoint) []delivery {
	if len(ep.dls) > 1 {
		return sweepDeliveries
	}
	return ep.dls
}

// familyLengthSweep runs the family and returns its description for the
// evidence.
func familyLengthSweep(thorough bool) map[string]interface{} {
	started := time.Now()
	f := &sweepFamily{leaves: sweepLeaves(), pos: sweepPositions(), eps: sweepEntries()}
	fam := map[string]*int64{}
	for _, ep := range f.eps {
		fam[ep.name] = run.Family("length-sweep/" + ep.name)
	}
	if msg := enum.SweepContentCheck(1 << 16); msg != "" {
		run.EngineError("length-sweep: the content is periodic: %s", msg)
		return nil
	}
	var cases []sweepCase
	nprim := 0
	perLeaf := map[string]interface{}{}
	for li, l := range f.leaves {
		f.lengths = append(f.lengths, make([][]int, len(f.pos)))
		var ps []string
		var ls []int
		for pi, p := range f.pos {
			if l.T().Kind == refmodel.Value && !p.onValue {
				continue
			}
			dense := enum.SweepDenseMax
			if p.name == "alone" && l.name != "list" {
				// (a list costs a datum per element: its counts stay at the common set)
				dense = sweepDenseAlone
			}
			ls = enum.SweepLengths(thorough, dense, l.min, l.max)
			f.lengths[li][pi] = ls
			ps = append(ps, fmt.Sprintf("%s (%d lengths)", p.name, len(ls)))
			for _, n := range ls {
				cases = append(cases, sweepCase{leaf: li, pos: pi, n: n})
			}
			if thorough && l.name == "s" && p.name == "alone" {
				seen := map[int]bool{}
				for _, n := range ls {
					seen[n] = true
				}
				for n := 0; n <= sweepEveryPrim; n++ {
					if !seen[n] {
						cases = append(cases, sweepCase{leaf: li, pos: pi, n: n, prim: true})
						nprim++
					}
				}
			}
		}
		perLeaf[l.name] = map[string]interface{}{"what": l.what, "smallest": ls[0], "largest": ls[len(ls)-1], "positions": ps}
	}
	// self-check of the construction on the largest and a dense length of
	// every (leaf, position): the leaf has the stated length, the reference
	// model reads the encoding back, the bridge inverts
	for li, l := range f.leaves {
		ls := f.lengths[li][0]
		for _, n := range []int{ls[0], 125, ls[len(ls)-1]} {
			x := l.build(n)
			got := -1
			switch l.name {
			case "s":
				got = len(x.S)
			case "m-signature":
				got = len(x.Dyn.T.String())
			case "m-raw":
				got = len(x.Dyn.B)
			case "list":
				got = len(x.Elems)
			}
			if got != n {
				run.EngineError("length-sweep: leaf %s built with length %d instead of %d", l.name, got, n)
				return nil
			}
			for pi, p := range f.pos {
				if l.T().Kind == refmodel.Value && !p.onValue {
					continue
				}
				d := f.datum(sweepCase{leaf: li, pos: pi, n: n})
				b := refmodel.Encode(d)
				back, k, err := refmodel.Decode(d.T, b)
				if err != nil || k != len(b) || !bytes.Equal(refmodel.Encode(back), b) {
					run.EngineError("length-sweep: %s at %s with n=%d is not read back by the reference model: %v", l.name, p.name, n, err)
					return nil
				}
				if d.T.Contains(refmodel.Value) {
					// the bridge reads a dynamic value back through the code
					// under test: not part of a self-check
					continue
				}
				gb, err := gobridge.FromGo(gobridge.ToGo(d, gobridge.GoType(d.T)), d.T)
				if err != nil || !bytes.Equal(refmodel.Encode(gb), b) {
					run.EngineError("length-sweep: gobridge self-check failed for %s at %s with n=%d: %v", l.name, p.name, n, err)
					return nil
				}
			}
		}
	}
	f.ncases = map[[2]int]int{}
	for _, c := range cases {
		f.ncases[[2]int{c.leaf, c.pos}]++
	}
	// the longest data first: the tail of the parallel run is made of short ones
	sort.SliceStable(cases, func(a, b int) bool { return cases[a].n > cases[b].n })

	// every decode of a long leaf allocates its length several times over: with
	// the default pacing the collector would run every few cases
	oldGC, oldLimit := debug.SetGCPercent(-1), debug.SetMemoryLimit(1<<30)
	defer func() { debug.SetGCPercent(oldGC); debug.SetMemoryLimit(oldLimit) }()

	guards := make(chan *enum.Guard, run.Workers+1)
	for i := 0; i <= run.Workers; i++ {
		guards <- run.NewGuard()
	}
	var mu sync.Mutex
	var failures []sweepFailure
	var ndata, nbytes int64
	busy := make([]int64, len(f.leaves))
	busyEP := make([]int64, len(f.eps))
	done, all := run.Parallel(len(cases), func(i int) {
		g := <-guards
		defer func() { guards <- g }()
		c := cases[i]
		t0 := time.Now()
		defer func() { atomic.AddInt64(&busy[c.leaf], int64(time.Since(t0))) }()
		d := f.datum(c)
		leaf, pos := f.leaves[c.leaf].name, f.pos[c.pos].name
		atomic.AddInt64(&ndata, 1)
		atomic.AddInt64(&nbytes, int64(len(refmodel.Encode(d))))
		class := "0.." + fmt.Sprint(enum.SweepDenseMax)
		switch {
		case c.prim:
			class = "every-length-first-delivery-only"
		case c.n > sweepDenseAlone || (c.n > enum.SweepDenseMax && (pos != "alone" || leaf == "list")):
			class = "power-of-two-neighbourhood"
		case c.n > enum.SweepDenseMax:
			class = fmt.Sprintf("%d..%d", enum.SweepDenseMax+1, sweepDenseAlone)
		}
		local := map[string]int{}
		for ei, ep := range f.eps {
			if !sweepApplies(ep, d) {
				continue
			}
			out := "ok"
			t1 := time.Now()
			dls := f.dls(ep)
			if c.prim {
				dls = dls[:1]
			}
			for _, dl := range dls {
				ep, dl := ep, dl
				g.Begin(fmt.Sprintf("codec/hang/length-sweep/%s/%s", leaf, pos), func() (string, interface{}) {
					return fmt.Sprintf("%s on the leaf %s of length %d at position %s (signature %s), %s", ep.name, leaf, c.n, pos, clip(sigName(d), 80), dl),
						map[string]interface{}{"entry": ep.name, "leaf": leaf, "position": pos, "n": c.n, "content_rule": enum.SweepContentRule, "delivery": dl.String()}
				}, func() { ep.eval(f.datum(c), dl) })
				clause, _ := ep.eval(d, dl)
				g.End()
				run.Eval(fam[ep.name], 1)
				if clause != "" {
					out = clause
					mu.Lock()
					failures = append(failures, sweepFailure{c, ei, dl, clause})
					mu.Unlock()
					break
				}
			}
			atomic.AddInt64(&busyEP[ei], int64(time.Since(t1)))
			local[fmt.Sprintf("length-sweep|%s|%s|%s|%s|%s", leaf, pos, class, ep.name, out)]++
		}
		run.DistinctSet(local)
	})
	if !all {
		run.Note("length-sweep: %d of %d data completed before the deadline (the longest first)", done, len(cases))
	}
	f.attribute(failures)

	if len(cases) > 0 {
		c := sweepCase{leaf: 0, pos: 2, n: 125}
		d := f.datum(c)
		run.Sample(10, map[string]interface{}{"family": "length-sweep", "leaf": "s", "position": "tuple-non-last", "n": 125,
			"signature": d.T.String(), "go_type": gobridge.GoType(d.T).String(), "refmodel_hex": hexs(refmodel.Encode(d))})
	}
	busyS := map[string]float64{}
	for li, l := range f.leaves {
		busyS["leaf "+l.name] = float64(busy[li]) / 1e9
	}
	for ei, ep := range f.eps {
		busyS["entry "+ep.name] = float64(busyEP[ei]) / 1e9
	}
	var pnames, enames, dnames []string
	for _, p := range f.pos {
		pnames = append(pnames, p.name)
	}
	for _, ep := range f.eps {
		enames = append(enames, ep.name)
	}
	for _, dl := range sweepDeliveries {
		dnames = append(dnames, dl.String())
	}
	return map[string]interface{}{
		"lengths_dense": fmt.Sprintf("every length 0..%d at every position, every length 0..%d for s, m-signature and m-raw taken alone", enum.SweepDenseMax, sweepDenseAlone), "lengths_power_of_two_neighbourhoods": enum.SweepPow(thorough),
		"lengths_first_delivery_only": map[string]interface{}{"leaf": "s alone", "every_length_up_to": map[bool]int{true: sweepEveryPrim, false: 0}[thorough], "data": nprim, "delivery": sweepDeliveries[0].String()},
		"leaves":                      perLeaf, "positions": pnames, "entry_points": enames, "deliveries_of_the_decoding_entry_points": dnames,
		"data_executed": ndata, "data_planned": len(cases), "bytes_of_reference_encoding": nbytes, "failing_executions": len(failures),
		"content_rule": enum.SweepContentRule, "wall_s": time.Since(started).Seconds(), "worker_seconds": busyS,
	}
}

// attribute files the failures of the family, see the head of the file.
func (f *sweepFamily) attribute(failures []sweepFailure) {
	type key struct{ ep, leaf, pos int }
	first := map[key]sweepFailure{}
	count := map[key]int{}
	last := map[key]int{}
	for _, fl := range failures {
		k := key{fl.ep, fl.leaf, fl.pos}
		count[k]++
		if fl.n > last[k] {
			last[k] = fl.n
		}
		if cur, ok := first[k]; !ok || fl.n < cur.n {
			first[k] = fl
		}
	}
	var keys []key
	for k := range first {
		keys = append(keys, k)
	}
	sort.Slice(keys, func(a, b int) bool {
		x, y := keys[a], keys[b]
		if x.ep != y.ep {
			return x.ep < y.ep
		}
		if x.leaf != y.leaf {
			return x.leaf < y.leaf
		}
		return x.pos < y.pos
	})
	type filed struct {
		fp    string
		where []string
	}
	byThreshold := map[string]*filed{} // entry|leaf|m -> fingerprint of the first position
	for _, k := range keys {
		fl := first[k]
		ep, leaf, pos := f.eps[k.ep], f.leaves[k.leaf], f.pos[k.pos]
		fails := func(n int) bool {
			c, _ := ep.eval(f.datum(sweepCase{leaf: k.leaf, pos: k.pos, n: n}), fl.dl)
			return c != ""
		}
		// a failure at every enumerated length is not a matter of length
		every := count[k] == f.ncases[[2]int{k.leaf, k.pos}]
		m := fl.n
		if !every {
			m = enum.SweepThreshold(f.lengths[k.leaf][k.pos], fl.n, leaf.min, fails)
		}
		min := sweepCase{leaf: k.leaf, pos: k.pos, n: m}
		d := f.datum(min)
		mclause, det := ep.eval(d, fl.dl)
		if mclause == "" || (!every && m > leaf.min && fails(m-1)) {
			od := f.datum(fl.sweepCase)
			unstable(fmt.Sprintf("codec/%s/%s/length-sweep", ep.name, fl.clause), ep, fl.dl, fl.clause, sigName(od),
				fmt.Sprintf("leaf %s of length %d at position %s (%s)", leaf.name, fl.n, pos.name, enum.SweepContentRule), refmodel.Encode(od))
			continue
		}
		tk := fmt.Sprintf("%d|%d|%d", k.ep, k.leaf, m)
		label := fmt.Sprintf("n=%d", m)
		if every {
			tk, label = fmt.Sprintf("%d|%d|every", k.ep, k.leaf), "every-length"
		}
		if prev, ok := byThreshold[tk]; ok {
			// same entry point, same leaf, same threshold at another position
			for i := 0; i < count[k]; i++ {
				run.Fail(prev.fp, "\xff")
			}
			prev.where = append(prev.where, pos.name)
			continue
		}
		fp := fmt.Sprintf("codec/%s/%s/length-sweep/%s/%s/%s", ep.name, mclause, leaf.name, pos.name, label)
		if len(ep.dls) > 1 {
			if c, _ := ep.eval(d, delivery{mode: enum.EOFSeparate}); c == "" {
				fp += "/" + fl.dl.String()
			}
		}
		byThreshold[tk] = &filed{fp: fp}
		b := refmodel.Encode(d)
		det = clip(det, 700)
		handled := "no shorter length exists"
		if every {
			handled = "every enumerated length fails at this position: the length is not the cause"
		} else if m > leaf.min {
			handled = fmt.Sprintf("length %d is handled", m-1)
		}
		how := "delivery " + fl.dl.String()
		if len(ep.dls) <= 1 {
			how = "writing to a bytes.Buffer"
		}
		what := fmt.Sprintf("%s on signature %s, leaf %s (%s) of length %d at position %s (documented serialization: %d bytes %s), %s: %s; %s; %d of the %d enumerated lengths fail at this position, the smallest %d, the largest %d",
			ep.name, clip(sigName(d), 120), leaf.name, leaf.what, m, pos.name, len(b), hexs(b), how, det, handled, count[k], f.ncases[[2]int{k.leaf, k.pos}], fl.n, last[k])
		replay := map[string]interface{}{"entry": ep.name, "family": "length-sweep", "leaf": leaf.name, "position": pos.name, "n": m,
			"signature": clip(sigName(d), 200), "go_type": clip(gobridge.GoType(d.T).String(), 200), "content_rule": enum.SweepContentRule,
			"refmodel_hex": hexs(b), "refmodel_len": len(b), "delivery": fl.dl.String(), "clause": mclause, "observed": det,
			"failing_enumerated_lengths": map[string]int{"count": count[k], "of": f.ncases[[2]int{k.leaf, k.pos}], "smallest": fl.n, "largest": last[k]}}
		dl := fl.dl
		for i := 0; i < count[k]; i++ {
			if run.Fail(fp, fmt.Sprintf("%08d", m)) && i == 0 {
				run.Keep(fp, fmt.Sprintf("%08d", m), what, replay, func() bool { c, _ := ep.eval(f.datum(min), dl); return c == mclause })
			}
		}
	}
	if len(byThreshold) > 0 {
		var lines []string
		for _, fd := range byThreshold {
			if len(fd.where) > 0 {
				lines = append(lines, fmt.Sprintf("%s also fails from the same length on at: %s", fd.fp, strings.Join(fd.where, ", ")))
			}
		}
		sort.Strings(lines)
		for _, l := range lines {
			run.Note("length-sweep: %s", l)
		}
	}
}
