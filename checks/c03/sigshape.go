package main

// Family "signature-shape": signatures that are WIDE (many sibling composites)
// or DEEP (many nesting levels), as typed data and carried by dynamic values.
//
// Sig(D,2) stops at two members per tuple and at depth 2 (3 in the thorough
// tier), and the dynamic values of Val carry [i], [s], (is), {sI}: nothing
// reaches a code path that depends on HOW MANY composites a signature holds or
// on how deep they nest (a counter of brackets, a guard on the recursion, a
// fixed table of members, a buffer for the signature string). No limit of
// that kind is documented: the three serializers must agree on all of them.
//
// Shapes, n = 1..40 (thorough: 1..100):
//
//	wide          n sibling composites at depth 1: the members of one tuple
//	              (of one structure when the kind is struct)
//	wide-depth-2  the same tuple as the middle member of (I <wide> s): the
//	              siblings sit at depth 2, four bytes precede, a string follows
//	deep          n composites nested in one another around an 'i'
//
// Kinds - what the n composites are:
//
//	tuple   (Ic)                  deep: (x)
//	struct  (Ic)<Pj,x,y>          deep: (x)<Dk,a>
//	list    [i] of j mod 3 items  deep: [x], one element per level
//	map     {is} of j mod 2 items deep: {ix}, one entry per level
//	mixed   sibling j / level k is of kind (j mod 4): tuple, struct, list, map
//
// The content of sibling j is a function of j (an odd multiplier), so a
// member that is dropped, repeated or swapped changes the value.
//
// Carriers - how the datum x of such a type reaches the codecs:
//
//	typed    x itself (Go type built by reflection, as for every signature)
//	m        the dynamic value m<x>
//	(Ims)    m<x> as the middle member of a tuple, a string follows
//	[mm]     the list [m<x>, m<i>]
//
// Every datum goes through the three entry points under the three deliveries
// of the main family. The oracle is the usual one.
//
// Attribution: per (entry point, shape, kind, carrier) the smallest failing n
// (the enumeration is dense from 1). n = 1 failing is not a matter of width or
// depth: that datum goes through the ordinary attribution. Otherwise the
// (kind, carrier) pairs of the same entry point and shape that share the
// smallest failing n are filed under the first of them (orders above) and
// the others are named in a note of the evidence. Fingerprint:
// codec/<entry>/<clause>/signature-shape/<shape>-<kind>/<carrier>/n=<n>[/<delivery>].

import (
	"bytes"
	"fmt"
	"sort"
	"strings"
	"sync"
	"sync/atomic"
	"time"

	"verif/internal/enum"
	"verif/internal/enum/gobridge"
	"verif/internal/refmodel"
)

const (
	shapeMaxQuick    = 40
	shapeMaxThorough = 100
)

var shapeNames = []string{"wide", "wide-depth-2", "deep"}
var shapeKinds = []string{"tuple", "struct", "list", "map", "mixed"}

func shapeU32(j int) uint64 { return uint64(uint32(j+1) * 0x9E3779B1) }

func shapeInt(l byte, u uint64) *refmodel.Datum {
	t := refmodel.Atom(l)
	if w := t.Kind.Width(); w < 8 {
		u &= (uint64(1) << (8 * uint(w))) - 1
	}
	return &refmodel.Datum{T: t, U: u}
}

func shapeTuple(ms ...*refmodel.Datum) *refmodel.Datum {
	var ts []*refmodel.Type
	for _, m := range ms {
		ts = append(ts, m.T)
	}
	return &refmodel.Datum{T: refmodel.TupleOf(ts...), Elems: ms}
}

// shapeKindAt resolves the kind "mixed" for sibling / level j.
func shapeKindAt(kind string, j int) string {
	if kind == "mixed" {
		return shapeKinds[j%4]
	}
	return kind
}

// shapeSibling is sibling j of a wide signature.
func shapeSibling(kind string, j int) *refmodel.Datum {
	type D = refmodel.Datum
	switch shapeKindAt(kind, j) {
	case "tuple":
		return shapeTuple(shapeInt('I', shapeU32(j)), shapeInt('c', uint64(j+1)))
	case "struct":
		x, y := shapeInt('I', shapeU32(j)), shapeInt('c', uint64(j+1))
		return &D{T: refmodel.StructOf(fmt.Sprintf("P%d", j), []string{"x", "y"}, x.T, y.T), Elems: []*D{x, y}}
	case "list":
		d := &D{T: refmodel.ListOf(refmodel.Atom('i'))}
		for k := 0; k < j%3; k++ {
			d.Elems = append(d.Elems, shapeInt('i', shapeU32(7*j+k)))
		}
		return d
	}
	d := &D{T: refmodel.MapOf(refmodel.Atom('i'), refmodel.Atom('s'))}
	if j%2 == 1 {
		d.Elems = append(d.Elems, shapeInt('i', uint64(j)), &D{T: refmodel.Atom('s'), S: fmt.Sprintf("v%d", j)})
	}
	return d
}

// shapeWide is the tuple (the structure, for the kind struct) of n siblings.
func shapeWide(kind string, n int) *refmodel.Datum {
	var ms []*refmodel.Datum
	var ts []*refmodel.Type
	var names []string
	for j := 0; j < n; j++ {
		s := shapeSibling(kind, j)
		ms, ts, names = append(ms, s), append(ts, s.T), append(names, fmt.Sprintf("m%d", j))
	}
	if kind == "struct" {
		return &refmodel.Datum{T: refmodel.StructOf("Wide", names, ts...), Elems: ms}
	}
	return &refmodel.Datum{T: refmodel.TupleOf(ts...), Elems: ms}
}

// shapeDeep nests n composites around an 'i'; level 1 is the innermost.
func shapeDeep(kind string, n int) *refmodel.Datum {
	type D = refmodel.Datum
	x := shapeInt('i', 0x01020304)
	for k := 1; k <= n; k++ {
		switch shapeKindAt(kind, k-1) {
		case "tuple":
			x = shapeTuple(x)
		case "struct":
			x = &D{T: refmodel.StructOf(fmt.Sprintf("D%d", k), []string{"a"}, x.T), Elems: []*D{x}}
		case "list":
			x = &D{T: refmodel.ListOf(x.T), Elems: []*D{x}}
		default:
			x = &D{T: refmodel.MapOf(refmodel.Atom('i'), x.T), Elems: []*D{shapeInt('i', uint64(k)), x}}
		}
	}
	return x
}

func shapeDatum(shape, kind string, n int) *refmodel.Datum {
	switch shape {
	case "wide":
		return shapeWide(kind, n)
	case "wide-depth-2":
		return shapeTuple(shapeInt('I', 7), shapeWide(kind, n), &refmodel.Datum{T: refmodel.Atom('s'), S: "ab"})
	}
	return shapeDeep(kind, n)
}

type shapeCarrier struct {
	name  string
	build func(x *refmodel.Datum) *refmodel.Datum
}

func shapeCarriers() []shapeCarrier {
	type D = refmodel.Datum
	mT := refmodel.Atom('m')
	return []shapeCarrier{
		{"typed", func(x *D) *D { return x }},
		{"m", func(x *D) *D { return &D{T: mT, Dyn: x} }},
		{"(Ims)", func(x *D) *D {
			return shapeTuple(shapeInt('I', 7), &D{T: mT, Dyn: x}, &D{T: refmodel.Atom('s'), S: "ab"})
		}},
		{"[mm]", func(x *D) *D {
			return &D{T: refmodel.ListOf(mT), Elems: []*D{{T: mT, Dyn: x}, enum.Dist(mT)}}
		}},
	}
}

type shapeCase struct {
	shape, kind, carrier int
	n                    int
}

type shapeFailure struct {
	shapeCase
	ep     int
	dl     delivery
	clause string
}

type shapeFamily struct {
	carriers []shapeCarrier
}

func (f *shapeFamily) datum(c shapeCase) *refmodel.Datum {
	return f.carriers[c.carrier].build(shapeDatum(shapeNames[c.shape], shapeKinds[c.kind], c.n))
}

// shapeStats counts the composites of a signature and its nesting depth.
func shapeStats(sig string) (composites, depth int) {
	cur := 0
	for i := 0; i < len(sig); i++ {
		switch sig[i] {
		case '[', '{', '(':
			composites++
			cur++
			if cur > depth {
				depth = cur
			}
		case ']', '}', ')':
			cur--
		}
	}
	return
}

// familySignatureShape runs the family and returns its description for the
// evidence.
func familySignatureShape(thorough bool) map[string]interface{} {
	started := time.Now()
	f := &shapeFamily{carriers: shapeCarriers()}
	max := shapeMaxQuick
	if thorough {
		max = shapeMaxThorough
	}
	fam := map[string]*int64{}
	for _, ep := range entries {
		fam[ep.name] = run.Family("signature-shape/" + ep.name)
	}
	// self-check of the construction: the signature is well formed for the
	// reference grammar, holds the stated number of composites at the stated
	// depth, the reference model reads its own encoding back
	samples := map[string]string{}
	for si, shape := range shapeNames {
		for ki, kind := range shapeKinds {
			for _, n := range []int{1, 2, 3, 16, max} {
				x := shapeDatum(shape, kind, n)
				sig := x.T.String()
				comp, depth := shapeStats(sig)
				wantComp, wantDepth := n+1, 2
				switch shape {
				case "wide-depth-2":
					wantComp, wantDepth = n+2, 3
				case "deep":
					wantComp, wantDepth = n, n
				}
				pt, err := refmodel.ParseSig(sig)
				if err != nil || pt.String() != sig || comp != wantComp || depth != wantDepth {
					run.EngineError("signature-shape: %s-%s n=%d built as %s (%d composites, depth %d, expected %d and %d): %v", shape, kind, n, clip(sig, 200), comp, depth, wantComp, wantDepth, err)
					return nil
				}
				if n == 3 {
					samples[shape+"-"+kind] = sig
				}
				for ci := range f.carriers {
					d := f.datum(shapeCase{si, ki, ci, n})
					b := refmodel.Encode(d)
					back, k, err := refmodel.Decode(d.T, b)
					if err != nil || k != len(b) || !bytes.Equal(refmodel.Encode(back), b) {
						run.EngineError("signature-shape: %s-%s n=%d carried as %s is not read back by the reference model: %v", shape, kind, n, f.carriers[ci].name, err)
						return nil
					}
				}
			}
		}
	}
	var cases []shapeCase
	for si := range shapeNames {
		for ki := range shapeKinds {
			for ci := range f.carriers {
				for n := 1; n <= max; n++ {
					cases = append(cases, shapeCase{si, ki, ci, n})
				}
				if shapeNames[si] == "wide" {
					// widths around the word sizes a per-member bit set or
					// counter could have (the deep shapes stay below max)
					for _, n := range []int{63, 64, 65, 66, 127, 128, 129, 255, 256, 257} {
						if n > max {
							cases = append(cases, shapeCase{si, ki, ci, n})
						}
					}
				}
			}
		}
	}
	guards := make(chan *enum.Guard, run.Workers+1)
	for i := 0; i <= run.Workers; i++ {
		guards <- run.NewGuard()
	}
	var mu sync.Mutex
	var failures []shapeFailure
	var ndata int64
	done, all := run.Parallel(len(cases), func(i int) {
		g := <-guards
		defer func() { guards <- g }()
		c := cases[i]
		d := f.datum(c)
		shape, kind, carrier := shapeNames[c.shape], shapeKinds[c.kind], f.carriers[c.carrier].name
		atomic.AddInt64(&ndata, 1)
		class := "n=1..8"
		switch {
		case c.n > shapeMaxQuick:
			class = fmt.Sprintf("n=%d..%d", shapeMaxQuick+1, shapeMaxThorough)
		case c.n > 16:
			class = fmt.Sprintf("n=17..%d", shapeMaxQuick)
		case c.n > 8:
			class = "n=9..16"
		}
		local := map[string]int{}
		g.Begin(fmt.Sprintf("codec/hang/signature-shape/%s-%s/%s", shape, kind, carrier), func() (string, interface{}) {
			return fmt.Sprintf("a codec call on the %s signature of %d composites of kind %s carried as %s: %s", shape, c.n, kind, carrier, clip(sigName(d), 200)),
				map[string]interface{}{"family": "signature-shape", "shape": shape, "kind": kind, "carrier": carrier, "n": c.n, "signature": clip(sigName(d), 400), "refmodel_hex": hexs(refmodel.Encode(d))}
		}, func() { evalZeroWidth(f.datum(c), nil, func(entryPoint, delivery, string, string) {}) })
		failed := map[string]bool{}
		evalZeroWidth(d, fam, func(ep entryPoint, dl delivery, clause, detail string) {
			failed[ep.name] = true
			local[fmt.Sprintf("signature-shape|%s-%s|%s|%s|%s|%s", shape, kind, carrier, class, ep.name, clause)]++
			for ei := range entries {
				if entries[ei].name == ep.name {
					mu.Lock()
					failures = append(failures, shapeFailure{c, ei, dl, clause})
					mu.Unlock()
				}
			}
		})
		g.End()
		for _, ep := range entries {
			if !failed[ep.name] {
				local[fmt.Sprintf("signature-shape|%s-%s|%s|%s|%s|ok", shape, kind, carrier, class, ep.name)]++
			}
		}
		run.DistinctSet(local)
	})
	if !all {
		run.Note("signature-shape: %d of %d data completed before the deadline", done, len(cases))
	}
	f.attribute(failures)

	d := f.datum(shapeCase{0, 1, 2, 3})
	run.Sample(10, map[string]interface{}{"family": "signature-shape", "shape": "wide", "kind": "struct", "carrier": "(Ims)", "n": 3,
		"signature": sigName(d), "carried_signature": d.Elems[1].Dyn.T.String(), "go_type": gobridge.GoType(d.T).String(), "value": d.String(), "refmodel_hex": hexs(refmodel.Encode(d))})
	var cnames []string
	for _, c := range f.carriers {
		cnames = append(cnames, c.name)
	}
	return map[string]interface{}{
		"shapes": shapeNames, "kinds": shapeKinds, "carriers": cnames, "n": fmt.Sprintf("every n of 1..%d", max),
		"signatures_for_n_3": samples, "data_executed": ndata, "data_planned": len(cases), "failing_executions": len(failures),
		"wall_s": time.Since(started).Seconds(),
	}
}

// attribute files the failures of the family, see the head of the file.
func (f *shapeFamily) attribute(failures []shapeFailure) {
	type key struct{ ep, shape, kind, carrier int }
	first := map[key]shapeFailure{}
	count := map[key]int{}
	last := map[key]int{}
	for _, fl := range failures {
		k := key{fl.ep, fl.shape, fl.kind, fl.carrier}
		count[k]++
		if fl.n > last[k] {
			last[k] = fl.n
		}
		if cur, ok := first[k]; !ok || fl.n < cur.n {
			first[k] = fl
		}
	}
	var keys []key
	for k := range first {
		keys = append(keys, k)
	}
	sort.Slice(keys, func(a, b int) bool {
		x, y := keys[a], keys[b]
		if x.ep != y.ep {
			return x.ep < y.ep
		}
		if x.shape != y.shape {
			return x.shape < y.shape
		}
		if x.kind != y.kind {
			return x.kind < y.kind
		}
		return x.carrier < y.carrier
	})
	type filed struct {
		fp    string
		where []string
	}
	byN := map[string]*filed{}
	var order []string
	for _, k := range keys {
		fl := first[k]
		ep := entries[k.ep]
		shape, kind, carrier := shapeNames[k.shape], shapeKinds[k.kind], f.carriers[k.carrier].name
		d := f.datum(fl.shapeCase)
		if fl.n == 1 {
			// one composite: neither wide nor deep - the ordinary attribution
			for i := 0; i < count[k]; i++ {
				report(d, ep, fl.dl, fl.clause)
			}
			continue
		}
		mclause, det := ep.eval(d, fl.dl)
		if mclause == "" {
			unstable(fmt.Sprintf("codec/%s/%s/signature-shape", ep.name, fl.clause), ep, fl.dl, fl.clause, sigName(d), d.String(), refmodel.Encode(d))
			continue
		}
		// one threshold per entry point and shape: kinds and carriers that
		// share the smallest failing n are one finding
		tk := fmt.Sprintf("%d|%d|%d", k.ep, k.shape, fl.n)
		if prev, ok := byN[tk]; ok {
			for i := 0; i < count[k]; i++ {
				run.Fail(prev.fp, "\xff")
			}
			prev.where = append(prev.where, kind+" carried as "+carrier)
			continue
		}
		fp := fmt.Sprintf("codec/%s/%s/signature-shape/%s-%s/%s/n=%d", ep.name, mclause, shape, kind, carrier, fl.n)
		if len(ep.dls) > 1 {
			if c, _ := ep.eval(d, delivery{mode: enum.EOFSeparate}); c == "" {
				fp += "/" + fl.dl.String()
			}
		}
		byN[tk] = &filed{fp: fp}
		order = append(order, tk)
		b := refmodel.Encode(d)
		inner := shapeDatum(shape, kind, fl.n).T.String()
		comp, depth := shapeStats(inner)
		what := fmt.Sprintf("%s on signature %s (%s signature of n=%d composites of kind %s carried as %s: %d composites in all, nesting depth %d; documented serialization: %d bytes %s), delivery %s: %s; n=%d is handled; %d of the %d enumerated n fail, the largest %d",
			ep.name, clip(map[bool]string{true: inner, false: sigName(d) + " carrying " + inner}[carrier == "typed"], 300), shape, fl.n, kind, carrier, comp, depth, len(b), hexs(b), fl.dl, clip(det, 700), fl.n-1, count[k], map[bool]int{true: shapeMaxThorough, false: shapeMaxQuick}[run.Thorough()], last[k])
		replay := map[string]interface{}{"entry": ep.name, "family": "signature-shape", "shape": shape, "kind": kind, "carrier": carrier, "n": fl.n,
			"signature": sigName(d), "carried_or_typed_signature": inner, "composites": comp, "nesting_depth": depth, "go_type": clip(gobridge.GoType(d.T).String(), 400), "value": clip(d.String(), 400),
			"refmodel_hex": hexs(b), "refmodel_len": len(b), "delivery": fl.dl.String(), "clause": mclause, "observed": clip(det, 700),
			"failing_n": map[string]int{"count": count[k], "smallest": fl.n, "largest": last[k]}}
		c, dl := fl.shapeCase, fl.dl
		for i := 0; i < count[k]; i++ {
			if run.Fail(fp, fmt.Sprintf("%08d", fl.n)) && i == 0 {
				run.Keep(fp, fmt.Sprintf("%08d", fl.n), what, replay, func() bool { cl, _ := ep.eval(f.datum(c), dl); return cl == mclause })
			}
		}
	}
	var lines []string
	for _, tk := range order {
		if fd := byN[tk]; len(fd.where) > 0 {
			lines = append(lines, fmt.Sprintf("%s also fails from the same n on for the kinds: %s", fd.fp, strings.Join(fd.where, ", ")))
		}
	}
	for _, l := range lines {
		run.Note("signature-shape: %s", l)
	}
}
