package main

// Family "limit": the documented caps of the codec taken as boundary values.
//
// The codec documents three caps: 4096 entries for lists and maps (the
// boundary family, boundary.go), MaxPayloadSize for a message (property C01)
// and, for the variable-length leaves,
//
//	basic.MaxStringSize  "the longest string allowed"      10 MiB = 10485760
//	rawValueMaxSize      a raw buffer in a dynamic value   10 MiB
//
// The length sweep stops at 64 KiB + 1 (1 MiB + 1), so a writer and a reader
// that disagree on the cap itself - on one length out of ten million - are
// not reached. Here each capped leaf is given the lengths cap-1, cap and cap+1:
//
//	s      a string; cap-1 and cap must be handled by every entry point exactly
//	       as any other string (the usual oracle), cap+1 must be REFUSED by
//	       every entry point: by the writers (reflection encoder,
//	       basic.WriteString) and by the readers (signature reader, reflection
//	       decoder, basic.ReadString) alike - a limit only one side enforces
//	       is a disagreement between the serializers
//	m-raw  a dynamic value carrying a raw buffer (reflection encoder and
//	       decoder only: the signature grammar of the repository has no 'r');
//	       cap-1 and cap. Nothing above the cap is enumerated for it (see the
//	       assumptions of the evidence).
//
// Positions: alone, tuple-last (i x), tuple-non-last (x i) and, for s, carried
// by a dynamic value m<s> (written by value.StringValue, read by
// value.NewValue); the thorough tier adds list-elem-followed [x, y] and, for
// s, value-in-list-followed [m<x>, m<i>]. Content: position-dependent without period
// (enum.SweepContentRule). Deliveries of the decoding entry points: sentinel
// follows/unfragmented, separate EOF/reads of at most 65521 bytes,
// *bytes.Buffer holding exactly the encoding (one byte per read is left out:
// ten million reads per datum).
//
// The cap is the documented number (10 MiB), not the constant of the
// repository under test: a tree whose constant moved fails at cap or cap+1.
//
// Attribution: per (entry point, leaf, side of the cap) the failures are filed
// under the first failing (length, position). A failure at cap-1 is located
// by bisection between 70000 (a length of the length sweep) and cap-1: the
// smallest failing length is named. Fingerprint:
// codec/<entry>/<clause>/limit/<leaf>/<position>/n=<cap-1|cap|cap+1|m>[/<delivery>].

import (
	"fmt"
	"runtime/debug"
	"sort"
	"strings"
	"sync"
	"sync/atomic"
	"time"

	"github.com/lugu/qiloop/type/basic"

	"verif/internal/enum"
	"verif/internal/refmodel"
)

// limitCap is the documented cap of strings and raw buffers.
const limitCap = 10 * 1024 * 1024

// limitWorkers bounds the number of 10 MiB data in flight (an evaluation
// holds its datum half a dozen times).
const limitWorkers = 4

var limitDeliveries = []delivery{{mode: enum.NoEOF}, {mode: enum.EOFSeparate, chunk: 65521}, {buf: true}}

var limitPositions = []string{"alone", "tuple-last", "tuple-non-last", "in-value"}

// the thorough tier adds the remaining positions of the length sweep
var limitPositionsThorough = []string{"alone", "tuple-last", "tuple-non-last", "list-elem-followed", "in-value", "value-in-list-followed"}

type limitCase struct {
	leaf, pos int
	n         int
}

type limitFailure struct {
	limitCase
	ep     int
	dl     delivery
	clause string
}

type limitFamily struct {
	leaves  []sweepLeaf
	pos     []sweepPos
	eps     []entryPoint
	content string // cap+1 bytes: every string of the family is a prefix of it
	raw     []byte // cap bytes
}

func limitLabel(n int) string {
	switch n {
	case 70000:
		return "70000-or-less"
	case limitCap - 1:
		return "cap-1"
	case limitCap:
		return "cap"
	case limitCap + 1:
		return "cap+1"
	}
	return fmt.Sprint(n)
}

func (f *limitFamily) leafDatum(leaf, n int) *refmodel.Datum {
	if f.leaves[leaf].name == "s" {
		return &refmodel.Datum{T: refmodel.Atom('s'), S: f.content[:n]}
	}
	return &refmodel.Datum{T: refmodel.Atom('m'), Dyn: &refmodel.Datum{T: refmodel.Atom('r'), B: f.raw[:n:n]}}
}

func (f *limitFamily) datum(c limitCase) *refmodel.Datum {
	return f.pos[c.pos].build(f.leafDatum(c.leaf, c.n), f.leaves[c.leaf].sibling())
}

func (f *limitFamily) dls(ep entryPoint) []delivery {
	if len(ep.dls) > 1 {
		return limitDeliveries
	}
	return ep.dls
}

// eval applies the oracle of the family: up to the cap the usual clauses,
// above it the entry point must return an error.
func (f *limitFamily) eval(ep entryPoint, c limitCase, d *refmodel.Datum, dl delivery) (string, string) {
	clause, det := ep.eval(d, dl)
	if c.n <= limitCap {
		return clause, det
	}
	switch clause {
	case "error":
		return "", ""
	case "panic", "parse-error":
		return clause, det
	}
	out := "handled it as any other " + f.leaves[c.leaf].name
	if clause != "" {
		out = "did not refuse it: " + clause + ": " + det
	}
	return "accepted-above-cap", fmt.Sprintf("a %s of %d bytes - one more than the documented cap of %d - must be refused by writers and readers alike; %s %s", f.leaves[c.leaf].name, c.n, limitCap, ep.name, out)
}

// familyLimit runs the family and returns its description for the evidence.
func familyLimit(thorough bool) map[string]interface{} {
	started := time.Now()
	limitPositions := limitPositions
	if thorough {
		limitPositions = limitPositionsThorough
	}
	f := &limitFamily{eps: sweepEntries(), content: enum.SweepString(limitCap+1, 0), raw: enum.SweepBytes(limitCap, 0)}
	for _, l := range sweepLeaves() {
		if l.name == "s" || l.name == "m-raw" {
			f.leaves = append(f.leaves, l)
		}
	}
	for _, want := range limitPositions {
		for _, p := range sweepPositions() {
			if p.name == want {
				f.pos = append(f.pos, p)
			}
		}
	}
	if len(f.leaves) != 2 || len(f.pos) != len(limitPositions) {
		run.EngineError("limit: leaves or positions of the length sweep were renamed")
		return nil
	}
	fam := map[string]*int64{}
	for _, ep := range f.eps {
		fam[ep.name] = run.Family("limit/" + ep.name)
	}
	lengths := map[string][]int{"s": {limitCap - 1, limitCap, limitCap + 1}, "m-raw": {limitCap - 1, limitCap}}
	var cases []limitCase
	perLeaf := map[string]interface{}{}
	for li, l := range f.leaves {
		var ps []string
		for pi, p := range f.pos {
			if l.T().Kind == refmodel.Value && !p.onValue {
				continue
			}
			ps = append(ps, p.name)
			for _, n := range lengths[l.name] {
				cases = append(cases, limitCase{li, pi, n})
			}
		}
		var ls []string
		for _, n := range lengths[l.name] {
			ls = append(ls, fmt.Sprintf("%s=%d", limitLabel(n), n))
		}
		perLeaf[l.name] = map[string]interface{}{"what": l.what, "lengths": ls, "positions": ps}
	}
	// self-check of the construction: the leaf has the stated length and the
	// reference model reads the encoding back
	for _, c := range cases {
		x := f.leafDatum(c.leaf, c.n)
		got := len(x.S)
		if x.Dyn != nil {
			got = len(x.Dyn.B)
		}
		d := f.datum(c)
		b := refmodel.Encode(d)
		back, k, err := refmodel.Decode(d.T, b)
		if got != c.n || err != nil || k != len(b) || !refmodel.Equal(back, d) {
			run.EngineError("limit: leaf %s of length %d at %s: built with length %d, read back by the reference model: %v", f.leaves[c.leaf].name, c.n, f.pos[c.pos].name, got, err)
			return nil
		}
	}

	oldGC, oldLimit := debug.SetGCPercent(-1), debug.SetMemoryLimit(1<<30)
	defer func() { debug.SetGCPercent(oldGC); debug.SetMemoryLimit(oldLimit) }()

	var mu sync.Mutex
	var failures []limitFailure
	var ndata, next, completed int64
	var wg sync.WaitGroup
	for w := 0; w < limitWorkers; w++ {
		wg.Add(1)
		g := run.NewGuard()
		go func() {
			defer wg.Done()
			for !run.Expired() {
				i := int(atomic.AddInt64(&next, 1)) - 1
				if i >= len(cases) {
					return
				}
				c := cases[i]
				d := f.datum(c)
				leaf, pos := f.leaves[c.leaf].name, f.pos[c.pos].name
				atomic.AddInt64(&ndata, 1)
				local := map[string]int{}
				for ei, ep := range f.eps {
					if !sweepApplies(ep, d) {
						continue
					}
					out := "ok"
					if c.n > limitCap {
						out = "refused"
					}
					for _, dl := range f.dls(ep) {
						ep, dl := ep, dl
						g.Begin(fmt.Sprintf("codec/hang/limit/%s/%s", leaf, pos), func() (string, interface{}) {
							return fmt.Sprintf("%s on the leaf %s of length %s = %d at position %s, %s", ep.name, leaf, limitLabel(c.n), c.n, pos, dl),
								map[string]interface{}{"entry": ep.name, "family": "limit", "leaf": leaf, "position": pos, "n": c.n, "content_rule": enum.SweepContentRule, "delivery": dl.String()}
						}, func() { ep.eval(f.datum(c), dl) })
						clause, _ := f.eval(ep, c, d, dl)
						g.End()
						run.Eval(fam[ep.name], 1)
						if clause != "" {
							out = clause
							mu.Lock()
							failures = append(failures, limitFailure{c, ei, dl, clause})
							mu.Unlock()
							break
						}
					}
					local[fmt.Sprintf("limit|%s|%s|%s|%s|%s", leaf, pos, limitLabel(c.n), ep.name, out)]++
				}
				run.DistinctSet(local)
				atomic.AddInt64(&completed, 1)
			}
		}()
	}
	wg.Wait()
	if int(completed) != len(cases) {
		run.Note("limit: %d of %d data completed before the deadline", completed, len(cases))
	}
	f.attribute(failures)

	var enames, dnames []string
	for _, ep := range f.eps {
		enames = append(enames, ep.name)
	}
	for _, dl := range limitDeliveries {
		dnames = append(dnames, dl.String())
	}
	return map[string]interface{}{
		"documented_cap": limitCap, "repository_constant_basic.MaxStringSize": basic.MaxStringSize,
		"leaves": perLeaf, "entry_points": enames, "deliveries_of_the_decoding_entry_points": dnames,
		"expected":      "n <= cap: the usual oracle; n = cap+1: every entry point returns an error",
		"data_executed": ndata, "data_planned": len(cases), "failing_executions": len(failures),
		"content_rule": enum.SweepContentRule, "wall_s": time.Since(started).Seconds(),
	}
}

// attribute files the failures of the family, see the head of the file.
func (f *limitFamily) attribute(failures []limitFailure) {
	type key struct{ ep, leaf, n, pos int }
	first := map[key]limitFailure{}
	for _, fl := range failures {
		k := key{fl.ep, fl.leaf, fl.n, fl.pos}
		if _, ok := first[k]; !ok {
			first[k] = fl
		}
	}
	var keys []key
	for k := range first {
		keys = append(keys, k)
	}
	sort.Slice(keys, func(a, b int) bool {
		x, y := keys[a], keys[b]
		if x.ep != y.ep {
			return x.ep < y.ep
		}
		if x.leaf != y.leaf {
			return x.leaf < y.leaf
		}
		if x.n != y.n {
			return x.n < y.n
		}
		return x.pos < y.pos
	})
	type filed struct {
		fp    string
		where []string
	}
	byLen := map[string]*filed{}
	var order []string
	for _, k := range keys {
		fl := first[k]
		ep, leaf, pos := f.eps[k.ep], f.leaves[k.leaf], f.pos[k.pos]
		fails := func(n int) bool {
			c := limitCase{k.leaf, k.pos, n}
			cl, _ := f.eval(ep, c, f.datum(c), fl.dl)
			return cl != ""
		}
		m := fl.n
		if fl.n == limitCap-1 {
			// the cap is not the threshold: the smallest failing length above
			// the lengths of the length sweep
			if lo := 70000; fails(lo) {
				// not a matter of the cap: the length sweep locates this one
				m = lo
			} else {
				hi := fl.n
				for hi-lo > 1 {
					mid := lo + (hi-lo)/2
					if fails(mid) {
						hi = mid
					} else {
						lo = mid
					}
				}
				m = hi
			}
		}
		min := limitCase{k.leaf, k.pos, m}
		d := f.datum(min)
		mclause, det := f.eval(ep, min, d, fl.dl)
		if mclause == "" {
			od := f.datum(fl.limitCase)
			unstable(fmt.Sprintf("codec/%s/%s/limit", ep.name, fl.clause), ep, fl.dl, fl.clause, sigName(od),
				fmt.Sprintf("leaf %s of length %d at position %s (%s)", leaf.name, fl.n, pos.name, enum.SweepContentRule), refmodel.Encode(od))
			continue
		}
		// one threshold per entry point and leaf on each side of the cap
		tk := fmt.Sprintf("%d|%d|%v", k.ep, k.leaf, m > limitCap)
		if prev, ok := byLen[tk]; ok {
			run.Fail(prev.fp, "\xff")
			prev.where = append(prev.where, pos.name)
			continue
		}
		fp := fmt.Sprintf("codec/%s/%s/limit/%s/%s/n=%s", ep.name, mclause, leaf.name, pos.name, limitLabel(m))
		if len(ep.dls) > 1 {
			if c, _ := f.eval(ep, min, d, delivery{mode: enum.EOFSeparate, chunk: 65521}); c == "" {
				fp += "/" + fl.dl.String()
			}
		}
		byLen[tk] = &filed{fp: fp}
		order = append(order, tk)
		b := refmodel.Encode(d)
		how := "delivery " + fl.dl.String()
		if len(ep.dls) <= 1 {
			how = "writing to a bytes.Buffer"
		}
		expected := "must be handled as any other length (the documented cap is " + fmt.Sprint(limitCap) + " bytes)"
		if m > limitCap {
			expected = "must be refused by every entry point"
		}
		what := fmt.Sprintf("%s on signature %s, leaf %s (%s) of length %s = %d at position %s (documented serialization: %d bytes %s), %s: %s; a length of %s %s",
			ep.name, clip(sigName(d), 120), leaf.name, leaf.what, limitLabel(m), m, pos.name, len(b), hexs(b), how, clip(det, 700), limitLabel(m), expected)
		replay := map[string]interface{}{"entry": ep.name, "family": "limit", "leaf": leaf.name, "position": pos.name, "n": m, "documented_cap": limitCap,
			"signature": sigName(d), "content_rule": enum.SweepContentRule, "refmodel_hex": hexs(b), "refmodel_len": len(b),
			"delivery": fl.dl.String(), "clause": mclause, "observed": clip(det, 700), "found_at_length": fl.n}
		dl := fl.dl
		if run.Fail(fp, fmt.Sprintf("%08d", m)) {
			run.Keep(fp, fmt.Sprintf("%08d", m), what, replay, func() bool { cl, _ := f.eval(ep, min, f.datum(min), dl); return cl == mclause })
		}
	}
	for _, tk := range order {
		if fd := byLen[tk]; len(fd.where) > 0 {
			run.Note("limit: %s also fails at: %s", fd.fp, strings.Join(fd.where, ", "))
		}
	}
}
