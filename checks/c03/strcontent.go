package main

// Family "string-content": WHAT the bytes of a string are (internal/enum/strcontent.go:
// every single byte, well-formed and ill-formed UTF-8 at its boundaries, NUL and
// control characters, byte order marks; each also embedded at the start, at the end
// and in the middle of a string), at the positions of the length-sweep family, through
// every entry point. The documented serialization copies the bytes verbatim: a codec
// that looks inside a string (trims, stops at or drops a NUL, validates, replaces) is
// only reached here (seed C03-17 dropped one trailing 0x00 in basic.ReadString).
//
// Fingerprints: codec/<entry>/<clause>/string-content/<class>/<position>.

import (
	"fmt"
	"sort"
	"sync"

	"verif/internal/enum"
	"verif/internal/refmodel"
)

func familyStringContent(thorough bool) map[string]interface{} {
	contents := enum.StrContents()
	if thorough {
		contents = append(contents, enum.StrContentPairs()...)
	}
	if msg := enum.StrContentCheck(); msg != "" {
		run.EngineError("string-content: %s", msg)
		return nil
	}
	sT := refmodel.Atom('s')
	pos := sweepPositions()
	eps := sweepEntries()
	fam := map[string]*int64{}
	for _, ep := range eps {
		fam[ep.name] = run.Family("string-content/" + ep.name)
	}
	type failure struct {
		c      int
		p      int
		ep     int
		dl     delivery
		clause string
		det    string
	}
	var mu sync.Mutex
	var failures []failure
	sibling := func() *refmodel.Datum { return enum.Dist(sT) }
	build := func(ci, pi int) *refmodel.Datum {
		return pos[pi].build(&refmodel.Datum{T: sT, S: contents[ci].S}, sibling())
	}
	type job struct{ c, p int }
	var jobs []job
	for ci := range contents {
		for pi, p := range pos {
			if ci >= len(enum.StrContents()) && p.name != "alone" {
				continue // the 65536 two-byte strings: position "alone" only
			}
			jobs = append(jobs, job{ci, pi})
		}
	}
	done, all := run.Parallel(len(jobs), func(i int) {
		j := jobs[i]
		d := build(j.c, j.p)
		local := map[string]int{}
		for ei, ep := range eps {
			if !sweepApplies(ep, d) {
				continue
			}
			out := "ok"
			dls := ep.dls
			if len(dls) > 2 {
				dls = dls[:2]
			}
			for _, dl := range dls {
				clause, det := ep.eval(d, dl)
				run.Eval(fam[ep.name], 1)
				if clause != "" {
					out = clause
					mu.Lock()
					failures = append(failures, failure{j.c, j.p, ei, dl, clause, det})
					mu.Unlock()
					break
				}
			}
			local[fmt.Sprintf("string-content|%s|%s|%s|%s", contents[j.c].Class, pos[j.p].name, ep.name, out)]++
		}
		run.DistinctSet(local)
	})
	if !all {
		run.Note("string-content: %d of %d data completed before the deadline", done, len(jobs))
	}
	sort.Slice(failures, func(a, b int) bool {
		x, y := failures[a], failures[b]
		if len(contents[x.c].S) != len(contents[y.c].S) {
			return len(contents[x.c].S) < len(contents[y.c].S)
		}
		if x.c != y.c {
			return x.c < y.c
		}
		if x.p != y.p {
			return x.p < y.p
		}
		return x.ep < y.ep
	})
	for _, fl := range failures {
		c, p, ep := contents[fl.c], pos[fl.p], eps[fl.ep]
		fp := fmt.Sprintf("codec/%s/%s/string-content/%s/%s", ep.name, fl.clause, c.Class, p.name)
		key := fmt.Sprintf("%06d|%s", len(c.S), c.Name)
		if run.Fail(fp, key) {
			d := build(fl.c, fl.p)
			b := refmodel.Encode(d)
			cc, pp, e, dl, clause := fl.c, fl.p, ep, fl.dl, fl.clause
			run.Keep(fp, key, fmt.Sprintf("%s on signature %s with the string %s (%d bytes, hex %s, class %s) at position %s (documented serialization: %d bytes %s), delivery %s: %s",
				ep.name, clip(sigName(d), 120), c.Name, len(c.S), c.Hex(), c.Class, p.name, len(b), hexs(b), fl.dl.String(), clip(fl.det, 700)),
				map[string]interface{}{"entry": ep.name, "family": "string-content", "string_name": c.Name, "string_hex": c.Hex(), "class": c.Class, "position": p.name,
					"signature": clip(sigName(d), 200), "refmodel_hex": hexs(b), "delivery": fl.dl.String(), "clause": fl.clause, "observed": clip(fl.det, 700)},
				func() bool { c2, _ := e.eval(build(cc, pp), dl); return c2 == clause })
		}
	}
	perClass := map[string]int{}
	for _, c := range contents {
		perClass[c.Class]++
	}
	return map[string]interface{}{
		"what":       "string contents (every one-byte string, UTF-8 boundary scalars, every kind of ill-formed sequence, NUL / control / quoting characters, byte order marks; each alone and embedded as a+x, x+z, a+x+z; runs; all 256 bytes; thorough: every two-byte string, alone) x positions alone / tuple-last / tuple-non-last / list-elem-followed / in-value / value-in-list-followed x every entry point (three codecs, basic.WriteString, basic.ReadString), first two deliveries",
		"strings":    len(contents),
		"per_class":  perClass,
		"data":       len(jobs),
		"completed":  all,
		"violations": len(failures),
	}
}
