package main

// Generation of one IDL package with the repository's generator (the library
// functions behind meta/cmd/stub), type-checking of the output, and the glue
// that lets the reflection driver (checks/c05/drv) run it: implementation
// shims copied from the generated <X>Implementor interfaces and a main().

import (
	"bytes"
	"fmt"
	"go/ast"
	"go/parser"
	"go/printer"
	"go/token"
	"go/types"
	"regexp"
	"sort"
	"strconv"
	"strings"
	"time"
	"verif/internal/report"

	"github.com/lugu/qiloop/meta/idl"
	"github.com/lugu/qiloop/meta/signature"
	"github.com/lugu/qiloop/meta/stub"
	"github.com/lugu/qiloop/type/object"
	"golang.org/x/tools/go/packages"
)

// ---------------------------------------------------------------- generation

type genResult struct {
	src      []byte
	pkg      *idl.PackageDeclaration
	failure  string // "" | generate-error | generate-panic | parse-error
	msg      string
	typeErrs []string
}

// generate runs the repository's IDL parser and stub+proxy generator
// (stub.GeneratePackage, what `go run meta/cmd/stub` calls).
func generate(idlText string) genResult {
	ch := make(chan genResult, 1)
	go func() { ch <- generate1(idlText) }()
	select {
	case r := <-ch:
		return r
	case <-time.After(60 * time.Second):
		return genResult{failure: "generate-hang", msg: "the generator did not return within 60 s"}
	}
}

func generate1(idlText string) (r genResult) {
	defer func() {
		if p := recover(); p != nil {
			r.failure, r.msg = "generate-panic", fmt.Sprint(p)
		}
	}()
	pkg, err := idl.ParsePackage([]byte(idlText))
	if err != nil {
		r.failure, r.msg = "parse-error", err.Error()
		return
	}
	r.pkg = pkg
	var buf bytes.Buffer
	if err := stub.GeneratePackage(&buf, "", pkg); err != nil {
		m := err.Error()
		if i := strings.Index(m, " while formatting source"); i >= 0 {
			m = m[:i]
		}
		r.failure, r.msg = "generate-error", m
		r.src = []byte(err.Error())
		return
	}
	r.src = buf.Bytes()
	return
}

// generate1Parse: the IDL parser accepts the text.
func generate1Parse(idlText string) (ok bool) {
	defer func() {
		if p := recover(); p != nil {
			ok = false
		}
	}()
	_, err := idl.ParsePackage([]byte(idlText))
	return err == nil
}

// ---------------------------------------------------------------- type check

type mapImporter map[string]*types.Package

func (m mapImporter) Import(path string) (*types.Package, error) {
	if p, ok := m[path]; ok {
		return p, nil
	}
	return nil, fmt.Errorf("package %q is not among the packages loaded for type-checking", path)
}

var depPatterns = []string{
	"github.com/lugu/qiloop/bus", "github.com/lugu/qiloop/bus/net", "github.com/lugu/qiloop/type/basic",
	"github.com/lugu/qiloop/type/object", "github.com/lugu/qiloop/type/value", "verif/checks/c05/drv",
	"bytes", "context", "fmt", "io", "log", "reflect",
}

// loadDeps loads the export data of every package generated code may import,
// from the current tree (module /verif, never Dir=/repo).
func loadDeps(root, overlay string) (mapImporter, error) {
	cfg := &packages.Config{
		Mode: packages.NeedName | packages.NeedTypes | packages.NeedImports,
		Dir:  root,
		Env:  report.GoEnv(),
	}
	if overlay != "" {
		cfg.BuildFlags = []string{"-overlay", overlay}
	}
	pkgs, err := packages.Load(cfg, depPatterns...)
	if err != nil {
		return nil, err
	}
	imp := mapImporter{}
	for _, p := range pkgs {
		if len(p.Errors) > 0 {
			return nil, fmt.Errorf("load %s: %v", p.PkgPath, p.Errors[0])
		}
		if p.Types == nil {
			return nil, fmt.Errorf("no type information for %s", p.PkgPath)
		}
		imp[p.PkgPath] = p.Types
	}
	return imp, nil
}

// typeCheck type-checks Go sources as one package main.
func typeCheck(imp mapImporter, srcs map[string][]byte) []string {
	fset := token.NewFileSet()
	var files []*ast.File
	var errs []string
	var names []string
	for n := range srcs {
		names = append(names, n)
	}
	sort.Strings(names)
	for _, n := range names {
		f, err := parser.ParseFile(fset, n, srcs[n], parser.SkipObjectResolution)
		if err != nil {
			errs = append(errs, err.Error())
			continue
		}
		files = append(files, f)
	}
	if len(errs) > 0 {
		return errs
	}
	conf := types.Config{Importer: imp, Error: func(err error) {
		if len(errs) < 50 {
			errs = append(errs, err.Error())
		}
	}}
	conf.Check("main", fset, files, nil)
	return errs
}

// ---------------------------------------------------------------- naming

// actionIDs replicates the parser's id assignment (declaration order from
// 100; a method called registerEvent keeps id 0) and is cross-checked against
// the parsed interface.
type namedAction struct {
	atom      *atom
	act       action
	id        uint32
	implName  string
	proxyName string
}

func nameActions(itf *idl.InterfaceType, atoms []*atom) ([]namedAction, error) {
	var out []namedAction
	next := uint32(100)
	for _, a := range atoms {
		for _, ac := range a.actions {
			na := namedAction{atom: a, act: ac}
			if ac.kind == "method" && ac.name == "registerEvent" {
				na.id = 0
			} else {
				na.id = next
				next++
			}
			out = append(out, na)
		}
	}
	meta := itf.MetaObject()
	names := map[uint32]string{}
	err := meta.ForEachMethodAndSignal(
		func(m object.MetaMethod, n string) error { names[m.Uid] = n; return nil },
		func(s object.MetaSignal, n string) error { names[s.Uid] = n; return nil },
		func(p object.MetaProperty, n string) error { names[p.Uid] = n; return nil })
	if err != nil {
		return nil, err
	}
	for i := range out {
		na := &out[i]
		var idlName string
		switch na.act.kind {
		case "method":
			idlName = itf.Methods[na.id].Name
		case "signal":
			idlName = itf.Signals[na.id].Name
		case "property":
			idlName = itf.Properties[na.id].Name
		}
		if idlName != na.act.name {
			return nil, fmt.Errorf("action id bookkeeping: id %d is %q in the parsed interface, expected %s %q", na.id, idlName, na.act.kind, na.act.name)
		}
		n := names[na.id]
		switch na.act.kind {
		case "method":
			na.implName = n
			na.proxyName = signature.CleanMethodName(n)
		case "signal":
			na.implName = "Signal" + n
			na.proxyName = signature.CleanName("Subscribe" + n)
		case "property":
			na.implName = n
			na.proxyName = n
		}
	}
	return out, nil
}

// ---------------------------------------------------------------- glue

var identRe = regexp.MustCompile(`^[A-Za-z_][A-Za-z0-9_]*$`)

func nodeText(fset *token.FileSet, n ast.Node) string {
	var b bytes.Buffer
	printer.Fprint(&b, fset, n)
	return b.String()
}

// createdHygiene: the actions of the identifier hygiene atoms are driven on
// the created object as well (thorough; quick: types, arities and the object
// family only - the stub code under the two proxies is the same).
var createdHygiene = false

type glueItf struct {
	idlName string
	atoms   []*atom
}

// makeGlue writes the shims and main() for the interfaces of a package.
func makeGlue(gen []byte, pkg *idl.PackageDeclaration, itfs []glueItf) (shims, mainSrc []byte, err error) {
	fset := token.NewFileSet()
	f, err := parser.ParseFile(fset, "gen.go", gen, parser.SkipObjectResolution)
	if err != nil {
		return nil, nil, err
	}
	// imports of the generated file, by local name
	imports := map[string]string{}
	for _, im := range f.Imports {
		p, _ := strconv.Unquote(im.Path.Value)
		name := p[strings.LastIndex(p, "/")+1:]
		if im.Name != nil {
			name = im.Name.Name
		}
		imports[name] = p
	}
	ifaces := map[string]*ast.InterfaceType{}
	var funcs []*ast.FuncDecl
	for _, d := range f.Decls {
		switch d := d.(type) {
		case *ast.GenDecl:
			for _, s := range d.Specs {
				if ts, ok := s.(*ast.TypeSpec); ok {
					if it, ok := ts.Type.(*ast.InterfaceType); ok {
						ifaces[ts.Name.Name] = it
					}
				}
			}
		case *ast.FuncDecl:
			if d.Recv == nil {
				funcs = append(funcs, d)
			}
		}
	}
	parsed := map[string]*idl.InterfaceType{}
	for _, t := range pkg.Types {
		if it, ok := t.(*idl.InterfaceType); ok {
			parsed[it.Name] = it
		}
	}
	var sb, mb bytes.Buffer
	used := map[string]bool{}
	var body bytes.Buffer
	mb.WriteString("package main\n\nimport (\n\t\"reflect\"\n\t\"verif/checks/c05/drv\"\n\tbus \"github.com/lugu/qiloop/bus\"\n)\n\nvar _ = reflect.TypeOf\n\nfunc main() {\n\tdrv.Main([]drv.Interface{\n")
	for _, gi := range itfs {
		n := gi.idlName
		// gn: the Go name of the interface - the IDL name, or <name>_<k> when the
		// generator had to make it unique (a structure of the same name)
		gn := n
		if ifaces[gn+"Implementor"] == nil {
			re := regexp.MustCompile(`^` + regexp.QuoteMeta(n) + `_[0-9]+Implementor$`)
			var cands []string
			for name := range ifaces {
				if re.MatchString(name) {
					cands = append(cands, name)
				}
			}
			if len(cands) == 1 {
				gn = strings.TrimSuffix(cands[0], "Implementor")
			}
		}
		it := ifaces[gn+"Implementor"]
		if it == nil {
			return nil, nil, fmt.Errorf("the generated code declares no interface %sImplementor", n)
		}
		implType := "shim" + signature.CleanName(gn)
		// tag_: "" for the object registered as the service, otherwise the name the
		// driver gave to an object it created through Create<X> (object family)
		fmt.Fprintf(&body, "type %s struct {\n\th_   *drv.Handler\n\ttag_ string\n}\n\n", implType)
		for _, m := range it.Methods.List {
			ft, ok := m.Type.(*ast.FuncType)
			if !ok || len(m.Names) != 1 {
				continue // embedded interface
			}
			name := m.Names[0].Name
			var params, args []string
			k := 0
			if ft.Params != nil {
				for _, p := range ft.Params.List {
					typ := nodeText(fset, p.Type)
					if len(p.Names) == 0 {
						pn := fmt.Sprintf("a%d_", k)
						k++
						params = append(params, pn+" "+typ)
						args = append(args, pn)
					}
					for _, id := range p.Names {
						pn := id.Name
						if pn == "_" {
							pn = fmt.Sprintf("a%d_", k)
						}
						k++
						params = append(params, pn+" "+typ)
						args = append(args, pn)
					}
				}
			}
			var results []string
			if ft.Results != nil {
				for _, r := range ft.Results.List {
					cnt := len(r.Names)
					if cnt == 0 {
						cnt = 1
					}
					for j := 0; j < cnt; j++ {
						results = append(results, nodeText(fset, r.Type))
					}
				}
			}
			fmt.Fprintf(&body, "func (s_ *%s) %s(%s) (%s) {\n", implType, name, strings.Join(params, ", "), strings.Join(results, ", "))
			switch {
			case name == "Activate" && len(args) == 2:
				fmt.Fprintf(&body, "\ts_.h_.Activated(s_.tag_, %q, %s, %s)\n\treturn nil\n", n, args[0], args[1])
			case len(results) == 0:
				// OnTerminate
			case len(results) == 1:
				fmt.Fprintf(&body, "\treturn s_.h_.Call(s_.tag_, %q, %q, []interface{}{%s}, nil)\n", n, name, strings.Join(args, ", "))
			default:
				fmt.Fprintf(&body, "\tvar r_ %s\n\te_ := s_.h_.Call(s_.tag_, %q, %q, []interface{}{%s}, &r_)\n\treturn r_, e_\n", results[0], n, name, strings.Join(args, ", "))
			}
			body.WriteString("}\n\n")
		}
		// constructors, found by their shape
		var objCtor, proxyCtor, service, createCtor, makeCtor string
		proxyType := signature.CleanName(gn) + "Proxy"
		for _, fd := range funcs {
			ft := fd.Type
			// Create<X>(session bus.Session, service bus.Service, impl <X>Implementor) (<X>Proxy, error)
			if ft.Params != nil && ft.Results != nil && len(ft.Results.List) == 2 && nodeText(fset, ft.Results.List[0].Type) == proxyType {
				var pts []string
				for _, p := range ft.Params.List {
					cnt := len(p.Names)
					if cnt == 0 {
						cnt = 1
					}
					for j := 0; j < cnt; j++ {
						pts = append(pts, nodeText(fset, p.Type))
					}
				}
				if len(pts) == 3 && pts[0] == "bus.Session" && pts[1] == "bus.Service" && pts[2] == gn+"Implementor" {
					createCtor = fd.Name.Name
				}
			}
			// Make<X>(sess bus.Session, proxy bus.Proxy) <X>Proxy
			if ft.Params != nil && len(ft.Params.List) == 2 && ft.Results != nil && len(ft.Results.List) == 1 && nodeText(fset, ft.Results.List[0].Type) == proxyType &&
				nodeText(fset, ft.Params.List[0].Type) == "bus.Session" && nodeText(fset, ft.Params.List[1].Type) == "bus.Proxy" &&
				len(ft.Params.List[0].Names) <= 1 && len(ft.Params.List[1].Names) <= 1 {
				makeCtor = fd.Name.Name
			}
			if ft.Params == nil || len(ft.Params.List) != 1 || ft.Results == nil {
				continue
			}
			pt := nodeText(fset, ft.Params.List[0].Type)
			if pt == gn+"Implementor" && len(ft.Results.List) == 1 && nodeText(fset, ft.Results.List[0].Type) == "bus.Actor" {
				objCtor = fd.Name.Name
			}
			if pt == "bus.Session" && len(ft.Results.List) == 2 && nodeText(fset, ft.Results.List[0].Type) == proxyType {
				proxyCtor = fd.Name.Name
				ast.Inspect(fd.Body, func(x ast.Node) bool {
					if ce, ok := x.(*ast.CallExpr); ok && service == "" {
						if se, ok := ce.Fun.(*ast.SelectorExpr); ok && se.Sel.Name == "Proxy" && len(ce.Args) == 2 {
							if bl, ok := ce.Args[0].(*ast.BasicLit); ok && bl.Kind == token.STRING {
								service, _ = strconv.Unquote(bl.Value)
							}
						}
					}
					return true
				})
			}
		}
		if objCtor == "" || proxyCtor == "" || service == "" {
			return nil, nil, fmt.Errorf("interface %s: constructors not found in the generated code (object %q, proxy %q, service %q)", n, objCtor, proxyCtor, service)
		}
		pit := parsed[n]
		if pit == nil {
			pit = parsed[gn]
		}
		if pit == nil {
			return nil, nil, fmt.Errorf("interface %s not in the parsed package", n)
		}
		nas, err := nameActions(pit, gi.atoms)
		if err != nil {
			return nil, nil, err
		}
		fmt.Fprintf(&mb, "\t\t{Name: %q, Service: %q,\n\t\t\tNewObject: func(h *drv.Handler) bus.Actor { return %s(&%s{h_: h}) },\n\t\t\tNewProxy: func(s bus.Session) (interface{}, error) { return %s(s) },\n",
			n, service, objCtor, implType, proxyCtor)
		if createCtor != "" && makeCtor != "" && ifaces[proxyType] != nil {
			// the generated constructor of further objects of this interface, on
			// the service's side or (through a ProxyService) on the client's
			fmt.Fprintf(&mb, "\t\t\tProxyType: reflect.TypeOf((*%s)(nil)).Elem(),\n\t\t\tCreate: func(s bus.Session, svc bus.Service, h *drv.Handler, tag string) (interface{}, error) { return %s(s, svc, &%s{h, tag}) },\n\t\t\tWrap: func(s bus.Session, p bus.Proxy) interface{} { return %s(s, p) },\n",
				proxyType, createCtor, implType, makeCtor)
		}
		mb.WriteString("\t\t\tActions: []drv.Action{\n")
		for _, na := range nas {
			fmt.Fprintf(&mb, "\t\t\t\t{Atom: %q, Kind: %q, IDLName: %q, NParams: %d, ImplName: %q, ProxyName: %q, Created: %v},\n",
				na.atom.id, na.act.kind, na.act.name, len(na.act.params), na.implName, na.proxyName, !na.atom.hygiene || createdHygiene)
		}
		mb.WriteString("\t\t\t}},\n")
	}
	mb.WriteString("\t})\n}\n")
	// imports actually used by the shims
	bodyStr := body.String()
	for name := range imports {
		if regexp.MustCompile(`\b` + regexp.QuoteMeta(name) + `\.`).MatchString(bodyStr) {
			used[name] = true
		}
	}
	sb.WriteString("package main\n\nimport (\n\t\"verif/checks/c05/drv\"\n")
	var un []string
	for n := range used {
		un = append(un, n)
	}
	sort.Strings(un)
	for _, n := range un {
		fmt.Fprintf(&sb, "\t%s %q\n", n, imports[n])
	}
	sb.WriteString(")\n\n")
	sb.WriteString(bodyStr)
	return sb.Bytes(), mb.Bytes(), nil
}
