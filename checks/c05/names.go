package main

// Name tables of the identifier hygiene family, derived at check time from the
// tree under test (never from a list kept here, which would go stale when the
// repository changes): the names the generator, the Go compiler or the bus
// package give a meaning of their own, in whose way an IDL identifier can get.
//
//	keyword            Go keywords (go/token)
//	predeclared        Go's universe scope (go/types)
//	signature.<var>    every package-level `var <name> = []string{...}` of meta/signature
//	                   (reservedMethods, keywords: the generator's own renaming tables), read from the source
//	ObjectProxy-method method set of bus.ObjectProxy, which every generated <X>Proxy embeds
//	Proxy-method       method set of bus.Proxy (what <X>Proxy.Proxy() returns)
//	Actor-method       method set of bus.Actor, which every generated stub implements
//	generated-method   methods the generated code declares for a probe package whatever its actions are called
//	generated-toplevel package-level identifiers of the probe's generated code that are built from the
//	                   name of an interface or a structure (templates: <Itf>Proxy, stub<Itf>, read<Struct>...)
//	package            local names of the packages the generated code imports
//	generated-local    parameters, receivers, variables and fields the generated code declares
//
// A name found in several tables belongs to the first one in this order. The
// hand-written pools of universe.go stay as a floor: a table that cannot be
// derived (the probe does not generate any more, a file moved) is empty and
// reported as such in the evidence, never an engine error.

import (
	"go/ast"
	"go/parser"
	"go/token"
	"go/types"
	"os"
	"path/filepath"
	"sort"
	"strconv"
	"strings"
	"unicode"

	"verif/internal/report"
)

type nameTable struct {
	id     string
	names  []string
	source string
}

// the probe package: every action kind, type constructor and declaration kind
// the generator has a code path for. Its own identifiers start with zq / Zq so
// that what the generator derives from them can be told apart.
const probeIDL = `package zqpkg
struct Zqst
	zqfa: int32
	zqfb: str
	zqfv: any
	zqfl: Vec<int32>
	zqfm: Map<str,int32>
end
enum Zqen
	zqca = 1
	zqcb = 2
end
interface Zqobj
	fn zqval() -> int32
end
interface Zqitf
	fn zqma(zqpa: int32, zqpb: str) -> int32
	fn zqmb()
	fn zqmc(zqpa: Zqst, zqpb: Vec<Zqst>, zqpc: Map<str,Zqst>, zqpd: any) -> Zqst
	fn zqmd(zqpa: Vec<str>) -> Vec<str>
	fn zqme(zqpa: Map<int32,str>) -> Map<int32,str>
	fn zqmf(zqpa: Tuple<int32,str>) -> Tuple<int32,str>
	fn zqmg(zqpa: Zqobj) -> Zqobj
	fn zqmh(zqpa: obj) -> any
	sig zqsa()
	sig zqsb(zqpa: int32)
	sig zqsc(zqpa: int32, zqpb: str)
	sig zqsd(zqpa: Zqst)
	sig zqse(zqpa: Zqobj)
	prop zqra(zqpa: int32)
	prop zqrb(zqpa: Zqst)
	prop zqrc(zqpa: Vec<str>)
end
`

func isProbeName(s string) bool {
	l := strings.ToLower(s)
	return strings.Contains(l, "zq")
}

func goKeywordTable() []string {
	var out []string
	for t := token.Token(0); t < 256; t++ {
		if t.IsKeyword() {
			out = append(out, t.String())
		}
	}
	sort.Strings(out)
	return out
}

func methodSetOf(imp mapImporter, pkgPath, typeName string) []string {
	p := imp[pkgPath]
	if p == nil {
		return nil
	}
	o := p.Scope().Lookup(typeName)
	if o == nil {
		return nil
	}
	ms := types.NewMethodSet(o.Type())
	var out []string
	for i := 0; i < ms.Len(); i++ {
		out = append(out, ms.At(i).Obj().Name())
	}
	sort.Strings(out)
	return out
}

// signatureTables reads every package-level []string literal of meta/signature.
func signatureTables() []nameTable {
	dir := filepath.Join(report.RepoDir(), "meta", "signature")
	ents, err := os.ReadDir(dir)
	if err != nil {
		return nil
	}
	var out []nameTable
	for _, e := range ents {
		if !strings.HasSuffix(e.Name(), ".go") || strings.HasSuffix(e.Name(), "_test.go") {
			continue
		}
		f, err := parser.ParseFile(token.NewFileSet(), filepath.Join(dir, e.Name()), nil, parser.SkipObjectResolution)
		if err != nil {
			continue
		}
		for _, d := range f.Decls {
			gd, ok := d.(*ast.GenDecl)
			if !ok || gd.Tok != token.VAR {
				continue
			}
			for _, s := range gd.Specs {
				vs, ok := s.(*ast.ValueSpec)
				if !ok || len(vs.Names) != 1 || len(vs.Values) != 1 {
					continue
				}
				cl, ok := vs.Values[0].(*ast.CompositeLit)
				if !ok {
					continue
				}
				var names []string
				for _, el := range cl.Elts {
					if kv, ok := el.(*ast.KeyValueExpr); ok {
						el = kv.Key // a map[string]... keyed by name
					}
					bl, ok := el.(*ast.BasicLit)
					if !ok || bl.Kind != token.STRING {
						names = nil
						break
					}
					if n, err := strconv.Unquote(bl.Value); err == nil && identRe.MatchString(n) {
						names = append(names, n)
					}
				}
				if len(names) > 0 {
					out = append(out, nameTable{id: "signature." + vs.Names[0].Name, names: uniqStr(names), source: "meta/signature/" + e.Name()})
				}
			}
		}
	}
	sort.Slice(out, func(i, j int) bool { return out[i].id < out[j].id })
	return out
}

// probeTables generates the probe package and collects what its code declares.
func probeTables() (methods, toplevel, imports, locals []string, failure string) {
	r := generate(probeIDL)
	if r.failure != "" {
		return nil, nil, nil, nil, r.failure + ": " + r.msg
	}
	f, err := parser.ParseFile(token.NewFileSet(), "probe.go", r.src, parser.SkipObjectResolution)
	if err != nil {
		return nil, nil, nil, nil, "the probe's generated code does not parse: " + err.Error()
	}
	for _, im := range f.Imports {
		p, _ := strconv.Unquote(im.Path.Value)
		n := p[strings.LastIndex(p, "/")+1:]
		if im.Name != nil {
			n = im.Name.Name
		}
		imports = append(imports, n)
	}
	addLocal := func(id *ast.Ident) {
		if id != nil && id.Name != "_" && !isProbeName(id.Name) {
			locals = append(locals, id.Name)
		}
	}
	fields := func(fl *ast.FieldList) {
		if fl == nil {
			return
		}
		for _, fd := range fl.List {
			for _, n := range fd.Names {
				addLocal(n)
			}
		}
	}
	for _, d := range f.Decls {
		switch d := d.(type) {
		case *ast.FuncDecl:
			if d.Recv != nil {
				if !isProbeName(d.Name.Name) {
					methods = append(methods, d.Name.Name)
				}
				fields(d.Recv)
			} else {
				toplevel = append(toplevel, d.Name.Name)
			}
		case *ast.GenDecl:
			for _, s := range d.Specs {
				switch s := s.(type) {
				case *ast.TypeSpec:
					toplevel = append(toplevel, s.Name.Name)
					switch t := s.Type.(type) {
					case *ast.InterfaceType:
						for _, m := range t.Methods.List {
							for _, n := range m.Names {
								if !isProbeName(n.Name) {
									methods = append(methods, n.Name)
								}
							}
						}
					case *ast.StructType:
						fields(t.Fields)
					}
				case *ast.ValueSpec:
					for _, n := range s.Names {
						toplevel = append(toplevel, n.Name)
					}
				}
			}
		}
	}
	ast.Inspect(f, func(n ast.Node) bool {
		switch n := n.(type) {
		case *ast.FuncType:
			fields(n.Params)
			fields(n.Results)
		case *ast.AssignStmt:
			if n.Tok == token.DEFINE {
				for _, l := range n.Lhs {
					if id, ok := l.(*ast.Ident); ok {
						addLocal(id)
					}
				}
			}
		case *ast.RangeStmt:
			if n.Tok == token.DEFINE {
				if id, ok := n.Key.(*ast.Ident); ok {
					addLocal(id)
				}
				if id, ok := n.Value.(*ast.Ident); ok {
					addLocal(id)
				}
			}
		case *ast.ValueSpec:
			for _, id := range n.Names {
				addLocal(id)
			}
		}
		return true
	})
	// package-level names stay in toplevel only
	top := map[string]bool{}
	for _, n := range toplevel {
		top[n] = true
	}
	var ls []string
	for _, n := range locals {
		if !top[n] {
			ls = append(ls, n)
		}
	}
	return uniqStr(methods), uniqStr(toplevel), uniqStr(imports), uniqStr(ls), ""
}

// toplevelTemplates turns the probe's package-level identifiers built from the
// name of its interface (Zqitf) or structure (Zqst) into templates: "%sProxy",
// "stub%s", "read%s"... ; kind is "interface" or "struct".
type nameTemplate struct {
	kind   string
	prefix string
	suffix string
}

func (t nameTemplate) String() string { return t.prefix + "<" + t.kind + ">" + t.suffix }

func toplevelTemplates(toplevel []string) []nameTemplate {
	var out []nameTemplate
	for _, n := range toplevel {
		for _, k := range [][2]string{{"Zqitf", "interface"}, {"Zqst", "struct"}, {"Zqen", "enum"}} {
			if i := strings.Index(n, k[0]); i >= 0 {
				out = append(out, nameTemplate{kind: k[1], prefix: n[:i], suffix: n[i+len(k[0]):]})
			}
		}
	}
	return out
}

// deriveTables returns the tables in priority order and notes about the
// sources that gave nothing.
func deriveTables(imp mapImporter) (tables []nameTable, templates []nameTemplate, notes []string) {
	add := func(id string, names []string, source string) {
		if len(names) == 0 {
			notes = append(notes, "table "+id+" ("+source+") is empty on this tree")
		}
		tables = append(tables, nameTable{id: id, names: names, source: source})
	}
	add("keyword", goKeywordTable(), "go/token")
	var pre []string
	for _, n := range types.Universe.Names() {
		pre = append(pre, n)
	}
	sort.Strings(pre)
	add("predeclared", pre, "go/types universe scope")
	// the generator's own tables come before the method sets they were written
	// for: a name the generator promises to rename is judged with its peers
	st := signatureTables()
	if len(st) == 0 {
		notes = append(notes, "no []string table found in meta/signature")
	}
	tables = append(tables, st...)
	const busPkg = "github.com/lugu/qiloop/bus"
	add("ObjectProxy-method", methodSetOf(imp, busPkg, "ObjectProxy"), "method set of bus.ObjectProxy")
	add("Proxy-method", methodSetOf(imp, busPkg, "Proxy"), "method set of bus.Proxy")
	add("Actor-method", methodSetOf(imp, busPkg, "Actor"), "method set of bus.Actor")
	methods, toplevel, imports, locals, failure := probeTables()
	if failure != "" {
		notes = append(notes, "the probe package could not be generated ("+failure+"): the tables generated-method, package, generated-local and the package-level templates are empty")
	}
	add("generated-method", methods, "methods declared by the generated code of the probe package")
	add("package", imports, "imports of the generated code of the probe package")
	add("generated-local", locals, "parameters, receivers, variables and fields declared by the generated code of the probe package")
	templates = toplevelTemplates(toplevel)
	return tables, templates, notes
}

func lowerFirst(s string) string {
	r := []rune(s)
	if len(r) == 0 {
		return s
	}
	r[0] = unicode.ToLower(r[0])
	return string(r)
}

func upperFirst(s string) string {
	r := []rune(s)
	if len(r) == 0 {
		return s
	}
	r[0] = unicode.ToUpper(r[0])
	return string(r)
}
