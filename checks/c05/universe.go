package main

// The program universe of C05: atoms (one action, or a small group of actions
// whose names interact) over the type universe Sig(d) and the identifier
// hygiene set, rendered as IDL text; and the object family (objects.go):
// actions with object-typed positions (an interface declared in the same
// package as parameter, result or signal payload).

import (
	"fmt"
	"sort"
	"strings"
)

type param struct {
	name string
	typ  string // IDL type expression
}

type action struct {
	kind   string // method | signal | property
	name   string // IDL identifier
	params []param
	ret    string // IDL type expression, "" = nothing
}

// atom: the unit of attribution. It is generated, type-checked and (when the
// whole package holds together) driven; a failure is attributed to its class.
type atom struct {
	id      string
	actions []action
	class   string   // type class (IDL expression) or hygiene class
	parts   []string // proper sub-expressions of the type under test (for blame)
	ctor    string   // outermost constructor of the type under test: Vec | Map | Tuple | ""
	hygiene bool
	decls   []string // struct / enum declarations needed
	itfName string   // "" = default interface
	// object family: the atoms declaring what this atom refers to (the method
	// value() of the interfaces it names, of its own interface when it refers to
	// itself); they are rendered, generated and assembled together with it
	needs  []*atom
	object bool   // member of the object family (assembled into a package of its own)
	group  string // object family: the position class, for the attribution of a failure common to a whole group
	// object family: what the unit's generated code does on the unchanged tree
	// when that is a listed finding ("" otherwise)
	known string
	// identifier hygiene family: the group (role and table, e.g.
	// "param-name=keyword@method") and the identifier under test; a failure
	// common to the whole group is attributed to the group, any other one to
	// "<group>:<name>"
	hgroup, hname string
	pkgName       string // "" = main; otherwise the atom is generated and type-checked alone only
	aloneOnly     bool   // this tier gives the atom the alone verdict only (not assembled, not driven)
	rejected      bool   // the IDL parser refused the atom: not a program of the universe
	// atoms with different pack keys are never assembled into one package (the
	// two spellings of one name, or one name as structure and as constant, would
	// declare the same Go identifier twice: an artefact of packing, not a verdict)
	pack string
}

var scalars = []string{"bool", "int8", "uint8", "int16", "uint16", "int32", "uint32", "int64", "uint64", "float32", "float64", "str", "any"}

// declarations available to atoms (IDL text by name)
var declText = map[string]string{
	"Pt":   "struct Pt\n\tx: int32\n\ty: str\nend\n",
	"Sc":   "struct Sc\n\tb: bool\n\ti8: int8\n\tu8: uint8\n\ti16: int16\n\tu16: uint16\n\ti32: int32\n\tu32: uint32\n\ti64: int64\n\tu64: uint64\n\tf32: float32\n\tf64: float64\n\ts: str\n\tv: any\nend\n",
	"Sw":   "struct Sw\n\tb: bool\n\ti16: int16\n\tu16: uint16\n\ti32: int32\n\tu32: uint32\n\ti64: int64\n\tu64: uint64\n\tf32: float32\n\tf64: float64\n\ts: str\n\tv: any\nend\n",
	"Nest": "struct Nest\n\tp: Pt\n\tn: int32\nend\n",
	"Cont": "struct Cont\n\tl: Vec<int32>\n\tm: Map<str,int32>\n\tp: Vec<Pt>\n\tq: Map<str,Pt>\nend\n",
	"Deep": "struct Deep\n\tn: Nest\n\tl: Vec<Nest>\nend\n",
	"Lst":  "struct Lst\n\tn: int32\n\tl: Vec<int32>\nend\n",
	"En":   "enum En\n\tone = 1\n\ttwo = 2\nend\n",
	// hygiene: struct members and names
	"KwFields":   "struct KwFields\n\ttype: int32\n\tfunc: str\n\trange: bool\nend\n",
	"CaseFields": "struct CaseFields\n\tab: int32\n\tAb: str\nend\n",
	"UsFields":   "struct UsFields\n\t_a: int32\n\tb_c: str\n\td_: bool\nend\n",
	"lower":      "struct lower\n\ta: int32\nend\n",
	"With_us":    "struct With_us\n\ta: int32\nend\n",
	"List<int>":  "struct List<int>\n\ta: int32\nend\n",
}

// which declarations a declaration itself needs
var declDeps = map[string][]string{"Nest": {"Pt"}, "Cont": {"Pt"}, "Deep": {"Nest", "Pt"}}

type typeSpec struct {
	expr  string
	parts []string // proper sub-expressions (member types for structs), transitively
	decls []string
	depth int
	ctor  string
}

func scalarType(s string) typeSpec { return typeSpec{expr: s} }

// sub returns t and its parts.
func sub(ts ...typeSpec) []string {
	var out []string
	for _, t := range ts {
		out = append(out, t.expr)
		out = append(out, t.parts...)
	}
	return uniqStr(out)
}

func structParts(name string) []string {
	switch name {
	case "Pt":
		return []string{"int32", "str"}
	case "Sc":
		return append([]string{}, scalars...)
	case "Sw":
		return []string{"bool", "int16", "uint16", "int32", "uint32", "int64", "uint64", "float32", "float64", "str", "any"}
	case "Nest":
		return []string{"Pt", "int32", "str"}
	case "Cont":
		return []string{"Vec<int32>", "Map<str,int32>", "Vec<Pt>", "Map<str,Pt>", "Pt", "int32", "str"}
	case "Deep":
		return []string{"Nest", "Vec<Nest>", "Pt", "int32", "str"}
	case "Lst":
		return []string{"int32", "Vec<int32>"}
	}
	return nil
}

func declType(name string) typeSpec {
	d := append([]string{name}, declDeps[name]...)
	return typeSpec{expr: name, parts: structParts(name), decls: d, depth: 1}
}

func vec(t typeSpec) typeSpec {
	return typeSpec{expr: "Vec<" + t.expr + ">", parts: sub(t), decls: t.decls, depth: t.depth + 1, ctor: "Vec"}
}
func mapOf(k, v typeSpec) typeSpec {
	return typeSpec{expr: "Map<" + k.expr + "," + v.expr + ">", parts: sub(k, v),
		decls: uniqStr(append(append([]string{}, k.decls...), v.decls...)), depth: max(k.depth, v.depth) + 1, ctor: "Map"}
}
func tuple(ts ...typeSpec) typeSpec {
	var ex, dc []string
	d := 0
	for _, t := range ts {
		ex = append(ex, t.expr)
		dc = append(dc, t.decls...)
		d = max(d, t.depth)
	}
	return typeSpec{expr: "Tuple<" + strings.Join(ex, ",") + ">", parts: sub(ts...), decls: uniqStr(dc), depth: d + 1, ctor: "Tuple"}
}

func uniqStr(xs []string) []string {
	m := map[string]bool{}
	var out []string
	for _, x := range xs {
		if !m[x] {
			m[x] = true
			out = append(out, x)
		}
	}
	sort.Strings(out)
	return out
}

var mapKeys = []string{"bool", "int8", "uint8", "int16", "uint16", "int32", "uint32", "int64", "uint64", "float32", "float64", "str"}

// typeUniverse: every scalar; depth 1: Vec<s>, Map<str,s>, Map<k,int32>,
// tuples, structs, enum; both tiers: the three kinds of list of containers
// (Vec<Vec<int32>>, Vec<Map<str,int32>>, Vec<Lst> with Lst a struct holding a
// Vec); depth 2 (thorough): Vec<t>, Map<str,t>, Map<int32,t> for every depth-1
// container t over every scalar, for tuples, structs and the enum; nested
// tuples and nested structs.
func typeUniverse(depth int) []typeSpec {
	var ts []typeSpec
	for _, s := range scalars {
		ts = append(ts, scalarType(s))
	}
	i32, str := scalarType("int32"), scalarType("str")
	for _, s := range scalars {
		ts = append(ts, vec(scalarType(s)))
	}
	for _, s := range scalars {
		ts = append(ts, mapOf(str, scalarType(s)))
	}
	for _, k := range mapKeys {
		if k != "str" {
			ts = append(ts, mapOf(scalarType(k), i32))
		}
	}
	ts = append(ts, tuple(i32, str), tuple(scalarType("float64")), tuple(scalarType("bool"), scalarType("any"), scalarType("uint16")))
	for _, d := range []string{"Pt", "Sc", "Sw", "En", "Lst"} {
		ts = append(ts, declType(d))
	}
	// lists of containers, one per kind of inner container (inner list, inner
	// map, struct holding a list): the reflection decoder of the proxy fills
	// such a list item by item
	ts = append(ts, vec(vec(i32)), vec(mapOf(str, i32)), vec(declType("Lst")))
	if depth < 2 {
		return ts
	}
	// thorough: the inner positions range over every scalar as well
	var d1 []typeSpec
	for _, s := range scalars {
		d1 = append(d1, vec(scalarType(s)), mapOf(str, scalarType(s)))
	}
	d1 = append(d1, mapOf(i32, str), tuple(i32, str), declType("Pt"), declType("Sw"), declType("En"))
	for _, t := range d1 {
		ts = append(ts, vec(t), mapOf(str, t), mapOf(i32, t))
	}
	ts = append(ts, tuple(vec(i32), mapOf(str, str)), tuple(declType("Pt"), i32), tuple(tuple(i32, str), str))
	for _, d := range []string{"Nest", "Cont", "Deep", "Lst"} {
		ts = append(ts, declType(d), vec(declType(d)), mapOf(str, declType(d)))
	}
	// dedupe by expression
	seen := map[string]bool{}
	var out []typeSpec
	for _, t := range ts {
		if !seen[t.expr] {
			seen[t.expr] = true
			out = append(out, t)
		}
	}
	return out
}

var goKeywords = []string{"break", "default", "func", "interface", "select", "case", "defer", "go", "map", "struct", "chan", "else", "goto",
	"package", "switch", "const", "fallthrough", "if", "range", "type", "continue", "for", "import", "return", "var"}

var predeclared = []string{"error", "string", "int", "bool", "true", "false", "nil", "len", "make", "new", "append", "byte", "uint32", "float64", "panic", "iota", "any"}

// identifiers the generated code itself uses as locals, receivers or package names
var generatedLocals = []string{"p", "c", "msg", "buf", "err", "ret", "out", "args", "resp", "callErr", "errOut", "from", "impl", "name", "data",
	"size", "i", "b", "m", "k", "v", "s", "r", "w", "e", "ch", "ok", "payload", "cancel", "chPay", "signalID", "val", "update", "proxy", "session", "stb", "obj", "ref", "meta", "retRef"}

var packageNames = []string{"bus", "bytes", "fmt", "basic", "value", "object", "net", "io", "log", "context"}

// method names: the generator's reserved proxy names and names the generated
// stub / proxy types declare themselves
var reservedNames = []string{"subscribe", "metaObject", "properties", "property", "registerEvent", "registerEventWithSignature", "setProperty",
	"terminate", "unregisterEvent", "call", "callID", "methodID", "objectID", "onDisconnect", "propertyID", "proxyService", "serviceID", "signalID", "subscribeID",
	"activate", "onTerminate", "receive", "onPropertyChange", "proxy", "withContext", "call2", "isStatsEnabled", "enableStats", "stats", "clearStats", "isTraceEnabled", "enableTrace"}

// parameter names of the type and arity atoms: not used by the generator
const pA, pB, pC = "alpha", "beta", "gamma"

func methodEcho(name, t string) action {
	return action{kind: "method", name: name, params: []param{{pA, t}}, ret: t}
}

// buildAtoms returns the atoms of a tier.
func buildAtoms(tier string, hyg *hygieneTables) []*atom {
	depth := 1
	if tier == "thorough" {
		depth = 2
	}
	var as []*atom
	n := 0
	id := func(prefix string) string { n++; return fmt.Sprintf("%s%d", prefix, n) }
	// ---- types: echo method, 1-parameter signal, property
	for _, t := range typeUniverse(depth) {
		k := id("t")
		as = append(as, &atom{id: k + "m", class: t.expr, parts: t.parts, ctor: t.ctor, decls: t.decls, actions: []action{methodEcho("m"+k, t.expr)}})
		as = append(as, &atom{id: k + "s", class: t.expr, parts: t.parts, ctor: t.ctor, decls: t.decls, actions: []action{{kind: "signal", name: "s" + k, params: []param{{pA, t.expr}}}}})
		as = append(as, &atom{id: k + "p", class: t.expr, parts: t.parts, ctor: t.ctor, decls: t.decls, actions: []action{{kind: "property", name: "p" + k, params: []param{{pA, t.expr}}}}})
	}
	// ---- action kinds and arities
	ar := func(cls string, a action) {
		var lv []string
		for _, p := range a.params {
			lv = append(lv, p.typ)
		}
		if a.ret != "" {
			lv = append(lv, a.ret)
		}
		as = append(as, &atom{id: id("k"), class: cls, parts: uniqStr(lv), actions: []action{a}})
	}
	ar("method:0-params-void", action{kind: "method", name: "k0v"})
	ar("method:0-params", action{kind: "method", name: "k0r", ret: "int32"})
	ar("method:1-param-void", action{kind: "method", name: "k1v", params: []param{{pA, "int32"}}})
	ar("method:2-params", action{kind: "method", name: "k2r", params: []param{{pA, "int32"}, {pB, "str"}}, ret: "str"})
	ar("method:2-params-void", action{kind: "method", name: "k2v", params: []param{{pA, "str"}, {pB, "int32"}}})
	ar("method:3-params", action{kind: "method", name: "k3r", params: []param{{pA, "int32"}, {pB, "str"}, {pC, "float64"}}, ret: "bool"})
	ar("method:3-params-same-type", action{kind: "method", name: "k3s", params: []param{{pA, "int32"}, {pB, "int32"}, {pC, "int32"}}, ret: "int32"})
	ar("method:unnamed-style-params", action{kind: "method", name: "kpn", params: []param{{"P0", "int32"}, {"P1", "str"}}, ret: "int32"})
	ar("signal:0-params", action{kind: "signal", name: "g0"})
	ar("signal:2-params", action{kind: "signal", name: "g2", params: []param{{pA, "int32"}, {pB, "str"}}})
	ar("signal:3-params", action{kind: "signal", name: "g3", params: []param{{pA, "str"}, {pB, "int32"}, {pC, "bool"}}})
	ar("property:2-params", action{kind: "property", name: "q2", params: []param{{pA, "int32"}, {pB, "str"}}})
	// ---- identifier hygiene: names x roles (hygiene.go)
	hy := func(cls, tag string, acts ...action) *atom {
		a := &atom{id: id("h"), class: cls, hygiene: true, actions: acts}
		if i := strings.Index(cls, ":"); i >= 0 {
			a.hgroup, a.hname = cls[:i], cls[i+1:]
		}
		as = append(as, a)
		_ = tag
		return a
	}
	as = append(as, hygieneAtoms(tier, hyg, id)...)
	// two parameters whose cleaned names collide
	hy("param-names=collide-after-cleaning", "", action{kind: "method", name: "pcol", params: []param{{"type", "int32"}, {"type_0", "int32"}}, ret: "int32"})
	// ---- struct hygiene
	for _, d := range []string{"KwFields", "CaseFields", "UsFields", "lower", "With_us", "List<int>"} {
		k := id("d")
		as = append(as, &atom{id: k, class: "struct-hygiene:" + d, hygiene: true, decls: []string{d},
			actions: []action{methodEcho("sm"+k, d), {kind: "signal", name: "ss" + k, params: []param{{pA, d}}}}})
	}
	// ---- pairs of names that collide (after title-casing, or with generated helpers)
	one := []param{{pA, "int32"}}
	pair := func(cls string, a, b action) {
		as = append(as, &atom{id: id("c"), class: cls, hygiene: true, actions: []action{a, b}})
	}
	if tier == "thorough" {
		// every pair of action kinds x {same name, names equal after title-casing}
		kinds := []string{"method", "signal", "property"}
		mk := func(kind, name string) action {
			a := action{kind: kind, name: name, params: one}
			if kind == "method" {
				a.ret = "int32"
			}
			return a
		}
		for i, k1 := range kinds {
			for _, k2 := range kinds[i:] {
				if k1 != k2 {
					// (two actions of the same kind, name and signature are a
					// duplicate declaration, not a well-formed package; overloads
					// with different parameters are covered by "ovl")
					pair("names-collide:"+k1+"/"+k2+"-same-name", mk(k1, "sn"+k1[:1]+k2[:1]), mk(k2, "sn"+k1[:1]+k2[:1]))
				}
				pair("names-collide:"+k1+"/"+k2+"-title-case", mk(k1, "tc"+k1[:1]+k2[:1]), mk(k2, "Tc"+k1[:1]+k2[:1]))
			}
		}
	}
	pair("names-collide:method/method-title-case", action{kind: "method", name: "dup", params: one, ret: "int32"}, action{kind: "method", name: "Dup", params: one, ret: "int32"})
	pair("names-collide:method/method-overload", action{kind: "method", name: "ovl", params: one, ret: "int32"}, action{kind: "method", name: "ovl", params: []param{{pA, "str"}}, ret: "str"})
	pair("names-collide:method/signal", action{kind: "method", name: "msn", params: one, ret: "int32"}, action{kind: "signal", name: "msn", params: one})
	pair("names-collide:method/property", action{kind: "method", name: "mpn", params: one, ret: "int32"}, action{kind: "property", name: "mpn", params: one})
	pair("names-collide:signal/property", action{kind: "signal", name: "spn", params: one}, action{kind: "property", name: "spn", params: one})
	pair("names-collide:method=signal-helper", action{kind: "method", name: "signalHlp", params: one, ret: "int32"}, action{kind: "signal", name: "hlp", params: one})
	pair("names-collide:method=subscribe-signal", action{kind: "method", name: "subscribeSub", params: one, ret: "int32"}, action{kind: "signal", name: "sub", params: one})
	pair("names-collide:method=property-update", action{kind: "method", name: "updateUpd", params: one, ret: "int32"}, action{kind: "property", name: "upd", params: one})
	pair("names-collide:method=property-onchange", action{kind: "method", name: "onChgChange", params: one, ret: "int32"}, action{kind: "property", name: "chg", params: one})
	pair("names-collide:method=property-getter", action{kind: "method", name: "getGtr", params: one, ret: "int32"}, action{kind: "property", name: "gtr", params: one})
	pair("names-collide:method=property-setter", action{kind: "method", name: "setStr", params: one, ret: "int32"}, action{kind: "property", name: "str2", params: one})
	// ---- interface names
	for _, nm := range []string{"lowercase", "With_underscore", "Object", "ServiceZero", "Proxy", "Stub"} {
		as = append(as, &atom{id: id("i"), class: "interface-name:" + nm, hygiene: true, itfName: nm,
			actions: []action{{kind: "method", name: "im", params: one, ret: "int32"}, {kind: "signal", name: "is", params: one}}})
	}
	as = append(as, objectAtoms(tier, id)...)
	return as
}

// renderIDL renders atoms as one IDL package: declarations, then one
// interface per interface name (in the order of first appearance, except that
// the object family's interface Early comes first and Late last), the atoms an
// atom needs included.
func renderIDL(pkgName string, atoms []*atom) string {
	atoms = withNeeds(atoms)
	var sb strings.Builder
	sb.WriteString("package " + pkgName + "\n")
	need := map[string]bool{}
	var addDecl func(d string)
	var order []string
	addDecl = func(d string) {
		if need[d] {
			return
		}
		for _, dep := range declDeps[d] {
			addDecl(dep)
		}
		need[d] = true
		order = append(order, d)
	}
	for _, a := range atoms {
		for _, d := range a.decls {
			addDecl(d)
		}
	}
	for _, d := range order {
		sb.WriteString(declText[d])
	}
	byItf := map[string][]*atom{}
	var itfs []string
	for _, a := range atoms {
		n := a.itfName
		if n == "" {
			n = "Main"
		}
		if _, ok := byItf[n]; !ok {
			itfs = append(itfs, n)
		}
		byItf[n] = append(byItf[n], a)
	}
	sort.SliceStable(itfs, func(i, j int) bool { return itfRank[itfs[i]] < itfRank[itfs[j]] })
	for _, n := range itfs {
		sb.WriteString("interface " + n + "\n")
		for _, a := range byItf[n] {
			for _, ac := range a.actions {
				var ps []string
				for _, p := range ac.params {
					ps = append(ps, p.name+": "+p.typ)
				}
				switch ac.kind {
				case "method":
					sb.WriteString("\tfn " + ac.name + "(" + strings.Join(ps, ", ") + ")")
					if ac.ret != "" {
						sb.WriteString(" -> " + ac.ret)
					}
				case "signal":
					sb.WriteString("\tsig " + ac.name + "(" + strings.Join(ps, ", ") + ")")
				case "property":
					sb.WriteString("\tprop " + ac.name + "(" + strings.Join(ps, ", ") + ")")
				}
				sb.WriteString("\n")
			}
		}
		sb.WriteString("end\n")
	}
	return sb.String()
}
