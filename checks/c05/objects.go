package main

// The object family of the C05 universe: actions with object-typed positions.
// An object type is an interface declared in the same IDL package; every
// interface of the family declares `fn value() -> int32`, which is how an
// implementation (and the driver) uses an object it was given.
//
//	interface Early   fn value() -> int32                      declared before its users
//	interface Oa      the units over Early and Late             the user
//	interface Node    value() + units over Node itself          self reference
//	interface Ping / Pong   value() + take(o: the other one)    mutual reference
//	interface Late    fn value() -> int32                      declared after its users
//
// Units (one method or signal each), systematically:
//
//	argument position   one object; a scalar before / after / on both sides;
//	                    two objects (both orders of Early and Late, twice the
//	                    same type, a scalar in between); void or returning int32
//	result position     make0() / make(v) -> T; echo(o: T) -> T; conv(o: T) -> U;
//	                    pick(o: T, q: T) -> T; a scalar before the echoed object
//	signal payload      sig(o: T)
//	self reference      the same positions with T = the interface itself
//
// The hosting side of every object value (client, the called service, another
// service) is a dimension of the *values* and lives in drv (drv.objVals).
//
// Units whose generated code fails on the unchanged tree (objects in
// properties, structs, several-parameter signals, containers; `obj` as
// parameter) are part of the universe like any other: they are listed findings
// (known-findings.txt) and carry the observed failure in atom.known.

import (
	"strings"
)

// position of an interface in the rendered package (default 0, in order of
// first appearance)
var itfRank = map[string]int{"Early": -1, "Late": 1}

// withNeeds returns atoms with the atoms they need inserted in front of their
// first user (declaration order inside one interface = order in this list).
func withNeeds(atoms []*atom) []*atom {
	need := false
	for _, a := range atoms {
		if len(a.needs) > 0 {
			need = true
		}
	}
	if !need {
		return atoms
	}
	var out []*atom
	done := map[*atom]bool{}
	var add func(a *atom)
	add = func(a *atom) {
		if done[a] {
			return
		}
		done[a] = true
		for _, n := range a.needs {
			add(n)
		}
		out = append(out, a)
	}
	for _, a := range atoms {
		add(a)
	}
	return out
}

func objectAtoms(tier string, id func(prefix string) string) []*atom {
	var as []*atom
	valueOf := map[string]*atom{}
	leaf := func(itf, class string) {
		a := &atom{id: id("o"), class: class, object: true, group: "object-interface", itfName: itf,
			actions: []action{{kind: "method", name: "value", ret: "int32"}}}
		valueOf[itf] = a
		as = append(as, a)
	}
	leaf("Early", "object-interface:declared-before-use")
	leaf("Late", "object-interface:declared-after-use")
	leaf("Node", "object-interface:self-reference")
	leaf("Ping", "object-interface:mutual-reference-first")
	leaf("Pong", "object-interface:mutual-reference-second")
	isItf := func(t string) bool { return valueOf[t] != nil }
	// typesIn: the interfaces named in a type expression
	typesIn := func(t string) []string {
		var out []string
		for _, w := range strings.FieldsFunc(t, func(r rune) bool {
			return !(r == '_' || r >= '0' && r <= '9' || r >= 'a' && r <= 'z' || r >= 'A' && r <= 'Z')
		}) {
			if isItf(w) {
				out = append(out, w)
			}
		}
		return out
	}
	// known: "" or what the generated code of the unit does on the unchanged tree
	// (a listed finding); such a unit takes no part in the attribution of a
	// failure common to its position class
	unit := func(itf, group, known string, ac action, decls ...string) {
		var ps []string
		var needs []*atom
		addNeed := func(t string) {
			for _, w := range typesIn(t) {
				needs = append(needs, valueOf[w])
			}
		}
		for _, p := range ac.params {
			ps = append(ps, p.name+":"+p.typ)
			addNeed(p.typ)
		}
		for _, d := range decls {
			addNeed(declText[d])
		}
		addNeed(ac.ret)
		if valueOf[itf] != nil {
			needs = append(needs, valueOf[itf])
		}
		// the position class: object-arg (objects among the parameters only),
		// object-result (the result only), object-arg+result, object-signal, ...
		if group == "object-result" {
			for _, p := range ac.params {
				if len(typesIn(p.typ)) > 0 {
					group = "object-arg+result"
				}
			}
		}
		cls := group + "(" + strings.Join(ps, ",") + ")"
		if ac.ret != "" {
			cls += "->" + ac.ret
		}
		if itf != "Oa" {
			cls = itf + "." + cls
		}
		ac.name = ac.name + id("u")
		as = append(as, &atom{id: id("o"), class: cls, object: true, group: group, itfName: itf, needs: needs, actions: []action{ac}, decls: decls, known: known})
	}
	m := func(name, ret string, ps ...param) action {
		return action{kind: "method", name: name, params: ps, ret: ret}
	}
	o, q, r := "o", "q", "r"
	i32 := func(nm string) param { return param{nm, "int32"} }
	for _, t := range []string{"Early", "Late"} {
		// ---- argument position, one object
		unit("Oa", "object-arg", "", m("take", "int32", param{o, t}))
		unit("Oa", "object-arg", "", m("take", "int32", i32("n"), param{o, t}))
		unit("Oa", "object-arg", "", m("take", "int32", param{o, t}, i32("n")))
		unit("Oa", "object-arg", "", m("take", "int32", i32("n"), param{o, t}, param{"s", "str"}))
		unit("Oa", "object-arg", "", m("sink", "", param{o, t}))
		// ---- result position
		unit("Oa", "object-result", "", m("make", t))
		unit("Oa", "object-result", "", m("make", t, i32("v")))
		unit("Oa", "object-result", "", m("echo", t, param{o, t}))
		// ---- signal payload
		unit("Oa", "object-signal", "", action{kind: "signal", name: "sent", params: []param{{o, t}}})
	}
	// ---- two objects
	unit("Oa", "object-arg", "", m("take", "int32", param{o, "Early"}, param{q, "Late"}))
	unit("Oa", "object-arg", "", m("take", "int32", param{o, "Late"}, param{q, "Early"}))
	unit("Oa", "object-arg", "", m("take", "int32", param{o, "Early"}, param{q, "Early"}))
	unit("Oa", "object-arg", "", m("take", "int32", param{o, "Early"}, i32("n"), param{q, "Late"}))
	unit("Oa", "object-arg", "", m("sink", "", param{o, "Late"}, param{q, "Early"}))
	// ---- result position, more shapes
	unit("Oa", "object-result", "", m("conv", "Late", param{o, "Early"}))
	unit("Oa", "object-result", "", m("conv", "Early", param{o, "Late"}))
	unit("Oa", "object-result", "", m("pick", "Early", param{o, "Early"}, param{q, "Early"}))
	unit("Oa", "object-result", "", m("echo", "Early", i32("n"), param{o, "Early"}))
	unit("Oa", "object-result", "", m("echo", "Late", param{o, "Late"}, i32("n")))
	// ---- self reference
	unit("Node", "object-arg", "", m("take", "int32", param{o, "Node"}))
	unit("Node", "object-arg", "", m("take", "int32", i32("n"), param{o, "Node"}))
	unit("Node", "object-arg", "", m("take", "int32", param{o, "Node"}, i32("n")))
	unit("Node", "object-arg", "", m("take", "int32", param{o, "Node"}, param{q, "Node"}))
	unit("Node", "object-arg", "", m("sink", "", param{o, "Node"}))
	unit("Node", "object-result", "", m("make", "Node"))
	unit("Node", "object-result", "", m("make", "Node", i32("v")))
	unit("Node", "object-result", "", m("link", "Node", param{o, "Node"}))
	unit("Node", "object-signal", "", action{kind: "signal", name: "sent", params: []param{{o, "Node"}}})
	// ---- mutual reference
	unit("Ping", "object-arg", "", m("take", "int32", param{o, "Pong"}))
	unit("Pong", "object-arg", "", m("take", "int32", param{o, "Ping"}))
	unit("Ping", "object-result", "", m("make", "Pong", i32("v")))
	unit("Pong", "object-result", "", m("echo", "Ping", param{o, "Ping"}))
	// ---- the untyped object reference `obj` (an object.ObjectReference value:
	// data, nothing to use) where the generator supports it
	unit("Oa", "object-result", "", m("make", "obj"))
	unit("Oa", "object-signal", "", action{kind: "signal", name: "sent", params: []param{{o, "obj"}}})
	if tier == "thorough" {
		// three objects, scalars of other kinds around the object, the remaining
		// type pairs
		unit("Oa", "object-arg", "", m("take", "int32", param{o, "Early"}, param{q, "Late"}, param{r, "Early"}))
		unit("Oa", "object-arg", "", m("take", "int32", param{o, "Late"}, param{q, "Late"}))
		unit("Oa", "object-arg", "", m("take", "int32", param{"s", "str"}, param{o, "Early"}, param{"f", "float64"}))
		unit("Oa", "object-arg", "", m("take", "int32", param{"a", "any"}, param{o, "Late"}))
		unit("Oa", "object-arg", "", m("take", "int32", param{o, "Early"}, param{"l", "Vec<int32>"}))
		unit("Oa", "object-arg", "", m("take", "int32", param{"pt", "Pt"}, param{o, "Late"}), "Pt")
		unit("Oa", "object-result", "", m("pick", "Late", param{o, "Late"}, i32("n"), param{q, "Late"}))
		unit("Oa", "object-result", "", m("conv", "Late", param{o, "Early"}, param{q, "Early"}))
		unit("Node", "object-arg", "", m("take", "int32", param{o, "Node"}, param{q, "Node"}, param{r, "Node"}))
		unit("Node", "object-result", "", m("pick", "Node", param{o, "Node"}, param{q, "Node"}))
	}
	// ---- positions the generator does not support (listed findings)
	const (
		pProp    = "does not compile: the generated stub's onPropertyChange registers client-side objects through a channel `c` that only method bodies have (\"undefined: c\")"
		pStruct  = "does not compile: the generated read<Struct> function of a struct with an object member (also the struct of a signal with several parameters) refers to the receiver `p` of the enclosing proxy/stub method, which a free function does not have (\"undefined: p\")"
		pCont    = "compiles; at run time the generated proxy hands the container of proxies to the reflection codec: \"encode param: cannot encode interface\" (argument) / \"decode result: failed to read value: cannot read interfacee: <T>Proxy\" (result)"
		pObj     = "the untyped object type `obj` as a parameter does not compile: the proxy calls o.Proxy() on an object.ObjectReference (\"o.Proxy undefined\")"
		pObjProp = "a property of the untyped object type `obj` does not compile in a package that uses no basic type elsewhere (\"undefined: basic\": the import is missing, as for `prop p(a: any)`)"
	)
	for _, t := range []string{"Early", "Late"} {
		unit("Oa", "object-property", pProp, action{kind: "property", name: "held", params: []param{{o, t}}})
	}
	unit("Node", "object-property", pProp, action{kind: "property", name: "held", params: []param{{o, "Node"}}})
	unit("Oa", "object-signal", pStruct, action{kind: "signal", name: "sent", params: []param{{"n", "int32"}, {o, "Early"}}})
	unit("Oa", "object-signal", pStruct, action{kind: "signal", name: "sent", params: []param{{o, "Early"}, {q, "Late"}}})
	unit("Oa", "object-arg", pStruct, m("take", "int32", param{"h", "HoldsObj"}), "HoldsObj")
	unit("Oa", "object-arg", pCont, m("take", "int32", param{"l", "Vec<Early>"}))
	unit("Oa", "object-arg", pCont, m("take", "int32", param{"m", "Map<str,Late>"}))
	unit("Oa", "object-arg", pCont, m("take", "int32", param{"t", "Tuple<int32,Early>"}))
	unit("Oa", "object-result", pCont, m("all", "Vec<Early>"))
	unit("Oa", "object-result", pCont, m("all", "Map<str,Late>"))
	unit("Oa", "object-arg", pObj, m("take", "int32", param{o, "obj"}))
	unit("Oa", "object-property", pObjProp, action{kind: "property", name: "held", params: []param{{o, "obj"}}})
	return as
}

func init() {
	declText["HoldsObj"] = "struct HoldsObj\n\tn: int32\n\to: Early\nend\n"
}
