package drv

// Object-typed positions. An object type is a generated <X>Proxy interface of
// the package under test whose IDL interface declares `fn value() -> int32`;
// the generated constructors Create<X> (a further object on a service, or on
// the client's side through Proxy().ProxyService(session), as the
// repository's examples/space does with its Bomb) and Make<X> (a proxy from a
// reference) are handed over by the glue.
//
// Values of an object type, by hosting side:
//
//	client         created by the caller with Create<X>(session, ProxyService of the called service, impl):
//	               object id >= 2^31, the stub has to register a forwarding actor for it
//	service        hosted by the called service (created with the service's own session and bus.Service,
//	               as an implementation's make() does); the caller holds a proxy obtained from the
//	               reference through its session
//	other-service  hosted by the service of the object's own interface (when that is another service)
//	service-returned-by-a-call   hosted by the called service and obtained by the caller as the result of
//	               a generated `make() -> T` of the called interface (when the package has one)
//
// Every created object answers value() with a number of its own, so that "the
// call reached this object's implementation" is observable on both sides.
//
// Oracle for a method with object parameters: the implementation, which uses
// each object it received (value()) and returns the combination of what it got
// (Σ v_i·1000^(k-1-i)), is reached once; every use succeeds and yields the
// number of the object that was passed in that position; the implementations
// of exactly those objects were invoked, once per use; the caller receives the
// combination. For an object result (made inside the implementation on the
// service, or one of the received arguments handed back): the caller's use of
// what it received reaches that object's implementation exactly once and
// yields its number. Signal payloads: the subscriber's use of the object it
// received yields the number of the emitted one.

import (
	"fmt"
	"reflect"
	"sort"
	"strings"
	"sync"
	"time"

	"github.com/lugu/qiloop/bus"
)

type usable interface {
	Value() (int32, error)
	Proxy() bus.Proxy
}

var usableType = reflect.TypeOf((*usable)(nil)).Elem()

type use struct {
	Val int32
	Err string
}

// objTypes: generated proxy interface type -> its interface description.
var objTypes = map[reflect.Type]*Interface{}

func registerObjectTypes(itfs []Interface) {
	for i := range itfs {
		it := &itfs[i]
		if it.ProxyType != nil && it.Create != nil && it.Wrap != nil && it.ProxyType.Kind() == reflect.Interface && it.ProxyType.Implements(usableType) {
			objTypes[it.ProxyType] = it
		}
	}
}

func isObjectType(t reflect.Type) bool { return objTypes[t] != nil }

// holdsObject: t is an object type or a container / struct with one inside.
func holdsObject(t reflect.Type) bool { return holdsObjectD(t, 0) }

func holdsObjectD(t reflect.Type, depth int) bool {
	if len(objTypes) == 0 || t == valueType || depth > 6 {
		return false
	}
	switch t.Kind() {
	case reflect.Interface:
		return isObjectType(t)
	case reflect.Slice:
		return holdsObjectD(t.Elem(), depth+1)
	case reflect.Map:
		return holdsObjectD(t.Key(), depth+1) || holdsObjectD(t.Elem(), depth+1)
	case reflect.Struct:
		for i := 0; i < t.NumField(); i++ {
			if holdsObjectD(t.Field(i).Type, depth+1) {
				return true
			}
		}
	}
	return false
}

// walkObjects visits the objects inside v in a fixed order (slices by index,
// maps by printed key, structs by field).
func walkObjects(v reflect.Value, f func(u usable)) {
	if !v.IsValid() || v.Type() == valueType {
		return
	}
	switch v.Kind() {
	case reflect.Interface, reflect.Ptr:
		if v.IsNil() || !v.CanInterface() {
			return
		}
		if u, ok := v.Interface().(usable); ok {
			f(u)
			return
		}
		if v.Kind() == reflect.Interface {
			walkObjects(v.Elem(), f)
		}
	case reflect.Slice:
		for i := 0; i < v.Len(); i++ {
			walkObjects(v.Index(i), f)
		}
	case reflect.Map:
		keys := v.MapKeys()
		sort.Slice(keys, func(i, j int) bool { return fmt.Sprint(keys[i]) < fmt.Sprint(keys[j]) })
		for _, k := range keys {
			walkObjects(v.MapIndex(k), f)
		}
	case reflect.Struct:
		if !holdsObject(v.Type()) {
			return
		}
		for i := 0; i < v.NumField(); i++ {
			walkObjects(v.Field(i), f)
		}
	}
}

var (
	usesMu   sync.Mutex
	usesMade int // uses of an object by anybody (implementation, caller, subscriber)
)

func usesSoFar() int {
	usesMu.Lock()
	defer usesMu.Unlock()
	return usesMade
}

// useObject calls value() on an object, with the wall-clock guard of callT.
func useObject(u usable) (int32, error) {
	type res struct {
		v   int32
		err error
	}
	ch := make(chan res, 1)
	go func() {
		defer func() {
			if p := recover(); p != nil {
				ch <- res{0, fmt.Errorf("panic: %v", p)}
			}
		}()
		v, err := u.Value()
		ch <- res{v, err}
	}()
	usesMu.Lock()
	usesMade++
	usesMu.Unlock()
	select {
	case r := <-ch:
		return r.v, r.err
	case <-time.After(waitBudget):
		return 0, fmt.Errorf("value() did not return within %v", waitBudget)
	}
}

// useAll: what an implementation does with the objects among its arguments.
func useAll(args []interface{}) (uses []use, first error) {
	if len(objTypes) == 0 {
		return nil, nil
	}
	for _, a := range args {
		walkObjects(reflect.ValueOf(a), func(u usable) {
			v, err := useObject(u)
			x := use{Val: v}
			if err != nil {
				x.Err = err.Error()
				if first == nil {
					first = fmt.Errorf("the implementation cannot use the object it received: value(): %s", err)
				}
			}
			uses = append(uses, x)
		})
	}
	return uses, first
}

func combine(uses []use) int32 {
	var v int32
	for _, u := range uses {
		v = v*1000 + u.Val
	}
	return v
}

// ------------------------------------------------------------ created objects

type objInst struct {
	tag     string
	hosting string // client | service | other-service | made-by-the-implementation
	typ     string
	val     int32
	direct  interface{} // the creator's proxy (Create<X>)
}

var (
	instMu   sync.Mutex
	instOf   = map[interface{}]*objInst{} // any proxy the driver holds for a created object -> the object
	instByID = map[[2]uint32]*objInst{}   // (service id, object id) of a created object
)

func instanceOf(x interface{}) *objInst {
	instMu.Lock()
	defer instMu.Unlock()
	if i := instOf[x]; i != nil {
		return i
	}
	if u, ok := x.(usable); ok {
		p := u.Proxy()
		return instByID[[2]uint32{p.ServiceID(), p.ObjectID()}]
	}
	return nil
}

// objVals, set per action by objectContext: the values of an object type for
// position pos (-1: inside a container, a payload, a property).
var objVals func(t reflect.Type, pos int) []reflect.Value

type objCtx struct {
	r       *runner
	mode    string // argument | payload | property
	n       int
	cache   map[string][]reflect.Value
	clientS bus.Service
}

var curCtx *objCtx

// objectContext prepares the object values of one action.
func (r *runner) objectContext() {
	if len(objTypes) == 0 {
		return
	}
	c := &objCtx{r: r, mode: "argument", cache: map[string][]reflect.Value{}}
	curCtx = c
	r.h.mu.Lock()
	r.h.instVal = map[string]int32{}
	r.h.mu.Unlock()
	objVals = c.vals
}

// create makes one object of interface it on (sess, svc) and registers it.
func (c *objCtx) create(it *Interface, hosting string, sess bus.Session, svc bus.Service, label string) (*objInst, error) {
	c.n++
	inst := &objInst{tag: fmt.Sprintf("%s/%s/%s#%d", hosting, it.Name, label, c.n), hosting: hosting, typ: it.Name, val: int32(101 + c.n%800)}
	c.r.h.mu.Lock()
	c.r.h.instVal[inst.tag] = inst.val
	c.r.h.mu.Unlock()
	d, err := it.Create(sess, svc, c.r.h, inst.tag)
	if err != nil {
		return nil, fmt.Errorf("Create%s (%s): %v", it.Name, hosting, err)
	}
	inst.direct = d
	instMu.Lock()
	instOf[d] = inst
	if u, ok := d.(usable); ok {
		p := u.Proxy()
		instByID[[2]uint32{p.ServiceID(), p.ObjectID()}] = inst
	}
	instMu.Unlock()
	return inst, nil
}

// view: the proxy a holder of session sess gets for a created object from its
// reference (what arrives when the object is returned or announced to it).
func (c *objCtx) view(it *Interface, inst *objInst, sess bus.Session) (interface{}, error) {
	u, ok := inst.direct.(usable)
	if !ok {
		return nil, fmt.Errorf("the proxy of %s has no Proxy()", inst.tag)
	}
	p, err := sess.Object(bus.ObjectReference(u.Proxy()))
	if err != nil {
		return nil, fmt.Errorf("session.Object(%s): %v", inst.tag, err)
	}
	v := it.Wrap(sess, p)
	instMu.Lock()
	instOf[v] = inst
	instMu.Unlock()
	return v, nil
}

// clientServices: one client-side service reference per called service for the
// whole process (every ProxyService() numbers its objects from 2^31 again: two
// of them on one connection would hand out the same identifiers).
var clientServices = map[string]bus.Service{}

func (c *objCtx) clientService() (svc bus.Service, err error) {
	if c.clientS == nil {
		c.clientS = clientServices[c.r.itf.Name]
	}
	if c.clientS != nil {
		return c.clientS, nil
	}
	defer func() {
		if p := recover(); p != nil {
			err = fmt.Errorf("ProxyService: %v", p)
		}
	}()
	op, ok := c.r.proxy.Interface().(interface{ Proxy() bus.Proxy })
	if !ok {
		return nil, fmt.Errorf("the proxy of %s has no Proxy()", c.r.itf.Name)
	}
	c.clientS = op.Proxy().ProxyService(c.r.session)
	clientServices[c.r.itf.Name] = c.clientS
	return c.clientS, nil
}

// vals: the values of object type t at position pos, one per hosting side.
//
//	argument, property: what the caller passes - client, service, other-service
//	payload:            what the service emits - service, other-service, service (a second object)
func (c *objCtx) vals(t reflect.Type, pos int) []reflect.Value {
	key := fmt.Sprintf("%s|%s|%d", c.mode, t.String(), pos)
	if vs, ok := c.cache[key]; ok {
		return vs
	}
	it := objTypes[t]
	label := "v"
	if pos >= 0 {
		label = fmt.Sprintf("p%d", pos)
	}
	var out []reflect.Value
	add := func(x interface{}, err error) {
		if err != nil {
			c.r.fail("object-setup", err.Error(), "the driver could not create an object value: "+err.Error(), "")
			return
		}
		v := reflect.New(t).Elem()
		v.Set(reflect.ValueOf(x))
		out = append(out, v)
	}
	act, okAct := c.r.h.activation(c.r.itf.Name)
	other, okOther := c.r.h.activation(it.Name)
	okOther = okOther && it.Name != c.r.itf.Name
	onService := func(hosting string, a bus.Activation, forClient bool) (interface{}, error) {
		inst, err := c.create(it, hosting, a.Session, a.Service, label)
		if err != nil {
			return nil, err
		}
		switch {
		case forClient:
			return c.view(it, inst, c.r.session)
		case hosting == "other-service":
			return c.view(it, inst, act.Session)
		}
		return inst.direct, nil
	}
	switch c.mode {
	case "payload":
		if okAct {
			add(onService("service", act, false))
			if okOther {
				add(onService("other-service", other, false))
			}
			add(onService("service", act, false))
		}
	default:
		if svc, err := c.clientService(); err != nil {
			add(nil, err)
		} else if inst, err := c.create(it, "client", c.r.session, svc, label); err != nil {
			add(nil, err)
		} else {
			add(inst.direct, nil)
		}
		if okAct {
			add(onService("service", act, true))
		}
		if okOther {
			add(onService("other-service", other, true))
		}
		if okAct {
			// a service-hosted object obtained the way a caller obtains one: returned
			// by a parameterless method of the called interface (when it has one)
			if x := c.obtainByCall(it, t, act, label); x != nil {
				add(x, nil)
			}
		}
	}
	c.cache[key] = out
	return out
}

// obtainByCall calls a generated proxy method `make() -> T` of the interface
// under test, whose implementation creates the object on its service; nil when
// there is no such method or it fails (its own unit reports that).
func (c *objCtx) obtainByCall(it *Interface, t reflect.Type, act bus.Activation, label string) interface{} {
	pt := c.r.proxy.Type()
	for i := 0; i < pt.NumMethod(); i++ {
		mt := pt.Method(i).Type
		if mt.NumIn() != 1 || mt.NumOut() != 2 || mt.Out(0) != t || pt.Method(i).Name == "WithContext" {
			continue
		}
		var inst *objInst
		c.r.h.reset(nil)
		c.r.h.mu.Lock()
		c.r.h.retMake = func([]interface{}) (reflect.Value, error) {
			x, err := c.create(it, "service-returned-by-a-call", act.Session, act.Service, label)
			if err != nil {
				return reflect.Value{}, err
			}
			inst = x
			return reflect.ValueOf(x.direct), nil
		}
		c.r.h.mu.Unlock()
		out, pmsg, to := callT(c.r.proxy.Method(i), nil)
		if to || pmsg != "" || errOf(out) != nil || inst == nil || out[0].IsNil() {
			return nil
		}
		x := out[0].Interface()
		instMu.Lock()
		instOf[x] = inst
		instMu.Unlock()
		return x
	}
	return nil
}

func (h *Handler) activation(itf string) (bus.Activation, bool) {
	h.mu.Lock()
	defer h.mu.Unlock()
	a, ok := h.acts[itf]
	return a, ok
}

// sameObject: two proxies designate the same object when using them reaches
// the same implementation (every created object has a number of its own).
func sameObject(a, b reflect.Value) bool {
	if a.IsNil() || b.IsNil() {
		return a.IsNil() == b.IsNil()
	}
	num := func(v reflect.Value) (int32, bool) {
		if !v.CanInterface() {
			return 0, false
		}
		x := v.Interface()
		instMu.Lock()
		inst := instOf[x]
		instMu.Unlock()
		if inst != nil {
			return inst.val, true
		}
		u, ok := x.(usable)
		if !ok {
			return 0, false
		}
		n, err := useObject(u)
		return n, err == nil
	}
	na, oka := num(a)
	nb, okb := num(b)
	return oka && okb && na == nb
}

func showObjects(v reflect.Value) string {
	if !v.IsValid() {
		return "<invalid>"
	}
	switch v.Kind() {
	case reflect.Interface, reflect.Ptr:
		if v.IsNil() {
			return "nil"
		}
		if v.CanInterface() {
			if u, ok := v.Interface().(usable); ok {
				if inst := instanceOf(v.Interface()); inst != nil {
					return fmt.Sprintf("<%s object, %s-hosted, value()=%d>", inst.typ, inst.hosting, inst.val)
				}
				p := u.Proxy()
				return fmt.Sprintf("<object service=%d id=%d>", p.ServiceID(), p.ObjectID())
			}
		}
	case reflect.Slice:
		var ps []string
		for i := 0; i < v.Len(); i++ {
			ps = append(ps, showObjects(v.Index(i)))
		}
		return "[" + strings.Join(ps, ", ") + "]"
	case reflect.Map:
		var ps []string
		keys := v.MapKeys()
		sort.Slice(keys, func(i, j int) bool { return fmt.Sprint(keys[i]) < fmt.Sprint(keys[j]) })
		for _, k := range keys {
			ps = append(ps, fmt.Sprint(k)+": "+showObjects(v.MapIndex(k)))
		}
		return "{" + strings.Join(ps, ", ") + "}"
	case reflect.Struct:
		var ps []string
		for i := 0; i < v.NumField(); i++ {
			ps = append(ps, v.Type().Field(i).Name+": "+showObjects(v.Field(i)))
		}
		return "{" + strings.Join(ps, ", ") + "}"
	}
	if v.CanInterface() {
		return fmt.Sprintf("%#v", v.Interface())
	}
	return fmt.Sprint(v)
}

// ------------------------------------------------------------ methods

// objectTuples: the argument tuples of a method with object-typed parameters:
// the full product of the hosting sides over the object positions (scalars at
// their distinguished value), every scalar value once (objects client-hosted),
// and, for two positions of one type, the same object in both.
func (r *runner) objectTuples(in []reflect.Type) [][]reflect.Value {
	vs := make([][]reflect.Value, len(in))
	var objPos []int
	for i, t := range in {
		if isObjectType(t) {
			vs[i] = objVals(t, i)
			objPos = append(objPos, i)
		} else {
			vs[i] = Vals(t)
		}
		if len(vs[i]) == 0 {
			return nil
		}
	}
	base := func() []reflect.Value {
		b := make([]reflect.Value, len(in))
		for i := range in {
			if isObjectType(in[i]) {
				b[i] = vs[i][0]
			} else {
				b[i] = vs[i][(1+i)%len(vs[i])]
			}
		}
		return b
	}
	var out [][]reflect.Value
	idx := make([]int, len(objPos))
	for {
		b := base()
		for k, p := range objPos {
			b[p] = vs[p][idx[k]]
		}
		out = append(out, b)
		k := len(objPos) - 1
		for k >= 0 {
			idx[k]++
			if idx[k] < len(vs[objPos[k]]) {
				break
			}
			idx[k] = 0
			k--
		}
		if k < 0 {
			break
		}
	}
	for i := range in {
		if isObjectType(in[i]) {
			continue
		}
		for _, v := range vs[i] {
			b := base()
			b[i] = v
			out = append(out, b)
		}
	}
	for x := 0; x < len(objPos); x++ {
		for y := x + 1; y < len(objPos); y++ {
			i, j := objPos[x], objPos[y]
			if in[i] != in[j] {
				continue
			}
			for _, v := range vs[i] {
				b := base()
				b[i], b[j] = v, v
				out = append(out, b)
			}
		}
	}
	return out
}

// countObjects counts the objects of a value case by hosting side.
func (r *runner) countObjects(pos string, vs []reflect.Value) {
	if len(objTypes) == 0 {
		return
	}
	insts, _ := expectedObjects(vs)
	for _, inst := range insts {
		r.count(pos + "/" + inst.hosting)
	}
}

type retPlan struct {
	name string // made-by-the-implementation | argument-<j>-handed-back
	arg  int
}

func (r *runner) count(key string) {
	if r.res.Objects == nil {
		r.res.Objects = map[string]int{}
	}
	r.res.Objects[key]++
}

// expectedObjects: the created objects among the values, in walk order.
func expectedObjects(vs []reflect.Value) (insts []*objInst, unknown int) {
	for _, v := range vs {
		walkObjects(v, func(u usable) {
			if i := instanceOf(u); i != nil {
				insts = append(insts, i)
			} else {
				unknown++
			}
		})
	}
	return
}

func (h *Handler) objectCalls() []string {
	h.mu.Lock()
	defer h.mu.Unlock()
	return append([]string{}, h.objCalls...)
}

// objectMethod drives a method with object-typed parameters or result.
func (r *runner) objectMethod(a Action, m reflect.Value, in []reflect.Type) {
	mt := m.Type()
	void := mt.NumOut() == 1
	tps := r.objectTuples(in)
	if len(tps) == 0 {
		return
	}
	plans := []retPlan{{"", -1}}
	var retIt *Interface
	if !void && isObjectType(mt.Out(0)) {
		retIt = objTypes[mt.Out(0)]
		plans = []retPlan{{"made-by-the-implementation", -1}}
		for j, t := range in {
			if t == mt.Out(0) {
				plans = append(plans, retPlan{fmt.Sprintf("argument-%d-handed-back", j), j})
			}
		}
	}
	var rets []reflect.Value
	if !void && retIt == nil {
		rets = Vals(mt.Out(0))
	}
	act, okAct := r.h.activation(r.itf.Name)
	// every preset return value at least once (a container of objects as result)
	for len(rets) > len(tps)*len(plans) {
		tps = append(tps, tps[0])
	}
	k := -1
	for _, args := range tps {
		for _, plan := range plans {
			k++
			insts, _ := expectedObjects(args)
			var want *reflect.Value
			if len(rets) > 0 {
				w := rets[k%len(rets)]
				want = &w
			}
			r.h.reset(want)
			var made *objInst
			if retIt != nil {
				if !okAct {
					r.fail("object-setup", "no activation", "the implementation of "+r.itf.Name+" was never activated", "")
					return
				}
				plan := plan
				r.h.mu.Lock()
				r.h.retMake = func(got []interface{}) (reflect.Value, error) {
					if plan.arg >= 0 {
						// hand back the proxy the stub gave to the implementation
						if plan.arg >= len(got) || got[plan.arg] == nil {
							return reflect.Value{}, fmt.Errorf("argument %d missing", plan.arg)
						}
						return reflect.ValueOf(got[plan.arg]), nil
					}
					inst, err := curCtx.create(retIt, "made-by-the-implementation", act.Session, act.Service, "r")
					if err != nil {
						return reflect.Value{}, err
					}
					made = inst
					return reflect.ValueOf(inst.direct), nil
				}
				r.h.mu.Unlock()
			}
			cs := fmt.Sprintf("%s%s", a.ProxyName, showArgs(args))
			switch {
			case retIt != nil:
				cs += " -> object " + plan.name
			case len(insts) > 0 && !void:
				cs += " -> what value() of the received objects returned"
			case want != nil:
				cs += " -> " + show(*want)
			}
			if r.res.Sample == "" {
				r.res.Sample = cs
			}
			r.res.Cases++
			for i, inst := range insts {
				key := "argument/" + inst.hosting
				for _, prev := range insts[:i] {
					if prev == inst {
						key = "argument/same-object-twice"
					}
				}
				r.count(key)
			}
			out, pmsg, to := callT(m, args)
			if to {
				r.fail("timeout", "", fmt.Sprintf("%s did not return within %v", cs, waitBudget), cs)
				return
			}
			if pmsg != "" {
				r.fail("panic", pmsg, fmt.Sprintf("%s panicked: %s", cs, pmsg), cs)
				continue
			}
			calls := r.h.snapshot()
			if err := errOf(out); err != nil {
				// the implementation was reached and could not use what it received?
				reported := false
				for _, c := range calls {
					for i, u := range c.Uses {
						if u.Err != "" && !reported {
							h := "unknown"
							if i < len(insts) {
								h = insts[i].hosting
							}
							r.fail("object-arg-unusable@"+h, u.Err, fmt.Sprintf("%s: the implementation received a proxy for the %s-hosted object passed to it (object %d of the call) and could not use it: value() failed with %q; the caller got %q", cs, h, i+1, u.Err, err), cs)
							reported = true
						}
					}
				}
				if !reported {
					r.fail("call-error", err.Error(), fmt.Sprintf("%s returned error %q", cs, err), cs)
				}
				continue
			}
			r.res.Checks++
			if len(calls) != 1 {
				r.fail("impl-invocations", fmt.Sprint(len(calls)), fmt.Sprintf("%s: the implementation was invoked %d times", cs, len(calls)), cs)
				continue
			}
			c := calls[0]
			if c.Method != a.ImplName || c.Itf != r.itf.Name {
				r.fail("wrong-impl-method", c.Method, fmt.Sprintf("%s reached %s.%s instead of %s.%s", cs, c.Itf, c.Method, r.itf.Name, a.ImplName), cs)
				continue
			}
			if len(c.Args) != len(args) {
				r.fail("args-differ", "count", fmt.Sprintf("%s: the implementation received %d arguments", cs, len(c.Args)), cs)
				continue
			}
			for i := range args {
				if holdsObject(args[i].Type()) {
					continue // judged by use, below
				}
				r.res.Checks++
				got := reflect.ValueOf(c.Args[i])
				if !got.IsValid() {
					got = reflect.Zero(args[i].Type())
				}
				if got.Type() != args[i].Type() && got.Type().ConvertibleTo(args[i].Type()) {
					got = got.Convert(args[i].Type())
				}
				if !Equal(args[i], got) {
					r.fail("args-differ", fmt.Sprintf("param%d", i), fmt.Sprintf("%s: parameter %d received as %s", cs, i, show(got)), cs)
				}
			}
			// the objects: every use reached the object that was passed
			r.res.Checks++
			if len(c.Uses) != len(insts) {
				r.fail("object-arg-count", fmt.Sprint(len(c.Uses)), fmt.Sprintf("%s: %d objects were passed, the implementation found %d among its arguments", cs, len(insts), len(c.Uses)), cs)
				continue
			}
			bad := false
			for i, u := range c.Uses {
				r.res.Checks++
				if u.Err != "" {
					r.fail("object-arg-unusable@"+insts[i].hosting, u.Err, fmt.Sprintf("%s: value() on the %s-hosted object received as object %d failed: %s", cs, insts[i].hosting, i+1, u.Err), cs)
					bad = true
				} else if u.Val != insts[i].val {
					r.fail("object-arg-differs@"+insts[i].hosting, "", fmt.Sprintf("%s: value() on the %s-hosted object received as object %d returned %d, the object passed answers %d: the proxy designates another object", cs, insts[i].hosting, i+1, u.Val, insts[i].val), cs)
					bad = true
				}
			}
			if bad {
				continue
			}
			var wantCalls []string
			for _, inst := range insts {
				wantCalls = append(wantCalls, inst.tag)
			}
			r.res.Checks++
			if got := r.h.objectCalls(); strings.Join(got, " ") != strings.Join(wantCalls, " ") {
				r.fail("object-impl-invocations", fmt.Sprint(len(got)), fmt.Sprintf("%s: the implementations of the passed objects were invoked %v, expected exactly %v (once per use)", cs, got, wantCalls), cs)
				continue
			}
			switch {
			case retIt != nil:
				r.res.Checks++
				if plan.arg < 0 {
					r.count("result/" + plan.name)
				}
				exp := made
				if plan.arg >= 0 {
					if es, _ := expectedObjects(args[plan.arg : plan.arg+1]); len(es) == 1 {
						exp = es[0]
						r.count("result/handed-back/" + exp.hosting)
					}
				}
				if exp == nil {
					r.fail("object-setup", "no result object", cs+": the implementation made no object", cs)
					continue
				}
				u, ok := out[0].Interface().(usable)
				if out[0].IsNil() || !ok {
					r.fail("object-result-unusable@"+exp.hosting, "nil", fmt.Sprintf("%s: the caller received %s", cs, show(out[0])), cs)
					continue
				}
				v, err := useObject(u)
				if err != nil {
					r.fail("object-result-unusable@"+exp.hosting, err.Error(), fmt.Sprintf("%s: the caller cannot use the object it received (%s, %s-hosted): value() failed with %q", cs, plan.name, exp.hosting, err), cs)
					continue
				}
				if v != exp.val {
					r.fail("object-result-differs@"+exp.hosting, "", fmt.Sprintf("%s: value() on the received object returned %d, the object returned by the implementation answers %d", cs, v, exp.val), cs)
					continue
				}
				r.res.Checks++
				wantCalls = append(wantCalls, exp.tag)
				if got := r.h.objectCalls(); strings.Join(got, " ") != strings.Join(wantCalls, " ") {
					r.fail("object-impl-invocations", "result", fmt.Sprintf("%s: after the caller used the result the objects' implementations had been invoked %v, expected exactly %v", cs, got, wantCalls), cs)
				}
			case !void && len(insts) > 0:
				r.res.Checks++
				var us []use
				for _, inst := range insts {
					us = append(us, use{Val: inst.val})
				}
				if out[0].Kind() == reflect.Int32 && int32(out[0].Int()) != combine(us) {
					r.fail("result-differs", "", fmt.Sprintf("%s: the caller got %s, the objects passed answer %d", cs, show(out[0]), combine(us)), cs)
				}
			case want != nil:
				r.res.Checks++
				if !Equal(*want, out[0]) {
					r.fail("result-differs", "", fmt.Sprintf("%s: the caller got %s", cs, show(out[0])), cs)
				}
			}
		}
	}
}
