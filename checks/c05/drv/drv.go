// Package drv drives a generated proxy/stub pair through a real in-process
// server by reflection: boundary values of every parameter / return / event /
// property type are sent through the generated proxy and compared with what
// the generated stub handed to the implementation, and back. Lists of
// containers also get items with shrinking and with equal inner sizes (the
// reflection decoder of the proxy fills a list item by item), and every signal
// and property is driven through the subscriber histories of one session
// (one subscriber; two together; two leaving in either order followed by a
// third): every emission must arrive exactly once, in order. Object-typed
// positions (parameters, results and signal payloads whose type is an interface
// of the package) are driven with objects hosted by the client, by the called
// service and by another service: see objects.go.
package drv

import (
	"bytes"
	"encoding/json"
	"flag"
	"fmt"
	"math"
	"os"
	"reflect"
	"regexp"
	"strings"
	"sync"
	"time"

	"github.com/lugu/qiloop/bus"
	dir "github.com/lugu/qiloop/bus/directory"
	sess "github.com/lugu/qiloop/bus/session"
	"github.com/lugu/qiloop/type/value"
)

// Action describes one IDL action and the Go names the generator is
// expected to give it (computed by the parent with the repository's own
// naming functions).
type Action struct {
	Atom      string
	Kind      string // method | signal | property
	IDLName   string
	NParams   int
	ImplName  string // method: Implementor method; signal: helper "SignalX"; property: base name X (OnXChange, UpdateX)
	ProxyName string // method: proxy method; signal: "SubscribeX"; property: base name X (GetX, SetX, SubscribeX)
	Created   bool   // drive the action on an object made with Create<X> as well (twin.go)
}

// Interface describes one generated interface.
type Interface struct {
	Name      string
	Service   string
	NewObject func(h *Handler) bus.Actor
	NewProxy  func(s bus.Session) (interface{}, error)
	Actions   []Action
	// object family: the generated <X>Proxy interface type and the generated
	// constructor Create<X>(session, service, impl) of further objects of this
	// interface (nil when the generated code has none of that shape)
	ProxyType reflect.Type
	Create    func(s bus.Session, svc bus.Service, h *Handler, tag string) (interface{}, error)
	Wrap      func(s bus.Session, p bus.Proxy) interface{} // Make<X>
}

type record struct {
	Itf, Method string
	Tag         string // "" = the object registered as the service, otherwise the tag of a created object
	Args        []interface{}
	Uses        []use // what the implementation got from the objects among its arguments
}

// Handler is what the generated implementation shims call.
type Handler struct {
	mu      sync.Mutex
	calls   []record
	ret     *reflect.Value
	helpers map[string]interface{}
	// object family (objects.go)
	acts     map[string]bus.Activation // interface -> activation of the object registered as the service
	instVal  map[string]int32          // tag of an object created by the driver -> what its value() returns
	objCalls []string                  // tags of the created objects whose implementation was invoked, in order
	retMake  func(args []interface{}) (reflect.Value, error)
	// created objects (twin.go): the signal helper each of them was activated
	// with, and the script of a two-caller overlap (one step per invocation, in
	// order of arrival)
	tagHelpers map[string]interface{}
	script     []*callStep
	arrived    int
}

// callStep scripts one invocation of the implementation: the value it returns
// and, optionally, a gate inside the method - the invocation announces itself
// (entered) and waits there until the driver lets it go on (release).
type callStep struct {
	ret     *reflect.Value
	entered chan struct{}
	release chan struct{}
}

// Call records an invocation of the implementation and fills *ret with the
// value the driver wants the implementation to return. tag is "" for the
// object registered as the service; for an object created by the driver
// (objects.go) the invocation is recorded under its tag and value() returns the
// object's own number. An implementation that was handed objects uses each of
// them (value()) before it returns and fails with the first error it got.
func (h *Handler) Call(tag, itf, method string, args []interface{}, ret interface{}) error {
	if tag != "" && !isTwinTag(tag) {
		h.mu.Lock()
		h.objCalls = append(h.objCalls, tag)
		v, ok := h.instVal[tag]
		h.mu.Unlock()
		if p, isInt := ret.(*int32); isInt && ok && method == "Value" {
			*p = v
			return nil
		}
		// any other method of a created object (the self-referencing
		// interface): it behaves like the service's own object
	}
	h.mu.Lock()
	preset, retMake := h.ret, h.retMake
	var step *callStep
	if h.script != nil {
		if h.arrived < len(h.script) {
			step = h.script[h.arrived]
		}
		h.arrived++
	}
	h.mu.Unlock()
	// not under the lock: using an object re-enters Call (same process)
	uses, err := useAll(args)
	h.mu.Lock()
	h.calls = append(h.calls, record{itf, method, tag, args, uses})
	h.mu.Unlock()
	if step != nil {
		if step.ret != nil {
			preset = step.ret
		}
		if step.entered != nil {
			close(step.entered)
		}
		if step.release != nil {
			select {
			case <-step.release:
			case <-time.After(3 * waitBudget):
			}
		}
	}
	if err != nil {
		return err
	}
	if ret == nil {
		return nil
	}
	rv := reflect.ValueOf(ret).Elem()
	switch {
	case isObjectType(rv.Type()) && retMake != nil:
		v, err := retMake(args)
		if err != nil {
			return err
		}
		if v.Type().AssignableTo(rv.Type()) {
			rv.Set(v)
		}
	case len(uses) > 0 && rv.Kind() == reflect.Int32:
		rv.SetInt(int64(combine(uses)))
	case preset != nil:
		if preset.Type().AssignableTo(rv.Type()) {
			rv.Set(*preset)
		}
	}
	return nil
}

// Activated stores the signal helper and the activation handed to the
// implementation registered as the service (tag "").
func (h *Handler) Activated(tag, itf string, act bus.Activation, helper interface{}) {
	h.mu.Lock()
	defer h.mu.Unlock()
	if tag != "" {
		if isTwinTag(tag) {
			h.tagHelpers[tag] = helper
		}
		return
	}
	h.helpers[itf] = helper
	h.acts[itf] = act
}

func (h *Handler) reset(ret *reflect.Value) {
	h.mu.Lock()
	defer h.mu.Unlock()
	h.calls = nil
	h.ret = ret
	h.objCalls = nil
	h.retMake = nil
	h.script = nil
	h.arrived = 0
}

func (h *Handler) snapshot() []record {
	h.mu.Lock()
	defer h.mu.Unlock()
	return append([]record{}, h.calls...)
}

// ------------------------------------------------------------ value universe

var valueType = reflect.TypeOf((*value.Value)(nil)).Elem()

func valueSamples() []value.Value {
	return []value.Value{
		value.Bool(true), value.Int(-2), value.Uint(0x01020304), value.Long(math.MinInt64), value.Float(1.5),
		value.String("aé"), value.String(""), value.Raw([]byte{1, 2, 3}),
		value.List([]value.Value{value.Int(1), value.String("x")}), value.Int8(-3), value.Uint16(0x0102),
	}
}

var longString = strings.Repeat("0123456789abcdef", 16)[:255]

// Vals returns the boundary values of a type (DESIGN.md 1.1 Val(T)).
func Vals(t reflect.Type) []reflect.Value {
	mk := func(xs ...interface{}) []reflect.Value {
		var out []reflect.Value
		for _, x := range xs {
			out = append(out, reflect.ValueOf(x).Convert(t))
		}
		return out
	}
	if t == valueType {
		var out []reflect.Value
		for _, v := range valueSamples() {
			rv := reflect.New(t).Elem()
			rv.Set(reflect.ValueOf(v))
			out = append(out, rv)
		}
		return out
	}
	switch t.Kind() {
	case reflect.Bool:
		return mk(false, true)
	case reflect.Int8:
		return mk(int8(0), int8(1), int8(-1), int8(math.MaxInt8), int8(math.MinInt8), int8(0x12))
	case reflect.Uint8:
		return mk(uint8(0), uint8(1), uint8(0xff), uint8(0x7f), uint8(0x80), uint8(0x12))
	case reflect.Int16:
		return mk(int16(0), int16(1), int16(-1), int16(math.MaxInt16), int16(math.MinInt16), int16(0x0102))
	case reflect.Uint16:
		return mk(uint16(0), uint16(1), uint16(0xffff), uint16(0x7fff), uint16(0x8000), uint16(0x0102))
	case reflect.Int32:
		return mk(int32(0), int32(1), int32(-1), int32(math.MaxInt32), int32(math.MinInt32), int32(0x01020304))
	case reflect.Int:
		// enums are declared "type E int" and travel as int32
		return mk(int(0), int(1), int(2), int(-1), int(math.MaxInt32), int(math.MinInt32))
	case reflect.Uint32:
		return mk(uint32(0), uint32(1), uint32(0xffffffff), uint32(0x7fffffff), uint32(0x80000000), uint32(0x01020304))
	case reflect.Int64:
		return mk(int64(0), int64(1), int64(-1), int64(math.MaxInt64), int64(math.MinInt64), int64(0x0102030405060708))
	case reflect.Uint64:
		return mk(uint64(0), uint64(1), uint64(math.MaxUint64), uint64(0x7fffffffffffffff), uint64(0x8000000000000000), uint64(0x0102030405060708))
	case reflect.Float32:
		return mk(float32(0), float32(math.Copysign(0, -1)), float32(1.5), float32(math.MaxFloat32), float32(math.Inf(1)), math.Float32frombits(0x7fc00001))
	case reflect.Float64:
		return mk(float64(0), math.Copysign(0, -1), float64(1.5), math.MaxFloat64, math.Inf(-1), math.Float64frombits(0x7ff8000000000001))
	case reflect.String:
		return mk("", "a", "é€\U0001F600", longString)
	case reflect.Slice:
		ev := Vals(t.Elem())
		e := func(i int) reflect.Value { return ev[i%len(ev)] }
		s0 := reflect.MakeSlice(t, 0, 0)
		s1 := reflect.Append(reflect.MakeSlice(t, 0, 1), e(1))
		s2 := reflect.Append(reflect.Append(reflect.MakeSlice(t, 0, 2), e(2)), e(3))
		out := []reflect.Value{s0, s1, s2}
		// every boundary value of the element once
		all := reflect.MakeSlice(t, 0, len(ev))
		for _, v := range ev {
			all = reflect.Append(all, v)
		}
		out = append(out, all)
		if HoldsContainer(t.Elem()) {
			// a list of containers: items whose inner containers shrink (3, 2, 1:
			// [[1,2,3],[4,5],[6]]) and items whose inner containers have the same
			// size (2, 2, 2), all contents pairwise distinct. A decoder that reuses
			// the storage of an earlier item for a later one is only visible on
			// these shapes (growing inner sizes reallocate).
			for _, sizes := range [][]int{{3, 2, 1}, {2, 2, 2}} {
				ctr := 0
				l := reflect.MakeSlice(t, 0, len(sizes))
				for _, n := range sizes {
					l = reflect.Append(l, fresh(t.Elem(), n, &ctr))
				}
				shaped[l.Pointer()] = true
				out = append(out, l)
			}
		}
		return out
	case reflect.Map:
		kv, ev := mapKeys(Vals(t.Key())), Vals(t.Elem())
		m0 := reflect.MakeMap(t)
		m1 := reflect.MakeMap(t)
		m1.SetMapIndex(kv[1%len(kv)], ev[1%len(ev)])
		m2 := reflect.MakeMap(t)
		for i := range kv {
			if hashable(kv[i]) {
				m2.SetMapIndex(kv[i], ev[i%len(ev)])
			}
		}
		m3 := reflect.MakeMap(t)
		for i := range ev {
			k := kv[i%len(kv)]
			if hashable(k) {
				m3.SetMapIndex(k, ev[i])
			}
		}
		return []reflect.Value{m0, m1, m2, m3}
	case reflect.Struct:
		n := t.NumField()
		if n == 0 {
			return []reflect.Value{reflect.New(t).Elem()}
		}
		fv := make([][]reflect.Value, n)
		for i := 0; i < n; i++ {
			fv[i] = Vals(t.Field(i).Type)
		}
		// distinguished value: a non-zero value per field
		base := func() reflect.Value {
			s := reflect.New(t).Elem()
			for i := 0; i < n; i++ {
				if s.Field(i).CanSet() {
					s.Field(i).Set(fv[i][(1+i)%len(fv[i])])
				}
			}
			return s
		}
		out := []reflect.Value{base()}
		// one field at a time over its full set
		for i := 0; i < n; i++ {
			if !base().Field(i).CanSet() {
				continue
			}
			for _, v := range fv[i] {
				s := base()
				s.Field(i).Set(v)
				out = append(out, s)
			}
		}
		// diagonal
		maxn := 0
		for i := range fv {
			if len(fv[i]) > maxn {
				maxn = len(fv[i])
			}
		}
		for k := 0; k < maxn; k++ {
			s := reflect.New(t).Elem()
			for i := 0; i < n; i++ {
				if s.Field(i).CanSet() {
					s.Field(i).Set(fv[i][k%len(fv[i])])
				}
			}
			out = append(out, s)
		}
		if len(out) > 64 {
			out = out[:64]
		}
		return out
	case reflect.Interface, reflect.Ptr:
		if isObjectType(t) && objVals != nil {
			// an object of the package: one per hosting side (objects.go)
			if vs := objVals(t, -1); len(vs) > 0 {
				return vs
			}
		}
		// other interfaces: not driven (one nil value)
		return []reflect.Value{reflect.Zero(t)}
	}
	return []reflect.Value{reflect.Zero(t)}
}

// HoldsContainer: t is a list or a map, or a struct with such a member
// (at any depth).
func HoldsContainer(t reflect.Type) bool {
	if t == valueType {
		return false
	}
	switch t.Kind() {
	case reflect.Slice, reflect.Map:
		return true
	case reflect.Struct:
		for i := 0; i < t.NumField(); i++ {
			if HoldsContainer(t.Field(i).Type) {
				return true
			}
		}
	}
	return false
}

// shaped holds the data pointers of the lists of containers built by Vals
// (decreasing and equal inner sizes), so that the cases which carry one can be
// counted.
var shaped = map[uintptr]bool{}

// IsShaped reports whether v is (or, for a struct, holds in a member) one of
// the lists of containers with decreasing / equal inner sizes.
func IsShaped(v reflect.Value) bool {
	if !v.IsValid() || v.Type() == valueType {
		return false
	}
	switch v.Kind() {
	case reflect.Slice:
		return v.Len() > 0 && shaped[v.Pointer()]
	case reflect.Struct:
		for i := 0; i < v.NumField(); i++ {
			if IsShaped(v.Field(i)) {
				return true
			}
		}
	}
	return false
}

// fresh builds a value of type t whose containers (at every depth) have n
// entries and whose scalars are numbered from *ctr: two values built from the
// same counter have pairwise distinct contents (bool: alternating).
func fresh(t reflect.Type, n int, ctr *int) reflect.Value {
	v := reflect.New(t).Elem()
	next := func() int { *ctr++; return *ctr }
	if t == valueType {
		if freshPad > 0 {
			v.Set(reflect.ValueOf(value.String(padded(fmt.Sprintf("v%d", next())))))
			return v
		}
		v.Set(reflect.ValueOf(value.Int(int32(next()))))
		return v
	}
	switch t.Kind() {
	case reflect.Bool:
		v.SetBool(next()%2 == 1)
	case reflect.Int, reflect.Int8, reflect.Int16, reflect.Int32, reflect.Int64:
		v.SetInt(int64(next() % 120))
	case reflect.Uint, reflect.Uint8, reflect.Uint16, reflect.Uint32, reflect.Uint64:
		v.SetUint(uint64(next() % 120))
	case reflect.Float32, reflect.Float64:
		v.SetFloat(float64(next()) + 0.5)
	case reflect.String:
		v.SetString(padded(fmt.Sprintf("v%d", next())))
	case reflect.Slice:
		s := reflect.MakeSlice(t, 0, n)
		for i := 0; i < n; i++ {
			s = reflect.Append(s, fresh(t.Elem(), n, ctr))
		}
		v.Set(s)
	case reflect.Map:
		m := reflect.MakeMap(t)
		for try := 0; m.Len() < n && try < 4*n+4; try++ {
			k := fresh(t.Key(), n, ctr)
			if !hashable(k) || m.MapIndex(k).IsValid() {
				continue
			}
			m.SetMapIndex(k, fresh(t.Elem(), n, ctr))
		}
		v.Set(m)
	case reflect.Struct:
		for i := 0; i < t.NumField(); i++ {
			if v.Field(i).CanSet() {
				v.Field(i).Set(fresh(t.Field(i).Type, n, ctr))
			}
		}
	}
	return v
}

// freshPad > 0: the strings built by fresh are that long (the number first,
// then a filler that repeats it).
var freshPad = 0

func padded(s string) string {
	if freshPad <= len(s) {
		return s
	}
	return (s + strings.Repeat("."+s, freshPad/(len(s)+1)+1))[:freshPad]
}

// mapKeys drops the values that cannot be distinct, retrievable map keys:
// NaN (never equal to itself) and -0 (equal to +0).
func mapKeys(vs []reflect.Value) []reflect.Value {
	var out []reflect.Value
	for _, v := range vs {
		if k := v.Kind(); k == reflect.Float32 || k == reflect.Float64 {
			f := v.Float()
			if f != f || (f == 0 && math.Signbit(f)) {
				continue
			}
		}
		out = append(out, v)
	}
	return out
}

func hashable(v reflect.Value) bool {
	defer func() { recover() }()
	m := map[interface{}]bool{}
	m[v.Interface()] = true
	return true
}

// tuples: one position at a time over its full set while the others hold a
// distinguished non-zero value, plus the diagonal.
func tuples(ts []reflect.Type) [][]reflect.Value {
	if len(ts) == 0 {
		return [][]reflect.Value{{}}
	}
	vs := make([][]reflect.Value, len(ts))
	for i, t := range ts {
		vs[i] = Vals(t)
	}
	base := func() []reflect.Value {
		b := make([]reflect.Value, len(ts))
		for i := range ts {
			b[i] = vs[i][(1+i)%len(vs[i])]
		}
		return b
	}
	var out [][]reflect.Value
	for i := range ts {
		for _, v := range vs[i] {
			b := base()
			b[i] = v
			out = append(out, b)
		}
	}
	if len(ts) > 1 {
		maxn := 0
		for i := range vs {
			if len(vs[i]) > maxn {
				maxn = len(vs[i])
			}
		}
		for k := 0; k < maxn; k++ {
			b := make([]reflect.Value, len(ts))
			for i := range ts {
				b[i] = vs[i][k%len(vs[i])]
			}
			out = append(out, b)
		}
	}
	return out
}

// Equal: deep equality; floats by bits; dynamic values by their encoding;
// nil and empty containers are equal.
func Equal(a, b reflect.Value) bool {
	if !a.IsValid() || !b.IsValid() {
		return a.IsValid() == b.IsValid()
	}
	if a.Type() != b.Type() {
		return false
	}
	if isObjectType(a.Type()) {
		return sameObject(a, b)
	}
	if a.Type() == valueType {
		if a.IsNil() || b.IsNil() {
			return a.IsNil() == b.IsNil()
		}
		if !a.CanInterface() || !b.CanInterface() {
			return true
		}
		var ba, bb bytes.Buffer
		a.Interface().(value.Value).Write(&ba)
		b.Interface().(value.Value).Write(&bb)
		return bytes.Equal(ba.Bytes(), bb.Bytes())
	}
	switch a.Kind() {
	case reflect.Float32:
		return math.Float32bits(float32(a.Float())) == math.Float32bits(float32(b.Float()))
	case reflect.Float64:
		return math.Float64bits(a.Float()) == math.Float64bits(b.Float())
	case reflect.Slice:
		if a.Len() != b.Len() {
			return false
		}
		for i := 0; i < a.Len(); i++ {
			if !Equal(a.Index(i), b.Index(i)) {
				return false
			}
		}
		return true
	case reflect.Map:
		if a.Len() != b.Len() {
			return false
		}
		// keys compared with == (NaN keys are not generated: they cannot be looked up)
		it := a.MapRange()
		for it.Next() {
			bv := b.MapIndex(it.Key())
			if !bv.IsValid() || !Equal(it.Value(), bv) {
				return false
			}
		}
		return true
	case reflect.Struct:
		for i := 0; i < a.NumField(); i++ {
			if !Equal(a.Field(i), b.Field(i)) {
				return false
			}
		}
		return true
	case reflect.Interface, reflect.Ptr:
		if a.IsNil() || b.IsNil() {
			return a.IsNil() == b.IsNil()
		}
		return Equal(a.Elem(), b.Elem())
	case reflect.Bool:
		return a.Bool() == b.Bool()
	case reflect.Int, reflect.Int8, reflect.Int16, reflect.Int32, reflect.Int64:
		return a.Int() == b.Int()
	case reflect.Uint, reflect.Uint8, reflect.Uint16, reflect.Uint32, reflect.Uint64:
		return a.Uint() == b.Uint()
	case reflect.String:
		return a.String() == b.String()
	}
	if !a.CanInterface() || !b.CanInterface() {
		return false
	}
	return reflect.DeepEqual(a.Interface(), b.Interface())
}

func show(v reflect.Value) string {
	if !v.IsValid() {
		return "<invalid>"
	}
	if !v.CanInterface() {
		return fmt.Sprint(v)
	}
	if holdsObject(v.Type()) {
		return showObjects(v)
	}
	s := fmt.Sprintf("%#v", v.Interface())
	if len(s) > 200 {
		s = s[:200] + "..."
	}
	return s
}

func showArgs(vs []reflect.Value) string {
	var p []string
	for _, v := range vs {
		p = append(p, show(v))
	}
	return "(" + strings.Join(p, ", ") + ")"
}

// ------------------------------------------------------------ running

// Violation is one observed failure of an action.
type Violation struct {
	Failure string `json:"failure"` // e.g. call-error, args-differ
	Detail  string `json:"detail"`  // normalised message class
	What    string `json:"what"`
	Case    string `json:"case"`
}

// Result is printed as one JSON line per action.
type Result struct {
	Itf        string      `json:"itf"`
	Atom       string      `json:"atom"`
	Kind       string      `json:"kind"`
	IDLName    string      `json:"idl_name"`
	Cases      int         `json:"cases"`
	Checks     int         `json:"checks"`
	Violations []Violation `json:"violations"`
	Sample     string      `json:"sample,omitempty"`
	Skipped    string      `json:"skipped,omitempty"`
	// value cases that carried a list of >= 3 containers with decreasing or
	// equal inner sizes, by position: return | argument | payload | property
	Nested map[string]int `json:"nested,omitempty"`
	// subscriber histories executed (see histories) and emissions made in them
	Histories     int `json:"histories,omitempty"`
	HistoryEvents int `json:"history_events,omitempty"`
	// object family: value cases by "<position>/<hosting side>" (argument,
	// result, payload, property x client, service, other-service; an aliased
	// pair counts as argument/same-object-twice) and the uses of an object
	// (value() through the proxy that crossed the wire) that were checked
	Objects    map[string]int `json:"objects,omitempty"`
	ObjectUses int            `json:"object_uses,omitempty"`
	// created objects (twin.go): value cases driven through each proxy of the
	// object made with Create<X>, by "<kind>/<local-proxy|remote-proxy>", and
	// the two-caller interleavings run, by "<gate>/<order>"
	Created  map[string]int `json:"created,omitempty"`
	Overlaps map[string]int `json:"overlaps,omitempty"`
}

func (r *runner) nested(pos string, vs ...reflect.Value) {
	for _, v := range vs {
		if IsShaped(v) {
			if r.res.Nested == nil {
				r.res.Nested = map[string]int{}
			}
			r.res.Nested[pos]++
			return
		}
	}
}

func exported(name string) bool {
	return name != "" && name[0] >= 'A' && name[0] <= 'Z'
}

const waitBudget = 20 * time.Second

var digits = regexp.MustCompile(`[0-9]+`)
var nonWord = regexp.MustCompile(`[^A-Za-z0-9_.:<>=\[\]-]+`)

func class(msg string) string {
	msg = digits.ReplaceAllString(msg, "N")
	msg = nonWord.ReplaceAllString(msg, "_")
	if len(msg) > 70 {
		msg = msg[:70]
	}
	return strings.Trim(msg, "_")
}

// callT calls a reflect method with a wall-clock guard.
func callT(m reflect.Value, args []reflect.Value) (out []reflect.Value, panicMsg string, timedOut bool) {
	type res struct {
		out []reflect.Value
		p   string
	}
	ch := make(chan res, 1)
	go func() {
		defer func() {
			if r := recover(); r != nil {
				ch <- res{nil, fmt.Sprint(r)}
			}
		}()
		ch <- res{m.Call(args), ""}
	}()
	select {
	case r := <-ch:
		return r.out, r.p, false
	case <-time.After(waitBudget):
		return nil, "", true
	}
}

func errOf(out []reflect.Value) error {
	if len(out) == 0 {
		return nil
	}
	last := out[len(out)-1]
	if last.Type().Implements(reflect.TypeOf((*error)(nil)).Elem()) && !last.IsNil() {
		return last.Interface().(error)
	}
	return nil
}

type runner struct {
	h       *Handler
	itf     Interface
	proxy   reflect.Value
	res     *Result
	seen    map[string]bool
	session bus.Session
	// created objects (twin.go): tag of the object the proxy designates ("" =
	// the object registered as the service) and which of its two proxies is
	// used (created-object:local-proxy | created-object:remote-proxy)
	tag string
	via string
}

func (r *runner) fail(failure, detail, what, cs string) {
	if r.via != "" {
		failure += "@" + r.via
		what = "[object made with the generated Create" + r.itf.Name + ", driven through its " + strings.TrimPrefix(r.via, "created-object:") + "] " + what
	}
	key := failure + "|" + detail
	if r.seen[key] {
		return
	}
	r.seen[key] = true
	r.res.Violations = append(r.res.Violations, Violation{failure, class(detail), what, cs})
}

func (r *runner) method(a Action) {
	if !exported(a.ProxyName) {
		r.res.Skipped = "the generated method " + a.ProxyName + " is unexported: callable only inside the generated package, not by this driver"
		return
	}
	m := r.proxy.MethodByName(a.ProxyName)
	if !m.IsValid() {
		r.fail("proxy-method-missing", a.ProxyName, fmt.Sprintf("the generated proxy has no method %s for IDL method %s", a.ProxyName, a.IDLName), "")
		return
	}
	mt := m.Type()
	var in []reflect.Type
	for i := 0; i < mt.NumIn(); i++ {
		in = append(in, mt.In(i))
	}
	if mt.NumIn() != a.NParams {
		r.fail("proxy-arity", fmt.Sprint(mt.NumIn()), fmt.Sprintf("proxy method %s takes %d parameters, IDL declares %d", a.ProxyName, mt.NumIn(), a.NParams), "")
		return
	}
	objects := mt.NumOut() == 2 && holdsObject(mt.Out(0))
	for _, t := range in {
		objects = objects || holdsObject(t)
	}
	if objects {
		if r.via != "" {
			return // object-typed positions are driven on the service's object only
		}
		// object-typed positions: hosting sides, judged by use (objects.go)
		r.objectMethod(a, m, in)
		return
	}
	void := mt.NumOut() == 1
	tps := tuples(in)
	var rets []reflect.Value
	if !void {
		rets = Vals(mt.Out(0))
	}
	n := len(tps)
	if len(rets) > n {
		n = len(rets)
	}
	for k := 0; k < n; k++ {
		args := tps[k%len(tps)]
		var want *reflect.Value
		if !void {
			w := rets[k%len(rets)]
			want = &w
		}
		r.h.reset(want)
		cs := fmt.Sprintf("%s%s", a.ProxyName, showArgs(args))
		if want != nil {
			cs += " -> " + show(*want)
		}
		if r.res.Sample == "" && k == 1%n {
			r.res.Sample = cs
		}
		r.res.Cases++
		r.nested("argument", args...)
		if want != nil {
			r.nested("return", *want)
		}
		out, pmsg, to := callT(m, args)
		if to {
			r.fail("timeout", "", fmt.Sprintf("%s did not return within %v", cs, waitBudget), cs)
			return
		}
		if pmsg != "" {
			r.fail("panic", pmsg, fmt.Sprintf("%s panicked: %s", cs, pmsg), cs)
			continue
		}
		if err := errOf(out); err != nil {
			r.fail("call-error", err.Error(), fmt.Sprintf("%s returned error %q", cs, err), cs)
			continue
		}
		calls := r.h.snapshot()
		r.res.Checks++
		if len(calls) != 1 {
			r.fail("impl-invocations", fmt.Sprint(len(calls)), fmt.Sprintf("%s: the implementation was invoked %d times", cs, len(calls)), cs)
			continue
		}
		c := calls[0]
		if c.Method != a.ImplName || c.Itf != r.itf.Name {
			r.fail("wrong-impl-method", c.Method, fmt.Sprintf("%s reached %s.%s instead of %s.%s", cs, c.Itf, c.Method, r.itf.Name, a.ImplName), cs)
			continue
		}
		if c.Tag != r.tag {
			r.fail("wrong-object", "", fmt.Sprintf("%s reached the implementation of object %q instead of %q", cs, c.Tag, r.tag), cs)
			continue
		}
		if len(c.Args) != len(args) {
			r.fail("args-differ", "count", fmt.Sprintf("%s: the implementation received %d arguments", cs, len(c.Args)), cs)
			continue
		}
		for i := range args {
			r.res.Checks++
			got := reflect.ValueOf(c.Args[i])
			if !got.IsValid() {
				got = reflect.Zero(args[i].Type())
			}
			if got.Type() != args[i].Type() && got.Type().ConvertibleTo(args[i].Type()) {
				got = got.Convert(args[i].Type())
			}
			if !Equal(args[i], got) {
				r.fail("args-differ", fmt.Sprintf("param%d", i), fmt.Sprintf("%s: parameter %d received as %s", cs, i, show(got)), cs)
			}
		}
		if want != nil {
			r.res.Checks++
			if !Equal(*want, out[0]) {
				r.fail("result-differs", "", fmt.Sprintf("%s: the caller got %s", cs, show(out[0])), cs)
			}
		}
	}
}

// eventEquals compares an event with the emitted arguments: one parameter =
// the value itself, otherwise a struct with one field per parameter.
func eventEquals(ev reflect.Value, args []reflect.Value) bool {
	if len(args) == 1 {
		return Equal(ev, args[0])
	}
	if ev.Kind() != reflect.Struct || ev.NumField() != len(args) {
		return false
	}
	for i := range args {
		if !Equal(ev.Field(i), args[i]) {
			return false
		}
	}
	return true
}

func (r *runner) subscribe(name string) (cancel func(), ch reflect.Value, ok bool) {
	sub := r.proxy.MethodByName(name)
	if !sub.IsValid() {
		r.fail("proxy-method-missing", name, fmt.Sprintf("the generated proxy has no method %s", name), "")
		return nil, reflect.Value{}, false
	}
	out, pmsg, to := callT(sub, nil)
	if to {
		r.fail("timeout", "subscribe", fmt.Sprintf("%s did not return within %v", name, waitBudget), name)
		return nil, reflect.Value{}, false
	}
	if pmsg != "" {
		r.fail("panic", pmsg, fmt.Sprintf("%s panicked: %s", name, pmsg), name)
		return nil, reflect.Value{}, false
	}
	if err := errOf(out); err != nil {
		r.fail("subscribe-error", err.Error(), fmt.Sprintf("%s returned error %q", name, err), name)
		return nil, reflect.Value{}, false
	}
	if len(out) != 3 || out[1].Kind() != reflect.Chan {
		r.fail("subscribe-shape", "", name+" does not return (func(), chan T, error)", name)
		return nil, reflect.Value{}, false
	}
	c, _ := out[0].Interface().(func())
	return c, out[1], true
}

// subscriber is one subscription made through a generated Subscribe<X>. Its
// channel is drained by a collector goroutine for as long as it is open: the
// client's forwarding goroutine blocks on an unread event, so a subscriber that
// stops reading would stall its own cancellation.
type subscriber struct {
	name   string
	cancel func()
	mu     sync.Mutex
	got    []reflect.Value
	taken  int
	closed bool
	wake   chan struct{}
}

func (r *runner) newSubscriber(method, name string) *subscriber {
	cancel, ch, ok := r.subscribe(method)
	if !ok {
		return nil
	}
	s := &subscriber{name: name, cancel: cancel, wake: make(chan struct{}, 1)}
	go func() {
		for {
			v, ok := ch.Recv()
			s.mu.Lock()
			if ok {
				s.got = append(s.got, v)
			} else {
				s.closed = true
			}
			s.mu.Unlock()
			select {
			case s.wake <- struct{}{}:
			default:
			}
			if !ok {
				return
			}
		}
	}()
	return s
}

// take returns the events received since the previous take: it waits (at most
// waitBudget) until n of them are there, then until none has arrived for quiet.
func (s *subscriber) take(n int, quiet time.Duration) (evs []reflect.Value, closed bool) {
	limit := time.NewTimer(waitBudget)
	defer limit.Stop()
wait:
	for {
		s.mu.Lock()
		have, cl := len(s.got)-s.taken, s.closed
		s.mu.Unlock()
		if have >= n || cl {
			break
		}
		select {
		case <-s.wake:
		case <-limit.C:
			break wait
		}
	}
	for round := 0; quiet > 0 && round < 100; round++ {
		t := time.NewTimer(quiet)
		select {
		case <-s.wake:
			t.Stop()
			continue
		case <-t.C:
		}
		break
	}
	s.mu.Lock()
	defer s.mu.Unlock()
	evs = append(evs, s.got[s.taken:]...)
	s.taken = len(s.got)
	return evs, s.closed
}

// stop calls the subscription's cancel function and waits for it.
func (r *runner) stop(s *subscriber, cs string) bool {
	if s == nil || s.cancel == nil {
		return true
	}
	c := s.cancel
	s.cancel = nil
	done := make(chan string, 1)
	go func() {
		defer func() {
			if p := recover(); p != nil {
				done <- fmt.Sprint(p)
			}
		}()
		c()
		done <- ""
	}()
	select {
	case p := <-done:
		if p != "" {
			r.fail("panic", p, fmt.Sprintf("%s: the cancel function of subscriber %s panicked: %s", cs, s.name, p), cs)
			return false
		}
		return true
	case <-time.After(waitBudget):
		r.fail("timeout", "cancel", fmt.Sprintf("%s: the cancel function of subscriber %s did not return within %v", cs, s.name, waitBudget), cs)
		return false
	}
}

// classify compares, in order, the events a subscriber received with the
// payloads emitted while it was subscribed (want); earlier lists the payloads
// emitted to it before (a late copy of one of those is a duplicate, not a
// foreign event). Every emission must arrive exactly once.
func classify(got []reflect.Value, want, earlier [][]reflect.Value, closed bool) (failure, what string) {
	among := func(g reflect.Value, ps [][]reflect.Value) int {
		for j := len(ps) - 1; j >= 0; j-- {
			if eventEquals(g, ps[j]) {
				return j
			}
		}
		return -1
	}
	i := 0
	for k, g := range got {
		if i < len(want) && eventEquals(g, want[i]) {
			i++
			continue
		}
		if j := among(g, want[:i]); j >= 0 {
			return "event-duplicated", fmt.Sprintf("emission %d of %d %s was delivered again (event %d received: %s): more than one copy of one emission", j+1, len(want), showArgs(want[j]), k+1, show(g))
		}
		if j := among(g, earlier); j >= 0 {
			return "event-duplicated", fmt.Sprintf("the earlier emission %s was delivered again (event %d received: %s): more than one copy of one emission", showArgs(earlier[j]), k+1, show(g))
		}
		if i < len(want) {
			if j := among(g, want[i+1:]); j >= 0 {
				return "event-lost", fmt.Sprintf("emission %d of %d %s never arrived (event %d received is the later emission %s)", i+1, len(want), showArgs(want[i]), k+1, show(g))
			}
			return "event-differs", fmt.Sprintf("emitted %s, the subscriber received %s", showArgs(want[i]), show(g))
		}
		return "event-differs", fmt.Sprintf("an event nobody emitted was received after the %d expected ones: %s", len(want), show(g))
	}
	if i < len(want) {
		if closed {
			return "event-channel-closed", fmt.Sprintf("the subscriber's channel was closed after %d of %d events", i, len(want))
		}
		return "event-lost", fmt.Sprintf("emission %d of %d %s: no event reached the subscriber within %v", i+1, len(want), showArgs(want[i]), waitBudget)
	}
	return "", ""
}

// quiet is how long a subscriber must stay silent after its last expected
// event. Copies of every emission but the last are recognised by order (the
// server sends the copies of one emission before the next emission, one
// connection is FIFO), so the decision does not rest on this wait.
const quiet = 40 * time.Millisecond

// distinctPayloads returns up to n pairwise different payloads.
func distinctPayloads(all [][]reflect.Value, n int) [][]reflect.Value {
	var out [][]reflect.Value
next:
	for _, p := range all {
		for _, q := range out {
			same := true
			for i := range p {
				if !Equal(p[i], q[i]) {
					same = false
				}
			}
			if same {
				continue next
			}
		}
		out = append(out, p)
		if len(out) == n {
			break
		}
	}
	return out
}

// histories drives the subscriber histories of one signal or property on the
// one session of the driver (the main loop of the action is the history "one
// subscriber"):
//
//	together    subscribe A, subscribe B, emit 3: A and B each receive every emission exactly once; cancel B, cancel A
//	cancel-A-B  subscribe A, subscribe B, cancel A, emit: B receives it once; cancel B; subscribe C, emit 2: C receives each exactly once
//	cancel-B-A  the same with B cancelled before A (the emission in between goes to A)
//
// Subscriptions to one signal made through one client share a single
// registration on the server; who registers and who unregisters depends on the
// order of arrival and departure.
func (r *runner) histories(subMethod, label string, all [][]reflect.Value, emit func(args []reflect.Value, cs string) bool) {
	ps := distinctPayloads(all, 3)
	if len(ps) == 0 {
		return
	}
	q := quiet
	if len(ps) == 1 {
		// indistinguishable emissions (e.g. a signal without parameters):
		// copies are only visible as a surplus
		q = 300 * time.Millisecond
	}
	p := func(i int) []reflect.Value { return ps[i%len(ps)] }
	var live []*subscriber
	var hist string
	sub := func(name string) *subscriber {
		s := r.newSubscriber(subMethod, name)
		if s != nil {
			live = append(live, s)
		}
		return s
	}
	stop := func(s *subscriber) bool {
		for i, x := range live {
			if x == s {
				live = append(live[:i:i], live[i+1:]...)
				break
			}
		}
		return r.stop(s, label+" history "+hist)
	}
	emitted := map[*subscriber][][]reflect.Value{}
	send := func(args []reflect.Value) bool {
		r.res.HistoryEvents++
		return emit(args, fmt.Sprintf("%s history %s: emit %s", label, hist, showArgs(args)))
	}
	expect := func(s *subscriber, q time.Duration, want ...[]reflect.Value) bool {
		got, closed := s.take(len(want), q)
		r.res.Checks += len(want)
		f, what := classify(got, want, emitted[s], closed)
		emitted[s] = append(emitted[s], want...)
		if f != "" {
			cs := fmt.Sprintf("%s history %s, subscriber %s", label, hist, s.name)
			// one record per failure kind and action: the first failing
			// history is the witness (a leaked registration also disturbs the
			// histories after it)
			r.fail(f, "history", cs+": "+what, cs)
			return false
		}
		return true
	}
	run := func(name string, body func() bool) bool {
		hist = name
		r.res.Histories++
		ok := body()
		for len(live) > 0 {
			if !stop(live[len(live)-1]) {
				ok = false
			}
		}
		return ok
	}
	run("together", func() bool {
		a, b := sub("A"), sub("B")
		if a == nil || b == nil {
			return false
		}
		for i := 0; i < 3; i++ {
			if !send(p(i)) {
				return false
			}
		}
		okA := expect(a, q, p(0), p(1), p(2))
		okB := expect(b, 0, p(0), p(1), p(2)) // B has been silent for as long as A
		return okA && okB && stop(b) && stop(a)
	})
	leave := func(name string, firstA bool) {
		run(name, func() bool {
			a, b := sub("A"), sub("B")
			if a == nil || b == nil {
				return false
			}
			first, second := a, b
			if !firstA {
				first, second = b, a
			}
			if !stop(first) || !send(p(0)) || !expect(second, q, p(0)) || !stop(second) {
				return false
			}
			c := sub("C")
			if c == nil {
				return false
			}
			if !send(p(1)) || !send(p(2)) {
				return false
			}
			return expect(c, q, p(1), p(2)) && stop(c)
		})
	}
	leave("cancel-A-B", true)
	leave("cancel-B-A", false)
}

func (r *runner) signal(a Action) {
	helper, ok := r.h.helper(r.itf.Name, r.tag)
	if !ok {
		r.fail("no-helper", "", "Activate was not called with a signal helper", "")
		return
	}
	em := reflect.ValueOf(helper).MethodByName(a.ImplName)
	if !em.IsValid() {
		r.fail("helper-method-missing", a.ImplName, fmt.Sprintf("the signal helper has no method %s for IDL signal %s", a.ImplName, a.IDLName), "")
		return
	}
	var in []reflect.Type
	for i := 0; i < em.Type().NumIn(); i++ {
		in = append(in, em.Type().In(i))
		if r.via != "" && holdsObject(em.Type().In(i)) {
			return // object-typed positions are driven on the service's object only
		}
	}
	sub := r.newSubscriber(a.ProxyName, "A")
	if sub == nil {
		return
	}
	defer func() {
		if sub.cancel != nil {
			go sub.cancel()
		}
	}()
	if curCtx != nil {
		// objects in a payload are what the service emits: hosted by itself or
		// by another service (objects.go)
		curCtx.mode = "payload"
	}
	emit := func(args []reflect.Value, cs string) bool {
		out, pmsg, to := callT(em, args)
		if to {
			r.fail("timeout", "emit", cs+" did not return", cs)
			return false
		}
		if pmsg != "" {
			r.fail("panic", pmsg, cs+" panicked: "+pmsg, cs)
			return false
		}
		if err := errOf(out); err != nil {
			r.fail("emit-error", err.Error(), fmt.Sprintf("%s returned error %q", cs, err), cs)
			return false
		}
		return true
	}
	tps := tuples(in)
	const batch = 3
	// history "one subscriber": every payload, exactly one copy of each, in order
	for k := 0; k < len(tps); k += batch {
		hi := k + batch
		if hi > len(tps) {
			hi = len(tps)
		}
		for _, args := range tps[k:hi] {
			cs := fmt.Sprintf("%s%s", a.ImplName, showArgs(args))
			if r.res.Sample == "" {
				r.res.Sample = cs
			}
			r.res.Cases++
			r.nested("payload", args...)
			r.countObjects("payload", args)
			if !emit(args, cs) {
				return
			}
		}
		last := time.Duration(0)
		if hi == len(tps) {
			last = quiet
		}
		got, closed := sub.take(hi-k, last)
		r.res.Checks += hi - k
		if f, what := classify(got, tps[k:hi], tps[:k], closed); f != "" {
			cs := fmt.Sprintf("%s%s", a.ImplName, showArgs(tps[k]))
			r.fail(f, "", fmt.Sprintf("%s (emissions %d..%d of %d, one subscriber): %s", a.ImplName, k+1, hi, len(tps), what), cs)
			if f != "event-differs" {
				return
			}
		}
	}
	if len(r.res.Violations) > 0 {
		return
	}
	if !r.stop(sub, a.ProxyName) {
		return
	}
	if r.via != "" {
		return // the subscriber histories are driven on the service's object
	}
	r.histories(a.ProxyName, a.ImplName, tps, emit)
}

func (r *runner) property(a Action) {
	get := r.proxy.MethodByName("Get" + a.ProxyName)
	set := r.proxy.MethodByName("Set" + a.ProxyName)
	if !get.IsValid() || !set.IsValid() {
		r.fail("proxy-method-missing", "Get/Set"+a.ProxyName, fmt.Sprintf("the generated proxy lacks Get%s / Set%s for IDL property %s", a.ProxyName, a.ProxyName, a.IDLName), "")
		return
	}
	if set.Type().NumIn() != 1 || get.Type().NumOut() != 2 {
		r.fail("property-shape", "", "unexpected getter / setter shape", "")
		return
	}
	t := set.Type().In(0)
	if r.via != "" && holdsObject(t) {
		return // object-typed positions are driven on the service's object only
	}
	sub := r.newSubscriber("Subscribe"+a.ProxyName, "A")
	subscribed := sub != nil
	defer func() {
		if sub != nil && sub.cancel != nil {
			go sub.cancel()
		}
	}()
	vals := Vals(t)
	var sent [][]reflect.Value
	for _, v := range vals {
		cs := fmt.Sprintf("Set%s(%s)", a.ProxyName, show(v))
		if r.res.Sample == "" {
			r.res.Sample = cs
		}
		r.res.Cases++
		r.nested("property", v)
		r.countObjects("property", []reflect.Value{v})
		r.h.reset(nil)
		out, pmsg, to := callT(set, []reflect.Value{v})
		if to {
			r.fail("timeout", "set", cs+" did not return", cs)
			return
		}
		if pmsg != "" {
			r.fail("panic", pmsg, cs+" panicked: "+pmsg, cs)
			continue
		}
		if err := errOf(out); err != nil {
			r.fail("set-error", err.Error(), fmt.Sprintf("%s returned error %q", cs, err), cs)
			continue
		}
		// the implementation's On<Name>Change saw the value
		calls := r.h.snapshot()
		r.res.Checks++
		okc := false
		for _, c := range calls {
			if c.Method == "On"+a.ImplName+"Change" && c.Tag == r.tag {
				okc = true
				if len(c.Args) == 1 {
					got := reflect.ValueOf(c.Args[0])
					if got.IsValid() && got.Type() == v.Type() && !Equal(v, got) {
						r.fail("onchange-differs", "", fmt.Sprintf("%s: On%sChange received %s", cs, a.ImplName, show(got)), cs)
					}
				}
			}
		}
		if !okc {
			r.fail("onchange-not-called", "", fmt.Sprintf("%s: On%sChange was not invoked", cs, a.ImplName), cs)
		}
		out, pmsg, to = callT(get, nil)
		r.res.Checks++
		if to {
			r.fail("timeout", "get", "Get"+a.ProxyName+" did not return", cs)
			return
		}
		if pmsg != "" {
			r.fail("panic", pmsg, "Get"+a.ProxyName+" panicked: "+pmsg, cs)
			continue
		}
		if err := errOf(out); err != nil {
			r.fail("get-error", err.Error(), fmt.Sprintf("Get%s after %s returned error %q", a.ProxyName, cs, err), cs)
			continue
		}
		if !Equal(v, out[0]) {
			r.fail("get-differs", "", fmt.Sprintf("after %s, Get%s returned %s", cs, a.ProxyName, show(out[0])), cs)
		}
		if subscribed {
			// history "one subscriber": exactly one update per successful Set, in order
			last := time.Duration(0)
			if len(sent) == len(vals)-1 {
				last = quiet
			}
			got, closed := sub.take(1, last)
			r.res.Checks++
			if f, what := classify(got, [][]reflect.Value{{v}}, sent, closed); f != "" {
				r.fail(f, "property", fmt.Sprintf("%s (one subscriber): %s", cs, what), cs)
				if f != "event-differs" {
					subscribed = false
				}
			}
			sent = append(sent, []reflect.Value{v})
		}
	}
	if len(r.res.Violations) > 0 || sub == nil {
		return
	}
	if !r.stop(sub, "Subscribe"+a.ProxyName) {
		return
	}
	if r.via != "" {
		return // the subscriber histories are driven on the service's object
	}
	var all [][]reflect.Value
	for _, v := range vals {
		all = append(all, []reflect.Value{v})
	}
	r.histories("Subscribe"+a.ProxyName, "Set"+a.ProxyName, all, func(args []reflect.Value, cs string) bool {
		out, pmsg, to := callT(set, args)
		if to {
			r.fail("timeout", "set", cs+" did not return", cs)
			return false
		}
		if pmsg != "" {
			r.fail("panic", pmsg, cs+" panicked: "+pmsg, cs)
			return false
		}
		if err := errOf(out); err != nil {
			r.fail("set-error", err.Error(), fmt.Sprintf("%s returned error %q", cs, err), cs)
			return false
		}
		return true
	})
}

// Main is the entry point of a generated driver.
func Main(itfs []Interface) {
	only := flag.String("only", "", "run only this interface.action (IDL name)")
	skip := flag.String("skip", "", "comma separated interface.action list to skip")
	sock := flag.String("sock", "", "unix socket path")
	shard := flag.String("shard", "0/1", "run the actions whose index is i modulo n")
	deadline := flag.Int64("deadline", 0, "unix time after which no further action is started")
	flag.Parse()
	var shI, shN int
	if _, err := fmt.Sscanf(*shard, "%d/%d", &shI, &shN); err != nil || shN < 1 {
		shI, shN = 0, 1
	}
	// die with the parent (a killed check must not leave servers behind)
	ppid := os.Getppid()
	go func() {
		for {
			time.Sleep(time.Second)
			if os.Getppid() != ppid {
				os.Exit(4)
			}
		}
	}()
	skipSet := map[string]bool{}
	for _, s := range strings.Split(*skip, ",") {
		if s != "" {
			skipSet[s] = true
		}
	}
	enc := json.NewEncoder(os.Stdout)
	fatal := func(format string, args ...interface{}) {
		enc.Encode(map[string]string{"fatal": fmt.Sprintf(format, args...)})
		os.Exit(3)
	}
	os.Remove(*sock)
	addr := "unix://" + *sock
	server, err := dir.NewServer(addr, nil)
	if err != nil {
		fatal("server: %v", err)
	}
	h := &Handler{helpers: map[string]interface{}{}, acts: map[string]bus.Activation{}, instVal: map[string]int32{}, tagHelpers: map[string]interface{}{}}
	registerObjectTypes(itfs)
	for _, itf := range itfs {
		if _, err := server.NewService(itf.Service, itf.NewObject(h)); err != nil {
			fatal("register %s: %v", itf.Service, err)
		}
	}
	session, err := sess.NewSession(addr)
	if err != nil {
		fatal("session: %v", err)
	}
	idx := 0
	for _, itf := range itfs {
		p, err := itf.NewProxy(session)
		if err != nil {
			fatal("proxy %s: %v", itf.Name, err)
		}
		pv := reflect.ValueOf(p)
		for _, a := range itf.Actions {
			key := itf.Name + "." + a.Kind + ":" + a.IDLName
			idx++
			if *only == "" && (idx-1)%shN != shI {
				continue
			}
			if (*only != "" && *only != key) || skipSet[key] {
				continue
			}
			if *deadline > 0 && time.Now().Unix() >= *deadline {
				enc.Encode(map[string]string{"done": "deadline"})
				os.Remove(*sock)
				os.Exit(0)
			}
			enc.Encode(map[string]string{"begin": key})
			res := &Result{Itf: itf.Name, Atom: a.Atom, Kind: a.Kind, IDLName: a.IDLName}
			r := &runner{h: h, itf: itf, proxy: pv, res: res, seen: map[string]bool{}, session: session}
			r.objectContext()
			uses := usesSoFar()
			switch a.Kind {
			case "method":
				r.method(a)
			case "signal":
				r.signal(a)
			case "property":
				r.property(a)
			}
			if a.Created && len(res.Violations) == 0 && res.Skipped == "" {
				// the same action on an object made with the generated Create<X>,
				// through both of its proxies (twin.go)
				r.created(a)
			}
			res.ObjectUses = usesSoFar() - uses
			enc.Encode(res)
		}
	}
	enc.Encode(map[string]string{"done": "ok"})
	os.Remove(*sock)
	os.Exit(0)
}
