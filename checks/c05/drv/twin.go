package drv

// Objects made with the generated constructor Create<X>(session, service,
// impl). Such an object is reachable in two ways: through the proxy Create<X>
// returns to its creator (an in-process bus.DirectClient with a mailbox of its
// own) and, like any object of the service, through a proxy made from its
// reference by a client of the service (the mailbox service.Add gave it). The
// generated stub is the same, the paths to it are not.
//
// For every interface the driver makes one further object on the service (the
// "created object") and, for every action whose run on the service's own
// object was clean:
//
//	sequential   the action is driven again, every value case, through the
//	             creator's proxy and then through a remote proxy (methods:
//	             arguments received, result returned; signals: every payload to
//	             one subscriber; properties: set / get / update of every value);
//	             the invocation must reach the created object's implementation
//	two callers  (methods) one fixed interleaving per gate and order: the first
//	             caller's invocation is held at a gate in code the implementor
//	             owns, the second caller (the other proxy, other arguments, other
//	             result) runs to completion, then the first is let go. Gates: (a)
//	             inside the method body; (b) for results holding a dynamic value
//	             (`any`), inside that value's Write, which the generated stub
//	             calls while it serializes the reply - after half of its bytes.
//	             Orders: local proxy first, remote proxy first. Each invocation
//	             must have received its caller's arguments and each caller must
//	             get the result made for it.
//
// This is not a schedule exploration: exactly these interleavings are run
// (what the two mailboxes do between the gates is left to the Go scheduler and
// does not matter: one of the two callers is parked at a gate whenever the
// other one runs).

import (
	"bytes"
	"fmt"
	"io"
	"reflect"
	"strings"
	"sync"
	"time"

	"github.com/lugu/qiloop/bus"
	"github.com/lugu/qiloop/type/value"
)

const (
	viaLocal  = "created-object:local-proxy"
	viaRemote = "created-object:remote-proxy"
)

func isTwinTag(tag string) bool { return strings.HasPrefix(tag, "twin/") }

func (h *Handler) helper(itf, tag string) (interface{}, bool) {
	h.mu.Lock()
	defer h.mu.Unlock()
	if tag != "" {
		x, ok := h.tagHelpers[tag]
		return x, ok
	}
	x, ok := h.helpers[itf]
	return x, ok
}

type twin struct {
	tag           string
	local, remote reflect.Value
	err           error
}

var twins = map[string]*twin{}

// twinOf makes (once per interface and process) the created object of the
// runner's interface: on the service's own session and bus.Service, as an
// implementation does; the remote proxy is made from the object's reference
// through the driver's client session.
func (r *runner) twinOf() *twin {
	if t := twins[r.itf.Name]; t != nil {
		return t
	}
	t := &twin{tag: "twin/" + r.itf.Name}
	twins[r.itf.Name] = t
	act, ok := r.h.activation(r.itf.Name)
	if !ok {
		t.err = fmt.Errorf("the implementation of %s was never activated", r.itf.Name)
		return t
	}
	func() {
		defer func() {
			if p := recover(); p != nil {
				t.err = fmt.Errorf("Create%s panicked: %v", r.itf.Name, p)
			}
		}()
		d, err := r.itf.Create(act.Session, act.Service, r.h, t.tag)
		if err != nil {
			t.err = fmt.Errorf("Create%s: %v", r.itf.Name, err)
			return
		}
		pp, ok := d.(interface{ Proxy() bus.Proxy })
		if !ok || d == nil {
			t.err = fmt.Errorf("the proxy returned by Create%s has no Proxy()", r.itf.Name)
			return
		}
		p, err := r.session.Object(bus.ObjectReference(pp.Proxy()))
		if err != nil {
			t.err = fmt.Errorf("session.Object(reference of the object made by Create%s): %v", r.itf.Name, err)
			return
		}
		t.local = reflect.ValueOf(d)
		t.remote = reflect.ValueOf(r.itf.Wrap(r.session, p))
	}()
	return t
}

// created drives action a on the created object of the interface (see the
// head of this file); called when the run on the service's object was clean.
func (r *runner) created(a Action) {
	if r.itf.Create == nil || r.itf.Wrap == nil {
		return
	}
	t := r.twinOf()
	if t.err != nil {
		r.fail("created-object-setup", t.err.Error(), "the driver could not make a further object of "+r.itf.Name+" with the generated constructor: "+t.err.Error(), "")
		return
	}
	for _, x := range []struct {
		via   string
		proxy reflect.Value
	}{{viaLocal, t.local}, {viaRemote, t.remote}} {
		r2 := &runner{h: r.h, itf: r.itf, proxy: x.proxy, res: r.res, seen: r.seen, session: r.session, tag: t.tag, via: x.via}
		before := r.res.Cases
		switch a.Kind {
		case "method":
			r2.method(a)
		case "signal":
			r2.signal(a)
		case "property":
			r2.property(a)
		}
		if n := r.res.Cases - before; n > 0 {
			if r.res.Created == nil {
				r.res.Created = map[string]int{}
			}
			r.res.Created[a.Kind+"/"+strings.TrimPrefix(x.via, "created-object:")] += n
		}
		if len(r.res.Violations) > 0 {
			return
		}
	}
	if a.Kind == "method" {
		r.twoCallers(a, t)
	}
}

// ------------------------------------------------------------ two callers

// gatedValue is a dynamic value owned by the implementor: its Write - called
// by the generated stub while it serializes a reply - stops after half of the
// bytes until it is let go.
type gatedValue struct {
	inner   value.Value
	once    sync.Once
	entered chan struct{}
	release chan struct{}
}

func (g *gatedValue) Signature() string { return g.inner.Signature() }

func (g *gatedValue) Write(w io.Writer) error {
	var b bytes.Buffer
	if err := g.inner.Write(&b); err != nil {
		return err
	}
	data := b.Bytes()
	half := len(data) / 2
	if _, err := w.Write(data[:half]); err != nil {
		return err
	}
	g.once.Do(func() {
		close(g.entered)
		select {
		case <-g.release:
		case <-time.After(3 * waitBudget):
		}
	})
	_, err := w.Write(data[half:])
	return err
}

// holdsAny: a dynamic value occurs in t (at any depth, map keys excluded).
func holdsAny(t reflect.Type, depth int) bool {
	if t == valueType {
		return true
	}
	if depth > 6 {
		return false
	}
	switch t.Kind() {
	case reflect.Slice:
		return holdsAny(t.Elem(), depth+1)
	case reflect.Map:
		return holdsAny(t.Elem(), depth+1)
	case reflect.Struct:
		for i := 0; i < t.NumField(); i++ {
			if t.Field(i).PkgPath == "" && holdsAny(t.Field(i).Type, depth+1) {
				return true
			}
		}
	}
	return false
}

// withGate returns a copy of v in which the first dynamic value (depth first,
// lists by index, the smallest printed key of a map) is wrapped in g; ok is
// false when v holds none.
func withGate(v reflect.Value, g *gatedValue) (out reflect.Value, ok bool) {
	t := v.Type()
	if t == valueType {
		if v.IsNil() {
			return v, false
		}
		g.inner = v.Interface().(value.Value)
		out = reflect.New(t).Elem()
		out.Set(reflect.ValueOf(g))
		return out, true
	}
	switch t.Kind() {
	case reflect.Slice:
		for i := 0; i < v.Len(); i++ {
			if e, ok := withGate(v.Index(i), g); ok {
				c := reflect.MakeSlice(t, v.Len(), v.Len())
				reflect.Copy(c, v)
				c.Index(i).Set(e)
				return c, true
			}
		}
	case reflect.Map:
		keys := v.MapKeys()
		var best reflect.Value
		for _, k := range keys {
			if !best.IsValid() || fmt.Sprint(k) < fmt.Sprint(best) {
				best = k
			}
		}
		if best.IsValid() {
			if e, ok := withGate(v.MapIndex(best), g); ok {
				c := reflect.MakeMap(t)
				for _, k := range keys {
					c.SetMapIndex(k, v.MapIndex(k))
				}
				c.SetMapIndex(best, e)
				return c, true
			}
		}
	case reflect.Struct:
		for i := 0; i < v.NumField(); i++ {
			if t.Field(i).PkgPath != "" {
				continue
			}
			if e, ok := withGate(v.Field(i), g); ok {
				c := reflect.New(t).Elem()
				c.Set(v)
				c.Field(i).Set(e)
				return c, true
			}
		}
	}
	return v, false
}

// distinctOf builds two values of type t with pairwise different contents
// (scalars numbered consecutively, strings of 4 KiB, containers of 3 entries);
// same is true when the type has a single value (nothing to tell apart).
func distinctOf(t reflect.Type) (a, b reflect.Value, same bool) {
	ctr := 0
	freshPad = 4096
	defer func() { freshPad = 0 }()
	a = fresh(t, 3, &ctr)
	b = fresh(t, 3, &ctr)
	return a, b, Equal(a, b)
}

type callOutcome struct {
	out  []reflect.Value
	pmsg string
}

// twoCallers runs the fixed interleavings of two callers of one method of the
// created object.
func (r *runner) twoCallers(a Action, t *twin) {
	if !exported(a.ProxyName) {
		return
	}
	ml, mr := t.local.MethodByName(a.ProxyName), t.remote.MethodByName(a.ProxyName)
	if !ml.IsValid() || !mr.IsValid() {
		return
	}
	mt := ml.Type()
	if mt.NumOut() == 2 && holdsObject(mt.Out(0)) {
		return
	}
	var args [2][]reflect.Value
	for i := 0; i < mt.NumIn(); i++ {
		if holdsObject(mt.In(i)) {
			return // object-typed positions are driven on the service's object only
		}
		x, y, _ := distinctOf(mt.In(i))
		args[0] = append(args[0], x)
		args[1] = append(args[1], y)
	}
	void := mt.NumOut() == 1
	var rets [2]reflect.Value
	if !void {
		rets[0], rets[1], _ = distinctOf(mt.Out(0))
	}
	gates := []string{"method-body"}
	if !void && holdsAny(mt.Out(0), 0) {
		gates = append(gates, "result-marshalling")
	}
	for _, gate := range gates {
		for _, order := range []string{"local-first", "remote-first"} {
			first, second := ml, mr
			if order == "remote-first" {
				first, second = mr, ml
			}
			if !r.overlap(a, gate, order, first, second, args, rets, void) {
				return
			}
		}
	}
}

// overlap runs one interleaving; false: stop driving this method.
func (r *runner) overlap(a Action, gate, order string, first, second reflect.Value, args [2][]reflect.Value, rets [2]reflect.Value, void bool) bool {
	who := [2]string{"local proxy", "remote proxy"}
	if order == "remote-first" {
		who = [2]string{"remote proxy", "local proxy"}
	}
	cs := fmt.Sprintf("two callers of %s on a created object, gate in the %s: caller 1 (%s) %s%s", a.ProxyName, gate, who[0], a.ProxyName, showArgs(args[0]))
	if !void {
		cs += " -> " + show(rets[0])
	}
	cs += fmt.Sprintf(" is held at the gate while caller 2 (%s) %s%s", who[1], a.ProxyName, showArgs(args[1]))
	if !void {
		cs += " -> " + show(rets[1])
	}
	cs += " runs to completion"
	failure := func(kind string) string { return "two-callers:" + kind + "(gate=" + gate + "," + order + ")" }
	entered, release := make(chan struct{}), make(chan struct{})
	var released sync.Once
	letGo := func() { released.Do(func() { close(release) }) }
	defer letGo()
	steps := []*callStep{{}, {}}
	if !void {
		r0, r1 := rets[0], rets[1]
		steps[0].ret, steps[1].ret = &r0, &r1
	}
	switch gate {
	case "method-body":
		steps[0].entered, steps[0].release = entered, release
	case "result-marshalling":
		g, ok := withGate(rets[0], &gatedValue{entered: entered, release: release})
		if !ok {
			return true
		}
		steps[0].ret = &g
	}
	r.h.reset(nil)
	r.h.mu.Lock()
	r.h.script = steps
	r.h.mu.Unlock()
	r.res.Cases++
	call := func(m reflect.Value, in []reflect.Value) chan callOutcome {
		ch := make(chan callOutcome, 1)
		go func() {
			defer func() {
				if p := recover(); p != nil {
					ch <- callOutcome{nil, fmt.Sprint(p)}
				}
			}()
			ch <- callOutcome{m.Call(in), ""}
		}()
		return ch
	}
	ch1 := call(first, args[0])
	select {
	case <-entered:
	case o := <-ch1:
		r.fail(failure("gate-not-reached"), "", cs+": caller 1 returned ("+outcomeText(o)+") without its invocation reaching the gate", cs)
		return false
	case <-time.After(waitBudget):
		r.fail(failure("gate-not-reached"), "timeout", cs+fmt.Sprintf(": the invocation of caller 1 did not reach the gate within %v", waitBudget), cs)
		return false
	}
	// caller 2, through the other proxy (the other mailbox)
	ch2 := call(second, args[1])
	var o1, o2 callOutcome
	overlapped := true
	select {
	case o2 = <-ch2:
	case <-time.After(5 * time.Second):
		// the two paths are served one after the other here: no overlap to judge,
		// the calls are still judged as a sequence
		overlapped = false
		letGo()
		select {
		case o2 = <-ch2:
		case <-time.After(waitBudget):
			r.fail(failure("timeout"), "caller2", cs+": caller 2 did not return", cs)
			return false
		}
	}
	letGo()
	select {
	case o1 = <-ch1:
	case <-time.After(waitBudget):
		r.fail(failure("timeout"), "caller1", cs+": caller 1 did not return after the gate was opened", cs)
		return false
	}
	if r.res.Overlaps == nil {
		r.res.Overlaps = map[string]int{}
	}
	if overlapped {
		r.res.Overlaps[gate+"/"+order]++
	} else {
		r.res.Overlaps["served-one-after-the-other/"+gate+"/"+order]++
	}
	for i, o := range []callOutcome{o1, o2} {
		if o.pmsg != "" {
			r.fail(failure("panic"), o.pmsg, fmt.Sprintf("%s: caller %d panicked: %s", cs, i+1, o.pmsg), cs)
			return false
		}
		if err := errOf(o.out); err != nil {
			r.fail(failure("call-error"), err.Error(), fmt.Sprintf("%s: caller %d got the error %q", cs, i+1, err), cs)
			return false
		}
	}
	calls := r.h.snapshot()
	r.res.Checks++
	if len(calls) != 2 {
		r.fail(failure("impl-invocations"), fmt.Sprint(len(calls)), fmt.Sprintf("%s: the implementation was invoked %d times", cs, len(calls)), cs)
		return false
	}
	ok := true
	for i, c := range calls {
		// invocations are recorded in order of arrival: caller 1 reached the gate
		// before caller 2 was started
		if c.Method != a.ImplName || c.Itf != r.itf.Name || c.Tag != "twin/"+r.itf.Name || len(c.Args) != len(args[i]) {
			r.fail(failure("wrong-impl-method"), c.Method, fmt.Sprintf("%s: invocation %d reached %s.%s of object %q with %d arguments", cs, i+1, c.Itf, c.Method, c.Tag, len(c.Args)), cs)
			return false
		}
		for j := range args[i] {
			r.res.Checks++
			got := reflect.ValueOf(c.Args[j])
			if !got.IsValid() {
				got = reflect.Zero(args[i][j].Type())
			}
			if got.Type() != args[i][j].Type() && got.Type().ConvertibleTo(args[i][j].Type()) {
				got = got.Convert(args[i][j].Type())
			}
			if !Equal(args[i][j], got) {
				what := fmt.Sprintf("%s: the invocation made for caller %d received parameter %d as %s", cs, i+1, j, show(got))
				if Equal(args[1-i][j], got) {
					what += " - the argument of the other caller"
				}
				r.fail(failure("args-differ"), "", what, cs)
				ok = false
			}
		}
	}
	if !void {
		for i, o := range []callOutcome{o1, o2} {
			r.res.Checks++
			if !Equal(rets[i], o.out[0]) {
				what := fmt.Sprintf("%s: caller %d got %s", cs, i+1, show(o.out[0]))
				if Equal(rets[1-i], o.out[0]) {
					what += " - the result made for the other caller"
				}
				r.fail(failure("result-differs"), "", what, cs)
				ok = false
			}
		}
	}
	return ok
}

func outcomeText(o callOutcome) string {
	if o.pmsg != "" {
		return "panic: " + o.pmsg
	}
	if err := errOf(o.out); err != nil {
		return "error: " + err.Error()
	}
	return "no error"
}
