package main

// The identifier hygiene family: every name of every table (names.go, plus the
// hand-written floor of universe.go) in every identifier role of an IDL
// package, in the IDL's usual spelling (first letter lower case) and
// capitalised (the form the generator's CleanName produces).
//
//	role            IDL text of the atom (N = the name under test)
//	method-name     fn N(alpha: int32) -> int32
//	signal-name     sig N(alpha: int32)
//	property-name   prop N(alpha: int32)
//	param-name@method    fn pm<k>(N: int32, omega: str) -> int32
//	param-name@signal    sig ps<k>(N: int32)
//	param-name@property  prop pp<k>(N: int32)
//	struct-name     struct N { a: int32 } + echo method and signal over N
//	field-name      struct Hf<k> { N: int32; zz: str } + echo method and signal over it
//	enum-name       enum N { he<k> = 1 } + a plain method (generated and type-checked alone only)
//	const-name      enum Hc<k> { N = 1; hc<k>b = 2 } + a plain method
//	interface-name  interface N { fn im(alpha: int32) -> int32; sig is(alpha: int32) }
//	package-name    package N + a plain interface (generated and type-checked, never built into a driver)
//
// Package-level templates (generated-toplevel): for every identifier the
// generated code builds from an interface name (<Itf>Proxy, stub<Itf>,
// Create<Itf>, ...), that identifier built from Main as struct, enum and
// constant name next to interface Main; for those built from a structure name
// (read<Struct>, write<Struct>) the same next to structure Pt.
//
// Group of an atom = "<role>=<table>" ("/capitalised" appended for the
// capitalised spelling, "@kind" for parameters).

import (
	"fmt"
	"strings"
)

type hygieneTables struct {
	tables    []nameTable
	templates []nameTemplate
	notes     []string
}

// tables whose names are method names the generated proxy / stub inherits or declares
var methodTables = map[string]bool{"ObjectProxy-method": true, "Proxy-method": true, "Actor-method": true,
	"generated-method": true, "reserved": true}

// (the generator's own tables, whatever they are called, count as both kinds)
func isMethodTable(t string) bool { return methodTables[t] || strings.HasPrefix(t, "signature.") }
func isScopeTable(t string) bool  { return scopeTables[t] || strings.HasPrefix(t, "signature.") }

// tables whose names live in the scope of a generated function body
var scopeTables = map[string]bool{"keyword": true, "predeclared": true, "package": true, "generated-local": true}

// staticFloor: the hand-written pools, merged into the derived tables.
var staticFloor = []nameTable{
	{id: "keyword", names: goKeywords},
	{id: "predeclared", names: predeclared},
	{id: "package", names: packageNames},
	{id: "generated-local", names: generatedLocals},
	{id: "reserved", names: reservedNames},
}

// interface names of the hand-written atoms (universe.go)
var staticInterfaceName = map[string]bool{"lowercase": true, "With_underscore": true, "Object": true, "ServiceZero": true, "Proxy": true, "Stub": true}

type hname struct {
	table string
	name  string // as the table spells it
}

// assign gives every name to the first table that holds it (compared by
// lower-cased first letter: `MetaObject` and `metaObject` are one name).
func (h *hygieneTables) assign() (out []hname, sizes map[string]int) {
	seen := map[string]bool{}
	sizes = map[string]int{}
	var order []nameTable
	order = append(order, h.tables...)
	order = append(order, staticFloor...)
	for _, t := range order {
		for _, n := range t.names {
			if n == "" || n == "_" || !identRe.MatchString(n) {
				continue
			}
			k := lowerFirst(n)
			if seen[k] {
				continue
			}
			seen[k] = true
			out = append(out, hname{t.id, n})
			sizes[t.id]++
		}
	}
	return out, sizes
}

func hygieneAtoms(tier string, h *hygieneTables, id func(string) string) []*atom {
	var as []*atom
	thorough := tier == "thorough"
	one := []param{{pA, "int32"}}
	mk := func(group, name string, driven bool, acts []action, decls ...string) *atom {
		a := &atom{id: id("h"), class: group + ":" + name, hgroup: group, hname: name, hygiene: true, actions: acts, decls: decls, aloneOnly: !driven && !thorough}
		as = append(as, a)
		return a
	}
	decl := func(text string) string {
		k := id("hd")
		declText[k] = text
		return k
	}
	plain := func(k string) []action {
		return []action{{kind: "method", name: "hm" + k, params: one, ret: "int32"}}
	}
	names, _ := h.assign()
	for _, hn := range names {
		spell := []struct{ s, suffix string }{{lowerFirst(hn.name), ""}}
		if u := upperFirst(hn.name); u != spell[0].s {
			spell = append(spell, struct{ s, suffix string }{u, "/capitalised"})
		}
		for _, sp := range spell {
			n, t := sp.s, hn.table+sp.suffix
			usual := sp.suffix == ""
			k := id("x")
			first := len(as)
			packOf := func(a *atom) {
				role := a.hgroup[:strings.Index(a.hgroup, "-name=")]
				switch role {
				case "struct", "field", "enum", "const":
					a.pack = role
				}
				a.pack += sp.suffix
			}
			// ---- interface names: capitalised only. An interface whose name starts
			// with a lower-case letter never compiles (the listed finding
			// interface-name:lowercase, whose atom stays in the universe), whatever
			// the name is: that spelling would tell nothing about the name.
			if (!usual || len(spell) == 1) && !staticInterfaceName[n] {
				a := mk("interface-name="+t, n, false, []action{{kind: "method", name: "im", params: one, ret: "int32"}, {kind: "signal", name: "is", params: one}})
				a.itfName = n
			}
			if !usual && !thorough {
				continue // quick: the other roles in the IDL's usual spelling only
			}
			// ---- action names
			drive := usual && (isMethodTable(hn.table) || hn.table == "keyword")
			mk("method-name="+t, n, drive, []action{{kind: "method", name: n, params: one, ret: "int32"}})
			mk("signal-name="+t, n, drive && isMethodTable(hn.table), []action{{kind: "signal", name: n, params: one}})
			mk("property-name="+t, n, drive && isMethodTable(hn.table), []action{{kind: "property", name: n, params: one}})
			// ---- parameter names: one atom per action kind (the three code paths clean names differently)
			drive = usual && isScopeTable(hn.table)
			mk("param-name="+t+"@method", n, drive, []action{{kind: "method", name: "pm" + k, params: []param{{n, "int32"}, {"omega", "str"}}, ret: "int32"}})
			mk("param-name="+t+"@signal", n, drive, []action{{kind: "signal", name: "ps" + k, params: []param{{n, "int32"}}}})
			mk("param-name="+t+"@property", n, drive, []action{{kind: "property", name: "pp" + k, params: []param{{n, "int32"}}}})
			// ---- declarations
			if !idlBasicType(n) {
				// (a structure called like a basic type of the IDL cannot be referred to)
				d := decl("struct " + n + "\n\ta: int32\nend\n")
				mk("struct-name="+t, n, false, []action{methodEcho("sm"+k, n), {kind: "signal", name: "ss" + k, params: []param{{pA, n}}}}, d)
			}
			d := decl("struct Hf" + k + "\n\t" + n + ": int32\n\tzz: str\nend\n")
			mk("field-name="+t, n, false, []action{methodEcho("fm"+k, "Hf"+k), {kind: "signal", name: "fs" + k, params: []param{{pA, "Hf" + k}}}}, d)
			d = decl("enum " + n + "\n\the" + k + " = 1\nend\n")
			// (type-checked alone in both tiers: the Go type of an enumeration keeps
			// the raw IDL name and shadows what it is called like for a whole package)
			mk("enum-name="+t, n, false, plain("e"+k), d).aloneOnly = true
			d = decl("enum Hc" + k + "\n\t" + n + " = 1\n\thc" + k + "b = 2\nend\n")
			mk("const-name="+t, n, false, plain("c"+k), d)
			a := mk("package-name="+t, n, false, plain("p"+k))
			a.pkgName, a.aloneOnly = n, true
			for _, x := range as[first:] {
				packOf(x)
			}
		}
	}
	// ---- shapes (hand-written: no table to derive them from)
	for _, n := range []string{"_", "_a", "a_b", "a_", "__"} {
		k := id("x")
		mk("param-name=underscore@method", n, true, []action{{kind: "method", name: "pm" + k, params: []param{{n, "int32"}, {"omega", "str"}}, ret: "int32"}})
		mk("param-name=underscore@signal", n, true, []action{{kind: "signal", name: "ps" + k, params: []param{{n, "int32"}}}})
		mk("param-name=underscore@property", n, true, []action{{kind: "property", name: "pp" + k, params: []param{{n, "int32"}}}})
	}
	for _, n := range []string{"A", "Ab", "aB"} {
		k := id("x")
		mk("param-name=case@method", n, true, []action{{kind: "method", name: "pm" + k, params: []param{{n, "int32"}, {"omega", "str"}}, ret: "int32"}})
		mk("param-name=case@signal", n, true, []action{{kind: "signal", name: "ps" + k, params: []param{{n, "int32"}}}})
		mk("param-name=case@property", n, true, []action{{kind: "property", name: "pp" + k, params: []param{{n, "int32"}}}})
	}
	for _, n := range []string{"_m", "m_", "a_b", "A", "Ab", "x1", "_", "mé"} {
		mk("method-name=shape", n, true, []action{{kind: "method", name: n, params: one, ret: "int32"}})
	}
	// ---- package-level templates
	for _, tp := range h.templates {
		if tp.prefix == "" && tp.suffix == "" && tp.kind != "interface" {
			continue // the declaration's own name
		}
		base, needs := "Main", []string(nil)
		if tp.kind == "struct" {
			base, needs = "Pt", []string{"Pt"}
		} else if tp.kind == "enum" {
			continue
		}
		full := tp.prefix + base + tp.suffix
		spell := []string{lowerFirst(full)}
		if u := upperFirst(full); u != spell[0] {
			spell = append(spell, u)
		}
		for i, n := range spell {
			sfx := ""
			if i == 1 {
				if !thorough {
					continue
				}
				sfx = "/capitalised"
			}
			k := id("x")
			acts := plain("t" + k)
			if tp.kind == "struct" {
				acts = append(acts, methodEcho("tp"+k, "Pt"))
			}
			d := decl("struct " + n + "\n\ta: int32\nend\n")
			mk("struct-name=generated-toplevel"+sfx, tp.String(), false, append(append([]action{}, acts...), methodEcho("ts"+k, n)), append([]string{d}, needs...)...).pack = "struct" + sfx
			d = decl("enum " + n + "\n\tht" + k + " = 1\nend\n")
			mk("enum-name=generated-toplevel"+sfx, tp.String(), false, acts, append([]string{d}, needs...)...).aloneOnly = true
			d = decl("enum Ht" + k + "\n\t" + n + " = 1\nend\n")
			mk("const-name=generated-toplevel"+sfx, tp.String(), false, acts, append([]string{d}, needs...)...).pack = "const" + sfx
		}
	}
	return as
}

// hygieneCoverage: what the evidence says about the family.
func hygieneCoverage(h *hygieneTables, atoms []*atom) map[string]interface{} {
	_, sizes := h.assign()
	var tabs []string
	for _, t := range append(append([]nameTable{}, h.tables...), staticFloor...) {
		if n, ok := sizes[t.id]; ok {
			src := t.source
			if src == "" {
				src = "hand-written floor"
			}
			tabs = append(tabs, fmt.Sprintf("%s: %d names (%s)", t.id, n, src))
			delete(sizes, t.id)
		}
	}
	var tps []string
	for _, t := range h.templates {
		tps = append(tps, t.String())
	}
	groups := map[string]bool{}
	n, alone, rejected := 0, 0, 0
	for _, a := range atoms {
		if a.hgroup == "" {
			continue
		}
		n++
		groups[a.hgroup] = true
		if a.aloneOnly {
			alone++
		}
		if a.rejected {
			rejected++
		}
	}
	return map[string]interface{}{
		"tables":                       tabs,
		"package_level_templates":      uniqStr(tps),
		"notes":                        h.notes,
		"atoms":                        n,
		"groups":                       len(groups),
		"atoms_alone_verdict_only":     alone,
		"atoms_rejected_by_idl_parser": rejected,
	}
}

// idlBasicType: the IDL's type grammar reads n as a basic type, not as a
// reference to a declared type (decided by the repository's own parser: a
// reference to a type nobody declared is refused).
func idlBasicType(n string) bool {
	if v, ok := idlBasicMemo[n]; ok {
		return v
	}
	genMu.Lock()
	r := generate1Parse("package main\ninterface Main\n\tfn f(a: " + n + ")\nend\n")
	genMu.Unlock()
	idlBasicMemo[n] = r
	return r
}

var idlBasicMemo = map[string]bool{}

var _ = strings.Title
