// C05 — generated proxy and stub code compiles and the two halves are mutual
// inverses. Bounded-exhaustive over IDL programs: every action kind x every
// type of Sig(d) x the identifier hygiene set is generated with the
// repository's generator built from the current tree, type-checked alone and
// assembled, compiled, and driven through a real in-process server with every
// boundary value (drv.Vals) and, for signals and properties, through the
// subscriber histories of one session (drv.histories). The object family
// (objects.go, drv/objects.go) adds the actions with object-typed positions -
// an interface of the same package as parameter (one or two objects, a scalar
// before / after), as result, as signal payload, self and mutual reference -
// driven with objects hosted by the caller (client-side objects, id >= 2^31),
// by the called service and by another service, and judged by use: the
// implementation calls value() on what it received and returns what it got.
package main

import (
	"bufio"
	"bytes"
	"encoding/json"
	"fmt"
	"hash/fnv"
	"os"
	"os/exec"
	"path/filepath"
	"regexp"
	"sort"
	"strings"
	"sync"
	"time"

	"verif/checks/c05/drv"
	"verif/internal/report"
)

var digitsRe = regexp.MustCompile(`[0-9]+`)
var nonWordRe = regexp.MustCompile(`[^A-Za-z0-9_.:<>=\[\]{}()*,+-]+`)

func msgClass(msg string, limit int) string {
	msg = digitsRe.ReplaceAllString(msg, "N")
	msg = nonWordRe.ReplaceAllString(msg, "_")
	if len(msg) > limit {
		msg = msg[:limit]
	}
	return strings.Trim(msg, "_")
}

// reasonOf normalises a generator / compiler message: position prefix,
// digits and the atom's own identifiers removed.
var posRe = regexp.MustCompile(`^[^\s:]+\.go:\d+:\d+: `)

func reasonOf(a *atom, msg string) string {
	msg = posRe.ReplaceAllString(msg, "")
	msg = strings.TrimPrefix(msg, "Error ")
	for _, ac := range a.actions {
		for _, p := range ac.params {
			if len(p.name) > 1 || a.hygiene {
				msg = regexp.MustCompile(`\b`+regexp.QuoteMeta(p.name)+`\b`).ReplaceAllString(msg, "<param>")
			}
		}
		if len(ac.name) > 1 {
			msg = strings.ReplaceAll(msg, ac.name, "<action>")
			msg = strings.ReplaceAll(msg, strings.Title(ac.name), "<Action>")
		}
	}
	if i := strings.Index(a.class, ":"); i >= 0 && a.hygiene {
		if nm := a.class[i+1:]; len(nm) > 1 {
			msg = strings.ReplaceAll(msg, nm, "<name>")
			msg = strings.ReplaceAll(msg, strings.Title(nm), "<Name>")
		}
	}
	return msgClass(msg, 80)
}

// reasonCategory maps a generator / compiler message to a coarse, stable
// category (the message itself goes to the replay file).
func reasonCategory(stage, msg string) string {
	m := strings.ToLower(msg)
	has := func(xs ...string) bool {
		for _, x := range xs {
			if strings.Contains(m, x) {
				return true
			}
		}
		return false
	}
	switch {
	case stage == "generate-panic":
		return "generator-panics"
	case stage == "generate-hang":
		return "generator-hangs"
	case stage == "parse-error":
		return "idl-rejected"
	case stage == "generate-error" && has("expected "):
		return "output-not-go-syntax"
	case stage == "generate-error":
		return "generator-error"
	case has("redeclared", "already declared", "duplicate method", "duplicate field", "repeated on left side", "duplicate case", "must have a unique", "no new variables"):
		return "duplicate-declaration"
	case has("undefined:", "undeclared name", "is not a type", "not declared", "has no field or method", "not exported"):
		return "unresolved-identifier"
	case has("not enough arguments", "too many arguments", "assignment mismatch", "too many return", "not enough return", "missing return"):
		return "wrong-arity"
	case has("cannot use", "mismatched types", "invalid operation", "cannot convert", "as value or type", "does not implement"):
		return "type-mismatch"
	case has("declared and not used", "imported and not used"):
		return "unused"
	}
	return "other"
}

// hygiene classes name the group (role and table), not the particular identifier
func classOf(a *atom) string {
	if a.hygiene && a.hgroup != "" {
		return a.hgroup
	}
	return a.class
}

type finding struct {
	fp     string
	what   string
	replay map[string]interface{}
	atoms  []string
}

type checker struct {
	chk      *report.Checker
	imp      mapImporter
	root     string
	work     string
	overlay  string
	findings map[string]*finding
	raw      []rawFail
	rejected []string
	order    []string
	mu       sync.Mutex
}

func (c *checker) add(fp, what string, atomID string, replay map[string]interface{}) {
	c.mu.Lock()
	defer c.mu.Unlock()
	fp = report.FPEscape(fp)
	f, ok := c.findings[fp]
	if !ok {
		f = &finding{fp: fp, what: what, replay: replay}
		c.findings[fp] = f
		c.order = append(c.order, fp)
	}
	f.atoms = append(f.atoms, atomID)
}

// rawFail is a failure of one atom before attribution.
type rawFail struct {
	action string
	a      *atom
	phase  string // compile | method | signal | property
	fail   string // reason category / failure kind
	what   string
	replay map[string]interface{}
}

func (r rawFail) key() string {
	k := r.phase + "|" + r.fail
	if r.phase == "compile" && len(r.a.actions) > 0 {
		k += "|" + r.a.actions[0].kind
	}
	return k
}

// aloneVerdict: what generating and type-checking one atom in a package of
// its own gave.
type aloneVerdict struct {
	ok       bool
	rejected bool
	fail     *rawFail
}

var genNanos int64   // time spent in the generator (under genMu)
var genMu sync.Mutex // the generator keeps state in package-level variables (idl.InterfaceTypeForStub)

// verdictAlone generates and type-checks one atom in a package of its own
// (generation one atom at a time, type-checking in parallel).
func (c *checker) verdictAlone(a *atom) aloneVerdict {
	pkgName := "main"
	if a.pkgName != "" {
		pkgName = a.pkgName
	}
	idlText := renderIDL(pkgName, []*atom{a})
	genMu.Lock()
	t0 := time.Now()
	r := generate(idlText)
	genNanos += time.Since(t0).Nanoseconds()
	genMu.Unlock()
	if r.failure == "parse-error" {
		// not a program of the universe: the property quantifies over the
		// packages the IDL parser accepts
		return aloneVerdict{rejected: true}
	}
	if r.failure != "" {
		return aloneVerdict{fail: &rawFail{"", a, "compile", reasonCategory(r.failure, r.msg),
			fmt.Sprintf("the generator fails on a package accepted by the IDL parser (%s): %s; atom class %s", r.failure, r.msg, a.class),
			map[string]interface{}{"idl": idlText, "failure": r.failure, "message": r.msg, "class": a.class}}}
	}
	errs := typeCheck(c.imp, map[string][]byte{"gen.go": r.src})
	if len(errs) > 0 {
		return aloneVerdict{fail: &rawFail{"", a, "compile", reasonCategory("type-error", errs[0]),
			fmt.Sprintf("the generated code does not compile: %s (%d errors); atom class %s", errs[0], len(errs), a.class),
			map[string]interface{}{"idl": idlText, "failure": "type-error", "errors": errs, "class": a.class}}}
	}
	if len(a.actions) > 0 && !implementorRe.Match(r.src) {
		// accepted, generated, compiles - and holds no stub or proxy at all
		return aloneVerdict{fail: &rawFail{"", a, "compile", "no-stub-generated",
			fmt.Sprintf("the generator accepts the package and emits code that declares no <X>Implementor interface: nothing was generated for the interface; atom class %s", a.class),
			map[string]interface{}{"idl": idlText, "failure": "no-stub-generated", "class": a.class}}}
	}
	return aloneVerdict{ok: true}
}

var implementorRe = regexp.MustCompile(`(?m)^type \w+Implementor interface`)

// verdictsAlone gives every atom its alone verdict; the failures are recorded
// in the order of the atoms.
func (c *checker) verdictsAlone(atoms []*atom) (passing []*atom, failed int) {
	res := make([]aloneVerdict, len(atoms))
	var wg sync.WaitGroup
	next := make(chan int, len(atoms))
	for i := range atoms {
		next <- i
	}
	close(next)
	for w := 0; w < 8; w++ {
		wg.Add(1)
		go func() {
			defer wg.Done()
			for i := range next {
				res[i] = c.verdictAlone(atoms[i])
			}
		}()
	}
	wg.Wait()
	for i, a := range atoms {
		switch {
		case res[i].ok:
			passing = append(passing, a)
		case res[i].rejected:
			a.rejected = true
			c.rejected = append(c.rejected, a.class)
			failed++
		default:
			c.raw = append(c.raw, *res[i].fail)
			failed++
		}
	}
	return passing, failed
}

func crashLike(fail string) bool {
	return fail == "process-crash" || fail == "process-hang" || fail == "timeout" || strings.HasPrefix(fail, "panic")
}

// attribute gives every raw failure a class: a failing composite type is
// blamed on its smallest failing components (a proper sub-expression, or a
// member type of a struct, that fails the same way on its own), or on its
// constructor when every type built with that constructor fails the same way;
// otherwise on itself. Hygiene atoms keep their hygiene category.
func attribute(raw []rawFail, atoms []*atom, driven map[string]int) []string {
	failing := map[string]map[string]bool{} // key -> own class of failing type atoms
	partsOf := map[string][]string{}
	for _, a := range atoms {
		if !a.hygiene {
			partsOf[a.class] = a.parts
		}
	}
	for _, r := range raw {
		if r.a.hygiene {
			continue
		}
		if failing[r.key()] == nil {
			failing[r.key()] = map[string]bool{}
		}
		failing[r.key()][r.a.class] = true
	}
	// constructor rule
	ctorAll := map[string]bool{} // key|ctor -> every atom of that constructor and kind fails
	for key, set := range failing {
		f := strings.Split(key, "|")
		for _, ctor := range []string{"Vec", "Map", "Tuple"} {
			n, bad := 0, 0
			for _, a := range atoms {
				if a.hygiene || a.ctor != ctor || len(a.actions) == 0 {
					continue
				}
				kind := a.actions[0].kind
				if (f[0] == "compile" && len(f) == 3 && f[2] != kind) || (f[0] != "compile" && f[0] != kind) {
					continue
				}
				n++
				if set[a.class] {
					bad++
				}
			}
			if n >= 3 && bad == n {
				ctorAll[key+"|"+ctor] = true
			}
		}
	}
	// every driven action of a kind fails the same way: one class "*"
	allOfKind := map[string]bool{}
	{
		nKind := map[string]int{}
		for _, a := range atoms {
			for _, ac := range a.actions {
				nKind[ac.kind]++
			}
		}
		nFail := map[string]map[string]bool{}
		for _, r := range raw {
			if r.phase == "compile" {
				continue
			}
			if nFail[r.key()] == nil {
				nFail[r.key()] = map[string]bool{}
			}
			nFail[r.key()][r.a.id+"/"+r.action] = true
		}
		// actions of a kind that fail in any way: an action that fails
		// otherwise may never reach the step where the others fail (the
		// subscriber histories run only after a clean one-subscriber run)
		anyFail := map[string]map[string]bool{}
		for k, set := range nFail {
			kind := strings.Split(k, "|")[0]
			if anyFail[kind] == nil {
				anyFail[kind] = map[string]bool{}
			}
			for a := range set {
				anyFail[kind][a] = true
			}
		}
		for k, set := range nFail {
			kind := strings.Split(k, "|")[0]
			others := len(anyFail[kind]) - len(set)
			if driven[kind] >= 5 && len(set)+others >= driven[kind] && others*10 <= driven[kind] {
				allOfKind[k] = true
			}
		}
		_ = nKind
	}
	// object family: every unit of one position class of one interface (>= 3
	// of them) fails the same way: one class "<class>(*)"
	groupOf := func(a *atom) string {
		if !a.object || a.group == "" || a.known != "" {
			return ""
		}
		if a.itfName != "Oa" {
			return a.itfName + "." + a.group
		}
		return a.group
	}
	groupAll := map[string]bool{}
	{
		size := map[string]int{}
		for _, a := range atoms {
			if g := groupOf(a); g != "" {
				size[g]++
			}
		}
		bad := map[string]map[string]bool{}
		for _, r := range raw {
			if g := groupOf(r.a); g != "" {
				k := r.key() + "|" + g
				if bad[k] == nil {
					bad[k] = map[string]bool{}
				}
				bad[k][r.a.id] = true
			}
		}
		for k, set := range bad {
			g := k[strings.LastIndex(k, "|")+1:]
			if size[g] >= 3 && len(set) == size[g] {
				groupAll[k] = true
			}
		}
	}
	// identifier hygiene groups: a failure common to every atom of a group (the
	// ones the IDL parser accepted; at run time: the ones that were driven) is
	// attributed to the group, any other one to the group and the name
	hsize := map[string][2]int{} // group -> atoms accepted by the parser, atoms driven
	hfail := map[string]map[string]bool{}
	{
		compileFailed := map[string]bool{}
		for _, r := range raw {
			if r.phase == "compile" {
				compileFailed[r.a.id] = true
			}
			if r.a.hgroup != "" {
				k := r.key() + "|" + r.a.hgroup
				if hfail[k] == nil {
					hfail[k] = map[string]bool{}
				}
				hfail[k][r.a.id] = true
			}
		}
		for _, a := range atoms {
			if a.hgroup == "" || a.rejected {
				continue
			}
			n := hsize[a.hgroup]
			n[0]++
			if !a.aloneOnly && !compileFailed[a.id] {
				n[1]++
			}
			hsize[a.hgroup] = n
		}
	}
	atomName := map[string]string{}
	for _, a := range atoms {
		if a.hgroup != "" {
			atomName[a.id] = a.hname
		}
	}
	out := make([]string, len(raw))
	for i, r := range raw {
		if allOfKind[r.key()] {
			out[i] = "*"
			continue
		}
		if r.a.hygiene && r.a.hgroup != "" && r.a.hname != "" {
			size := hsize[r.a.hgroup][0]
			if r.phase != "compile" {
				size = hsize[r.a.hgroup][1]
			}
			set := hfail[r.key()+"|"+r.a.hgroup]
			switch {
			case len(set) >= size:
				out[i] = r.a.hgroup
			case r.phase != "compile":
				// run time: one fingerprint per name (each is confirmed on its own
				// action; which names fail may differ from run to run when the
				// failure depends on Go's map order)
				out[i] = r.a.hgroup + ":" + r.a.hname
			default:
				out[i] = r.a.hgroup + ":" + nameSet(set, atomName)
			}
			continue
		}
		if g := groupOf(r.a); g != "" && groupAll[r.key()+"|"+g] {
			out[i] = g + "(*)"
			continue
		}
		if r.a.hygiene {
			out[i] = classOf(r.a)
			continue
		}
		set := failing[r.key()]
		if crashLike(r.fail) {
			// a crash, hang or panic is blamed on a component that fails in any
			// way in the same phase (e.g. a mis-encoded scalar that makes the
			// peer read a garbage count)
			set = map[string]bool{}
			for k, v := range failing {
				if strings.HasPrefix(k, r.phase+"|") {
					for c := range v {
						set[c] = true
					}
				}
			}
		}
		var cands []string
		for _, p := range r.a.parts {
			if set[p] {
				minimal := true
				for _, q := range partsOf[p] {
					if set[q] {
						minimal = false
					}
				}
				if minimal {
					cands = append(cands, p)
				}
			}
		}
		// a blamed component that is itself blamed on its constructor
		ctorOf := func(class string) string {
			for _, c := range []string{"Vec", "Map", "Tuple"} {
				if strings.HasPrefix(class, c+"<") {
					return c
				}
			}
			return ""
		}
		for j, p := range cands {
			if c := ctorOf(p); c != "" && ctorAll[r.key()+"|"+c] {
				cands[j] = c + "<*>"
			}
		}
		switch {
		case len(cands) > 0:
			out[i] = strings.Join(uniqStr(cands), "+")
		case r.a.ctor != "" && ctorAll[r.key()+"|"+r.a.ctor]:
			out[i] = r.a.ctor + "<*>"
		default:
			out[i] = r.a.class
		}
	}
	return out
}

// assemble generates a package from atoms; returns sources or the errors.
type assembled struct {
	idl   string
	srcs  map[string][]byte
	errs  []string
	stage string
}

func (c *checker) assemble(atoms []*atom) assembled {
	atoms = withNeeds(atoms)
	as := assembled{idl: renderIDL("main", atoms)}
	r := generate(as.idl)
	if r.failure != "" {
		as.stage, as.errs = r.failure, []string{r.msg}
		return as
	}
	byItf := map[string][]*atom{}
	var names []string
	for _, a := range atoms {
		n := a.itfName
		if n == "" {
			n = "Main"
		}
		if _, ok := byItf[n]; !ok {
			names = append(names, n)
		}
		byItf[n] = append(byItf[n], a)
	}
	var gis []glueItf
	for _, n := range names {
		gis = append(gis, glueItf{n, byItf[n]})
	}
	as.srcs = map[string][]byte{"gen.go": r.src}
	if errs := typeCheck(c.imp, as.srcs); len(errs) > 0 {
		as.stage, as.errs = "type-error", errs
		return as
	}
	shims, mainSrc, err := makeGlue(r.src, r.pkg, gis)
	if err != nil {
		as.stage, as.errs = "glue", []string{err.Error()}
		return as
	}
	as.srcs["shims_gen.go"] = shims
	as.srcs["main_gen.go"] = mainSrc
	if errs := typeCheck(c.imp, as.srcs); len(errs) > 0 {
		as.stage, as.errs = "glue-type-error", errs
	}
	return as
}

// ddmin-style reduction: a minimal subset of atoms that still fails to assemble.
func (c *checker) minimise(atoms []*atom) []*atom {
	fails := func(s []*atom) bool { return len(s) > 0 && len(c.assemble(s).errs) > 0 }
	cur := atoms
	n := 2
	for len(cur) >= 2 {
		chunk := (len(cur) + n - 1) / n
		reduced := false
		for i := 0; i < len(cur); i += chunk {
			j := i + chunk
			if j > len(cur) {
				j = len(cur)
			}
			sub := cur[i:j]
			if fails(sub) {
				cur, n, reduced = append([]*atom{}, sub...), 2, true
				break
			}
			comp := append(append([]*atom{}, cur[:i]...), cur[j:]...)
			if n > 2 && fails(comp) {
				cur, n, reduced = comp, n-1, true
				break
			}
		}
		if !reduced {
			if n >= len(cur) {
				break
			}
			n *= 2
			if n > len(cur) {
				n = len(cur)
			}
		}
	}
	return cur
}

// ------------------------------------------------------------ driving

type drvResult struct {
	drv.Result
	Begin string `json:"begin"`
	Done  string `json:"done"`
	Fatal string `json:"fatal"`
}

type runOut struct {
	results  []drv.Result
	crashed  string // key of the action that was running when the driver died
	stderr   string
	fatal    string
	timeout  bool
	deadline bool
}

func (c *checker) runDriver(bin, dir string, args []string, limit time.Duration) runOut {
	var out runOut
	sock := filepath.Join(dir, fmt.Sprintf("s%d.sock", time.Now().UnixNano()%1000000))
	// the generated decoders allocate from wire counts: a mis-encoded argument
	// can ask for gigabytes, so the driver runs under an address-space cap
	sh := fmt.Sprintf(`ulimit -v %d; exec "$0" "$@"`, 4194304)
	cmd := exec.Command("sh", append([]string{"-c", sh, bin, "-sock", sock}, args...)...)
	cmd.Dir = dir
	var stderr bytes.Buffer
	cmd.Stderr = &stderr
	stdout, err := cmd.StdoutPipe()
	if err != nil {
		out.fatal = err.Error()
		return out
	}
	if err := cmd.Start(); err != nil {
		out.fatal = err.Error()
		return out
	}
	done := make(chan struct{})
	last := ""
	finished := false
	go func() {
		sc := bufio.NewScanner(stdout)
		sc.Buffer(make([]byte, 1<<20), 64<<20)
		for sc.Scan() {
			var r drvResult
			if json.Unmarshal(sc.Bytes(), &r) != nil {
				continue
			}
			switch {
			case r.Begin != "":
				last = r.Begin
			case r.Done != "":
				finished = true
				if r.Done == "deadline" {
					out.deadline = true
				}
			case r.Fatal != "":
				out.fatal = r.Fatal
			default:
				out.results = append(out.results, r.Result)
				last = ""
			}
		}
		close(done)
	}()
	select {
	case <-done:
	case <-time.After(limit):
		cmd.Process.Kill()
		<-done
		out.timeout = true
	}
	cmd.Wait()
	os.Remove(sock)
	out.stderr = stderr.String()
	if !finished && out.fatal == "" {
		out.crashed = last
		if last == "" {
			out.crashed = "(outside an action)"
		}
	}
	return out
}

func firstRepoFrame(stderr string) string {
	lines := strings.Split(stderr, "\n")
	for i := 0; i+1 < len(lines); i++ {
		if strings.HasPrefix(lines[i+1], "\t"+report.RepoDir()+"/") && !strings.HasPrefix(lines[i], "\t") {
			fn := lines[i]
			if j := strings.LastIndex(fn, "("); j > 0 {
				fn = fn[:j]
			}
			if j := strings.LastIndex(fn, "/"); j >= 0 {
				fn = fn[j+1:]
			}
			return fn
		}
	}
	return "unknown"
}

func panicLine(stderr string) string {
	for _, l := range strings.Split(stderr, "\n") {
		if strings.HasPrefix(l, "panic: ") || strings.HasPrefix(l, "fatal error: ") {
			return l
		}
	}
	return tailStr(stderr, 200)
}

func tailStr(s string, n int) string {
	if len(s) > n {
		return s[len(s)-n:]
	}
	return s
}

func main() {
	start := time.Now()
	chk := report.New("C05", "exploration")
	tier := report.Tier()
	root := report.Root()
	work := filepath.Join(root, ".work", "c05")
	if ents, err := os.ReadDir(work); err == nil {
		for _, e := range ents {
			if e.Name() != "check" {
				os.RemoveAll(filepath.Join(work, e.Name()))
			}
		}
	}
	os.MkdirAll(work, 0o755)
	c := &checker{chk: chk, root: root, work: work, overlay: os.Getenv("VERIF_OVERLAY"), findings: map[string]*finding{}}
	finish := func(cov map[string]interface{}) {
		os.Exit(chk.Finish(cov, []string{
			"small-scope hypothesis over programs: every action kind x every type of the stated universe x the identifier hygiene set, one atom at a time, then all compiling atoms together; interplay of more than the listed colliding pairs is only covered through the assembled packages",
			"'compiles' is decided by go/types on the generated file alone per atom (export data of the current tree) and by `go build` of the assembled packages",
			"Go names of actions are obtained from the repository's own naming functions (MetaObject.ForEachMethodAndSignal, signature.CleanMethodName/CleanName); constructors and the service name are discovered from the generated code by shape",
			"values: per-type boundary sets (DESIGN.md 1.1) plus the shrinking / equal-size lists of containers, argument tuples one position at a time plus the diagonal; for object-typed positions the full product of the hosting sides over the object positions",
			"object-typed positions: an object type is an interface of the same package that declares `fn value() -> int32`; objects are equal when value() through both proxies reaches the same implementation (every created object answers with a number of its own) - identifiers are not compared, the stub re-registers a client-side object under a new one; a client-side object is created through the ProxyService of the very service it is passed to (one service reference per service and process, as in examples/space); an object is never passed to itself (its mailbox would wait for itself)",
			"the only concurrency in the driver is the pair of callers of a created object, parked at gates so that exactly one of them runs at any time; what the two mailboxes do in between is not explored (concurrent callers in general are C04's subject)",
			"sequential calls, emissions, subscriptions and cancellations from one goroutine on one session of a real in-process directory server over a unix socket under .work/c05 (interleavings of concurrent subscribers are C13's); waits of 20 s; a surplus copy of the last emission of a history is only seen if it arrives within the silence window",
		}))
	}
	imp, err := loadDeps(root, c.overlay)
	if err != nil {
		chk.EngineError("cannot load the packages generated code imports: %v", err)
		finish(map[string]interface{}{"evaluations": 0})
	}
	c.imp = imp
	createdHygiene = tier == "thorough"
	hyg := &hygieneTables{}
	hyg.tables, hyg.templates, hyg.notes = deriveTables(imp)
	atoms := buildAtoms(tier, hyg)

	// ---- 1. every atom alone
	passing, aloneFail := c.verdictsAlone(atoms)
	aloneS := time.Since(start).Seconds()
	// ---- 2. assemble the compiling atoms into packages
	const perPkg = 110
	var special, normal, objects []*atom
	aloneOnly := 0
	for _, a := range passing {
		switch {
		case a.aloneOnly:
			aloneOnly++
		case a.object:
			objects = append(objects, a)
		case a.itfName != "":
			special = append(special, a)
		default:
			normal = append(normal, a)
		}
	}
	var packs [][]*atom
	{
		byPack := map[string][]*atom{}
		var keys []string
		for _, a := range normal {
			if _, ok := byPack[a.pack]; !ok {
				keys = append(keys, a.pack)
			}
			byPack[a.pack] = append(byPack[a.pack], a)
		}
		for _, k := range keys {
			group := byPack[k]
			for i := 0; i < len(group); i += perPkg {
				j := i + perPkg
				if j > len(group) {
					j = len(group)
				}
				packs = append(packs, append([]*atom{}, group[i:j]...))
			}
		}
	}
	for i := 0; i < len(special); i += 40 {
		// one generated interface (and one service) per atom
		j := i + 40
		if j > len(special) {
			j = len(special)
		}
		packs = append(packs, append([]*atom{}, special[i:j]...))
	}
	if len(objects) > 0 {
		// the object family: a package of its own (its interfaces refer to each other)
		packs = append(packs, objects)
	}
	type built struct {
		atoms []*atom
		as    assembled
		dir   string
		bin   string
	}
	var builts []*built
	interplay := 0
	// a package whose atoms do not hold together is reduced: the smallest failing
	// subset is reported and one of its atoms dropped, up to 12 times; a package
	// that still fails then is split in two halves which are tried on their own
	// (single atoms compile alone, so this ends). The total number of reductions
	// is capped: beyond the cap the remaining atoms are counted as not driven
	// (never an engine error: every reduction already is a reported violation).
	unassembled := 0
	reductions := 0
	const maxReductions = 150
	queue := append([][]*atom{}, packs...)
	for pi := 0; len(queue) > 0; pi++ {
		cur := queue[0]
		queue = queue[1:]
		var as assembled
		for round := 0; round < 12 && len(cur) > 0; round++ {
			as = c.assemble(cur)
			if len(as.errs) == 0 || reductions >= maxReductions {
				break
			}
			reductions++
			min := c.minimise(cur)
			mas := c.assemble(min)
			var ids, classes []string
			for _, a := range min {
				ids = append(ids, a.id)
				classes = append(classes, a.class)
			}
			reason := "unknown"
			if len(mas.errs) > 0 {
				reason = reasonOf(min[0], mas.errs[0])
			}
			if mas.stage == "glue" || mas.stage == "glue-type-error" {
				// the check's own glue could not be built around the generated code
				c.add(fmt.Sprintf("compile/%s:%s/%s", mas.stage, reasonCategory("type-error", reason), strings.Join(uniqStr(classesOf(min)), "+")),
					fmt.Sprintf("atoms that compile alone cannot be driven together: %v (%s)", mas.errs, mas.stage), strings.Join(ids, "+"),
					map[string]interface{}{"idl": mas.idl, "errors": mas.errs, "stage": mas.stage, "classes": classes})
			} else {
				c.add(fmt.Sprintf("compile/together:%s/%s", reasonCategory(mas.stage, strings.Join(mas.errs, " ")), strings.Join(uniqStr(classesOf(min)), "+")),
					fmt.Sprintf("atoms that compile alone do not compile together: %v", mas.errs), strings.Join(ids, "+"),
					map[string]interface{}{"idl": mas.idl, "errors": mas.errs, "stage": mas.stage, "classes": classes})
			}
			interplay++
			drop := map[*atom]bool{min[len(min)-1]: true}
			var next []*atom
			for _, a := range cur {
				if !drop[a] {
					next = append(next, a)
				}
			}
			cur = next
			as = assembled{errs: []string{"reduced"}}
		}
		if len(cur) == 0 {
			continue
		}
		if len(as.errs) > 0 {
			as = c.assemble(cur)
		}
		if len(as.errs) > 0 {
			if reductions >= maxReductions || len(cur) < 2 {
				unassembled += len(cur)
				continue
			}
			queue = append(queue, append([]*atom{}, cur[:len(cur)/2]...), append([]*atom{}, cur[len(cur)/2:]...))
			continue
		}
		dir := filepath.Join(work, fmt.Sprintf("p%d", pi))
		os.MkdirAll(dir, 0o755)
		for n, src := range as.srcs {
			os.WriteFile(filepath.Join(dir, n), src, 0o644)
		}
		os.WriteFile(filepath.Join(dir, "package.idl"), []byte(as.idl), 0o644)
		builts = append(builts, &built{atoms: cur, as: as, dir: dir, bin: filepath.Join(dir, "driver")})
	}
	// ---- 3. go build (parallel)
	var wg sync.WaitGroup
	buildErr := make([]string, len(builts))
	for i, b := range builts {
		wg.Add(1)
		go func(i int, b *built) {
			defer wg.Done()
			args := []string{"build", "-o", b.bin}
			if c.overlay != "" {
				args = append(args, "-overlay", c.overlay)
			}
			rel, _ := filepath.Rel(root, b.dir)
			args = append(args, "./"+rel)
			cmd := exec.Command("go", args...)
			cmd.Dir = root
			cmd.Env = report.GoEnv()
			out, err := cmd.CombinedOutput()
			if err != nil {
				buildErr[i] = string(out)
			}
		}(i, b)
	}
	wg.Wait()
	buildS := time.Since(start).Seconds()
	// ---- 4. drive
	atomByID := map[string]*atom{}
	for _, a := range atoms {
		atomByID[a.id] = a
	}
	type obs struct {
		a       *atom
		kind    string
		idlName string
		itf     string
		v       drv.Violation
		b       *built
		shard   string // "k/n": the slice of the binary's actions the driver process was running
	}
	var observations []obs
	cases, checks, driven := 0, 0, 0
	drivenClasses := map[string]bool{}
	drivenKind := map[string]int{}
	var samples []interface{}
	notDriven := 0
	// the budget bounds the driving phase only (generation and go build take
	// 6 s on an idle machine and minutes on a loaded one); running out of it is
	// reported as an engine error, never as a pass
	driveBudget := 4 * time.Minute
	if tier == "thorough" {
		driveBudget = 25 * time.Minute
	}
	deadline := time.Now().Add(driveBudget)
	objectCases := map[string]int{}    // object family: position/hosting side -> value cases
	objectUses := 0                    // uses (value()) of an object that crossed the wire, by implementation, caller or subscriber
	nested := map[string]int{}         // position -> value cases carrying a list of containers with decreasing / equal inner sizes
	nestedClasses := map[string]bool{} // position|class
	histories, historyEvents := 0, 0   // subscriber histories executed, emissions made in them
	historyActions := map[string]int{} // kind -> actions whose subscriber histories were driven
	createdCases := map[string]int{}   // objects made with Create<X>: kind/proxy -> value cases
	createdActions := map[string]int{} // kind -> actions driven on a created object through both proxies
	overlaps := map[string]int{}       // two-caller interleavings run on created objects: gate/order -> count
	overlapMethods := 0
	const shards = 4
	var omu sync.Mutex
	var dwg sync.WaitGroup
	dsem := make(chan struct{}, 16)
	expected := 0
	deadlineHit := false
	for i, b := range builts {
		if buildErr[i] != "" {
			c.add("compile/go-build-fails-after-type-check/"+fmt.Sprintf("package-%d", i),
				"go build rejects an assembled package that go/types accepted: "+tailStr(buildErr[i], 600), "",
				map[string]interface{}{"idl": b.as.idl, "output": buildErr[i]})
			notDriven += len(b.atoms)
			continue
		}
		for _, a := range b.atoms {
			expected += len(a.actions)
		}
		for sh := 0; sh < shards; sh++ {
			dwg.Add(1)
			go func(i int, b *built, sh int) {
				defer dwg.Done()
				dsem <- struct{}{}
				defer func() { <-dsem }()
				var skip []string
				for attempt := 0; attempt < 40; attempt++ {
					left := time.Until(deadline)
					if left <= 0 {
						omu.Lock()
						deadlineHit = true
						omu.Unlock()
						return
					}
					args := []string{"-shard", fmt.Sprintf("%d/%d", sh, shards), "-deadline", fmt.Sprint(deadline.Unix())}
					if len(skip) > 0 {
						args = append(args, "-skip", strings.Join(skip, ","))
					}
					ro := c.runDriver(b.bin, b.dir, args, left+45*time.Second)
					omu.Lock()
					for _, r := range ro.results {
						a := atomByID[r.Atom]
						if a == nil {
							continue
						}
						skip = append(skip, r.Itf+"."+r.Kind+":"+r.IDLName)
						cases += r.Cases
						checks += r.Checks
						driven++
						drivenKind[r.Kind]++
						if r.Cases > 0 {
							drivenClasses[r.Kind+"|"+a.class] = true
						}
						for pos, n := range r.Nested {
							nested[pos] += n
							nestedClasses[pos+"|"+a.class] = true
						}
						for pos, n := range r.Objects {
							objectCases[pos] += n
						}
						objectUses += r.ObjectUses
						histories += r.Histories
						historyEvents += r.HistoryEvents
						if r.Histories > 0 {
							historyActions[r.Kind]++
						}
						for k, n := range r.Created {
							createdCases[k] += n
						}
						if len(r.Created) >= 2 {
							createdActions[r.Kind]++
						}
						for k, n := range r.Overlaps {
							overlaps[k] += n
						}
						if len(r.Overlaps) > 0 {
							overlapMethods++
						}
						if r.Sample != "" && len(samples) < 12 && (driven%17 == 1 || len(samples) < 4) {
							samples = append(samples, map[string]interface{}{"action": r.Kind + " " + r.IDLName, "class": a.class, "case": r.Sample, "cases": r.Cases, "violations": len(r.Violations)})
						}
						for _, v := range r.Violations {
							observations = append(observations, obs{a, r.Kind, r.IDLName, r.Itf, v, b, fmt.Sprintf("%d/%d", sh, shards)})
						}
					}
					if ro.deadline {
						deadlineHit = true
					}
					omu.Unlock()
					if ro.fatal != "" {
						omu.Lock()
						chk.EngineError("driver of package %d: %s (stderr: %s)", i, ro.fatal, tailStr(ro.stderr, 300))
						omu.Unlock()
						return
					}
					if ro.crashed == "" {
						return
					}
					if ro.crashed == "(outside an action)" {
						omu.Lock()
						chk.EngineError("driver of package %d died outside an action: %s", i, tailStr(ro.stderr, 500))
						omu.Unlock()
						return
					}
					// the driver died (or hung) in an action: record, skip it, resume
					key := ro.crashed
					skip = append(skip, key)
					var a *atom
					var kind, name string
					if j := strings.Index(key, "."); j >= 0 {
						rest := key[j+1:]
						if k := strings.Index(rest, ":"); k >= 0 {
							kind, name = rest[:k], rest[k+1:]
						}
					}
					for _, x := range b.atoms {
						for _, ac := range x.actions {
							if ac.kind == kind && ac.name == name {
								a = x
							}
						}
					}
					omu.Lock()
					if a == nil {
						chk.EngineError("driver of package %d died in unknown action %s", i, key)
						omu.Unlock()
						return
					}
					v := drv.Violation{Failure: "process-crash", Detail: msgClass(firstRepoFrame(ro.stderr), 60),
						What: fmt.Sprintf("the process died while driving %s: %s", key, panicLine(ro.stderr)), Case: key}
					if ro.timeout {
						v = drv.Violation{Failure: "process-hang", Detail: "", What: fmt.Sprintf("the driver did not finish %s in time", key), Case: key}
					}
					driven++
					drivenKind[kind]++
					observations = append(observations, obs{a, kind, name, key[:strings.Index(key, ".")], v, b, fmt.Sprintf("%d/%d", sh, shards)})
					omu.Unlock()
				}
			}(i, b, sh)
		}
	}
	dwg.Wait()
	if driven < expected {
		notDriven += expected - driven
	}
	notDriven += unassembled
	if deadlineHit {
		chk.EngineError("the driving budget of %v ran out: %d of %d actions were not driven (machine overloaded?); the run proves nothing about them", driveBudget, expected-driven, expected)
	}
	// ---- 5. attribution: blame the smallest failing component
	for i := range observations {
		o := &observations[i]
		fail := o.v.Failure
		if o.v.Failure == "panic" && o.v.Detail != "" {
			fail += ":" + o.v.Detail
		}
		c.raw = append(c.raw, rawFail{a: o.a, phase: o.kind, fail: fail, what: o.v.What, action: o.idlName})
	}
	nCompile := len(c.raw) - len(observations)
	classes := attribute(c.raw, atoms, drivenKind)
	for i, r := range c.raw[:nCompile] {
		c.add(fmt.Sprintf("compile/%s/%s", r.fail, classes[i]), r.what, r.a.id, r.replay)
	}
	type rfind struct {
		fp   string
		obs  []obs
		what string
	}
	rf := map[string]*rfind{}
	var rorder []string
	for i, o := range observations {
		r := c.raw[nCompile+i]
		fp := report.FPEscape(r.phase + "/" + r.fail + "/" + classes[nCompile+i])
		if rf[fp] == nil {
			rf[fp] = &rfind{fp: fp, what: o.v.What}
			rorder = append(rorder, fp)
		}
		rf[fp].obs = append(rf[fp].obs, o)
	}
	// ---- 6. confirm every run-time fingerprint 5 times on its first action
	type unconf struct {
		fp, key string
		same    int
		others  []string
		a       *atom
	}
	var unconfirmed []unconf
	var nondeterministic []string
	confirmedFP := map[string]bool{}
	sort.Strings(rorder)
	type confRes struct {
		same   int
		others []string
	}
	cres := make([]confRes, len(rorder))
	var cwg sync.WaitGroup
	var cmu sync.Mutex
	for i, fp := range rorder {
		o := rf[fp].obs[0]
		key := o.itf + "." + o.kind + ":" + o.idlName
		for r := 0; r < 5; r++ {
			cwg.Add(1)
			go func(i int, o obs, key string) {
				defer cwg.Done()
				dsem <- struct{}{}
				defer func() { <-dsem }()
				ro := c.runDriver(o.b.bin, o.b.dir, []string{"-only", key}, 3*time.Minute)
				hit := false
				var others []string
				for _, res := range ro.results {
					for _, v := range res.Violations {
						if v.Failure == o.v.Failure && (v.Failure != "panic" || v.Detail == o.v.Detail) {
							hit = true
						} else {
							others = append(others, v.Failure+":"+v.Detail)
						}
					}
				}
				if ro.crashed != "" && (o.v.Failure == "process-crash" || o.v.Failure == "process-hang") {
					hit = true
				}
				cmu.Lock()
				if hit {
					cres[i].same++
				}
				cres[i].others = append(cres[i].others, others...)
				cmu.Unlock()
			}(i, o, key)
		}
	}
	cwg.Wait()
	for i, fp := range rorder {
		f := rf[fp]
		o := f.obs[0]
		key := o.itf + "." + o.kind + ":" + o.idlName
		same, others := cres[i].same, cres[i].others
		if same != 5 {
			unconfirmed = append(unconfirmed, unconf{fp, key, same, uniqStr(others), o.a})
			continue
		}
		confirmedFP[fp] = true
		var acts, classes []string
		for _, x := range f.obs {
			acts = append(acts, x.kind+" "+x.idlName)
			classes = append(classes, x.a.class)
		}
		c.add(fp, fmt.Sprintf("%s [%d actions: classes %s; reproduced 5/5 in fresh processes]", f.what, len(f.obs), strings.Join(firstN(uniqStr(classes), 12), " ")),
			o.a.id, map[string]interface{}{"idl": renderIDL("main", []*atom{o.a}), "action": key, "case": o.v.Case, "observed": o.v.What,
				"actions_with_this_fingerprint": firstN(acts, 40), "classes": uniqStr(classes), "package_dir": o.b.dir})
	}
	for _, u := range unconfirmed {
		// a crash that shows in some runs only (the bytes on the wire depend on
		// Go's map iteration order) on an action that fails deterministically in
		// another, confirmed way is another face of that failure
		parts := strings.SplitN(u.fp, "/", 3)
		ok := crashLike(parts[1]) && len(u.others) > 0
		for _, o := range u.others {
			f := o
			if i := strings.Index(f, ":"); i >= 0 {
				f = f[:i]
			}
			if !confirmedFP[report.FPEscape(parts[0]+"/"+f+"/"+parts[2])] {
				ok = false
			}
		}
		if ok {
			nondeterministic = append(nondeterministic, fmt.Sprintf("%s on %s: %d/5 (otherwise %v)", u.fp, u.key, u.same, u.others))
			continue
		}
		if u.same == 0 && len(u.others) == 0 {
			// the action is fine in a fresh process and failed in the long-running
			// driver: the failure depends on what the process did BEFORE (a cache, a
			// pooled buffer, package-level state in the code under test). Run the
			// same slice of actions again, twice: when the action fails there both
			// times, the history-dependent failure is the finding (the policy of
			// report.Checker.Unstable; seed C05-16 cached the member list of every
			// anonymous struct type under one key).
			o := rf[u.fp].obs[0]
			again := 0
			for k := 0; k < 2; k++ {
				ro := c.runDriver(o.b.bin, o.b.dir, []string{"-shard", o.shard, "-deadline", fmt.Sprint(time.Now().Add(4 * time.Minute).Unix())}, 5*time.Minute)
				for _, res := range ro.results {
					if res.Itf+"."+res.Kind+":"+res.IDLName != u.key {
						continue
					}
					for _, v := range res.Violations {
						if v.Failure == o.v.Failure {
							again++
							break
						}
					}
				}
			}
			if again == 2 {
				c.add(u.fp+"/depends-on-earlier-calls", fmt.Sprintf("%s [fails in the driver process that ran the other actions of its slice before (3/3 runs of that slice), passes 5/5 alone in a fresh process: the failure depends on earlier calls in the same process]", rf[u.fp].what),
					o.a.id, map[string]interface{}{"idl": renderIDL("main", []*atom{o.a}), "action": u.key, "case": o.v.Case, "observed": o.v.What, "slice": o.shard, "package_dir": o.b.dir})
				continue
			}
		}
		chk.EngineError("run-time fingerprint %s (action %s) reproduced %d/5 times (also seen: %v): not reported as a violation", u.fp, u.key, u.same, u.others)
	}
	os.RemoveAll(filepath.Join(root, "replays", "C05")) // stale replay files of earlier runs
	for _, fp := range c.order {
		f := c.findings[fp]
		f.replay["atoms"] = firstN(f.atoms, 40)
		what := f.what + fmt.Sprintf(" [%d atoms]", len(f.atoms))
		var names []string
		for _, ids := range f.atoms {
			for _, id := range strings.Split(ids, "+") {
				if a := atomByID[id]; a != nil && a.hgroup != "" {
					names = append(names, a.hname)
				}
			}
		}
		if names = uniqStr(names); len(names) > 0 {
			f.replay["names_failing_this_way"] = names
			what += fmt.Sprintf(" [names of the group failing this way: %s]", strings.Join(firstN(names, 60), " "))
		}
		chk.Report(fp, what, f.replay)
	}
	// ---- evidence
	objectUnits, objectDriven := 0, 0
	for _, a := range atoms {
		if a.object {
			objectUnits++
			for _, ac := range a.actions {
				if drivenClasses[ac.kind+"|"+a.class] {
					objectDriven++
				}
			}
		}
	}
	unsupported := []string{}
	for _, a := range atoms {
		if a.object && a.known != "" {
			unsupported = append(unsupported, a.class+": "+a.known)
		}
	}
	sort.Strings(unsupported)
	total := len(atoms)
	exhaustive := notDriven == 0 && !deadlineHit
	cov := map[string]interface{}{
		"evaluations":         cases + total + historyEvents,
		"distinct_nontrivial": len(drivenClasses),
		"rule": "programs: atoms = {echo method, 1-parameter signal, property} x every type of the universe (all 13 scalars; Vec<s>, Map<str,s>, Map<k,int32> for every scalar / key type, tuples, structs, enum; the lists of containers Vec<Vec<int32>>, Vec<Map<str,int32>>, Vec<Lst> with struct Lst{n: int32; l: Vec<int32>}; thorough: Vec<t>, Map<str,t>, Map<int32,t> for every depth-1 container t over every scalar, tuples, structs, enum; nested tuples and structs), " +
			"action kinds (methods of 0..3 parameters, void or not, signals of 0/2/3 parameters, 2-parameter property), identifier hygiene (below) and pairs of colliding names. " +
			"Identifier hygiene: name tables derived at check time from the tree under test (identifier_hygiene.tables gives their sizes) - Go keywords (go/token), Go's predeclared identifiers (go/types universe), every []string table of meta/signature read from its source (reservedMethods, keywords), the method sets of bus.ObjectProxy, bus.Proxy and bus.Actor (go/types), and what the generated code of a probe package (every action kind, type constructor and declaration kind) declares: methods, imported package names, parameters / receivers / variables / fields, and the package-level identifiers it builds from an interface or structure name (templates such as <interface>Proxy, stub<interface>, Create<interface>, read<struct>); a name belongs to the first table holding it, the hand-written pools of earlier versions stay as a floor. " +
			"Every name x every identifier role - method, signal, property name; parameter name of a method, of a signal, of a property; structure name; structure member name; enumeration name; enumeration constant; interface name; package name (type-checked only) - in the IDL's usual spelling (first letter lower case) and, thorough tier (interface names: both tiers, and only so: a lower-case interface name never compiles, listed finding), capitalised; template names as structure, enumeration and constant names next to the interface / structure they are built from; plus the hand-written shapes (underscores, case, blank). Every such atom is generated and type-checked alone in both tiers; quick assembles and drives the usual spelling of the method tables in the three action-name roles, of the keywords as method names and of the scope tables (keywords, predeclared, imported packages, generated locals) in the three parameter roles (identifier_hygiene.atoms_alone_verdict_only counts the others), thorough all of them but the package names. " +
			"A failure common to all names of a (role, table) group is reported under the group; any other generation / compilation failure under the group and the exact set of names failing that way (group:name+name+...; beyond 140 characters their number and a hash, the names are in the replay file), so that a name that starts or stops failing changes the fingerprint; any other run-time failure under the group and the name, one fingerprint per name. " +
			"Each atom is generated and type-checked alone; the compiling ones are assembled (<=110 per package), compiled with go build and every action is driven with every boundary value (methods: argument tuples one position at a time + diagonal, every return value; signals: every payload through Signal<X> to Subscribe<X>; properties: Set/Get/On<X>Change/Subscribe for every value). " +
			"Boundary values of a list type are: empty, one item, two items, every boundary value of the item type once; and when the item type is a list, a map or a struct holding one (at any depth): three items whose inner containers have 3, 2, 1 entries and three items whose inner containers have 2, 2, 2 entries (fewer where a bool key allows only 2), scalars numbered consecutively so that all contents are pairwise distinct ([[1,2,3],[4,5],[6]]); these occur as return values, arguments, signal payloads and property values (nested_list_cases counts them by position). " +
			"Object family (both tiers; thorough adds three objects, scalars of other kinds next to the object, the remaining type pairs): interfaces Early (declared before its users), Late (declared after them), Oa (the user), Node (refers to itself), Ping / Pong (refer to each other), each with `fn value() -> int32`; units = one action each: argument position {(o:T), (n:int32,o:T), (o:T,n:int32), (n:int32,o:T,s:str), void (o:T)} for T in {Early, Late}, two objects {(Early,Late), (Late,Early), (Early,Early), (Early,int32,Late), void (Late,Early)}; result position {make() -> T, make(v:int32) -> T, echo(o:T) -> T, conv(o:T) -> U, pick(o:T,q:T) -> T, a scalar before / after the echoed object}; signal payload sig(o:T); the same positions over Node; take / make / echo between Ping and Pong; `obj` (untyped reference, plain data) as parameter, result, payload and property; and the positions the generator does not support (listed findings, object_units_with_listed_findings): properties of interface type, several-parameter signals and a struct with an object member, objects inside Vec / Map / Tuple as parameter and result. " +
			"Values of an object position = hosting side: client (created by the caller with the generated Create<X> on Proxy().ProxyService(session): id >= 2^31), service (hosted by the called service, the caller holds a proxy made from the reference), other-service (hosted by the service of the object's own interface); methods take the full product over their object positions, every scalar value once, and the same object in two positions of one type; results are made inside the implementation on its service, or one of the received arguments is handed back; payloads are service / other-service hosted. " +
			"Oracle: the implementation is reached once, uses every object it received (value()) and returns the combination of what it got; every use succeeds and yields the number of the object passed in that position; the implementations of exactly those objects were invoked, once per use; the caller receives the combination; an object result used by the caller reaches the returned object's implementation exactly once; a subscriber's use of a received object yields the number of the emitted one (object_cases counts value cases by position/hosting side, object_uses the uses made). " +
			"Subscriber histories on the driver's single session, for every signal and every property whose one-subscriber run was clean: {A alone: every payload}; {A and B together, 3 emissions, both receive each exactly once, cancel B, cancel A}; {subscribe A, subscribe B, cancel A, emit (B receives it once), cancel B, subscribe C, emit 2: C receives each exactly once}; {the same with B cancelled before A}; cancellations are awaited; oracle: the sequence received equals the sequence emitted while subscribed - equal payloads, same order, exactly one copy per emission per subscriber (a copy of any emission but the last one of a history is recognised by order, a surplus after the last one by 40 ms of silence, 300 ms for signals whose emissions are indistinguishable). " +
			"Objects made with the generated Create<X>(session, service, impl) are served by two mailboxes (service.Add's for remote callers, bus.DirectClient's for the proxy returned to the creator): for every interface one such object is made on the service, and every action whose run on the service's own object was clean (quick: the actions of the type, arity and object-family atoms; thorough: all) is driven again, every value case, through the creator's proxy and through a remote proxy made from the object's reference (the invocation must reach the created object's implementation; object-typed positions and the subscriber histories stay on the service's object) - created_object_cases. " +
			"Two callers of one created object: for every such method, one fixed interleaving per gate and order, not a schedule exploration: caller 1's invocation is held at a gate in code the implementor owns - (a) inside the method body; (b) when the result holds a dynamic value (`any`), inside that value's Write, which the generated stub calls while it serializes the reply, after half of the value's bytes - while caller 2, through the other proxy, with other arguments and another result (strings of 4 KiB, containers of 3 entries, pairwise distinct contents), runs to completion; then caller 1 is let go; orders: local proxy first, remote proxy first. Oracle: each invocation received its caller's arguments, each caller got the result made for it (two_caller_interleavings counts them by gate/order; 'served-one-after-the-other' would count interleavings where caller 2 could not finish while caller 1 was held: none on the unchanged tree). " +
			"evaluations = atoms given a verdict + value cases executed + emissions made in subscriber histories; distinct_nontrivial = distinct (action kind, type or hygiene class) pairs whose generated code compiled and was driven with at least one value case",
		"samples":                      samples,
		"exhaustive":                   exhaustive,
		"atoms":                        total,
		"atoms_failing_alone":          aloneFail - len(c.rejected),
		"atoms_rejected_by_idl_parser": firstN(c.rejected, 30),
		"atoms_assembled":              len(passing),
		"interplay_failures":           interplay,
		"atoms_left_unassembled_after_the_reduction_cap": unassembled,
		"packages_built":                        len(builts),
		"actions_driven":                        driven,
		"value_cases":                           cases,
		"oracle_checks":                         checks,
		"nested_list_cases":                     nested,
		"nested_list_classes":                   sortedKeys(nestedClasses),
		"subscriber_histories":                  histories,
		"subscriber_history_emissions":          historyEvents,
		"actions_with_subscriber_histories":     historyActions,
		"identifier_hygiene":                    hygieneCoverage(hyg, atoms),
		"atoms_alone_verdict_only":              aloneOnly,
		"alone_verdicts_seconds":                aloneS,
		"alone_verdicts_generator_seconds":      float64(genNanos) / 1e9,
		"created_object_cases":                  createdCases,
		"created_object_actions":                createdActions,
		"two_caller_interleavings":              overlaps,
		"two_caller_methods":                    overlapMethods,
		"object_units":                          objectUnits,
		"object_units_driven":                   objectDriven,
		"object_cases":                          objectCases,
		"object_uses":                           objectUses,
		"object_units_with_listed_findings":     unsupported,
		"types_in_universe":                     len(typeUniverse(map[string]int{"quick": 1, "thorough": 2}[tier])),
		"actions_not_driven":                    notDriven,
		"deadline_hit":                          deadlineHit,
		"actions_expected":                      expected,
		"generate_and_build_seconds":            buildS,
		"run_time_fingerprints":                 rorder,
		"nondeterministic_crashes_not_reported": nondeterministic,
	}
	_ = start
	finish(cov)
}

// nameSet renders the set of names of a hygiene group that fail in one way:
// the names themselves, or their number and a hash of the list when that would
// be too long for a fingerprint (the list is in the replay file).
func nameSet(ids map[string]bool, nameOf map[string]string) string {
	var names []string
	for id := range ids {
		names = append(names, nameOf[id])
	}
	names = uniqStr(names)
	s := strings.Join(names, "+")
	if len(s) <= 140 {
		return s
	}
	h := fnv.New32a()
	h.Write([]byte(s))
	return fmt.Sprintf("%d-names-%08x", len(names), h.Sum32())
}

func sortedKeys(m map[string]bool) []string {
	out := []string{}
	for k := range m {
		out = append(out, k)
	}
	sort.Strings(out)
	return out
}

func classesOf(as []*atom) []string {
	var out []string
	for _, a := range as {
		out = append(out, classOf(a))
	}
	return out
}

func firstN(xs []string, n int) []string {
	if len(xs) > n {
		return append(append([]string{}, xs[:n]...), fmt.Sprintf("... (%d more)", len(xs)-n))
	}
	return xs
}
