// C18, numeric-literal dimension of the totality families.
//
// The IDL grammar has two numeric positions: the constant of an enum member
// (`name = INT`, token -?[0-9]+, converted with strconv.Atoi) and the value
// of a `//uid:` comment (fmt.Sscanf "uid:%d" into a uint32), which the
// grammar admits after the package clause, after the header and the `end` of
// an interface / struct / enum, after every action, every struct member and
// every enum constant. The family puts every numeral of a pool built on the
// integer boundaries (0, +-1, 2^31, 2^32, 2^63, 2^64 and their neighbours,
// 20+ digits, leading zeros, sign characters, other bases and notations,
// nothing at all) into every one of these positions - alone, and inside
// otherwise valid declarations - and into the identifier / type positions
// where a number is a lexical error. Oracle: ParseIDL and ParsePackage return
// a package or an error, never a panic, never both, never neither. Where the
// text is accepted, the interfaces the template declares are all there, and an
// action whose uid is written in canonical decimal (1..2^32-1, as GenerateIDL
// prints it) carries exactly that id.
package main

import (
	"fmt"
	"regexp"
	"strconv"
	"strings"

	"verif/internal/sigen"
)

// numerals is the pool. Every entry is one lexical / arithmetic class.
var numerals = []string{
	// small and the int32 / uint32 / int64 / uint64 boundaries with both neighbours
	"0", "1", "2", "99", "100", "101",
	"2147483646", "2147483647", "2147483648", "2147483649",
	"4294967294", "4294967295", "4294967296", "4294967297",
	"9223372036854775806", "9223372036854775807", "9223372036854775808", "9223372036854775809",
	"18446744073709551615", "18446744073709551616",
	// beyond every machine integer
	"99999999999999999999", "99999999999999999999999", "340282366920938463463374607431768211456",
	strings.Repeat("9", 64), "1" + strings.Repeat("0", 300),
	// negative side
	"-0", "-1", "-2", "-2147483647", "-2147483648", "-2147483649", "-4294967295", "-4294967296",
	"-9223372036854775807", "-9223372036854775808", "-9223372036854775809", "-18446744073709551616", "-99999999999999999999999",
	// leading zeros
	"00", "007", "-007", "0100", "0000000000000000000000001", "00000000004294967296", "000000000009223372036854775808",
	// sign characters
	"+0", "+1", "+4294967295", "+9223372036854775808", "--1", "+-1", "-+1", "++1", "-", "+", "- 1", "1-", "1+1", "1 -1",
	// other bases and notations
	"0x10", "0X7fffffff", "0xffffffff", "0x100000000", "0xffffffffffffffffff", "0x", "x10", "0b101", "0o17", "017", "1f", "ff",
	"1e3", "1E400", "1.5", "1.", ".5", "1_000", "1,000", "1 000", "1u", "1L", "NaN", "inf",
	// not ASCII digits, and nothing at all
	"١", "１", "1٠", "²", "",
}

var canonicalUID = regexp.MustCompile(`^[1-9][0-9]*$`)

// uidOf: the id a canonical numeral denotes (ok = false: not judged).
func uidOf(n string) (uint32, bool) {
	if !canonicalUID.MatchString(n) {
		return 0, false
	}
	v, err := strconv.ParseUint(n, 10, 32)
	if err != nil {
		return 0, false
	}
	return uint32(v), true
}

// expectation of a totality text, judged only when the text is accepted.
type expAction struct {
	Iface string `json:"iface"`
	Kind  string `json:"kind"` // fn, sig, prop
	Name  string `json:"name"`
	ID    uint32 `json:"id"`
}

type expect struct {
	Ifaces  []string    `json:"ifaces"` // interfaces the template declares
	Actions []expAction `json:"actions"`
}

// numTemplate is a text with holes: %N the numeral under test, %M a second
// numeral (pairs). acts lists the actions whose uid is the hole %N.
type numTemplate struct {
	pos    string // position class, for the universe text and the samples
	text   string
	ifaces []string
	acts   []expAction // ID filled in from the numeral
}

func numTemplates() []numTemplate {
	I := []string{"I"}
	act := func(kind, name string) []expAction { return []expAction{{Iface: "I", Kind: kind, Name: name}} }
	return []numTemplate{
		// --- enum constant, alone
		{"enum-const/bare-numeral", "%N", nil, nil},
		{"enum-const/bare-assignment", "a = %N", nil, nil},
		{"enum-const/bare-equals", "= %N", nil, nil},
		{"enum-const/unterminated-enum", "enum E\n\ta = %N", nil, nil},
		{"enum-const/one-line", "enum E a = %N end", nil, nil},
		// --- enum constant in otherwise valid declarations
		{"enum-const/only", "enum E\n\ta = %N\nend\n", nil, nil},
		{"enum-const/no-blanks", "enum E\n\ta=%N\nend\n", nil, nil},
		{"enum-const/first-of-3", "enum E\n\ta = %N\n\tb = 2\n\tc = 3\nend\n", nil, nil},
		{"enum-const/middle-of-3", "enum E\n\ta = 1\n\tb = %N\n\tc = 3\nend\n", nil, nil},
		{"enum-const/last-of-3", "enum E\n\ta = 1\n\tb = 2\n\tc = %N\nend\n", nil, nil},
		{"enum-const/all-of-3", "enum E\n\ta = %N\n\tb = %N\n\tc = %N\nend\n", nil, nil},
		{"enum-const/then-comment", "enum E\n\ta = %N // largest\n\tb = 2\nend\n", nil, nil},
		{"enum-const/then-uid-comment", "enum E\n\ta = %N //uid:%N\nend\n", nil, nil},
		{"enum-const/enum-used-by-interface", "enum E\n\ta = 1\n\tb = %N\nend\ninterface I\n\tfn f(a: E) -> E //uid:100\n\tsig s(a: E) //uid:101\n\tprop p(a: E) //uid:102\nend\n", I, nil},
		{"enum-const/between-struct-and-interface", "struct S\n\tx: int32\nend\nenum E\n\ta = %N\nend\ninterface I\n\tfn f(a: S) -> Vec<E> //uid:100\nend\n", I, nil},
		{"enum-const/after-interface", "interface I\n\tfn f() //uid:100\nend\nenum E\n\ta = %N\nend\n", I, nil},
		{"enum-const/two-enums", "enum E\n\ta = %N\nend\nenum F\n\ta = 1\n\tb = %N\nend\n", nil, nil},
		{"enum-const/same-name-twice", "enum E\n\ta = 1\n\ta = %N\nend\n", nil, nil},
		// --- uid, alone
		{"uid/bare-comment", "//uid:%N", nil, nil},
		{"uid/bare-comment-newline", "//uid:%N\n", nil, nil},
		{"uid/unterminated-interface", "interface I\n\tfn f() //uid:%N", nil, nil},
		// --- uid after an action (the position where the value is used)
		{"uid/fn", "interface I\n\tfn f() //uid:%N\nend\n", I, act("fn", "f")},
		{"uid/fn-params-return", "interface I\n\tfn f(a: int32, b: Vec<str>) -> Map<str,int32> //uid:%N\nend\n", I, act("fn", "f")},
		{"uid/sig", "interface I\n\tsig s(a: int32) //uid:%N\nend\n", I, act("sig", "s")},
		{"uid/prop", "interface I\n\tprop p(a: str) //uid:%N\nend\n", I, act("prop", "p")},
		{"uid/fn-between-two", "interface I\n\tfn before() //uid:7\n\tfn f(a: str) -> str //uid:%N\n\tfn after() //uid:8\nend\n", I, act("fn", "f")},
		{"uid/fn-sig-prop-same-value", "interface I\n\tfn f() //uid:%N\n\tsig s(a: int32) //uid:%N\n\tprop p(a: int32) //uid:%N\nend\n", I,
			[]expAction{{Iface: "I", Kind: "fn", Name: "f"}, {Iface: "I", Kind: "sig", Name: "s"}, {Iface: "I", Kind: "prop", Name: "p"}}},
		{"uid/two-methods-same-value", "interface I\n\tfn f() //uid:%N\n\tfn g() //uid:%N\nend\n", I, nil},
		{"uid/fn-without-uid-next-to-it", "interface I\n\tfn g()\n\tfn f() //uid:%N\n\tfn h()\nend\n", I, nil},
		{"uid/registerEvent", "interface I\n\tfn registerEvent(a: uint32, b: uint32, c: uint64) -> uint64 //uid:%N\nend\n", I, act("fn", "registerEvent")},
		{"uid/fn-struct-types", "struct S\n\tx: int32\nend\ninterface I\n\tfn f(a: S) -> S //uid:%N\nend\n", I, act("fn", "f")},
		{"uid/two-interfaces", "interface I\n\tfn f() //uid:%N\nend\ninterface J\n\tfn f() //uid:%N\nend\n", []string{"I", "J"},
			[]expAction{{Iface: "I", Kind: "fn", Name: "f"}, {Iface: "J", Kind: "fn", Name: "f"}}},
		// --- uid spelling variants after an action
		{"uid/variant-blank-before", "interface I\n\tfn f() // uid:%N\nend\n", I, nil},
		{"uid/variant-blank-after-colon", "interface I\n\tfn f() //uid: %N\nend\n", I, nil},
		{"uid/variant-trailing-text", "interface I\n\tfn f() //uid:%N trailing words\nend\n", I, nil},
		{"uid/variant-twice", "interface I\n\tfn f() //uid:%N//uid:%N\nend\n", I, nil},
		{"uid/variant-upper-case", "interface I\n\tfn f() //UID:%N\nend\n", I, nil},
		{"uid/variant-equals", "interface I\n\tfn f() //uid=%N\nend\n", I, nil},
		{"uid/variant-no-colon", "interface I\n\tfn f() //uid%N\nend\n", I, nil},
		{"uid/variant-crlf", "interface I\r\n\tfn f() //uid:%N\r\nend\r\n", I, nil},
		{"uid/variant-no-final-newline", "interface I\n\tfn f() //uid:%N\nend //uid:%N", I, nil},
		// --- uid in the comment positions where the value is not used
		{"uid/after-package-clause", "package p //uid:%N\ninterface I\n\tfn f() //uid:100\nend\n", I, nil},
		{"uid/after-interface-header", "interface I //uid:%N\n\tfn f() //uid:100\nend\n", I, nil},
		{"uid/after-interface-end", "interface I\n\tfn f() //uid:100\nend //uid:%N\n", I, nil},
		{"uid/after-struct-header", "struct S //uid:%N\n\tx: int32\nend\n", nil, nil},
		{"uid/after-struct-member", "struct S\n\tx: int32 //uid:%N\n\ty: str\nend\n", nil, nil},
		{"uid/after-struct-end", "struct S\n\tx: int32\nend //uid:%N\ninterface I\n\tfn f(a: S) //uid:100\nend\n", I, nil},
		{"uid/after-enum-header", "enum E //uid:%N\n\ta = 1\nend\n", nil, nil},
		{"uid/after-enum-const", "enum E\n\ta = 1 //uid:%N\n\tb = 2\nend\n", nil, nil},
		{"uid/after-enum-end", "enum E\n\ta = 1\nend //uid:%N\n", nil, nil},
		{"uid/every-comment-position", "package p //uid:%N\nstruct S //uid:%N\n\tx: int32 //uid:%N\nend //uid:%N\nenum E //uid:%N\n\ta = 1 //uid:%N\nend //uid:%N\ninterface I //uid:%N\n\tfn f(a: S) -> E //uid:%N\nend //uid:%N\n", I, act("fn", "f")},
		// --- a numeral where the grammar wants a name or a type
		{"misplaced/member-type", "struct S\n\tx: %N\nend\n", nil, nil},
		{"misplaced/member-name", "struct S\n\t%N: int32\nend\n", nil, nil},
		{"misplaced/struct-name", "struct %N\n\tx: int32\nend\n", nil, nil},
		{"misplaced/template-argument", "struct P<%N>\n\tx: int32\nend\ninterface I\n\tfn f(a: P<%N>) //uid:100\nend\n", nil, nil},
		{"misplaced/parameter-type", "interface I\n\tfn f(a: %N) //uid:100\nend\n", nil, nil},
		{"misplaced/return-type", "interface I\n\tfn f() -> %N //uid:100\nend\n", nil, nil},
		{"misplaced/vec-element", "interface I\n\tfn f(a: Vec<%N>, b: Map<%N,%N>, c: Tuple<%N>) //uid:100\nend\n", nil, nil},
		{"misplaced/action-name", "interface I\n\tfn %N() //uid:100\nend\n", nil, nil},
		{"misplaced/interface-name", "interface %N\nend\n", nil, nil},
		{"misplaced/enum-name", "enum %N\n\ta = 1\nend\n", nil, nil},
		{"misplaced/enum-const-name", "enum E\n\t%N = 1\nend\n", nil, nil},
		{"misplaced/package-name", "package %N\ninterface I\nend\n", nil, nil},
		{"misplaced/package-name-suffix", "package p.%N\ninterface I\nend\n", nil, nil},
		{"misplaced/between-declarations", "interface I\nend\n%N\nstruct S\nend\n", nil, nil},
	}
}

func fill(t, n, m string) string {
	return strings.ReplaceAll(strings.ReplaceAll(t, "%N", n), "%M", m)
}

// numCase builds the case of one template and one numeral.
func numCase(family string, t numTemplate, prefix, n string) kase {
	c := kase{family: family, text: prefix + fill(t.text, n, n), total: true, pp: true}
	if t.ifaces != nil {
		e := &expect{Ifaces: t.ifaces}
		if id, ok := uidOf(n); ok {
			for _, a := range t.acts {
				a.ID = id
				e.Actions = append(e.Actions, a)
			}
		}
		c.exp = e
	}
	return c
}

// genNumerals: every template x every numeral x {no package clause, after
// `package p`}.
func genNumerals(emit func(kase) bool) {
	for _, t := range numTemplates() {
		for _, n := range numerals {
			for _, pre := range []string{"", "package p\n"} {
				if !emit(numCase("numerals", t, pre, n)) {
					return
				}
			}
		}
	}
}

// genNumeralPairs: every ordered pair (enum constant, uid) of the pool in one
// text holding both numeric positions, the enum first and the enum last.
func genNumeralPairs(emit func(kase) bool) {
	shapes := []string{
		"enum E\n\ta = %N\nend\ninterface I\n\tfn f(a: E) //uid:%M\nend\n",
		"interface I\n\tfn f() //uid:%M\nend\nenum E\n\ta = 1 //uid:%M\n\tb = %N\nend\n",
	}
	for _, sh := range shapes {
		for _, n := range numerals {
			for _, m := range numerals {
				c := kase{family: "numeral-pairs", text: fill(sh, n, m), total: true, pp: true}
				e := &expect{Ifaces: []string{"I"}}
				if id, ok := uidOf(m); ok {
					e.Actions = []expAction{{Iface: "I", Kind: "fn", Name: "f", ID: id}}
				}
				c.exp = e
				if !emit(c) {
					return
				}
			}
		}
	}
}

func numeralsUniverse() string {
	var pos []string
	for _, t := range numTemplates() {
		pos = append(pos, t.pos)
	}
	return fmt.Sprintf("numeric literals in IDL text: every numeral of the pool %q (%d numerals: small values, the boundaries 2^31-1 2^31 2^32-1 2^32 2^63-1 2^63 2^64-1 2^64 with their neighbours, 20..301 digits, the negative boundaries, leading zeros, sign characters, other bases and notations, non-ASCII digits, nothing) "+
		"x %d templates %q (the two numeric positions of the grammar - the enum constant and the //uid: value in each of the comment positions the grammar admits - alone and inside otherwise valid declarations, uid spelling variants, and a numeral in each name / type position) "+
		"x {no package clause, after `package p`}; ParseIDL and ParsePackage; where the text is accepted every interface of the template must be in the result and an action whose uid numeral is canonical decimal in 1..2^32-1 must carry that id",
		numerals, len(numerals), len(pos), pos)
}

// judgeExpect applies the expectation of an ACCEPTED totality text.
func judgeExpect(e *expect, metas []metaView) (clause, detail string) {
	for _, want := range e.Ifaces {
		found := false
		for _, m := range metas {
			if m.name == want {
				found = true
			}
		}
		if !found {
			return "interface-missing", fmt.Sprintf("the text declares interface %s; the accepted package holds %d interfaces without it", want, len(metas))
		}
	}
	if len(metas) != len(e.Ifaces) {
		return "interface-count-differs", fmt.Sprintf("the text declares %d interfaces, the accepted package holds %d", len(e.Ifaces), len(metas))
	}
	for _, a := range e.Actions {
		for _, m := range metas {
			if m.name != a.Iface {
				continue
			}
			got, ok := m.names[a.Kind][a.ID]
			switch {
			case !ok:
				return "action-id-differs/" + a.Kind + "/uid" + idClass(a.ID), fmt.Sprintf("%s %s is written with //uid:%d; the accepted package has no %s with that id (ids %v)", a.Kind, a.Name, a.ID, a.Kind, m.ids(a.Kind))
			case got != a.Name:
				return "action-id-differs/" + a.Kind + "/uid" + idClass(a.ID), fmt.Sprintf("%s %s is written with //uid:%d; that id now belongs to %q", a.Kind, a.Name, a.ID, got)
			}
		}
	}
	return "", ""
}

// boundaryIDs: the action ids of the round-trip family `ids` (what GenerateIDL
// prints after //uid: and ParseIDL reads back into a uint32).
var boundaryIDs = []uint32{1, 2, 9, 10, 99, 100, 101, 255, 256, 999, 1000, 32767, 32768, 65535, 65536, 1<<24 - 1, 1 << 24, 999999999, 1000000000,
	1<<31 - 2, 1<<31 - 1, 1 << 31, 1<<31 + 1, 3000000000, 4000000000, 1<<32 - 3, 1<<32 - 2, 1<<32 - 1}

// genIDs: every boundary id on a method, a signal and a property - alone,
// between two other actions of the same kind, on all three kinds at once -
// and every ordered pair of boundary ids on two methods of one interface.
func genIDs(emit func(pkg) bool) {
	i, s := sigen.A('i'), sigen.A('s')
	mk := func(kind byte, id uint32, name string) action {
		switch kind {
		case 'm':
			return method(id, name, i, s)
		case 's':
			return signal(id, name, i)
		}
		return property(id, name, s)
	}
	for _, id := range boundaryIDs {
		for _, kind := range []byte("msp") {
			if !emit(one("Svc", mk(kind, id, "x"))) {
				return
			}
			if id > 20 && id < 1<<32-20 {
				if !emit(one("Svc", mk(kind, id-11, "before"), mk(kind, id, "x"), mk(kind, id+11, "after"))) {
					return
				}
			}
		}
		if !emit(one("Svc", mk('m', id, "x"), mk('s', id, "y"), mk('p', id, "z"))) {
			return
		}
	}
	for _, a := range boundaryIDs {
		for _, b := range boundaryIDs {
			if a != b && !emit(one("Svc", mk('m', a, "x"), mk('m', b, "y"))) {
				return
			}
		}
	}
}
