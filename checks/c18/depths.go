// C18, nesting depth as a dimension of the round-trip universe.
//
// The Sig(2,2) universe stops at depth 2 and the ladders family only judges
// totality. This family round-trips types nested 1..maxD deep (seed C18-16 put a
// depth limit of 16 into the IDL type parser only: the printers and the signature
// parser have none, so a deeper type no longer came back).
package main

import (
	"verif/internal/sigen"
)

type depthStep struct {
	name string
	f    func(x *sigen.T) *sigen.T
}

func depthSteps() []depthStep {
	i, s := sigen.A('i'), sigen.A('s')
	return []depthStep{
		{"Vec<.>", func(x *sigen.T) *sigen.T { return sigen.L(x) }},
		{"Map<str,.>", func(x *sigen.T) *sigen.T { return sigen.M(s, x) }},
		{"Map<.,str>", func(x *sigen.T) *sigen.T { return sigen.M(x, s) }},
		{"Tuple<.,int32>", func(x *sigen.T) *sigen.T { return sigen.Tu(x, i) }},
		{"Tuple<int32,.>", func(x *sigen.T) *sigen.T { return sigen.Tu(i, x) }},
	}
}

// deep applies steps[k % len] for k = 0..d-1 around the leaf.
func deep(leaf *sigen.T, steps []depthStep, d int) *sigen.T {
	t := leaf.Clone()
	for k := 0; k < d; k++ {
		t = steps[k%len(steps)].f(t)
	}
	return t
}

func depthsUniverse(maxD int) string {
	return "nesting depth 1.." + itoa(maxD) + " of Vec<.>, Map<str,.>, Map<.,str>, Tuple<.,int32>, Tuple<int32,.> (each alone and the five rotations of their alternation) around int32, str and a two-member struct, in every position of widthPositions (parameter, result, signal, property, bare forms)"
}

func itoa(n int) string {
	if n == 0 {
		return "0"
	}
	var b []byte
	for n > 0 {
		b = append([]byte{byte('0' + n%10)}, b...)
		n /= 10
	}
	return string(b)
}

func genDepths(maxD int, emit func(pkg) bool) {
	steps := depthSteps()
	leaves := []*sigen.T{sigen.A('i'), sigen.A('s'), sigen.St("Leaf", []string{"a", "b"}, sigen.A('i'), sigen.A('s'))}
	var chains [][]depthStep
	for _, st := range steps {
		chains = append(chains, []depthStep{st})
	}
	for r := 0; r < len(steps); r++ {
		chains = append(chains, append(append([]depthStep{}, steps[r:]...), steps[:r]...))
	}
	for d := 1; d <= maxD; d++ {
		for _, leaf := range leaves {
			for _, ch := range chains {
				for _, a := range widthPositions(deep(leaf, ch, d)) {
					if !emit(one("Svc", a)) {
						return
					}
				}
			}
		}
	}
}
