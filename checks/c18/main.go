// C18 - MetaObject -> IDL -> MetaObject is the identity; the IDL parser is total.
//
// Bounded-exhaustive exploration (engine A).
//
// Round-trip families: packages of meta-objects are built from sigen trees
// (own AST and printers), printed with idl.GenerateIDL, parsed back with
// idl.ParseIDL and compared: same interfaces, same action ids per kind, same
// action names, same parameter / return / signal / property signatures
// (struct and member names included, compared as strings).
//
//	types     one interface {method(T)->T, signal(T), property(T)} for every T of Sig(2,2)
//	pairs     one method (T1, T2) -> v|T1 for every pair over Sig(1,2) (reduced atoms)
//	names     fixed shapes x identifier hygiene pools for interface, action,
//	          parameter, struct and member names
//	actions   1..3 actions of each kind, several id schemes, rotating types
//	packages  two interfaces sharing structs
//	emitted   as generateStubMetaObject emits them: single-parameter signals and
//	          properties NOT tuple-wrapped, no parameter list (judged modulo the wrapping)
//	widths    the width as a dimension (widths.go): structs of 0..8 (thorough 16)
//	          members and tuples of 0..8 members - the struct and the tuple
//	          WITHOUT member included - in every position (whole type of a parameter / result /
//	          signal / property, inside Vec, Map, Tuple, another struct, two
//	          levels deep, shared by actions and by two interfaces); 0..8
//	          parameters, 0..8 actions per kind, interface without action,
//	          package without interface
//	ids       action ids at the integer boundaries (numerals.go)
//
// Totality families: every sequence of <= L tokens of a 24 token IDL
// alphabet, nesting ladders, and every single-character deletion / prefix of
// a corpus of generated IDL texts: ParseIDL returns a package or an error,
// never a panic, within the watchdog. Identifier-shape dimension: a pool of
// names covering every lexical shape the package-name token
// [_A-Za-z][0-9a-zA-Z-._]* admits at its boundaries (trailing . - _ digit,
// doubled separators, a lone _, keywords, and shapes just outside the token)
// is used as the package name before a set of continuations, as interface /
// struct / enum / member / action / parameter / type-reference name in fixed
// shapes, and as extra tokens of a reduced token alphabet; on these texts
// ParsePackage is called directly as well.
// Numeric-literal dimension (numerals.go): a pool of numerals on the integer
// boundaries (2^31, 2^32, 2^63, 2^64 and neighbours, 20+ digits, leading
// zeros, signs, other bases, nothing) in the two numeric positions of the
// grammar - the enum constant and the //uid: value of every comment position -
// alone and inside otherwise valid declarations, and in the name / type
// positions; ParseIDL and ParsePackage; an accepted text must hold the
// interfaces its template declares and the ids written in canonical decimal.
//
// A failure seen during the enumeration that does not show again when its case
// is re-run alone is a violation (<fingerprint>/depends-on-earlier-calls): the
// code under test keeps state between calls. It is never an engine error.
package main

import (
	"bytes"
	"encoding/json"
	"fmt"
	"hash/fnv"
	"os"
	"runtime"
	"sort"
	"strings"
	"time"

	"github.com/lugu/qiloop/meta/idl"
	"github.com/lugu/qiloop/type/object"

	"verif/internal/report"
	"verif/internal/sigen"
	"verif/internal/sigen/runner"
)

// ------------------------------------------------------------ model

type action struct {
	Kind   byte // 'm' method, 's' signal, 'p' property
	ID     uint32
	Name   string
	Params []*sigen.T
	PNames []string // methods: parameter names (nil = no Parameters list)
	Ret    *sigen.T // methods only
	Bare   bool     // signals / properties with one parameter: signature not tuple-wrapped
	// free text of a method (descriptions family): nothing of it may disturb the round trip
	Desc, RetDesc, PDesc string
}

type iface struct {
	Name    string
	Actions []action
}

type pkg struct {
	Name   string
	Ifaces []iface
}

func (a action) tuple() string { return sigen.Tu(a.Params...).Sig() }

// signature of a signal / property as stored in the meta-object
func (a action) sig() string {
	if a.Bare && len(a.Params) == 1 {
		return a.Params[0].Sig()
	}
	return a.tuple()
}

func (p pkg) metas() map[string]object.MetaObject {
	out := map[string]object.MetaObject{}
	for _, it := range p.Ifaces {
		m := object.MetaObject{Description: it.Name, Methods: map[uint32]object.MetaMethod{},
			Signals: map[uint32]object.MetaSignal{}, Properties: map[uint32]object.MetaProperty{}}
		for _, a := range it.Actions {
			switch a.Kind {
			case 'm':
				mm := object.MetaMethod{Uid: a.ID, Name: a.Name, ParametersSignature: a.tuple(), ReturnSignature: a.Ret.Sig(),
					Description: a.Desc, ReturnDescription: a.RetDesc}
				if a.PNames != nil {
					mm.Parameters = []object.MetaMethodParameter{}
					for i := range a.Params {
						mm.Parameters = append(mm.Parameters, object.MetaMethodParameter{Name: a.PNames[i], Description: a.PDesc})
					}
				}
				m.Methods[a.ID] = mm
			case 's':
				m.Signals[a.ID] = object.MetaSignal{Uid: a.ID, Name: a.Name, Signature: a.sig()}
			case 'p':
				m.Properties[a.ID] = object.MetaProperty{Uid: a.ID, Name: a.Name, Signature: a.sig()}
			}
		}
		out[it.Name] = m
	}
	return out
}

// types lists every type position of the package.
func (p pkg) types() []*sigen.T {
	var out []*sigen.T
	for _, it := range p.Ifaces {
		for _, a := range it.Actions {
			out = append(out, a.Params...)
			if a.Ret != nil {
				out = append(out, a.Ret)
			}
		}
	}
	return out
}

// wellFormed is the precondition of the judged universe: struct names denote
// one definition per package and differ from interface names, void only as a
// method's return type, action ids unique per kind. (The empty struct and the
// empty tuple are in the universe: the widths family.)
func (p pkg) wellFormed() bool {
	defs := map[string]string{}
	for _, it := range p.Ifaces {
		defs[it.Name] = "interface"
	}
	if len(defs) != len(p.Ifaces) {
		return false
	}
	for _, it := range p.Ifaces {
		ids := map[string]bool{}
		for _, a := range it.Actions {
			k := fmt.Sprintf("%c%d", a.Kind, a.ID)
			if ids[k] {
				return false
			}
			ids[k] = true
			if a.Kind != 'm' && len(a.Params) == 0 {
				return false
			}
		}
	}
	bad := false
	check := func(t *sigen.T, isRet bool) {
		t.Contains(func(x *sigen.T) bool {
			if x.Kind == sigen.Atom && x.Atom == 'v' && !(isRet && x == t) {
				bad = true
			}
			if x.Kind == sigen.Struct {
				def := sigen.Tu(x.Elem...).Sig() + strings.Join(x.Fields, ",")
				if old, ok := defs[x.Name]; ok && old != def {
					bad = true
				}
				defs[x.Name] = def
			}
			return false
		})
	}
	for _, it := range p.Ifaces {
		for _, a := range it.Actions {
			for _, t := range a.Params {
				check(t, false)
			}
			if a.Ret != nil {
				check(a.Ret, true)
			}
		}
	}
	return !bad
}

// ------------------------------------------------------------ oracle

type failure struct {
	clause, detail, msg, site string
}

func (f failure) key() string { return f.clause + "|" + f.msg + "|" + f.site }

// wrapIfBare: a bare single-parameter signature T may come back as (T).
func wrapIfBare(sig string, params int) string {
	if params == 1 {
		return "(" + sig + ")"
	}
	return sig
}

// eval runs GenerateIDL and ParseIDL on p and compares. rewrapped counts the
// bare signal / property signatures that came back tuple-wrapped (accepted).
func eval(p pkg) (fails []failure, slow bool, text string, rewrapped int) {
	metas := p.metas()
	var buf bytes.Buffer
	var err error
	o := runner.Guard(func() { err = idl.GenerateIDL(&buf, p.Name, metas) })
	if o.Slow {
		return nil, true, "", 0
	}
	if o.Panic != "" {
		return []failure{{"GenerateIDL/panic", o.Panic, runner.MsgClass(o.Panic), o.Site}}, false, "", 0
	}
	if err != nil {
		return []failure{{"GenerateIDL/error", err.Error(), "", ""}}, false, "", 0
	}
	text = buf.String()
	var back []object.MetaObject
	o = runner.Guard(func() { back, err = idl.ParseIDL(strings.NewReader(text)) })
	if o.Slow {
		return nil, true, text, 0
	}
	if o.Panic != "" {
		return []failure{{"ParseIDL(generated)/panic", o.Panic, runner.MsgClass(o.Panic), o.Site}}, false, text, 0
	}
	if err != nil {
		return []failure{{"ParseIDL(generated)/error", err.Error(), "", ""}}, false, text, 0
	}
	add := func(clause, format string, args ...interface{}) {
		for _, f := range fails {
			if f.clause == clause {
				return
			}
		}
		fails = append(fails, failure{clause, fmt.Sprintf(format, args...), "", ""})
	}
	if len(back) != len(p.Ifaces) {
		add("roundtrip/interface-count-differs", "%d interfaces became %d", len(p.Ifaces), len(back))
	}
	for _, it := range p.Ifaces {
		var got *object.MetaObject
		for i := range back {
			if back[i].Description == it.Name {
				got = &back[i]
			}
		}
		if got == nil {
			add("roundtrip/interface-missing", "interface %s is not in the parsed package", it.Name)
			continue
		}
		want := metas[it.Name]
		if len(got.Methods) != len(want.Methods) || len(got.Signals) != len(want.Signals) || len(got.Properties) != len(want.Properties) {
			add("roundtrip/action-count-differs", "interface %s: %d/%d/%d methods/signals/properties became %d/%d/%d", it.Name,
				len(want.Methods), len(want.Signals), len(want.Properties), len(got.Methods), len(got.Signals), len(got.Properties))
		}
		for _, a := range it.Actions {
			switch a.Kind {
			case 'm':
				w := want.Methods[a.ID]
				g, ok := got.Methods[a.ID]
				switch {
				case !ok:
					add("roundtrip/action-id-lost", "method %s uid %d is missing (ids now %v)", a.Name, a.ID, keysM(got.Methods))
				case g.Name != w.Name:
					add("roundtrip/action-name-differs", "method uid %d %q became %q", a.ID, w.Name, g.Name)
				default:
					if g.ParametersSignature != w.ParametersSignature {
						add("roundtrip/signature-differs", "parameters of method %s: %q became %q", a.Name, w.ParametersSignature, g.ParametersSignature)
					}
					if g.ReturnSignature != w.ReturnSignature {
						add("roundtrip/signature-differs", "return of method %s: %q became %q", a.Name, w.ReturnSignature, g.ReturnSignature)
					}
				}
			case 's':
				w := want.Signals[a.ID]
				g, ok := got.Signals[a.ID]
				switch {
				case !ok:
					add("roundtrip/action-id-lost", "signal %s uid %d is missing", a.Name, a.ID)
				case g.Name != w.Name:
					add("roundtrip/action-name-differs", "signal uid %d %q became %q", a.ID, w.Name, g.Name)
				case g.Signature != w.Signature:
					if a.Bare && g.Signature == wrapIfBare(w.Signature, len(a.Params)) {
						rewrapped++
					} else {
						add("roundtrip/signature-differs", "signal %s: %q became %q", a.Name, w.Signature, g.Signature)
					}
				}
			case 'p':
				w := want.Properties[a.ID]
				g, ok := got.Properties[a.ID]
				switch {
				case !ok:
					add("roundtrip/action-id-lost", "property %s uid %d is missing", a.Name, a.ID)
				case g.Name != w.Name:
					add("roundtrip/action-name-differs", "property uid %d %q became %q", a.ID, w.Name, g.Name)
				case g.Signature != w.Signature:
					if a.Bare && g.Signature == wrapIfBare(w.Signature, len(a.Params)) {
						rewrapped++
					} else {
						add("roundtrip/signature-differs", "property %s: %q became %q", a.Name, w.Signature, g.Signature)
					}
				}
			}
		}
	}
	return fails, false, text, rewrapped
}

func keysM(m map[uint32]object.MetaMethod) []int {
	var k []int
	for id := range m {
		k = append(k, int(id))
	}
	sort.Ints(k)
	return k
}

// ------------------------------------------------------------ description, shrinking

var idlKeywords = map[string]bool{"fn": true, "sig": true, "prop": true, "end": true, "interface": true, "struct": true, "enum": true, "package": true}
var basicNames = []string{"int8", "uint8", "int16", "uint16", "int32", "uint32", "int64", "uint64", "float32", "float64", "bool", "str", "obj", "any", "unknown", "nothing"}

// nameClass abstracts an identifier by the lexical trap it may set.
func nameClass(n string) string {
	switch {
	case n == "":
		return "empty"
	case idlKeywords[n]:
		return "idl-keyword"
	case strings.HasPrefix(n, "Vec<") || strings.HasPrefix(n, "Map<") || strings.HasPrefix(n, "Tuple<"):
		return "container-spelling"
	}
	for _, b := range basicNames {
		if strings.HasPrefix(n, b) {
			if strings.Contains(n, "<") {
				return "basic-type-prefix+template"
			}
			return "basic-type-prefix"
		}
	}
	switch {
	case strings.Contains(n, "<"):
		return "template"
	case n[0] == '_':
		return "underscore-first"
	}
	return "plain"
}

func idClass(id uint32) string {
	switch {
	case id == 0:
		return "0"
	case id < 100:
		return "<100"
	case id == 0xffffffff:
		return "max"
	case id >= 1<<31:
		return ">=2^31"
	}
	return ">=100"
}

// describe is the abstraction of a package used in fingerprints and in the
// distinct count.
func describe(p pkg) string {
	var b strings.Builder
	for i, it := range p.Ifaces {
		if i > 0 {
			b.WriteString("+")
		}
		fmt.Fprintf(&b, "I[%s]{", nameClass(it.Name))
		for j, a := range it.Actions {
			if j > 0 {
				b.WriteString(";")
			}
			kind := map[byte]string{'m': "fn", 's': "sig", 'p': "prop"}[a.Kind]
			if a.Bare {
				kind += "-bare"
			}
			fmt.Fprintf(&b, "%s[%s,id%s](", kind, nameClass(a.Name), idClass(a.ID))
			for k, t := range a.Params {
				if k > 0 {
					b.WriteString(",")
				}
				if a.PNames != nil {
					b.WriteString(nameClass(a.PNames[k]) + ":")
				}
				b.WriteString(t.ShapeWith(nameClass))
			}
			b.WriteString(")")
			if a.Ret != nil {
				b.WriteString("->" + a.Ret.ShapeWith(nameClass))
			}
		}
		b.WriteString("}")
	}
	return b.String()
}

// detailOf is the discriminating detail of a minimised failing package: the
// lexical classes of the names that could not be replaced by plain ones (by
// role), or, when every name is plain, the full abstraction of the package.
func detailOf(p pkg) string {
	if hasEmptyTuple(p) {
		// localize has replaced by int32 every empty tuple the failure does
		// not need: what is left matters, wherever it sits
		return "tuple[empty]"
	}
	set := map[string]bool{}
	note := func(role, n string) {
		if c := nameClass(n); c != "plain" {
			set[role+"="+c] = true
		}
	}
	for _, it := range p.Ifaces {
		note("interface", it.Name)
		for _, a := range it.Actions {
			note("action", a.Name)
			for _, n := range a.PNames {
				note("parameter", n)
			}
			if a.ID < 100 || a.ID >= 1<<31 {
				set["id"+idClass(a.ID)] = true
			}
		}
	}
	for _, t := range p.types() {
		for _, x := range t.Structs() {
			note("struct", x.Name)
			for _, f := range x.Fields {
				note("member", f)
			}
		}
	}
	if len(set) == 0 {
		return coarse(p)
	}
	var l []string
	for k := range set {
		l = append(l, k)
	}
	sort.Strings(l)
	return strings.Join(l, "+")
}

func isEmptyTuple(x *sigen.T) bool { return x.Kind == sigen.Tuple && len(x.Elem) == 0 }

func hasEmptyTuple(p pkg) bool {
	for _, t := range p.types() {
		if t.Contains(isEmptyTuple) {
			return true
		}
	}
	return false
}

// coarse describes a reduced package whose names are all plain: for a single
// action holding a single type, the position and the root constructor of the
// type (nothing when the type is the plain i the reducer leaves where the
// type does not matter); otherwise the action kinds without their types.
func coarse(p pkg) string {
	if len(p.Ifaces) == 1 && len(p.Ifaces[0].Actions) == 1 {
		a := p.Ifaces[0].Actions[0]
		var t *sigen.T
		pos := ""
		switch {
		case a.Kind == 'm' && len(a.Params) == 1 && a.Ret.Sig() == "v":
			t, pos = a.Params[0], "parameter"
		case a.Kind == 'm' && len(a.Params) == 0:
			t, pos = a.Ret, "return"
		case a.Kind == 's' && len(a.Params) == 1:
			t, pos = a.Params[0], "signal"
		case a.Kind == 'p' && len(a.Params) == 1:
			t, pos = a.Params[0], "property"
		}
		if a.Bare {
			pos += "-bare"
		}
		if t != nil {
			if t.Sig() == "i" || t.Sig() == "v" {
				return pos
			}
			d := t.Kind.String()
			if t.Kind == sigen.Atom {
				d = "atom=" + string(t.Atom)
			}
			return pos + ":" + d + widthLabel(t)
		}
	}
	// several actions: the kinds present, per interface
	var parts []string
	for _, it := range p.Ifaces {
		set := map[string]bool{}
		for _, a := range it.Actions {
			kind := map[byte]string{'m': "fn", 's': "sig", 'p': "prop"}[a.Kind]
			if a.Bare {
				kind += "-bare"
			}
			set[kind] = true
		}
		parts = append(parts, "I{"+strings.Join(sortedKeys(set), ",")+"}")
	}
	return strings.Join(parts, "+")
}

// widthLabel marks a reduced struct / tuple whose width lies outside 1..2, the
// widths of Sig(2,2): localize has removed every member the failure does not
// need (down to one), so a width above 2 is the smallest failing one and
// [empty] is only said of a struct that was generated without member.
func widthLabel(t *sigen.T) string {
	if t.Kind != sigen.Struct && t.Kind != sigen.Tuple {
		return ""
	}
	switch n := len(t.Elem); {
	case n == 0:
		return "[empty]"
	case n > 2:
		return fmt.Sprintf("[width=%d]", n)
	}
	return ""
}

func (p pkg) clone() pkg {
	c := pkg{Name: p.Name}
	for _, it := range p.Ifaces {
		ci := iface{Name: it.Name}
		for _, a := range it.Actions {
			ca := a
			ca.Params = append([]*sigen.T(nil), a.Params...)
			if a.PNames != nil {
				ca.PNames = append([]string{}, a.PNames...)
			}
			ci.Actions = append(ci.Actions, ca)
		}
		c.Ifaces = append(c.Ifaces, ci)
	}
	return c
}

// text is a compact, deterministic rendering of a package (used in replay
// files and to order candidates).
func (p pkg) text() string {
	var b strings.Builder
	for _, it := range p.Ifaces {
		fmt.Fprintf(&b, "interface %s {", it.Name)
		for _, a := range it.Actions {
			fmt.Fprintf(&b, " %c#%d %s %s", a.Kind, a.ID, a.Name, a.tuple())
			if a.PNames != nil {
				fmt.Fprintf(&b, "%q", a.PNames)
			}
			if a.Ret != nil {
				b.WriteString("->" + a.Ret.Sig())
			}
			if a.Bare {
				b.WriteString(" bare")
			}
			b.WriteString(";")
		}
		b.WriteString(" } ")
	}
	return b.String()
}

// localize reduces a failing package, by a fixed sequence of deterministic
// steps, to the smallest part that still fails in the same way: one
// interface, one action, one type position, the smallest failing subtree of
// that type, and plain names wherever the names do not matter. Every step
// keeps the candidate only if it is well formed and eval reports a failure
// with the same key.
func localize(p pkg, key string) pkg {
	fails := func(q pkg) bool {
		if !q.wellFormed() {
			return false
		}
		fs, _, _, _ := eval(q)
		for _, f := range fs {
			if f.key() == key {
				return true
			}
		}
		return false
	}
	cur := p.clone()
	if len(cur.Ifaces) > 1 {
		for _, it := range cur.Ifaces {
			if q := (pkg{Name: cur.Name, Ifaces: []iface{it}}); fails(q) {
				cur = q
				break
			}
		}
	}
	if len(cur.Ifaces) == 1 && len(cur.Ifaces[0].Actions) > 1 {
		for _, a := range cur.Ifaces[0].Actions {
			if q := one(cur.Ifaces[0].Name, a); fails(q) {
				cur = q
				break
			}
		}
	}
	single := func() *action {
		if len(cur.Ifaces) == 1 && len(cur.Ifaces[0].Actions) == 1 {
			return &cur.Ifaces[0].Actions[0]
		}
		return nil
	}
	// one type position
	if a := single(); a != nil && len(a.Params)+btoi(a.Ret != nil && a.Ret.Sig() != "v") > 1 {
		var cands []action
		for k := range a.Params {
			c := *a
			c.Params = []*sigen.T{a.Params[k]}
			if a.PNames != nil {
				c.PNames = []string{a.PNames[k]}
			}
			if c.Ret != nil {
				c.Ret = sigen.A('v')
			}
			cands = append(cands, c)
		}
		if a.Ret != nil && a.Ret.Sig() != "v" {
			c := *a
			c.Params = nil
			if a.PNames != nil {
				c.PNames = []string{}
			}
			cands = append(cands, c)
		}
		for _, c := range cands {
			if q := one(cur.Ifaces[0].Name, c); fails(q) {
				cur = q
				break
			}
		}
	}
	// the smallest failing subtree of the single type
	if a := single(); a != nil {
		pos := func(b *action) **sigen.T {
			switch {
			case len(b.Params) == 1 && (b.Ret == nil || b.Ret.Sig() == "v"):
				return &b.Params[0]
			case len(b.Params) == 0 && b.Ret != nil:
				return &b.Ret
			}
			return nil
		}
		for pos(single()) != nil {
			t := *pos(single())
			moved := false
			for _, e := range t.Elem {
				q := cur.clone()
				*pos(&q.Ifaces[0].Actions[0]) = e
				if fails(q) {
					cur = q
					moved = true
					break
				}
			}
			if !moved {
				break
			}
		}
	}
	// an empty tuple the failure does not need becomes the plain i
	for progressed := true; progressed; {
		progressed = false
		var at []int
		walkNodes(&cur, false, func(idx int, x *sigen.T) {
			if isEmptyTuple(x) {
				at = append(at, idx)
			}
		})
		for _, target := range at {
			q := cur.clone()
			walkNodes(&q, true, func(idx int, x *sigen.T) {
				if idx == target {
					*x = *sigen.A('i')
				}
			})
			if fails(q) {
				cur = q
				progressed = true
				break
			}
		}
	}
	// the smallest failing width: remove, one at a time, every member of a
	// struct (in all the nodes carrying its name at once) or of a tuple that
	// the failure does not need - down to one member: the empty struct is a
	// class of its own and a reduction must not slip into it
	for progressed := true; progressed; {
		progressed = false
		type node struct {
			idx, width int
			kind       sigen.Kind
			name       string
		}
		var nodes []node
		walkNodes(&cur, false, func(idx int, x *sigen.T) {
			if (x.Kind == sigen.Struct || x.Kind == sigen.Tuple) && len(x.Elem) > 1 {
				nodes = append(nodes, node{idx, len(x.Elem), x.Kind, x.Name})
			}
		})
	search:
		for _, nd := range nodes {
			for m := nd.width - 1; m >= 0; m-- {
				q := cur.clone()
				walkNodes(&q, true, func(idx int, x *sigen.T) {
					hit := idx == nd.idx
					if nd.kind == sigen.Struct {
						hit = x.Kind == sigen.Struct && x.Name == nd.name && len(x.Elem) == nd.width
					}
					if hit {
						x.Elem = append(append([]*sigen.T{}, x.Elem[:m]...), x.Elem[m+1:]...)
						if x.Kind == sigen.Struct {
							x.Fields = append(append([]string{}, x.Fields[:m]...), x.Fields[m+1:]...)
						}
					}
				})
				if fails(q) {
					cur = q
					progressed = true
					break search
				}
			}
		}
	}
	try := func(edit func(q *pkg)) {
		q := cur.clone()
		edit(&q)
		if fails(q) {
			cur = q
		}
	}
	// does the type matter at all? try the plain i in every position
	for i := range cur.Ifaces {
		for j := range cur.Ifaces[i].Actions {
			i, j := i, j
			for k := range cur.Ifaces[i].Actions[j].Params {
				k := k
				if cur.Ifaces[i].Actions[j].Params[k].Sig() != "i" {
					try(func(q *pkg) { q.Ifaces[i].Actions[j].Params[k] = sigen.A('i') })
				}
			}
			if r := cur.Ifaces[i].Actions[j].Ret; r != nil && r.Sig() != "i" && r.Sig() != "v" {
				try(func(q *pkg) { q.Ifaces[i].Actions[j].Ret = sigen.A('i') })
			}
		}
	}
	// plain names wherever the names do not matter
	for i := range cur.Ifaces {
		i := i
		if nameClass(cur.Ifaces[i].Name) != "plain" {
			try(func(q *pkg) { q.Ifaces[i].Name = fmt.Sprintf("Iface%d", i) })
		}
		for j := range cur.Ifaces[i].Actions {
			j := j
			a := cur.Ifaces[i].Actions[j]
			if nameClass(a.Name) != "plain" {
				try(func(q *pkg) { q.Ifaces[i].Actions[j].Name = fmt.Sprintf("act%d", j) })
			}
			for k := range a.PNames {
				k := k
				if nameClass(a.PNames[k]) != "plain" {
					try(func(q *pkg) { q.Ifaces[i].Actions[j].PNames[k] = fmt.Sprintf("p%d", k) })
				}
			}
			if a.ID < 100 || a.ID >= 1<<31 {
				try(func(q *pkg) { q.Ifaces[i].Actions[j].ID = 1000 + uint32(j) })
			}
		}
	}
	// struct and member names, renamed consistently everywhere
	names := map[string]bool{}
	members := map[string]bool{}
	for _, t := range cur.types() {
		for _, x := range t.Structs() {
			names[x.Name] = true
			for _, f := range x.Fields {
				members[f] = true
			}
		}
	}
	mapTypes := func(q *pkg, f func(x *sigen.T)) {
		for i := range q.Ifaces {
			for j := range q.Ifaces[i].Actions {
				a := &q.Ifaces[i].Actions[j]
				for k := range a.Params {
					a.Params[k] = a.Params[k].Clone()
					for _, x := range a.Params[k].Structs() {
						f(x)
					}
				}
				if a.Ret != nil {
					a.Ret = a.Ret.Clone()
					for _, x := range a.Ret.Structs() {
						f(x)
					}
				}
			}
		}
	}
	n := 0
	for _, old := range sortedKeys(names) {
		if nameClass(old) == "plain" {
			continue
		}
		old, fresh := old, fmt.Sprintf("Plain%d", n)
		n++
		try(func(q *pkg) {
			mapTypes(q, func(x *sigen.T) {
				if x.Name == old {
					x.Name = fresh
				}
			})
		})
	}
	for _, old := range sortedKeys(members) {
		if nameClass(old) == "plain" {
			continue
		}
		old, fresh := old, fmt.Sprintf("plain%d", n)
		n++
		try(func(q *pkg) {
			mapTypes(q, func(x *sigen.T) {
				for i := range x.Fields {
					if x.Fields[i] == old {
						x.Fields[i] = fresh
					}
				}
			})
		})
	}
	return cur
}

// walkNodes visits every type node of the package in a fixed order (pre-order
// per type position, numbered from 0); with fresh = true the types are cloned
// first so that f may edit them.
func walkNodes(q *pkg, fresh bool, f func(idx int, x *sigen.T)) {
	n := 0
	var walk func(x *sigen.T)
	walk = func(x *sigen.T) {
		idx := n
		n++
		kids := x.Elem // the members as they were: f may remove one
		f(idx, x)
		for _, e := range kids {
			walk(e)
		}
	}
	for i := range q.Ifaces {
		for j := range q.Ifaces[i].Actions {
			a := &q.Ifaces[i].Actions[j]
			for k := range a.Params {
				if fresh {
					a.Params[k] = a.Params[k].Clone()
				}
				walk(a.Params[k])
			}
			if a.Ret != nil {
				if fresh {
					a.Ret = a.Ret.Clone()
				}
				walk(a.Ret)
			}
		}
	}
}

func btoi(b bool) int {
	if b {
		return 1
	}
	return 0
}

func sortedKeys(m map[string]bool) []string {
	var l []string
	for k := range m {
		l = append(l, k)
	}
	sort.Strings(l)
	return l
}

// ------------------------------------------------------------ families

func one(name string, acts ...action) pkg {
	return pkg{Name: "pk", Ifaces: []iface{{Name: name, Actions: acts}}}
}

func method(id uint32, name string, ret *sigen.T, params ...*sigen.T) action {
	pn := make([]string, len(params))
	for i := range pn {
		pn[i] = fmt.Sprintf("p%d", i)
	}
	return action{Kind: 'm', ID: id, Name: name, Params: params, PNames: pn, Ret: ret}
}
func signal(id uint32, name string, params ...*sigen.T) action {
	return action{Kind: 's', ID: id, Name: name, Params: params}
}
func property(id uint32, name string, params ...*sigen.T) action {
	return action{Kind: 'p', ID: id, Name: name, Params: params}
}

// descriptionPool: free text a meta-object may carry (seed C18-17 appended the method
// description, unescaped, to the uid comment of the generated IDL).
var descriptionPool = []string{
	"", "returns the answer", "  blanks around  ", "ends with a newline\n", "two\nlines", "three\nlines\nof text",
	"first line\n\tfn injected() //uid:300", "first line\nfn injected(a: int32) -> str //uid:301", "x\n\tsig leaked(a: int32) //uid:302",
	"x\nend\ninterface Other\n\tfn f() //uid:100\nend", "x\nend", "//uid:7", "uid:9", "see //uid:8 above", "a // b", "/* c */", "CR\r\nLF", "tab\tseparated",
	"-> int32", "(a: int32)", "fn", "caf\u00e9 \u4e16\u754c", "\n", "\n\n", "trailing blank ", "#!", "struct S\n\ta: int32\nend",
}

func genDescriptions(emit func(pkg) bool) {
	i, s := sigen.A('i'), sigen.A('s')
	for _, d := range descriptionPool {
		for pos := 0; pos < 4; pos++ {
			m := method(100, "m", s, i)
			switch pos {
			case 0:
				m.Desc = d
			case 1:
				m.RetDesc = d
			case 2:
				m.PDesc = d
			case 3:
				m.Desc, m.RetDesc, m.PDesc = d, d, d
			}
			if !emit(one("Svc", m)) {
				return
			}
			if !emit(one("Svc", m, method(101, "n", i, s), signal(102, "s", i), property(103, "p", s))) {
				return
			}
		}
	}
}

var structPool = []string{"A", "Bb", "C_1", "d", "Pair<double>", "E9", "F", "G", "H"}

// rename gives the structs of all the listed types content-determined names.
func rename(ts ...*sigen.T) []*sigen.T {
	seen := map[string]string{}
	out := make([]*sigen.T, len(ts))
	for i, t := range ts {
		out[i] = sigen.RenameStructs(t, structPool, seen)
	}
	return out
}

func c18gen(width int) sigen.Gen {
	g := sigen.Default(width)
	g.MinWidth = 1
	g.Outer = "cCwWiIlLfdbsmoX"
	return g
}

var (
	ifaceNames  = []string{"Svc", "svc", "S_1", "_S", "Int", "Object", "strings", "fn", "end", "Vec"}
	actionNames = []string{"m", "M", "get_value", "_x", "a1", "fn", "sig", "prop", "end", "interface", "struct", "int32", "str2", "Vec", "uid", "registerEvent"}
	paramNames  = []string{"a", "P0", "type", "", "x_1", "end", "fn", "str", "_"}
	structNames = []string{"A", "Ab", "B_1", "a", "z9", "List<double>", "x<Y_1>", "Vec<double>", "Map<a>", "strategy", "boolean", "int32x", "Object", "anyThing", "unknownX", "objective", "Int8", "End", "fn"}
	fieldNames  = []string{"a", "A", "a_1", "x", "P0", "type", "end", "fn", "str", "int32", "u_"}
)

type kase struct {
	family string
	p      pkg    // round-trip families
	text   string // totality families
	idx    int
	total  bool
	pp     bool    // totality: call ParsePackage directly as well
	exp    *expect // totality: what an ACCEPTED text must contain (nil = not judged)
}

func genTypes(g sigen.Gen, d int, emit func(pkg) bool) {
	stop := false
	g.Each(d, func(t *sigen.T) {
		if stop {
			return
		}
		r := rename(t)[0]
		if !emit(one("Svc", method(100, "m", r, r), signal(101, "s", r), property(102, "p", r))) {
			stop = true
		}
	})
}

func genPairs(atoms string, emit func(pkg) bool) {
	g := c18gen(2)
	g.Outer = atoms
	pool := g.Level(1, 1)
	for _, a := range pool {
		for i, b := range pool {
			r := rename(a, b)
			ret := sigen.A('v')
			if i%2 == 1 {
				ret = r[0]
			}
			if !emit(one("Svc", method(100, "m", ret, r[0], r[1]), signal(101, "s", r[1], r[0]))) {
				return
			}
		}
	}
}

func genNames(emit func(pkg) bool) {
	i, s := sigen.A('i'), sigen.A('s')
	for _, n := range ifaceNames {
		if !emit(one(n, method(100, "m", i, s), signal(101, "s", i), property(102, "p", s))) {
			return
		}
	}
	for _, n := range actionNames {
		for _, k := range "msp" {
			var a action
			switch k {
			case 'm':
				a = method(100, n, i, s)
				if n == "registerEvent" {
					a.ID = 0
				}
			case 's':
				a = signal(100, n, i)
			case 'p':
				a = property(100, n, i)
			}
			if !emit(one("Svc", a)) || !emit(one("Svc", method(7, "before", i), a, method(200, "after", s, s))) {
				return
			}
		}
	}
	for _, n := range paramNames {
		for _, n2 := range paramNames {
			a := method(100, "m", i, i, s)
			a.PNames = []string{n, n2}
			if !emit(one("Svc", a)) {
				return
			}
		}
	}
	for _, sn := range structNames {
		for _, f := range fieldNames {
			st := sigen.St(sn, []string{f}, i)
			st2 := sigen.St(sn, []string{f, "k"}, s, i)
			for _, t := range []*sigen.T{st, sigen.L(st), sigen.M(s, st), sigen.Tu(st, i), st2, sigen.L(st2)} {
				if !emit(one("Svc", method(100, "m", t, t), signal(101, "s", t), property(102, "p", t))) {
					return
				}
			}
		}
		// struct in struct, every pair of struct names
		for _, sn2 := range structNames {
			if sn2 == sn {
				continue
			}
			inner := sigen.St(sn, []string{"a"}, i)
			outer := sigen.St(sn2, []string{"b", "c"}, inner, sigen.L(inner))
			if !emit(one("Svc", method(100, "m", outer, inner), signal(101, "s", outer))) {
				return
			}
		}
	}
}

// genMemberShapes: structs whose MEMBER names repeat or differ only in case
// (the signature grammar admits both), alone and nested, used as parameter,
// return value, signal and property. The other rounds give every struct
// distinct member names.
func genMemberShapes(emit func(pkg) bool) {
	i, s := sigen.A('i'), sigen.A('s')
	shapes := []*sigen.T{
		sigen.St("Pair", []string{"v", "v"}, i, s),
		sigen.St("Triple", []string{"a", "b", "a"}, i, i, i),
		sigen.St("Twins", []string{"v", "V"}, i, i),
		sigen.St("Same", []string{"x", "x", "x"}, s, s, s),
	}
	for _, st := range shapes {
		outer := sigen.St("Outer", []string{"first", "second"}, st, i)
		for _, t := range []*sigen.T{st, sigen.L(st), sigen.M(s, st), sigen.Tu(i, st), outer} {
			if !emit(one("Svc", method(100, "m", t, t), signal(101, "s", t), property(102, "p", t))) {
				return
			}
		}
	}
}

func genActions(emit func(pkg) bool) {
	pool := rename(
		sigen.A('i'), sigen.A('s'), sigen.L(sigen.A('m')), sigen.M(sigen.A('s'), sigen.St("X", []string{"a", "b"}, sigen.A('i'), sigen.A('f'))),
		sigen.St("X", []string{"a", "b"}, sigen.A('i'), sigen.A('f')), sigen.Tu(sigen.A('b'), sigen.L(sigen.A('s'))),
		sigen.St("Y", []string{"t"}, sigen.Tu(sigen.A('i'), sigen.A('s'))), sigen.A('o'))
	schemes := [][]uint32{
		{100, 101, 102, 103, 104, 105, 106, 107, 108},
		{2, 3, 5, 8, 80, 81, 82, 83, 84},
		{100, 205, 1000, 65536, 4294967295, 4294967294, 7, 99, 101},
		{108, 107, 106, 105, 104, 103, 102, 101, 100},
		{100, 101, 102, 100, 101, 102, 100, 101, 102}, // the same ids reused across kinds
	}
	for nm := 0; nm <= 3; nm++ {
		for ns := 0; ns <= 3; ns++ {
			for np := 0; np <= 3; np++ {
				if nm+ns+np == 0 {
					continue
				}
				for si, ids := range schemes {
					for rot := 0; rot < 4; rot++ {
						var acts []action
						k := 0
						ty := func() *sigen.T { t := pool[(k+rot*3)%len(pool)]; return t }
						for x := 0; x < nm; x++ {
							a := method(ids[k], fmt.Sprintf("meth%d", x), ty(), ty())
							if (x+rot)%3 == 1 {
								a.Params = nil
								a.PNames = []string{}
								a.Ret = sigen.A('v')
							} else if (x+rot)%3 == 2 {
								a.Params = append(a.Params, pool[(k+1)%len(pool)])
								a.PNames = append(a.PNames, "second")
							}
							acts = append(acts, a)
							k++
						}
						for x := 0; x < ns; x++ {
							a := signal(ids[k], fmt.Sprintf("sig%d", x), ty())
							if (x+rot)%2 == 1 {
								a.Params = append(a.Params, pool[(k+2)%len(pool)])
							}
							acts = append(acts, a)
							k++
						}
						for x := 0; x < np; x++ {
							acts = append(acts, property(ids[k], fmt.Sprintf("prop%d", x), ty()))
							k++
						}
						// same name for a method and a signal in one variant
						if si == 0 && rot == 3 && nm > 0 && ns > 0 {
							acts[nm].Name = acts[0].Name
						}
						if !emit(one("Svc", acts...)) {
							return
						}
					}
				}
			}
		}
	}
}

func genPackages(emit func(pkg) bool) {
	g := c18gen(2)
	g.Outer = "isfm"
	g.Inner = "is"
	pool := g.Level(1, 1)
	for _, a := range pool {
		for _, b := range pool {
			if a.Kind == sigen.Atom && b.Kind == sigen.Atom {
				continue
			}
			r := rename(a, b)
			p := pkg{Name: "pk", Ifaces: []iface{
				{Name: "First", Actions: []action{method(100, "m", r[0], r[1]), signal(101, "s", r[0])}},
				{Name: "Second", Actions: []action{method(100, "m", r[1], r[0], r[1]), property(101, "s", r[0])}},
			}}
			if !emit(p) {
				return
			}
		}
	}
}

func genEmitted(inner string, emit func(pkg) bool) {
	g := c18gen(2)
	g.Outer = "iIsfbmo"
	g.Inner = inner
	for _, t := range g.Level(2, 1) {
		r := rename(t)[0]
		m := method(100, "m", r, r)
		m.PNames = nil
		s := signal(101, "s", r)
		s.Bare = true
		p := property(102, "p", r)
		p.Bare = true
		if !emit(one("Svc", m, s, p)) {
			return
		}
	}
}

var idlTokens = []string{"package", "interface", "struct", "enum", "end", "fn", "sig", "prop", "(", ")", ":", ",", "->", "//uid:1", "\n",
	"Vec<", "Map<", "Tuple<", ">", "int32", "str", "A", "=", "1"}

func genTokens(n int, emit func(string) bool) {
	idx := make([]int, n)
	var rec func(i int) bool
	rec = func(i int) bool {
		if i == n {
			parts := make([]string, n)
			for k, x := range idx {
				parts[k] = idlTokens[x]
			}
			return emit(strings.Join(parts, " "))
		}
		for k := range idlTokens {
			idx[i] = k
			if !rec(i + 1) {
				return false
			}
		}
		return true
	}
	rec(0)
}

func genLadders(emit func(string) bool) {
	for n := 1; n <= 24; n++ {
		for _, open := range []string{"Vec<", "Map<str,", "Tuple<", "Tuple<int32,"} {
			body := strings.Repeat(open, n) + "int32" + strings.Repeat(">", n)
			for _, text := range []string{
				"struct A\n\tx: " + body + "\nend\n",
				"interface I\n\tfn f(a: " + body + ") -> " + body + " //uid:100\nend\n",
				"struct A\n\tx: " + strings.Repeat(open, n) + "int32\nend\n", // unterminated type
			} {
				if !emit(text) {
					return
				}
			}
		}
		for _, text := range []string{
			strings.Repeat("interface I\n", n),
			strings.Repeat("struct S\n", n) + "end",
			strings.Repeat("interface I\nfn f(", n),
			strings.Repeat("enum E\n a = 1\n", n),
			"package p\n" + strings.Repeat("interface I\nend\n", n),
			"interface I\n" + strings.Repeat("\tfn f() //uid:", n) + "\nend",
			strings.Repeat("//", n) + strings.Repeat("\n", n),
		} {
			if !emit(text) {
				return
			}
		}
	}
}

// genDamaged: every single-character deletion and every prefix of generated
// IDL texts.
func genDamaged(emit func(string) bool) {
	var corpus []string
	i, s := sigen.A('i'), sigen.A('s')
	st := sigen.St("Point<double>", []string{"x", "y"}, sigen.A('d'), sigen.A('d'))
	for _, p := range []pkg{
		one("Svc", method(100, "m", i, s), signal(101, "s", i), property(102, "p", s)),
		one("Svc", method(100, "m", st, sigen.L(st), sigen.M(s, sigen.Tu(i, st))), signal(4294967295, "moved", st, i)),
		{Name: "pk", Ifaces: []iface{{Name: "A", Actions: []action{method(2, "metaObject", sigen.A('o'), sigen.A('I'))}}, {Name: "B", Actions: []action{property(100, "v", sigen.A('m'))}}}},
	} {
		var buf bytes.Buffer
		if o := runner.Guard(func() { idl.GenerateIDL(&buf, p.Name, p.metas()) }); o.Panic == "" && !o.Slow {
			corpus = append(corpus, buf.String())
		}
	}
	for _, text := range corpus {
		for k := 0; k <= len(text); k++ {
			if !emit(text[:k]) {
				return
			}
			if k < len(text) && !emit(text[:k]+text[k+1:]) {
				return
			}
		}
	}
}

// identShapes is the identifier-shape pool. The package name token is
// [_A-Za-z][0-9a-zA-Z-._]*, identifiers are [_A-Za-z][0-9a-zA-Z_]*: the pool
// holds one name per lexical shape at the boundaries of these tokens - a name
// ending with each of the separators . - _ and with a digit, separators alone
// and doubled and mixed inside and at the end, the one-character names, names
// that are keywords or basic types, template style names - and the shapes
// just outside the tokens (leading digit or separator, separator only).
var identShapes = []string{
	"foo", "x1", "foo_", "foo.", "foo-", "a.b", "a-b", "a_b", "a.b.", "a-b-", "a.b-", "a-b.", "a.b_", "a.1", "a-1",
	"a..b", "a--b", "a.-b", "a-.b", "a..", "a--", "a.-", "a-.", "a.-.-", "a_.", "a_-", "a1.", "a1-",
	"_", "_.", "_-", "__", "_1", "a", "A", "Z9", "bla_bla.te-st",
	"package", "package.", "end", "end.", "interface", "struct-", "fn", "int32", "int32.", "str", "Vec", "Vec<int32>", "List<double>", "P<a.>",
	".foo", "-foo", "1x", "9", ".", "-", "..", "foo .", "foo. bar", "\u00e9t\u00e9", "foo\u00e9.",
}

// genPackageNames: `package <name>` for every name of the pool, followed by
// every separator and every continuation.
func genPackageNames(emit func(string) bool) {
	seps := []string{"", " ", "\n", "\t\n\n", " // comment\n", "//comment", "\r\n"}
	conts := []string{
		"",
		"interface I\nend\n",
		"interface I\n\tfn f() //uid:100\nend\n",
		"interface I\n\tfn f(a: int32, b: S) -> Vec<S> //uid:100\n\tsig s(a: str) //uid:101\n\tprop p(a: any) //uid:102\nend\nstruct S\n\tx: float32\nend\n",
		"struct S\n\ta: int32\nend\n",
		"struct S\nend\n",
		"enum E\n\ta = 1\nend\n",
		"end",
		"garbage",
		") -> = ,",
		"package p\n",
		"package p.\ninterface I\nend\n",
		"interface I\n",
		"// only a comment",
	}
	for _, kw := range []string{"package ", "package", "package\t", "package\n", " package  "} {
		for _, n := range identShapes {
			for _, sep := range seps {
				for _, c := range conts {
					if !emit(kw + n + sep + c) {
						return
					}
				}
			}
		}
	}
}

// genIdentShapes: every name of the pool in every identifier role of a few
// fixed declarations, without a package clause, after `package p` and after
// `package <the same name>`; then every ordered pair (package name, name).
func genIdentShapes(emit func(string) bool) {
	shapes := []func(n string) string{
		func(n string) string { return "interface " + n + "\nend\n" },
		func(n string) string { return "interface " + n + "\n\tfn f() //uid:100\nend\n" },
		func(n string) string { return "struct " + n + "\n\ta: int32\nend\n" },
		func(n string) string { return "struct " + n + "\nend\n" },
		func(n string) string { return "struct S\n\t" + n + ": int32\nend\n" },
		func(n string) string { return "struct S\n\ta: int32\n\t" + n + ": str\nend\n" },
		func(n string) string { return "struct S\n\ta: " + n + "\nend\n" },
		func(n string) string {
			return "struct " + n + "\n\ta: int32\nend\ninterface I\n\tfn f(p: " + n + ") -> " + n + " //uid:100\nend\n"
		},
		func(n string) string {
			return "interface I\n\tfn f(p: Vec<" + n + ">, q: Map<str," + n + ">) -> Tuple<" + n + "," + n + "> //uid:100\nend\n"
		},
		func(n string) string { return "interface I\n\tfn " + n + "() //uid:100\nend\n" },
		func(n string) string { return "interface I\n\tfn f(" + n + ": int32) //uid:100\nend\n" },
		func(n string) string {
			return "interface I\n\tsig " + n + "(" + n + ": str) //uid:101\n\tprop " + n + "(" + n + ": str) //uid:102\nend\n"
		},
		func(n string) string { return "enum " + n + "\n\ta = 1\nend\n" },
		func(n string) string { return "enum E\n\t" + n + " = 1\nend\n" },
		func(n string) string { return "interface " + n + "\nend\nstruct " + n + "\nend\nenum " + n + "\nend\n" },
	}
	for _, n := range identShapes {
		for _, sh := range shapes {
			body := sh(n)
			for _, pre := range []string{"", "package p\n", "package " + n + "\n"} {
				if !emit(pre + body) {
					return
				}
			}
		}
	}
	for _, pn := range identShapes {
		for _, n := range identShapes {
			if pn == n {
				continue
			}
			for _, k := range []int{0, 2, 4, 7, 11} {
				if !emit("package " + pn + "\n" + shapes[k](n)) {
					return
				}
			}
		}
	}
}

// nameTokens is a reduced token alphabet in which the identifier positions
// are filled by names of distinct lexical shapes.
var nameTokens = []string{"package", "interface", "struct", "end", "fn", "(", ")", ":", "->", "//uid:1", "\n", "int32",
	"foo.", "foo-", "a..b", "a-b", "_", "x1", "foo_"}

func genNameTokens(n int, emit func(string) bool) {
	idx := make([]int, n)
	var rec func(i int) bool
	rec = func(i int) bool {
		if i == n {
			parts := make([]string, n)
			for k, x := range idx {
				parts[k] = nameTokens[x]
			}
			return emit(strings.Join(parts, " "))
		}
		for k := range nameTokens {
			idx[i] = k
			if !rec(i + 1) {
				return false
			}
		}
		return true
	}
	rec(0)
}

// ------------------------------------------------------------ driver

type witness struct {
	fp, what string
	fkey     string
	family   string
	p        pkg
	minp     pkg
	text     string
	total    bool
	exp      *expect
	min      string
	count    int
}

type wstate struct {
	evals        int
	slow         int
	rewrapped    int
	parsedOK     int // totality: texts accepted as a package
	judged       int // totality: accepted texts compared with what their template declares
	distinct     map[string]struct{}
	wit          map[string]*witness
	localised    map[string]int
	notLocalised int
	perFamily    map[string]int
	samples      map[string][]string
}

func newState() *wstate {
	return &wstate{distinct: map[string]struct{}{}, wit: map[string]*witness{}, localised: map[string]int{}, perFamily: map[string]int{}, samples: map[string][]string{}}
}

func (st *wstate) sample(family, s string) {
	h := fnv.New32a()
	h.Write([]byte(s))
	key := fmt.Sprintf("%08x %s", h.Sum32(), s)
	l := st.samples[family]
	if len(l) == 3 && key >= l[2] {
		return
	}
	l = append(l, key)
	sort.Strings(l)
	if len(l) > 3 {
		l = l[:3]
	}
	st.samples[family] = l
}

func clip(s string) string {
	if len(s) > 220 {
		return s[:220] + "..."
	}
	return s
}

func (st *wstate) record(w *witness) {
	cur, ok := st.wit[w.fp]
	if !ok {
		w.count = 1
		st.wit[w.fp] = w
		return
	}
	n := cur.count + 1
	if len(w.min) < len(cur.min) || len(w.min) == len(cur.min) && w.min < cur.min {
		*cur = *w
	}
	cur.count = n
}

func (st *wstate) doRound(c kase) {
	st.evals++
	st.perFamily[c.family]++
	fails, slow, _, rew := eval(c.p)
	if slow {
		st.slow++
		return
	}
	st.rewrapped += rew
	out := "ok"
	if len(fails) > 0 {
		out = fails[0].clause
	}
	d := describe(c.p)
	st.distinct[d+" => "+out] = struct{}{}
	st.sample(c.family, c.p.text()+" => "+out)
	for _, f := range fails {
		if st.localised[f.key()] >= maxLocalisations {
			st.notLocalised++
			continue
		}
		st.localised[f.key()]++
		min := localize(c.p, f.key())
		detail := detailOf(min)
		if strings.HasSuffix(f.clause, "/panic") {
			detail = f.msg + "@" + f.site + "/" + detail
		}
		fp := report.FPEscape(f.clause + "/" + detail)
		// the description of the failure on the reduced case
		if fs, _, _, _ := eval(min); len(fs) > 0 {
			for _, g := range fs {
				if g.key() == f.key() {
					f = g
				}
			}
		}
		st.record(&witness{fp: fp, fkey: f.key(), what: fmt.Sprintf("%s on %s: %s", f.clause, clip(min.text()), clip(f.detail)), family: c.family, p: c.p, minp: min, min: min.text()})
	}
}

// maxLocalisations bounds, per worker and per kind of failure, how many
// failing cases are reduced and attributed to a fingerprint; the others are
// counted under failures_not_localised.
const maxLocalisations = 400

func (st *wstate) doTotal(c kase) {
	st.evals++
	st.perFamily[c.family]++
	var metas []object.MetaObject
	var err error
	o := runner.Guard(func() { metas, err = idl.ParseIDL(strings.NewReader(c.text)) })
	if o.Slow {
		st.slow++
		return
	}
	out := "error"
	switch {
	case o.Panic != "":
		out = "panic"
		// minimise by deleting characters
		min := c.text
		key := runner.MsgClass(o.Panic) + "@" + o.Site
		for {
			progressed := false
			for i := 0; i < len(min); i++ {
				cand := min[:i] + min[i+1:]
				o2 := runner.Guard(func() { idl.ParseIDL(strings.NewReader(cand)) })
				if o2.Panic != "" && runner.MsgClass(o2.Panic)+"@"+o2.Site == key {
					min = cand
					progressed = true
					break
				}
			}
			if !progressed {
				break
			}
		}
		fp := report.FPEscape("ParseIDL(arbitrary)/panic/" + key)
		st.record(&witness{fp: fp, what: fmt.Sprintf("ParseIDL panics on %q: %s", clip(min), clip(o.Panic)), family: c.family, text: c.text, total: true, min: min})
	case err == nil:
		out = fmt.Sprintf("package with %d interfaces", len(metas))
		st.parsedOK++
		st.distinct["accepted: "+strings.Join(strings.Fields(c.text), " ")] = struct{}{}
		st.sample(c.family+"\x00acc", fmt.Sprintf("%q => %s", c.text, out))
		if c.exp != nil {
			st.judged++
			if clause, detail := judgeExpect(c.exp, viewsOf(metas)); clause != "" {
				fp := report.FPEscape("ParseIDL(accepted-text)/" + clause)
				st.record(&witness{fp: fp, what: fmt.Sprintf("ParseIDL accepts %q but %s", clip(c.text), detail), family: c.family, text: c.text, total: true, exp: c.exp, min: c.text})
			}
		}
	case metas != nil && err != nil:
		fp := "ParseIDL(arbitrary)/result-and-error"
		st.record(&witness{fp: fp, what: fmt.Sprintf("ParseIDL returns both meta-objects and an error on %q", clip(c.text)), family: c.family, text: c.text, total: true, min: c.text})
	}
	if c.pp {
		st.parsePackage(c, o.Panic != "")
	}
	if c.idx%1009 == 1 {
		st.sample(c.family, fmt.Sprintf("%q => %s", c.text, out))
	}
}

// metaView is what judgeExpect looks at: per kind, the name under every id.
type metaView struct {
	name  string
	names map[string]map[uint32]string
}

func (m metaView) ids(kind string) []uint32 {
	var l []uint32
	for id := range m.names[kind] {
		l = append(l, id)
	}
	sort.Slice(l, func(i, j int) bool { return l[i] < l[j] })
	return l
}

func viewsOf(metas []object.MetaObject) []metaView {
	var out []metaView
	for _, m := range metas {
		v := metaView{name: m.Description, names: map[string]map[uint32]string{"fn": {}, "sig": {}, "prop": {}}}
		for id, x := range m.Methods {
			v.names["fn"][id] = x.Name
		}
		for id, x := range m.Signals {
			v.names["sig"][id] = x.Name
		}
		for id, x := range m.Properties {
			v.names["prop"][id] = x.Name
		}
		out = append(out, v)
	}
	return out
}

// parsePackage applies the totality oracle to idl.ParsePackage itself: a
// package or an error, never a panic. ParseIDL goes through ParsePackage, so
// a panic is only recorded here when ParseIDL did not panic on the same text.
func (st *wstate) parsePackage(c kase, idlPanicked bool) {
	var decl *idl.PackageDeclaration
	var err error
	o := runner.Guard(func() { decl, err = idl.ParsePackage([]byte(c.text)) })
	switch {
	case o.Slow:
		st.slow++
	case o.Panic != "":
		if !idlPanicked {
			fp := report.FPEscape("ParsePackage(arbitrary)/panic/" + runner.MsgClass(o.Panic) + "@" + o.Site)
			st.record(&witness{fp: fp, what: fmt.Sprintf("ParsePackage panics on %q: %s", clip(c.text), clip(o.Panic)), family: c.family, text: c.text, total: true, min: c.text})
		}
	case decl == nil && err == nil:
		fp := "ParsePackage(arbitrary)/neither-package-nor-error"
		st.record(&witness{fp: fp, what: fmt.Sprintf("ParsePackage returns (nil, nil) on %q", clip(c.text)), family: c.family, text: c.text, total: true, min: c.text})
	case decl != nil && err != nil:
		fp := "ParsePackage(arbitrary)/result-and-error"
		st.record(&witness{fp: fp, what: fmt.Sprintf("ParsePackage returns both a package and an error on %q", clip(c.text)), family: c.family, text: c.text, total: true, min: c.text})
	}
}

func main() {
	chk := report.New("C18", "exploration")
	if len(os.Args) >= 3 && os.Args[1] == "--replay" {
		os.Exit(replay(os.Args[2]))
	}
	tier := report.Tier()
	start := time.Now()
	budget := 120 * time.Second
	workers := 8
	if tier == "thorough" {
		budget = 600 * time.Second
		workers = 16
	}
	if n := runtime.NumCPU(); workers > n {
		workers = n
	}
	deadline := start.Add(budget)
	states := make([]*wstate, workers)
	for i := range states {
		states[i] = newState()
	}
	type famRes struct {
		name, universe string
		cases          int
		complete       bool
		wall           float64
	}
	var res []famRes
	skippedIllFormed := 0
	runRound := func(name, universe string, gen func(emit func(pkg) bool)) {
		t0 := time.Now()
		n := 0
		ok := runner.Each(workers, deadline, func(emit func(kase) bool) {
			gen(func(p pkg) bool {
				if !p.wellFormed() {
					skippedIllFormed++
					return true
				}
				n++
				return emit(kase{family: name, p: p, idx: n})
			})
		}, func(w int, c kase) { states[w].doRound(c) })
		res = append(res, famRes{name, universe, n, ok, time.Since(t0).Seconds()})
	}
	runTotalPP := func(name, universe string, pp bool, gen func(emit func(string) bool)) {
		t0 := time.Now()
		n := 0
		ok := runner.Each(workers, deadline, func(emit func(kase) bool) {
			gen(func(s string) bool { n++; return emit(kase{family: name, text: s, idx: n, total: true, pp: pp}) })
		}, func(w int, c kase) { states[w].doTotal(c) })
		res = append(res, famRes{name, universe, n, ok, time.Since(t0).Seconds()})
	}
	runTotal := func(name, universe string, gen func(emit func(string) bool)) { runTotalPP(name, universe, false, gen) }
	runTotalK := func(name, universe string, gen func(emit func(kase) bool)) {
		t0 := time.Now()
		n := 0
		ok := runner.Each(workers, deadline, func(emit func(kase) bool) {
			gen(func(c kase) bool { n++; c.family, c.idx = name, n; return emit(c) })
		}, func(w int, c kase) { states[w].doTotal(c) })
		res = append(res, famRes{name, universe, n, ok, time.Since(t0).Seconds()})
	}

	runRound("names", fmt.Sprintf("fixed shapes x interface names %q, action names %q (as method, signal, property; alone and between two other methods), parameter name pairs %q, struct names %q x member names %q in 6 type shapes, struct-in-struct for every ordered pair of struct names",
		ifaceNames, actionNames, paramNames, structNames, fieldNames), genNames)
	runRound("member-shapes", "structs whose member names repeat (v,v / a,b,a / x,x,x) or differ only in case (v,V), alone, in Vec, Map, Tuple and another struct, as parameter, return value, signal and property", genMemberShapes)
	runRound("actions", "1..3 methods x 0..3 signals x 0..3 properties (not all zero) x 5 id schemes (100.., small generic ids, sparse incl. 2^32-1, descending, same ids across kinds) x 4 rotations of an 8-type pool (struct shared between actions, struct holding a tuple, object, map of struct)", genActions)
	runRound("packages", "two interfaces {method, signal} / {method, property} sharing the types (a, b) for every pair over Sig(1,2) with atoms isfm / is (pairs of two atoms excluded)", genPackages)
	inner, pairAtoms := "ism", "ism"
	if tier == "thorough" {
		inner, pairAtoms = "isbmC", "isbmC"
	}
	runRound("emitted", "as emitted by generated stubs: method without parameter list, single-parameter signal and property with a NOT tuple-wrapped signature, for every T of Sig(2,2) (width 1..2) with leaves at distance <= 1 over iIsfbmo, deeper over "+map[string]string{"quick": "is", "thorough": "isbmC"}[tier]+"; judged modulo the re-wrapping",
		func(emit func(pkg) bool) {
			genEmitted(map[string]string{"quick": "is", "thorough": "isbmC"}[tier], emit)
		})
	gt := c18gen(2)
	gt.Inner = inner
	runRound("types", "one interface {fn m(T)->T, sig s(T), prop p(T)} for every T of Sig(2,2): depth <= 2, tuple/struct width 1..2, leaves at distance <= 1 over cCwWiIlLfdbsmoX, deeper over "+inner+"; structs named by content",
		func(emit func(pkg) bool) { genTypes(gt, 2, emit) })
	runRound("pairs", "fn m(T1,T2)->v|T1 and sig s(T2,T1) for every (T1,T2) over Sig(1,2) (width 1..2) with atoms "+pairAtoms, func(emit func(pkg) bool) { genPairs(pairAtoms, emit) })
	maxW, nSecond := 8, 4
	if tier == "thorough" {
		maxW, nSecond = 16, 1000
	}
	runRound("widths", widthsUniverse(maxW, nSecond), func(emit func(pkg) bool) { genWidths(maxW, nSecond, emit) })
	maxD := 24
	if tier == "thorough" {
		maxD = 48
	}
	runRound("depths", depthsUniverse(maxD), func(emit func(pkg) bool) { genDepths(maxD, emit) })
	runRound("descriptions", fmt.Sprintf("free text: %d description strings (empty, one line, blanks around, trailing newline, two lines, a second line that reads as an action / a uid comment / end / an interface, CR LF, tabs, comment markers, non-ASCII) as the description of a method, of its return value and of its parameters, alone and next to a second method", len(descriptionPool)), genDescriptions)
	runRound("ids", fmt.Sprintf("action ids at the integer boundaries: every id of %d on a method, a signal and a property (alone; between two actions of the same kind with ids id-11 and id+11; on all three kinds at once) and every ordered pair of these ids on two methods of one interface", boundaryIDs), genIDs)
	runTotal("ladders", "nesting ladders of depth 1..24 (Vec<, Map<str,, Tuple<, Tuple<int32,; closed and unterminated) in a struct member and in a method, repeated unterminated blocks", genLadders)
	runTotal("damaged", "every prefix and every single-character deletion of 3 generated IDL texts", genDamaged)
	runTotalPP("pkgnames", fmt.Sprintf("identifier shapes as the package name: {package followed by a blank, nothing, a tab, a newline; with leading blanks} x every name of the identifier-shape pool %q "+
		"(every lexical shape of the package-name token [_A-Za-z][0-9a-zA-Z-._]* at its boundaries: trailing . - _ digit, doubled / mixed separators inside and at the end, one-character names, keywords and basic type names, template style; and shapes just outside the token) "+
		"x 7 separators (nothing, blank, newline, blank lines, comment with and without newline, CRLF) x 14 continuations (nothing, empty interface, interface with a method, interface + struct, struct, empty struct, enum, a stray end, garbage, a second package clause, an unterminated interface, a comment); ParseIDL and ParsePackage", identShapes),
		true, genPackageNames)
	runTotalPP("identshapes", "every name of the identifier-shape pool in every identifier role of 15 fixed declarations (interface, struct and enum name, member name, member type reference, struct referenced from a method, inside Vec<> Map<> Tuple<>, method / signal / property name, parameter name, enum constant, one name for three declarations) "+
		"without package clause, after `package p` and after `package <the same name>`; then every ordered pair (package name, other name) of the pool in 5 of the shapes; ParseIDL and ParsePackage",
		true, genIdentShapes)
	runTotalK("numerals", numeralsUniverse(), genNumerals)
	runTotalK("numeral-pairs", fmt.Sprintf("every ordered pair (enum constant, uid value) of the %d numerals in one text holding both numeric positions (enum before the interface that uses it; enum after the interface, the uid also behind an enum constant); judged as numerals", len(numerals)), genNumeralPairs)
	maxNameTok := 3
	if tier == "thorough" {
		maxNameTok = 4
	}
	for n := 1; n <= maxNameTok; n++ {
		n := n
		runTotalPP(fmt.Sprintf("nametokens:len=%d", n), fmt.Sprintf("every sequence of %d tokens of %q (12 structural tokens + 7 names of distinct lexical shapes) joined by a blank; ParseIDL and ParsePackage", n, nameTokens),
			true, func(emit func(string) bool) { genNameTokens(n, emit) })
	}
	maxTok := 4
	if tier == "thorough" {
		maxTok = 5
	}
	for n := 0; n <= maxTok; n++ {
		n := n
		runTotal(fmt.Sprintf("tokens:len=%d", n), fmt.Sprintf("every sequence of %d tokens of %q joined by a blank", n, idlTokens), func(emit func(string) bool) { genTokens(n, emit) })
	}

	total := newState()
	for _, st := range states {
		total.evals += st.evals
		total.slow += st.slow
		total.rewrapped += st.rewrapped
		total.parsedOK += st.parsedOK
		total.judged += st.judged
		total.notLocalised += st.notLocalised
		for k := range st.distinct {
			total.distinct[k] = struct{}{}
		}
		for k, v := range st.perFamily {
			total.perFamily[k] += v
		}
		for _, w := range st.wit {
			cur, ok := total.wit[w.fp]
			if !ok {
				c := *w
				total.wit[w.fp] = &c
				continue
			}
			n := cur.count + w.count
			if len(w.min) < len(cur.min) || len(w.min) == len(cur.min) && w.min < cur.min {
				*cur = *w
			}
			cur.count = n
		}
	}
	var samples []interface{}
	for _, r := range res {
		for _, suffix := range []string{"", "\x00acc"} {
			var all []string
			for _, st := range states {
				all = append(all, st.samples[r.name+suffix]...)
			}
			sort.Strings(all)
			n := 0
			for i, s := range all {
				if i > 0 && s == all[i-1] {
					continue
				}
				if n == 2 {
					break
				}
				n++
				samples = append(samples, r.name+": "+clip(s[9:]))
			}
		}
	}

	fps := make([]string, 0, len(total.wit))
	for fp := range total.wit {
		fps = append(fps, fp)
	}
	sort.Strings(fps)
	for _, fp := range fps {
		w := total.wit[fp]
		okAll := true
		for i := 0; i < 5; i++ {
			if !reproduces(w) {
				okAll = false
			}
		}
		rep := map[string]interface{}{"family": w.family, "minimal": w.min, "cases_with_this_fingerprint": w.count, "replay_cmd": "./check.sh C18 quick --replay <this file>"}
		if w.total {
			rep["idl_text"] = w.text
			if w.exp != nil {
				rep["expect"] = w.exp
			}
		} else {
			rep["package"] = w.minp
			rep["package_text"] = w.minp.text()
			rep["first_seen_in"] = w.p.text()
			var buf bytes.Buffer
			if o := runner.Guard(func() { idl.GenerateIDL(&buf, w.minp.Name, w.minp.metas()) }); o.Panic == "" && !o.Slow {
				rep["generated_idl"] = buf.String()
			}
		}
		if !okAll {
			// really observed during the enumeration, not shown again by the
			// case alone: the code under test keeps state between calls (a
			// cache, a shared scope, a pooled buffer). A detection, not a
			// tool failure.
			chk.Unstable(fp, fmt.Sprintf("%s [%d cases share this fingerprint]", w.what, w.count), rep)
			continue
		}
		for i := 0; i < w.count; i++ {
			chk.Report(fp, fmt.Sprintf("%s [%d cases share this fingerprint]", w.what, w.count), rep)
		}
	}

	exhaustive := true
	var famCov []interface{}
	for _, r := range res {
		if !r.complete {
			exhaustive = false
		}
		famCov = append(famCov, map[string]interface{}{"family": r.name, "universe": r.universe, "cases": r.cases, "complete": r.complete, "wall_s": r.wall})
	}
	cov := map[string]interface{}{
		"evaluations":         total.evals,
		"distinct_nontrivial": len(total.distinct),
		"rule": "every element of each family's stated universe is generated and judged. distinct_nontrivial = number of distinct (package abstraction, outcome class) pairs of the round-trip families " +
			"(abstraction = interfaces / action kinds / id class / type shapes with atoms reduced to int/flt/bool/str/any/obj/unk and every name reduced to its lexical class) " +
			"+ number of distinct blank-normalised token texts that ParseIDL ACCEPTED in the totality families (rejected texts are counted as trivial). " +
			"Round-trip families: descriptions (free text of methods, return values and parameters), names, actions, packages, emitted, types, pairs, depths (containers nested 1..24, thorough 48, deep in every position), widths (structs and tuples of 0..N members in every position, parameter / action / interface counts from 0), ids (action ids at the integer boundaries). " +
			"Totality families (ladders, damaged, pkgnames, identshapes, numerals, numeral-pairs, nametokens, tokens) are judged by: ParseIDL returns meta-objects or an error, never a panic and never both; " +
			"in pkgnames / identshapes / nametokens (identifier-shape dimension: names of every lexical shape of the package-name and identifier tokens, as package name and in every identifier role) ParsePackage is called directly too and must return a package or an error, never a panic, never neither; " +
			"so it is in numerals / numeral-pairs (numeric-literal dimension: every numeral of the pool in the enum-constant position and in the //uid: position of every comment the grammar admits, alone and in otherwise valid declarations), " +
			"where an ACCEPTED text must in addition hold every interface its template declares and give an action whose uid is written in canonical decimal (1..2^32-1) exactly that id (totality_accepted_texts_judged counts these comparisons). " +
			"A failure that was observed during the enumeration but does not show again when its case is re-run alone is reported as a violation (<fingerprint>/depends-on-earlier-calls), not as an engine error",
		"samples":                               samples,
		"exhaustive":                            exhaustive,
		"families":                              famCov,
		"per_family_evaluations":                total.perFamily,
		"skipped_slow":                          total.slow,
		"failures_not_localised":                total.notLocalised,
		"workers":                               workers,
		"totality_texts_accepted":               total.parsedOK,
		"totality_accepted_texts_judged":        total.judged,
		"generated_cases_outside_precondition":  skippedIllFormed,
		"observation_bare_signatures_rewrapped": total.rewrapped,
		"explanation": "observation_bare_signatures_rewrapped counts signal / property signatures of the `emitted` family that were T in the meta-object and came back as (T); this is counted, not judged (see assumptions). " +
			"generated_cases_outside_precondition counts generated packages dropped because they break the stated precondition (same struct name for two definitions, struct named like the interface, void outside a return).",
	}
	assumptions := []string{
		"precondition of the judged universe: names are identifiers ([_A-Za-z][_A-Za-z0-9]*, struct names optionally Name<Arg>), a struct name denotes one definition per package and differs from the interface names (a struct without member and a tuple without member ARE in the universe), void only as a method's return, method parameter signatures are tuples, action ids unique per kind, uid 0 only for registerEvent",
		"parameter NAMES and descriptions are not compared (the statement lists ids, action names and signatures)",
		"a signal / property signature T of the `emitted` family is accepted when it comes back as (T): whether that re-wrapping breaks the letter of the property is left to the reader",
		"GenerateIDL iterates over a Go map of interfaces: with two interfaces the order of the text is not deterministic; the comparison is by interface name",
		"parser time and memory are property C07's business: a case slower than 10 s is skipped and counted under skipped_slow",
	}
	os.Exit(chk.Finish(cov, assumptions))
}

// reproduces re-runs the failing case (the case as generated and its reduced
// form) and checks that the same kind of failure shows again.
func reproduces(w *witness) bool {
	if w.total {
		st := newState()
		st.doTotal(kase{family: w.family, text: w.text, total: true, pp: true, exp: w.exp})
		_, ok := st.wit[w.fp]
		return ok
	}
	for _, p := range []pkg{w.p, w.minp} {
		fs, _, _, _ := eval(p)
		found := false
		for _, f := range fs {
			if f.key() == w.fkey {
				found = true
			}
		}
		if !found {
			return false
		}
	}
	return true
}

func replay(path string) int {
	data, err := os.ReadFile(path)
	if err != nil {
		fmt.Println(err)
		return 2
	}
	var f struct {
		Replay struct {
			Package *pkg    `json:"package"`
			Text    *string `json:"idl_text"`
			Expect  *expect `json:"expect"`
		} `json:"replay"`
	}
	if err := json.Unmarshal(data, &f); err != nil {
		fmt.Println(err)
		return 2
	}
	st := newState()
	switch {
	case f.Replay.Text != nil:
		st.doTotal(kase{family: "replay", text: *f.Replay.Text, total: true, pp: true, exp: f.Replay.Expect})
	case f.Replay.Package != nil:
		st.doRound(kase{family: "replay", p: *f.Replay.Package})
	default:
		fmt.Println("nothing to replay")
		return 2
	}
	if len(st.wit) == 0 {
		fmt.Println("no violation")
		return 0
	}
	for fp, w := range st.wit {
		fmt.Printf("VIOLATION %s\n  %s\n", fp, w.what)
	}
	return 1
}
