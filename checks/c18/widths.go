// C18, width dimension of the round-trip universe.
//
// The other round-trip families take their types from Sig(2,2): tuples and
// structs of width 1..2. This family makes the WIDTH a dimension of its own:
// structs with 0..maxW members (0 included: `()<Name>` is in the signature
// grammar and GenerateIDL declares it as `struct Name` / `end`) and tuples
// with 0..maxW members (`()` nested in a type is printed as `Tuple<>`), in
// every position where a type can occur - as the
// whole parameter / result / signal / property type, inside Vec, Map (key and
// value), Tuple, as a member of another struct, two levels deep, twice in one
// type, in two actions of one interface, and shared by two interfaces - plus
// the other widths of a meta-object: 0..maxW parameters, 0..maxW actions per
// kind, an interface without action, a package without interface.
package main

import (
	"fmt"

	"verif/internal/sigen"
)

// member k of a wide struct / tuple has this type: neighbours differ, so a
// dropped, duplicated or shifted member changes the signature.
const widthAtoms = "isfbIdlC"

func wideMembers(n int) ([]string, []*sigen.T) {
	var fields []string
	var elems []*sigen.T
	for k := 0; k < n; k++ {
		fields = append(fields, fmt.Sprintf("f%d", k))
		elems = append(elems, sigen.A(widthAtoms[k%len(widthAtoms)]))
	}
	return fields, elems
}

// wide builds the struct ('S', named W<n>) or the tuple ('T') of width n.
func wide(kind byte, n int) *sigen.T {
	fields, elems := wideMembers(n)
	if kind == 'T' {
		return sigen.Tu(elems...)
	}
	return sigen.St(fmt.Sprintf("W%d", n), fields, elems...)
}

type widthShape struct {
	name string
	f    func(x *sigen.T) *sigen.T
}

// widthShapes: where the wide type sits inside the type of one position.
func widthShapes() []widthShape {
	i, s := sigen.A('i'), sigen.A('s')
	c := func(x *sigen.T) *sigen.T { return x.Clone() }
	return []widthShape{
		{"T", func(x *sigen.T) *sigen.T { return c(x) }},
		{"Vec<T>", func(x *sigen.T) *sigen.T { return sigen.L(c(x)) }},
		{"Oab{a:T,b:int32}", func(x *sigen.T) *sigen.T { return sigen.St("Oab", []string{"a", "b"}, c(x), i) }},
		{"Map<str,T>", func(x *sigen.T) *sigen.T { return sigen.M(s, c(x)) }},
		{"Map<T,str>", func(x *sigen.T) *sigen.T { return sigen.M(c(x), s) }},
		{"Tuple<T,int32>", func(x *sigen.T) *sigen.T { return sigen.Tu(c(x), i) }},
		{"Tuple<int32,T>", func(x *sigen.T) *sigen.T { return sigen.Tu(i, c(x)) }},
		{"Tuple<T>", func(x *sigen.T) *sigen.T { return sigen.Tu(c(x)) }},
		{"Tuple<T,T>", func(x *sigen.T) *sigen.T { return sigen.Tu(c(x), c(x)) }},
		{"Oba{b:int32,a:T}", func(x *sigen.T) *sigen.T { return sigen.St("Oba", []string{"b", "a"}, i, c(x)) }},
		{"Oa{a:T}", func(x *sigen.T) *sigen.T { return sigen.St("Oa", []string{"a"}, c(x)) }},
		{"Opair{a:T,b:T}", func(x *sigen.T) *sigen.T { return sigen.St("Opair", []string{"a", "b"}, c(x), c(x)) }},
		{"Ovec{a:Vec<T>}", func(x *sigen.T) *sigen.T { return sigen.St("Ovec", []string{"a"}, sigen.L(c(x))) }},
		{"Vec<Vec<T>>", func(x *sigen.T) *sigen.T { return sigen.L(sigen.L(c(x))) }},
		{"Vec<Map<str,T>>", func(x *sigen.T) *sigen.T { return sigen.L(sigen.M(s, c(x))) }},
		{"Map<str,Vec<T>>", func(x *sigen.T) *sigen.T { return sigen.M(s, sigen.L(c(x))) }},
		{"Onest{a:Inner{a:T}}", func(x *sigen.T) *sigen.T {
			return sigen.St("Onest", []string{"a"}, sigen.St("Inner", []string{"a"}, c(x)))
		}},
	}
}

// widthPositions: where the type sits in the meta-object (one action each).
func widthPositions(t *sigen.T) []action {
	v, i := sigen.A('v'), sigen.A('i')
	bareSig := signal(101, "s", t)
	bareSig.Bare = true
	bareProp := property(102, "p", t)
	bareProp.Bare = true
	noNames := method(100, "m", t.Clone(), t)
	noNames.PNames = nil
	return []action{
		method(100, "m", v, t),            // parameter
		method(100, "m", t),               // result
		method(100, "m", t.Clone(), t),    // parameter and result
		method(100, "m", v, i, t),         // second of two parameters
		method(100, "m", i, t, t.Clone()), // two parameters of the same type
		noNames,                           // no parameter list (as stubs emit)
		signal(101, "s", t),
		signal(101, "s", t, i),
		property(102, "p", t),
		bareSig,
		bareProp,
	}
}

func widthKinds(maxW int) []*sigen.T {
	var out []*sigen.T
	for n := 0; n <= maxW; n++ {
		out = append(out, wide('S', n))
	}
	for n := 0; n <= maxW; n++ {
		out = append(out, wide('T', n))
	}
	return out
}

// genWidths: nSecond is the range of the second shape of a pair of shapes
// (the first nSecond shapes; all of them in the thorough tier).
func genWidths(maxW, nSecond int, emit func(pkg) bool) {
	v, i, s := sigen.A('v'), sigen.A('i'), sigen.A('s')
	shapes := widthShapes()
	second := shapes
	if nSecond < len(second) {
		second = second[:nSecond]
	}
	kinds := widthKinds(maxW)
	// 1. every width x every shape x every position, one action
	for _, x := range kinds {
		for _, sh := range shapes {
			for _, a := range widthPositions(sh.f(x)) {
				if !emit(one("Svc", a)) {
					return
				}
			}
		}
	}
	// 2. one interface using the wide type in three actions, in every pair of shapes
	for _, x := range kinds {
		for _, sh1 := range shapes {
			for _, sh2 := range second {
				t1, t2 := sh1.f(x), sh2.f(x)
				if !emit(one("Svc", method(100, "m", t1, t2), signal(101, "s", t2), property(102, "p", t1))) {
					return
				}
			}
		}
	}
	// 3. two interfaces sharing the wide type (both use it; only the second;
	// the first through a shape, the second directly)
	for _, x := range kinds {
		for _, sh1 := range shapes {
			for _, sh2 := range second {
				t1, t2 := sh1.f(x), sh2.f(x)
				for variant := 0; variant < 3; variant++ {
					var first, second []action
					switch variant {
					case 0:
						first = []action{method(100, "m", v, t1), signal(101, "s", t2)}
						second = []action{method(100, "m", t2), property(101, "p", t1)}
					case 1:
						first = []action{method(100, "m", i, s)}
						second = []action{method(100, "m", t1, t2), signal(101, "s", t1)}
					case 2:
						first = []action{method(100, "m", t1, t2), property(101, "p", t2)}
						second = []action{method(100, "m", i, s), signal(101, "s", x.Clone())}
					}
					p := pkg{Name: "pk", Ifaces: []iface{{Name: "First", Actions: first}, {Name: "Second", Actions: second}}}
					if !emit(p) {
						return
					}
				}
			}
		}
	}
	// 4. two wide structs of different widths in one package: side by side,
	// and one as member j of the other (every j)
	for n := 0; n <= maxW; n++ {
		for k := 0; k <= maxW; k++ {
			if n == k {
				continue
			}
			a, b := wide('S', n), wide('S', k)
			if !emit(one("Svc", method(100, "m", a, a.Clone(), b), signal(101, "s", b.Clone(), a.Clone()))) {
				return
			}
			for j := 0; j < n; j++ {
				fields, elems := wideMembers(n)
				elems[j] = wide('S', k)
				outer := sigen.St(fmt.Sprintf("H%d_%d_%d", n, j, k), fields, elems...)
				if !emit(one("Svc", method(100, "m", outer, outer.Clone()), property(102, "p", sigen.L(outer.Clone())))) {
					return
				}
			}
		}
	}
	// 5. the other widths of a meta-object: parameters, actions, interfaces
	pool := []*sigen.T{i, s, wide('S', 0), sigen.L(wide('S', 2)), wide('T', 3), sigen.A('m'), wide('S', 3), sigen.A('f')}
	for n := 0; n <= maxW; n++ {
		for rot := 0; rot < len(pool); rot++ {
			var ps []*sigen.T
			for k := 0; k < n; k++ {
				ps = append(ps, pool[(k+rot)%len(pool)].Clone())
			}
			m := method(100, "m", pool[rot].Clone(), ps...)
			acts := []action{m}
			if n > 0 {
				acts = append(acts, signal(101, "s", ps...), property(102, "p", ps...))
			}
			if !emit(one("Svc", acts...)) {
				return
			}
			m2 := m
			m2.PNames = nil
			if !emit(one("Svc", m2)) {
				return
			}
		}
	}
	for nm := 0; nm <= maxW; nm++ {
		for ns := 0; ns <= maxW; ns += 4 {
			for np := 0; np <= maxW; np += 4 {
				var acts []action
				id := uint32(100)
				for k := 0; k < nm; k++ {
					acts = append(acts, method(id, fmt.Sprintf("m%d", k), pool[k%len(pool)].Clone(), pool[(k+1)%len(pool)].Clone()))
					id++
				}
				for k := 0; k < ns; k++ {
					acts = append(acts, signal(id, fmt.Sprintf("s%d", k), pool[k%len(pool)].Clone()))
					id++
				}
				for k := 0; k < np; k++ {
					acts = append(acts, property(id, fmt.Sprintf("p%d", k), pool[(k+2)%len(pool)].Clone()))
					id++
				}
				// alone (an interface without action when nm+ns+np == 0), and
				// next to an interface without action
				if !emit(one("Svc", acts...)) {
					return
				}
				if !emit(pkg{Name: "pk", Ifaces: []iface{{Name: "Empty"}, {Name: "Svc", Actions: acts}}}) {
					return
				}
			}
		}
	}
	// a package without interface
	emit(pkg{Name: "pk"})
}

func widthsUniverse(maxW, nSecond int) string {
	var names []string
	for _, sh := range widthShapes() {
		names = append(names, sh.name)
	}
	if nSecond > len(names) {
		nSecond = len(names)
	}
	return fmt.Sprintf("width as a dimension: T = the struct W<n>{f0..f(n-1)} with n = 0..%d members (0 included) or the tuple with 0..%d members, the empty tuple included (member k of type %q[k mod 8]); "+
		"(1) every T x %d shapes %q x 11 positions (parameter, result, parameter+result, second of two parameters, two parameters of one type, method without parameter list, signal, signal with a second parameter, property, bare signal, bare property), one action each; "+
		"(2) every T x every pair (S1 any shape, S2 one of the first %d shapes) in one interface {fn m(S2)->S1, sig s(S2), prop p(S1)}; (3) every T x the same pairs x 3 ways of sharing between two interfaces (both use it, only the second, the second uses the type directly); "+
		"(4) every ordered pair (n,k), n != k, of struct widths side by side and W<k> as member j of a struct of width n for every j; "+
		"(5) methods / signals / properties with 0..%d (signals, properties: 1..%d) parameters x 8 rotations of a type pool, with and without parameter list; interfaces with 0..%d methods x {0,4,8..} signals x {0,4,8..} properties, alone (the interface without action included) and next to an interface without action; the package without interface",
		maxW, maxW, widthAtoms, len(names), names, nSecond, maxW, maxW, maxW)
}
