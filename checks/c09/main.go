// C09 - type signatures round-trip through the parser.
//
// Bounded-exhaustive exploration (engine A). Four families are enumerated
// completely and an oracle is evaluated on every element:
//
//	gen       every signature of Sig(d, w) built by verif/internal/sigen
//	hygiene   fixed struct shapes x every combination of struct / field names
//	          of an identifier hygiene pool (incl. template-style names)
//	arbitrary every string of length <= L over an 18 character alphabet
//	nearmiss  every string at edit distance 1 from a corpus of valid signatures
//	arity     struct arity near misses: every struct annotation of the hygiene
//	          pool and of a generated set of struct signatures (alone, nested in
//	          list / map / tuple / struct) with its member names or member types
//	          shortened or extended so that their counts differ
//	width     tuples and structs of every width 0..40 (+ boundaries up to 257;
//	          thorough 0..300, 511..513, 999..1001), alone and nested
//	          (families.go)
//	bytes     the byte alphabet 0..255: single bytes, pairs, every byte and a
//	          pool of valid / invalid UTF-8 sequences at every position of a few
//	          valid signatures (families.go)
//
// Oracle for a grammar signature s with sigen tree t (sentence 1 of the
// property): Parse(s) succeeds, Signature() == s, SignatureIDL() equals
// sigen's IDL printer, Type() has the kind tree of t, Reader() and TypeName()
// return something, TypeName() renders as a Go type whose tuple fields are
// named as those of Type(), struct members are the Go fields of their
// exported names; Parse(Signature()) succeeds and prints the same string;
// no call panics. Oracle for an arbitrary string x (sentence 2): Parse(x)
// returns an error, or a type whose printed form p parses again and prints
// p and, blanks apart (the parser skips blanks between tokens), x is exactly
// p - an input that is not a signature must be rejected; if p is a grammar
// signature (sigen's own recogniser) the first oracle is applied to p as
// well; never a panic.
package main

import (
	"bytes"
	"encoding/hex"
	"encoding/json"
	"fmt"
	"go/ast"
	"go/parser"
	"hash/fnv"
	"io"
	"os"
	"reflect"
	"runtime"
	"sort"
	"strings"
	"time"

	"github.com/lugu/qiloop/meta/signature"

	"verif/internal/report"
	"verif/internal/sigen"
	"verif/internal/sigen/runner"
)

// ---------------------------------------------------------------- oracle

type viol struct {
	fp, what string
	input    string // the signature / string given to Parse
	family   string
}

type verdict struct {
	viols   []viol
	slow    bool
	outcome string // outcome class for the distinct count
}

// predicted Go kind tree -------------------------------------------------

func kindOfAtom(c byte) (reflect.Kind, bool) {
	switch c {
	case 'c':
		return reflect.Int8, true
	case 'C':
		return reflect.Uint8, true
	case 'w':
		return reflect.Int16, true
	case 'W':
		return reflect.Uint16, true
	case 'i':
		return reflect.Int32, true
	case 'I':
		return reflect.Uint32, true
	case 'l':
		return reflect.Int64, true
	case 'L':
		return reflect.Uint64, true
	case 'f':
		return reflect.Float32, true
	case 'd':
		return reflect.Float64, true
	case 'b':
		return reflect.Bool, true
	case 's':
		return reflect.String, true
	}
	// m, o, X, v: the property does not fix a Go representation; any type.
	return reflect.Invalid, false
}

// matchGo returns "" if the reflect type has the kind tree predicted for t,
// else a description of the first difference.
func matchGo(t *sigen.T, g reflect.Type, path string) string {
	if g == nil {
		return path + ": nil reflect.Type"
	}
	switch t.Kind {
	case sigen.Atom:
		if k, fixed := kindOfAtom(t.Atom); fixed && g.Kind() != k {
			return fmt.Sprintf("%s: '%c' is %v, want %v", path, t.Atom, g.Kind(), k)
		}
	case sigen.List:
		if g.Kind() != reflect.Slice {
			return fmt.Sprintf("%s: list is %v, want slice", path, g.Kind())
		}
		return matchGo(t.Elem[0], g.Elem(), path+"[]")
	case sigen.Map:
		if g.Kind() != reflect.Map {
			return fmt.Sprintf("%s: map is %v, want map", path, g.Kind())
		}
		if d := matchGo(t.Elem[0], g.Key(), path+".key"); d != "" {
			return d
		}
		return matchGo(t.Elem[1], g.Elem(), path+".value")
	case sigen.Tuple, sigen.Struct:
		if g.Kind() != reflect.Struct {
			return fmt.Sprintf("%s: %v is %v, want struct", path, t.Kind, g.Kind())
		}
		if g.NumField() != len(t.Elem) {
			return fmt.Sprintf("%s: %d fields, want %d", path, g.NumField(), len(t.Elem))
		}
		for i, e := range t.Elem {
			if d := matchGo(e, g.Field(i).Type, fmt.Sprintf("%s.%d", path, i)); d != "" {
				return d
			}
		}
	}
	return ""
}

// clause identifies which part of the oracle failed; msg carries the class
// of the panic message (stable part only).
type failure struct {
	entry, clause, msg, site, detail string
}

func (f failure) key() string { return f.entry + "/" + f.clause + "/" + f.msg + "/" + f.site }

// evalSig evaluates the oracle of sentence 1 on tree t. It returns every
// failed clause (at most one per entry point) and whether the watchdog fired.
func evalSig(t *sigen.T) (fails []failure, slow bool) {
	o := runner.Guard(func() { fails = evalSigInline(t) })
	if o.Slow {
		return nil, true
	}
	if o.Panic != "" { // cannot happen: every call below recovers on its own
		return []failure{{"oracle", "panic", runner.MsgClass(o.Panic), o.Site, o.Panic}}, false
	}
	return fails, false
}

// evalSigInline is evalSig without the watchdog; every call into the code
// under test recovers its own panic.
func evalSigInline(t *sigen.T) (fails []failure) {
	s := t.Sig()
	var typ signature.Type
	var err error
	o := runner.GuardInline(func() { typ, err = signature.Parse(s) })
	if o.Panic != "" {
		return []failure{{"Parse", "panic", runner.MsgClass(o.Panic), o.Site, o.Panic}}
	}
	if err != nil || typ == nil {
		return []failure{{"Parse", "rejects-grammar-signature", "", "", fmt.Sprint(err)}}
	}
	call := func(entry string, f func()) bool {
		o := runner.GuardInline(f)
		if o.Panic != "" {
			fails = append(fails, failure{entry, "panic", runner.MsgClass(o.Panic), o.Site, o.Panic})
			return false
		}
		return true
	}
	var printed string
	if call("Signature()", func() { printed = typ.Signature() }) {
		if printed != s {
			fails = append(fails, failure{"Signature()", "differs-from-input", "", "", fmt.Sprintf("printed %q", printed)})
		}
		// fixed point
		var typ2 signature.Type
		var err2 error
		var printed2 string
		if call("Parse(printed)", func() {
			typ2, err2 = signature.Parse(printed)
			if err2 == nil && typ2 != nil {
				printed2 = typ2.Signature()
			}
		}) {
			if err2 != nil || typ2 == nil {
				fails = append(fails, failure{"Parse(printed)", "rejects-own-output", "", "", fmt.Sprintf("printed %q: %v", printed, err2)})
			} else if printed2 != printed {
				fails = append(fails, failure{"Parse(printed)", "not-a-fixed-point", "", "", fmt.Sprintf("%q reprinted as %q", printed, printed2)})
			}
		}
	}
	var idl string
	if call("SignatureIDL()", func() { idl = typ.SignatureIDL() }) {
		if want := t.IDL(); idl != want {
			fails = append(fails, failure{"SignatureIDL()", "differs-from-model", "", "", fmt.Sprintf("got %q want %q", idl, want)})
		}
	}
	var g reflect.Type
	// a struct naming two members identically has no Go representation to
	// be consistent with: Type() is not judged on it
	if t.HasIdenticalMembers() {
		// nothing
	} else if call("Type()", func() { g = typ.Type() }) {
		var d string
		if call("Type()", func() { d = matchGo(t, g, "T") }) && d != "" {
			fails = append(fails, failure{"Type()", "kind-tree-differs", "", "", d})
			g = nil
		}
	}
	var rd signature.TypeReader
	if call("Reader()", func() { rd = typ.Reader() }) && rd == nil {
		fails = append(fails, failure{"Reader()", "nil", "", "", "nil TypeReader"})
	}
	var tn *signature.Statement
	if call("TypeName()", func() { tn = typ.TypeName() }) && tn == nil {
		fails = append(fails, failure{"TypeName()", "nil", "", "", "nil statement"})
	}
	// Go field names: the two Go representations of the type - the reflect
	// type of Type() and the Go type expression of TypeName() - name the
	// members of a tuple identically, and the Go field of a struct member is
	// that member's name, exported. (void has no Go type expression:
	// signatures holding v are not judged here.)
	if tn != nil && g != nil && !t.Contains(isVoid) {
		var src string
		var expr ast.Expr
		var rerr error
		if call("TypeName()", func() { src, expr, rerr = goTypeExpr(tn) }) {
			if rerr != nil {
				fails = append(fails, failure{"TypeName()", "not-a-Go-type", "", "", fmt.Sprintf("%v (rendered %q)", rerr, clip(src))})
			} else {
				var d string
				if call("Type()", func() { d = matchNames(t, g, expr, "T") }) && d != "" {
					fails = append(fails, failure{"Type()", "field-names-differ", "", "", d})
				}
			}
		}
	}
	return fails
}

func isVoid(x *sigen.T) bool { return x.Kind == sigen.Atom && x.Atom == 'v' }

// goTypeExpr renders the statement returned by TypeName() and parses it as a
// Go expression (a type).
func goTypeExpr(tn *signature.Statement) (string, ast.Expr, error) {
	var buf bytes.Buffer
	if err := tn.Render(&buf); err != nil {
		msg := err.Error()
		if i := strings.Index(msg, " while formatting source"); i >= 0 {
			msg = msg[:i]
		}
		return "", nil, fmt.Errorf("does not render: %s", clip(msg))
	}
	e, err := parser.ParseExpr(buf.String())
	if err != nil {
		return buf.String(), nil, fmt.Errorf("not a Go expression: %v", err)
	}
	return buf.String(), e, nil
}

// exported is the exported spelling of an identifier.
func exported(n string) string {
	if n != "" && n[0] >= 'a' && n[0] <= 'z' {
		return string(n[0]-'a'+'A') + n[1:]
	}
	return n
}

// matchNames returns "" if the field names of the reflect type g (whose kind
// tree is already known to match t) are consistent with t and with the Go
// type expression e (nil where TypeName() gives a bare identifier: below a
// struct), else the first difference.
func matchNames(t *sigen.T, g reflect.Type, e ast.Expr, path string) string {
	switch t.Kind {
	case sigen.List:
		var ee ast.Expr
		if e != nil {
			a, ok := e.(*ast.ArrayType)
			if !ok || a.Len != nil {
				return fmt.Sprintf("%s: TypeName() of a list is not a slice type", path)
			}
			ee = a.Elt
		}
		return matchNames(t.Elem[0], g.Elem(), ee, path+"[]")
	case sigen.Map:
		var k, v ast.Expr
		if e != nil {
			a, ok := e.(*ast.MapType)
			if !ok {
				return fmt.Sprintf("%s: TypeName() of a map is not a map type", path)
			}
			k, v = a.Key, a.Value
		}
		if d := matchNames(t.Elem[0], g.Key(), k, path+".key"); d != "" {
			return d
		}
		return matchNames(t.Elem[1], g.Elem(), v, path+".value")
	case sigen.Tuple:
		var names []string
		var types []ast.Expr
		if e != nil {
			st, ok := e.(*ast.StructType)
			if !ok || st.Fields == nil {
				return fmt.Sprintf("%s: TypeName() of a tuple is not a struct type", path)
			}
			for _, f := range st.Fields.List {
				if len(f.Names) == 0 {
					names, types = append(names, ""), append(types, f.Type)
				}
				for _, n := range f.Names {
					names, types = append(names, n.Name), append(types, f.Type)
				}
			}
			if len(names) != len(t.Elem) {
				return fmt.Sprintf("%s: TypeName() declares %d fields for a tuple of %d members", path, len(names), len(t.Elem))
			}
		}
		seen := map[string]int{}
		for i, m := range t.Elem {
			n := g.Field(i).Name
			if j, dup := seen[n]; dup {
				return fmt.Sprintf("%s: members %d and %d are both the Go field %s", path, j, i, n)
			}
			seen[n] = i
			var me ast.Expr
			if e != nil {
				if names[i] != n {
					return fmt.Sprintf("%s.%d: the Go field of Type() is %q, TypeName() declares %q", path, i, n, names[i])
				}
				me = types[i]
			}
			if d := matchNames(m, g.Field(i).Type, me, fmt.Sprintf("%s.%d", path, i)); d != "" {
				return d
			}
		}
	case sigen.Struct:
		if e != nil {
			if id, ok := e.(*ast.Ident); !ok || id.Name == "" {
				return fmt.Sprintf("%s: TypeName() of a struct is not an identifier", path)
			}
		}
		for i, m := range t.Elem {
			if n := g.Field(i).Name; n != exported(t.Fields[i]) {
				return fmt.Sprintf("%s.%d: member %q is the Go field %q", path, i, t.Fields[i], n)
			}
			if d := matchNames(m, g.Field(i).Type, nil, fmt.Sprintf("%s.%d", path, i)); d != "" {
				return d
			}
		}
	}
	return ""
}

func hasKey(fails []failure, k string) *failure {
	for i := range fails {
		if fails[i].key() == k {
			return &fails[i]
		}
	}
	return nil
}

// fingerprintSig turns a failure on tree t into a fingerprint - a pure
// function of the case. Failures the model explains get the predicted cause.
// Otherwise the failure is localised: descend into the first member subtree
// that, taken alone, fails in the same way, until none does; the detail is
// the constructor of that smallest failing subtree (and what is odd about
// its names), which is also the minimal witness.
func fingerprintSig(t *sigen.T, f failure) (string, *sigen.T) {
	if f.clause == "panic" && f.entry == "Type()" {
		switch {
		case strings.Contains(f.msg, "duplicate") && t.FieldsCollide():
			return "Type()/panic/duplicate-field-after-CleanName", nil
		case strings.Contains(f.msg, "MapOf") && t.HasUnkeyableMap():
			return "Type()/panic/map-key-not-comparable", nil
		}
	}
	k := f.key()
	cur := t
	for {
		moved := false
		for _, e := range cur.Elem {
			if fs, _ := evalSig(e); hasKey(fs, k) != nil {
				cur = e
				moved = true
				break
			}
		}
		if !moved {
			break
		}
	}
	// a product wider than the generated universe's 3: does the width
	// matter? Find a width w such that the first w members fail in the same
	// way and the first w-1 do not (bisection between 0 and the full width).
	width := -1
	if (cur.Kind == sigen.Tuple || cur.Kind == sigen.Struct) && len(cur.Elem) > 3 {
		failsAt := func(w int) bool {
			fs, _ := evalSig(prefixOf(cur, w))
			return hasKey(fs, k) != nil
		}
		if !failsAt(0) {
			lo, hi := 0, len(cur.Elem) // lo passes, hi fails
			for hi-lo > 1 {
				if mid := (lo + hi) / 2; failsAt(mid) {
					hi = mid
				} else {
					lo = mid
				}
			}
			if hi < len(cur.Elem) {
				cur = prefixOf(cur, hi)
			}
			if hi > 3 {
				width = hi
			}
		} else {
			cur = prefixOf(cur, 0)
		}
	}
	detail := nodeDetail(cur)
	if cur.Kind == sigen.Struct {
		// do the names matter? try the same struct with the plainest names
		plain := cur.Clone()
		plain.Name = "A"
		for i := range plain.Fields {
			plain.Fields[i] = plainMember(i)
		}
		if fs, _ := evalSig(plain); hasKey(fs, k) != nil {
			detail = nodeDetail(plain)
		}
	}
	if width >= 0 {
		detail += fmt.Sprintf("[width=%d]", width)
	}
	if f.clause == "panic" {
		detail = f.msg + "@" + f.site + "/" + detail
	}
	return report.FPEscape(f.entry + "/" + f.clause + "/" + detail), cur
}

// prefixOf is the tuple / struct x reduced to its first w members.
func prefixOf(x *sigen.T, w int) *sigen.T {
	c := x.Clone()
	c.Elem = c.Elem[:w]
	if c.Kind == sigen.Struct {
		c.Fields = c.Fields[:w]
	}
	return c
}

// plainMember is the plainest name of member i: a..z, then x26, x27...
func plainMember(i int) string {
	if i < 26 {
		return string(rune('a' + i))
	}
	return fmt.Sprintf("x%d", i)
}

// nodeDetail names the root constructor of a subtree.
func nodeDetail(t *sigen.T) string {
	switch t.Kind {
	case sigen.Atom:
		return "atom=" + string(t.Atom)
	case sigen.Struct:
		d := "struct"
		if c := sigen.NameClass(t.Name); c != "plain" {
			d += "[name:" + c + "]"
		}
		for _, f := range t.Fields {
			if c := sigen.NameClass(f); c != "plain" && c != "lower" {
				d += "[member:" + c + "]"
				break
			}
		}
		if len(t.Elem) == 0 {
			d += "[empty]"
		}
		return d
	case sigen.Tuple:
		if len(t.Elem) == 0 {
			return "tuple[empty]"
		}
	}
	return t.Kind.String()
}

// failureOn re-evaluates x and returns the failure with key k (its detail
// then describes x itself).
func failureOn(x *sigen.T, k string, fallback failure) failure {
	fs, _ := evalSig(x)
	if f := hasKey(fs, k); f != nil {
		return *f
	}
	return fallback
}

// evalArb evaluates the oracle of sentence 2 on an arbitrary string.
// accepted reports whether the parser accepted x; printed is its printed form.
func evalArb(x string) (fails []failure, slow bool, accepted bool, printed string, tree *sigen.T, treeFails []failure) {
	o := runner.Guard(func() { fails, accepted, printed, tree, treeFails = evalArbInline(x) })
	if o.Slow {
		return nil, true, false, "", nil, nil
	}
	if o.Panic != "" { // cannot happen: every call below recovers on its own
		return []failure{{"oracle", "panic", runner.MsgClass(o.Panic), o.Site, o.Panic}}, false, false, "", nil, nil
	}
	return
}

func evalArbInline(x string) (fails []failure, accepted bool, printed string, tree *sigen.T, treeFails []failure) {
	var typ signature.Type
	var err error
	o := runner.GuardInline(func() { typ, err = signature.Parse(x) })
	if o.Panic != "" {
		return []failure{{"Parse(arbitrary)", "panic", runner.MsgClass(o.Panic), o.Site, o.Panic}}, false, "", nil, nil
	}
	if err != nil {
		return nil, false, "", nil, nil
	}
	if typ == nil {
		return []failure{{"Parse(arbitrary)", "nil-type-without-error", "", "", "Parse returned (nil, nil)"}}, false, "", nil, nil
	}
	accepted = true
	var typ2 signature.Type
	var err2 error
	var printed2 string
	o = runner.GuardInline(func() {
		printed = typ.Signature()
		typ2, err2 = signature.Parse(printed)
		if err2 == nil && typ2 != nil {
			printed2 = typ2.Signature()
		}
	})
	switch {
	case o.Panic != "":
		fails = append(fails, failure{"Parse(arbitrary).Signature()", "panic", runner.MsgClass(o.Panic), o.Site, o.Panic})
	case err2 != nil || typ2 == nil:
		fails = append(fails, failure{"Parse(arbitrary).Signature()", "rejects-own-output", "", "", fmt.Sprintf("printed %q: %v", printed, err2)})
	case printed2 != printed:
		fails = append(fails, failure{"Parse(arbitrary).Signature()", "not-a-fixed-point", "", "", fmt.Sprintf("%q reprinted as %q", printed, printed2)})
	}
	if judgeAcceptedGarbage && o.Panic == "" && stripBlanks(x) != printed {
		fails = append(fails, failure{"Parse(arbitrary)", "accepts-non-signature", "", "", fmt.Sprintf("accepted and printed as %q", printed)})
	}
	if t, ok := sigen.Recognize(printed); ok {
		tree = t
		treeFails = evalSigInline(t)
	}
	return
}

// shrinkArb deletes single bytes of x, first to last, again and again, as
// long as the failure with key k remains (a deterministic 1-minimal input);
// then every byte left that is not printable ASCII is replaced by the first
// character of the grammar alphabet that keeps the failure, if there is one.
// A non-ASCII or control byte in the result is therefore one the failure
// needs.
func shrinkArb(x, k string) string {
	same := func(y string) bool {
		fs, slow, _, _, _, _ := evalArb(y)
		return !slow && hasKey(fs, k) != nil
	}
	for changed := true; changed; {
		changed = false
		for i := 0; i < len(x); i++ {
			if y := x[:i] + x[i+1:]; same(y) {
				x, changed = y, true
				i--
			}
		}
	}
	for i := 0; i < len(x); i++ {
		if byteClass(x[i:i+1]) == "" {
			continue
		}
		for j := 0; j < len(arbAlphabet); j++ {
			if y := x[:i] + arbAlphabet[j:j+1] + x[i+1:]; same(y) {
				x = y
				break
			}
		}
	}
	return x
}

// judgeAcceptedGarbage: "any other input is rejected with an error" is read
// as "an input that is not a signature is rejected" (the property anchors
// Parse()'s full-consumption / exactly-one-type checks). The parser skips
// blanks between tokens, which is tolerated: an accepted input must be, once
// its blanks are removed, exactly the signature the parser prints for it.
// Set to false to demand only the fixed point.
const judgeAcceptedGarbage = true

func stripBlanks(x string) string { return strings.Join(strings.Fields(x), "") }

// ---------------------------------------------------------------- families

type kase struct {
	family string
	t      *sigen.T // gen / hygiene
	x      string   // arbitrary / nearmiss
	idx    int
}

var hygieneStructNames = []string{"A", "Ab", "B_1", "a", "z9", "List<double>", "Map<a>", "x<Y_1>"}
var hygieneFieldNames = []string{"a", "A", "ab", "a_1", "x", "X", "P0", "type", "string", "Z9_"}

// hygiene enumerates fixed shapes x all names of the pools.
func hygiene(emit func(*sigen.T) bool) {
	i, s := sigen.A('i'), sigen.A('s')
	for _, n := range hygieneStructNames {
		if !emit(sigen.St(n, nil)) {
			return
		}
		for _, f := range hygieneFieldNames {
			one := sigen.St(n, []string{f}, i)
			for _, t := range []*sigen.T{one, sigen.L(one), sigen.M(s, one), sigen.M(one, s), sigen.Tu(one, i)} {
				if !emit(t) {
					return
				}
			}
			for _, g := range hygieneFieldNames {
				if f == g {
					continue // identical member names: not a meaningful struct
				}
				two := sigen.St(n, []string{f, g}, i, s)
				if !emit(two) || !emit(sigen.L(two)) {
					return
				}
			}
			// struct in struct with all pairs of struct names
			for _, n2 := range hygieneStructNames {
				if !emit(sigen.St(n2, []string{f, "k"}, one, i)) {
					return
				}
			}
		}
	}
}

const arbAlphabet = "()[]{}<>,ismvAa1_ "

// arbStrings enumerates every string of exactly length n over the alphabet.
func arbStrings(n int, emit func(string) bool) bool { return arbStringsOver(arbAlphabet, n, emit) }

func arbStringsOver(arbAlphabet string, n int, emit func(string) bool) bool {
	buf := make([]byte, n)
	var rec func(i int) bool
	rec = func(i int) bool {
		if i == n {
			return emit(string(buf))
		}
		for k := 0; k < len(arbAlphabet); k++ {
			buf[i] = arbAlphabet[k]
			if !rec(i + 1) {
				return false
			}
		}
		return true
	}
	return rec(0)
}

// nearMiss enumerates every string at edit distance exactly one (deletion,
// insertion, substitution over the alphabet + "d") from every signature of
// the corpus.
func nearMiss(corpus []string, emit func(string) bool) {
	alpha := arbAlphabet + "d"
	for _, s := range corpus {
		for i := 0; i < len(s); i++ {
			if !emit(s[:i] + s[i+1:]) {
				return
			}
			for k := 0; k < len(alpha); k++ {
				if alpha[k] != s[i] {
					if !emit(s[:i] + alpha[k:k+1] + s[i+1:]) {
						return
					}
				}
			}
		}
		for i := 0; i <= len(s); i++ {
			for k := 0; k < len(alpha); k++ {
				if !emit(s[:i] + alpha[k:k+1] + s[i:]) {
					return
				}
			}
		}
	}
}

// sigWith prints t with the text of the node target replaced by repl.
func sigWith(t, target *sigen.T, repl string) string {
	if t == target {
		return repl
	}
	var b strings.Builder
	switch t.Kind {
	case sigen.Atom:
		b.WriteByte(t.Atom)
	case sigen.List:
		b.WriteString("[" + sigWith(t.Elem[0], target, repl) + "]")
	case sigen.Map:
		b.WriteString("{" + sigWith(t.Elem[0], target, repl) + sigWith(t.Elem[1], target, repl) + "}")
	case sigen.Tuple, sigen.Struct:
		b.WriteByte('(')
		for _, e := range t.Elem {
			b.WriteString(sigWith(e, target, repl))
		}
		b.WriteByte(')')
		if t.Kind == sigen.Struct {
			b.WriteString("<" + t.Name)
			for _, f := range t.Fields {
				b.WriteString("," + f)
			}
			b.WriteByte('>')
		}
	}
	return b.String()
}

// arityVariants lists the texts of the struct node x in which the number of
// member names differs from the number of member types: the last k names
// dropped (k = 1..all; k = all leaves the bare "(T...)<Name>"), one name
// appended, the last k member types dropped (k = 1..all), one member type
// appended. "()<Name>" (no type, no name) is a valid empty struct and is
// never among them.
func arityVariants(x *sigen.T) []string {
	n := len(x.Elem)
	types := make([]string, n)
	for i, e := range x.Elem {
		types[i] = e.Sig()
	}
	mk := func(types, names []string) string {
		s := "(" + strings.Join(types, "") + ")<" + x.Name
		for _, f := range names {
			s += "," + f
		}
		return s + ">"
	}
	var out []string
	for k := 1; k <= n; k++ {
		out = append(out, mk(types, x.Fields[:n-k]))
	}
	out = append(out, mk(types, append(append([]string(nil), x.Fields...), "zz")))
	for k := 1; k <= n; k++ {
		out = append(out, mk(types[:n-k], x.Fields))
	}
	out = append(out, mk(append(append([]string(nil), types...), "i"), x.Fields))
	return out
}

// arityBases enumerates the valid signatures whose struct annotations are
// damaged by the arity family: the whole hygiene family, every signature of
// Sig(2,2) over reduced atoms that holds a struct (so: structs alone, inside a
// list, a map key or value, a tuple, another struct, and holding those), and
// the structs of width 0..wide over {i,s} alone and wrapped once.
func arityBases(g sigen.Gen, wide int, emit func(*sigen.T) bool) {
	stop := false
	out := func(t *sigen.T) bool {
		if !stop && !emit(t) {
			stop = true
		}
		return !stop
	}
	hygiene(out)
	g.Each(2, func(t *sigen.T) {
		if !stop && len(t.Structs()) > 0 {
			out(t)
		}
	})
	gw := sigen.Default(wide)
	gw.Outer = "is"
	i, s := sigen.A('i'), sigen.A('s')
	gw.Each(1, func(t *sigen.T) {
		if stop || t.Kind != sigen.Struct {
			return
		}
		for _, w := range []*sigen.T{t, sigen.L(t), sigen.M(s, t), sigen.M(t, s), sigen.Tu(t, i), sigen.Tu(i, t), sigen.St("Bb", []string{"k", "l"}, t, i)} {
			if !out(w) {
				return
			}
		}
	})
}

// arityNearMiss emits, once each, every string obtained from a base signature
// by replacing one of its struct nodes with one of its arity variants. It
// returns the number of bases and of (base, struct node) pairs visited.
func arityNearMiss(g sigen.Gen, wide int, emit func(string) bool) (bases, nodes int) {
	seen := map[string]struct{}{}
	arityBases(g, wide, func(t *sigen.T) bool {
		bases++
		for _, x := range t.Structs() {
			nodes++
			for _, v := range arityVariants(x) {
				m := sigWith(t, x, v)
				if _, dup := seen[m]; dup {
					continue
				}
				seen[m] = struct{}{}
				if !emit(m) {
					return false
				}
			}
		}
		return true
	})
	return
}

// ---------------------------------------------------------------- driver

type witness struct {
	fp, what, input, family, minimal string
	count                            int
	// again: the representative case failed in the same way when it was
	// evaluated a second time at once, in the state it was observed in;
	// notAgain counts the cases that did not.
	again    bool
	notAgain int
}

type wstate struct {
	evals     int
	slow      int
	distinct  map[string]struct{}
	accepted  map[string]struct{}
	outside   int // accepted strings whose printed form is not a sigen signature
	stripDiff int // accepted strings that are not their printed form modulo blanks
	wit       map[string]*witness
	perFamily map[string]int
	samples   map[string][]string
}

func newState() *wstate {
	return &wstate{distinct: map[string]struct{}{}, accepted: map[string]struct{}{}, wit: map[string]*witness{},
		perFamily: map[string]int{}, samples: map[string][]string{}}
}

func clip(s string) string {
	if len(s) > 160 {
		return s[:160] + "..."
	}
	return s
}

// clipq quotes s, shortened in the middle when it is long (wide signatures).
func clipq(s string) string {
	if len(s) > 200 {
		return fmt.Sprintf("%q...(%d bytes)...%q", s[:100], len(s), s[len(s)-60:])
	}
	return fmt.Sprintf("%q", s)
}

// sample keeps, per family, the 4 case descriptions with the smallest FNV
// hash: a deterministic, scheduling-independent selection.
func (st *wstate) sample(family, s string) {
	h := fnv.New32a()
	h.Write([]byte(s))
	key := fmt.Sprintf("%08x %s", h.Sum32(), s)
	l := st.samples[family]
	if len(l) == 4 && key >= l[3] {
		return
	}
	l = append(l, key)
	sort.Strings(l)
	if len(l) > 4 {
		l = l[:4]
	}
	st.samples[family] = l
}

func (st *wstate) record(fp, what, input, family, minimal string, again bool) {
	na := 0
	if !again {
		na = 1
	}
	w, ok := st.wit[fp]
	if !ok {
		st.wit[fp] = &witness{fp, what, input, family, minimal, 1, again, na}
		return
	}
	w.count++
	w.notAgain += na
	if len(minimal) < len(w.minimal) || len(minimal) == len(w.minimal) && minimal < w.minimal {
		w.what, w.input, w.family, w.minimal, w.again = what, input, family, minimal, again
	}
}

// sigFailures records the failures found on tree t; input is what has to be
// fed to the check to see them again (the signature itself, or the arbitrary
// string whose printed form t is).
func (st *wstate) sigFailures(t *sigen.T, fails []failure, family, input string, arb bool) {
	if len(fails) == 0 {
		return
	}
	// second evaluation at once, in the state the failure was observed in
	// (before the localisation below evaluates anything else)
	fails2, _ := evalSig(t)
	for _, f := range fails {
		again := hasKey(fails2, f.key()) != nil
		fp, min := fingerprintSig(t, f)
		ms := t.Sig()
		if min != nil && min != t {
			ms = min.Sig()
			f = failureOn(min, f.key(), f)
		}
		what := fmt.Sprintf("%s on signature %s: %s %s", f.entry, clipq(ms), f.clause, clip(f.detail))
		if arb {
			what += fmt.Sprintf(" (first seen as the printed form of input %s)", clipq(input))
		}
		st.record(fp, what, input, family, ms, again)
	}
}

func (st *wstate) doSig(c kase) {
	st.evals++
	st.perFamily[c.family]++
	fails, slow := evalSig(c.t)
	if slow {
		st.slow++
		return
	}
	out := "ok"
	if len(fails) > 0 {
		out = fails[0].entry + "/" + fails[0].clause
	}
	if c.t.Kind != sigen.Atom {
		st.distinct[c.t.Shape()+" => "+out] = struct{}{}
	}
	st.sample(c.family, clip(c.t.Sig())+" => "+out)
	st.sigFailures(c.t, fails, c.family, c.t.Sig(), false)
}

func (st *wstate) doArb(c kase) {
	st.evals++
	st.perFamily[c.family]++
	fails, slow, accepted, printed, tree, treeFails := evalArb(c.x)
	if slow {
		st.slow++
		return
	}
	if accepted {
		st.accepted[printed] = struct{}{}
		if tree == nil {
			st.outside++
		}
		if stripBlanks(c.x) != printed {
			st.stripDiff++
		}
		st.sample(c.family+"\x00acc", fmt.Sprintf("%q accepted, printed %q", c.x, printed))
	} else if len(fails) == 0 && c.idx%4099 == 1 {
		st.sample(c.family+"\x00rej", fmt.Sprintf("%q rejected with an error", c.x))
	}
	var fails2 []failure
	if len(fails) > 0 {
		// second evaluation at once, in the state the failure was observed in
		fails2, _, _, _, _, _ = evalArb(c.x)
	}
	for _, f := range fails {
		detail := ""
		minimal := c.x
		switch {
		case f.clause == "panic":
			detail = f.msg + "@" + f.site
			// which bytes does the crash need? delete bytes one at a time as
			// long as the same failure remains; what is unusual about the
			// bytes that are left is part of the fingerprint
			minimal = shrinkArb(c.x, f.key())
			if cl := byteClass(minimal); cl != "" {
				detail += "/" + cl
			}
		case f.clause == "accepts-non-signature":
			sx := stripBlanks(c.x)
			switch {
			case strings.HasPrefix(sx, printed):
				detail = "input-continues-after-the-printed-signature"
			case strings.HasSuffix(sx, printed):
				detail = "input-has-something-before-the-printed-signature"
			case len(sx) == len(printed):
				detail = "printed-signature-has-other-characters"
			default:
				detail = "printed-signature-has-another-length"
			}
		case tree != nil:
			detail = "printed-form-is-a-signature"
		default:
			detail = "printed-form-is-not-a-signature"
		}
		fp := report.FPEscape(f.entry + "/" + f.clause + "/" + detail)
		what := fmt.Sprintf("%s on input %q: %s %s", f.entry, c.x, f.clause, clip(f.detail))
		if minimal != c.x {
			what += fmt.Sprintf(" (so does %q)", minimal)
		}
		st.record(fp, what, c.x, c.family, minimal, hasKey(fails2, f.key()) != nil)
	}
	if tree != nil {
		st.sigFailures(tree, treeFails, c.family, c.x, true)
	}
}

func main() {
	chk := report.New("C09", "exploration")
	if len(os.Args) >= 3 && os.Args[1] == "--replay" {
		os.Exit(replay(os.Args[2]))
	}
	tier := report.Tier()
	start := time.Now()
	budget := 60 * time.Second // only reached on a heavily loaded machine (a normal run takes about 15 s)
	workers := 8
	if tier == "thorough" {
		budget = 520 * time.Second
		workers = 16
	}
	if n := runtime.NumCPU(); workers > n {
		workers = n
	}
	deadline := start.Add(budget)

	states := make([]*wstate, workers)
	for i := range states {
		states[i] = newState()
	}
	work := func(w int, c kase) {
		if c.t != nil {
			states[w].doSig(c)
		} else {
			states[w].doArb(c)
		}
	}

	type famInfo struct {
		Name, Universe string
		Complete       bool
		Cases          int
		WallS          float64
	}
	var fams []famInfo
	runFam := func(name, universe string, gen func(emit func(kase) bool)) {
		t0 := time.Now()
		n := 0
		ok := runner.Each(workers, deadline, func(emit func(kase) bool) {
			gen(func(c kase) bool { c.family = name; c.idx = n; n++; return emit(c) })
		}, work)
		fams = append(fams, famInfo{name, universe, ok, n, time.Since(t0).Seconds()})
	}

	// family 1: generated signatures
	g2 := sigen.Default(2)
	runFam("gen:Sig(2,2)", "all signatures of depth <= 2, tuple/struct width 0..2; leaves at distance <= 1 from the root over "+sigen.AllAtoms+", deeper leaves over isbmC",
		func(emit func(kase) bool) {
			stop := false
			g2.Each(2, func(t *sigen.T) {
				if !stop && !emit(kase{t: t}) {
					stop = true
				}
			})
		})
	// family 2: name hygiene
	runFam("hygiene", fmt.Sprintf("12 struct shapes x struct names %v x member names %v (distinct member names)", hygieneStructNames, hygieneFieldNames),
		func(emit func(kase) bool) { hygiene(func(t *sigen.T) bool { return emit(kase{t: t}) }) })
	// family 2b: width
	wspec := widthsOf(tier)
	runFam("width", widthUniverse(wspec),
		func(emit func(kase) bool) { widthFamily(wspec, func(t *sigen.T) bool { return emit(kase{t: t}) }) })
	// family 3: near misses
	var corpus []string
	gc := sigen.Default(2)
	if tier != "thorough" {
		gc.Outer = "ismvoC"
	}
	gc.Each(1, func(t *sigen.T) { corpus = append(corpus, t.Sig()) })
	corpus = append(corpus, "(i)<List<double>,a>", "[(is)<A,a,b>]", "{s(i)<A,a>}", "((i)<A,a>i)<B,a,b>")
	runFam("nearmiss", fmt.Sprintf("every string at edit distance 1 (delete / substitute / insert over %q) from each of %d valid signatures (Sig(1,2) over the atoms %s + 4 named shapes)", arbAlphabet+"d", len(corpus), gc.Outer),
		func(emit func(kase) bool) { nearMiss(corpus, func(x string) bool { return emit(kase{x: x}) }) })
	// family 3b: struct arity near misses
	ga := sigen.Default(2)
	wide := 4
	if tier != "thorough" {
		ga.Outer, ga.Inner = "ism", "is"
		wide = 3
	}
	arityBasesN, arityNodesN := 0, 0
	runFam("arity", fmt.Sprintf("struct arity near misses: for every struct node of every base signature - the hygiene family, every signature of Sig(2,2) holding a struct (leaves at distance <= 1 over %s, deeper over %s), "+
		"the structs of width 0..%d over is alone and inside a list, a map (key, value), a tuple (first, last) and a struct - the strings in which that struct's annotation has "+
		"its last k member names dropped (k = 1..all, i.e. down to the bare (T...)<Name>), one member name appended, its last k member types dropped (k = 1..all), one member type appended; duplicates removed; "+
		"judged as arbitrary strings (none is a signature: a struct needs as many names as types)", ga.Outer, ga.Inner, wide),
		func(emit func(kase) bool) {
			arityBasesN, arityNodesN = arityNearMiss(ga, wide, func(x string) bool { return emit(kase{x: x}) })
		})
	// family 3c: the whole byte alphabet
	runFam("bytes:single", "each of the 256 one-byte strings", func(emit func(kase) bool) {
		for _, b := range allBytes() {
			if !emit(kase{x: b}) {
				return
			}
		}
	})
	runFam("bytes:len=2", "all 65536 two-byte strings over the byte values 0..255", func(emit func(kase) bool) {
		all := allBytes()
		for _, a := range all {
			for _, b := range all {
				if !emit(kase{x: a + b}) {
					return
				}
			}
		}
	})
	runFam("bytes:positions", fmt.Sprintf("every byte value 0..255 inserted at every gap (before the first byte ... after the last) and substituted for every byte of each of the valid signatures %q "+
		"(so: between tokens, inside a struct name, a template argument, a member name); duplicates removed", byteBases),
		func(emit func(kase) bool) {
			bytePositions(byteBases, allBytes(), func(x string) bool { return emit(kase{x: x}) })
		})
	runFam("bytes:utf8", fmt.Sprintf("%d multi-byte sequences - valid UTF-8 of 2, 3 and 4 bytes (letters, a digit, blanks, BOM, replacement character, fullwidth forms, first and last code point of each length, a combining sequence) "+
		"and invalid UTF-8 (lone continuation bytes, truncated sequences, overlong forms, surrogates, beyond U+10FFFF, 5-byte form, 0xfe / 0xff, a lead byte followed by ASCII): %+q - "+
		"inserted at every gap and substituted for every byte of the same signatures; duplicates removed", len(utf8Pool), utf8Pool),
		func(emit func(kase) bool) {
			bytePositions(byteBases, utf8Pool, func(x string) bool { return emit(kase{x: x}) })
		})
	{
		a3 := byteAlphabet3()
		runFam("bytes:len=3", fmt.Sprintf("all 3-byte strings over the %d-byte alphabet %+q (the grammar alphabet and 20 bytes that are not printable ASCII)", len(a3), a3),
			func(emit func(kase) bool) { arbStringsOver(a3, 3, func(x string) bool { return emit(kase{x: x}) }) })
	}
	// family 4: arbitrary strings
	maxLen := 4
	if tier == "thorough" {
		maxLen = 5
	}
	for n := 0; n <= maxLen; n++ {
		n := n
		runFam(fmt.Sprintf("arbitrary:len=%d", n), fmt.Sprintf("all %d-character strings over %q", n, arbAlphabet),
			func(emit func(kase) bool) { arbStrings(n, func(x string) bool { return emit(kase{x: x}) }) })
	}
	if tier == "thorough" {
		g3 := sigen.Default(2)
		g3.Inner = "ism"
		g3.Deepest = "is"
		g3.RootPairShallow = 0
		runFam("gen:Sig(3,2)-restricted", "all signatures of depth <= 3, width 0..2; leaves at distance <= 1 over "+sigen.AllAtoms+", at distance 2 over ism, at distance 3 over is; "+
			"in a map, 2-tuple or 2-struct AT THE ROOT at most one component is not an atom",
			func(emit func(kase) bool) {
				stop := false
				g3.Each(3, func(t *sigen.T) {
					if !stop && !emit(kase{t: t}) {
						stop = true
					}
				})
			})
		gw := sigen.Default(3)
		gw.Inner = "ism"
		gw.RootPairShallow = 0
		runFam("gen:Sig(2,3)-restricted", "all signatures of depth <= 2, width 0..3; leaves at distance <= 1 over "+sigen.AllAtoms+", deeper over ism; "+
			"in a product AT THE ROOT at most one component is not an atom",
			func(emit func(kase) bool) {
				stop := false
				gw.Each(2, func(t *sigen.T) {
					if !stop && !emit(kase{t: t}) {
						stop = true
					}
				})
			})
		const reduced = "()[]{}<>,iA "
		runFam("arbitrary:len=6-reduced", fmt.Sprintf("all 6-character strings over the reduced alphabet %q", reduced),
			func(emit func(kase) bool) {
				arbStringsOver(reduced, 6, func(x string) bool { return emit(kase{x: x}) })
			})
	}

	// merge
	total := newState()
	for _, st := range states {
		total.evals += st.evals
		total.slow += st.slow
		total.outside += st.outside
		total.stripDiff += st.stripDiff
		for k := range st.distinct {
			total.distinct[k] = struct{}{}
		}
		for k := range st.accepted {
			total.accepted[k] = struct{}{}
		}
		for k, v := range st.perFamily {
			total.perFamily[k] += v
		}
		for _, w := range st.wit {
			if cur, ok := total.wit[w.fp]; ok {
				n := cur.count + w.count
				if len(w.minimal) < len(cur.minimal) || len(w.minimal) == len(cur.minimal) && w.minimal < cur.minimal {
					*cur = *w
				}
				cur.count = n
			} else {
				c := *w
				total.wit[w.fp] = &c
			}
		}
	}
	var sampleList []interface{}
	for _, f := range fams {
		for _, suffix := range []string{"", "\x00acc", "\x00rej"} {
			var all []string
			for _, st := range states {
				all = append(all, st.samples[f.Name+suffix]...)
			}
			sort.Strings(all)
			all = dedup(all)
			if len(all) > 3 {
				all = all[:3]
			}
			for _, s := range all {
				sampleList = append(sampleList, f.Name+": "+s[9:])
			}
		}
	}

	// histories: parsing again after the parsed types were used. Types are
	// registered into a shared TypeSet by the generators (RegisterTo renames
	// colliding structs in place), so a second Parse of the same string must
	// not see anything of the first.
	histEvals, histDistinct := reparseAfterRegister(chk)

	// confirm every witness 5 times, then report
	fps := make([]string, 0, len(total.wit))
	for fp := range total.wit {
		fps = append(fps, fp)
	}
	sort.Strings(fps)
	for _, fp := range fps {
		w := total.wit[fp]
		nOK := 0
		toolErr := ""
		for i := 0; i < 5; i++ {
			ok, terr := reproduces(w)
			if ok {
				nOK++
			}
			if terr != "" {
				toolErr = terr
			}
		}
		if toolErr != "" { // the machinery itself failed: the only engine error here
			chk.EngineError("violation %s on %q cannot be re-run: %s", fp, w.input, toolErr)
			continue
		}
		// input_hex / minimal_input_hex: the exact bytes (JSON strings cannot
		// hold invalid UTF-8); --replay prefers them
		rep := map[string]interface{}{"family": w.family, "input": w.input, "minimal_input": w.minimal,
			"input_hex": hex.EncodeToString([]byte(w.input)), "minimal_input_hex": hex.EncodeToString([]byte(w.minimal)),
			"cases_with_this_fingerprint":                          w.count,
			"failed_again_at_once_in_the_state_it_was_observed_in": w.again, "cases_that_did_not_fail_again_at_once": w.notAgain,
			"failed_when_re_run_alone": fmt.Sprintf("%d/5", nOK),
			"replay_cmd":               "./check.sh C09 quick --replay <this file>"}
		what := fmt.Sprintf("%s [%d cases share this fingerprint]", w.what, w.count)
		if nOK < 5 {
			// really observed during the enumeration, not (always) failing when
			// re-run on its own: the code under test keeps state between calls.
			// A detection, not a tool failure.
			chk.Unstable(fp, fmt.Sprintf("%s [failed again at once in the same state: %v; failed %d/5 when re-run alone after the enumeration]", what, w.again, nOK), rep)
			continue
		}
		for i := 0; i < w.count && i < 1000000; i++ {
			chk.Report(fp, what, rep)
		}
	}

	// observation: the documented raw-data atom 'r'
	rawObs := "rejected with an error"
	if o := runner.Guard(func() {
		if _, err := signature.Parse("r"); err == nil {
			rawObs = "accepted"
		}
	}); o.Panic != "" {
		rawObs = "panic: " + o.Panic
	}

	exhaustive := true
	famCov := []interface{}{}
	for _, f := range fams {
		if !f.Complete {
			exhaustive = false
		}
		famCov = append(famCov, map[string]interface{}{"family": f.Name, "universe": f.Universe, "cases": f.Cases, "complete": f.Complete, "wall_s": f.WallS})
	}
	cov := map[string]interface{}{
		"evaluations":         total.evals,
		"distinct_nontrivial": len(total.distinct) + len(total.accepted),
		"rule": "every element of each family's stated universe is generated and judged. distinct_nontrivial = number of distinct (signature shape, outcome class) pairs among the generated COMPOSITE signatures " +
			"(shape = constructor tree with atoms reduced to int/flt/bool/str/any/obj/unk/void and names to plain/lower/+_9/template; outcome = ok or first failed entry/clause) " +
			"+ number of distinct printed forms among the arbitrary / near-miss / struct-arity-near-miss / bytes strings the parser ACCEPTED (rejected strings and bare atoms are counted as trivial). " +
			"The arbitrary, nearmiss, arity and bytes families are judged by sentence 2 of the property: rejected with an error, or accepted with a printed form that is a fixed point and equals the input (blanks apart); never a panic. " +
			"width = tuples and structs of every width of a stated range (not only the 0..3 of the generated universe), alone and nested, judged by sentence 1; a failure there is localised to a width w such that the first w members fail and the first w-1 do not (fingerprint detail [width=w]). " +
			"bytes = the byte alphabet 0..255: every single byte, every pair, every byte and a pool of valid / invalid UTF-8 sequences at every position of a few valid signatures; a crash is reduced by single-byte deletions and the fingerprint says whether the remaining input needs a non-ASCII or a control byte. " +
			"Sentence 1 includes: the Go field names of Type() agree with the Go type expression TypeName() renders (tuple members) and with the exported member names (struct members). " +
			"Every failure is evaluated a second time at once (same process state) and 5 times alone after the enumeration: one that does not fail 5/5 alone is reported under <fingerprint>/depends-on-earlier-calls. " +
			"arity = the struct annotations of valid signatures with the number of member names made different from the number of member types (names emptied / shortened / extended, types shortened / extended), at every struct position",
		"distinct_shape_outcome_pairs":    len(total.distinct),
		"distinct_accepted_printed_forms": len(total.accepted),
		"samples":                         sampleList,
		"exhaustive":                      exhaustive,
		"families":                        famCov,
		"histories_reparse_after_register": map[string]interface{}{"evaluations": histEvals, "distinct_pairs": histDistinct,
			"universe": "all ordered pairs of one-member structs over the struct-name pool x {i,s} member types (same name with different members included), alone and inside a tuple: Parse both, RegisterTo one TypeSet and GenerateType, then Parse both again"},
		"arity_near_miss":        map[string]interface{}{"base_signatures": arityBasesN, "struct_nodes_damaged": arityNodesN, "distinct_strings_judged": total.perFamily["arity"]},
		"per_family_evaluations": total.perFamily,
		"skipped_slow":           total.slow,
		"workers":                workers,
		"observation_raw_atom_r": "Parse(\"r\") is " + rawObs + " ('r' raw data is in the documented grammar but not in the property's list; not judged)",
		"observation_accepted_outside_reference_grammar":    total.outside,
		"observation_accepted_not_equal_to_print_mod_blank": total.stripDiff,
		"explanation": "observation_* are counted, not judged: the property only demands a fixed point for whatever the parser accepts. " +
			"If the deadline stops a family its `complete` is false and `cases` is the number of cases judged before the stop.",
	}
	assumptions := []string{
		"small-scope hypothesis: printer/parser drift shows on signatures of depth <= 2 (3 in thorough); width: every combination of members up to width 2 (3), and every width of the stated range of the width family over fixed member patterns",
		"the Go representation of m, o, X and v is not fixed by the property: any non-nil reflect.Type is accepted for them; Type() is not judged on a struct that names two members identically",
		"Go field names: no naming convention is imposed on tuple members - Type() and the Go type expression rendered by TypeName() must name them identically and distinctly; a struct member must be the Go field with its exported name (first letter upper-cased); void has no Go type expression, so signatures holding v are not judged by this clause",
		"bytes outside printable ASCII are not part of the grammar: a string holding one must be rejected with an error (or, if accepted, be its own printed form blanks apart, blanks being what unicode.IsSpace says)",
		"sigen (own AST, printers, recogniser) is the reference; the IDL spellings int8..uint64/float32/float64/bool/str/any/obj/unknown/nothing/Vec<>/Map<,>/Tuple<> are taken from the IDL documentation (doc/introduction.md) and idl basic type table",
		"parser time and memory are property C07's business: a case slower than 10 s is skipped and counted under skipped_slow",
	}
	os.Exit(chk.Finish(cov, assumptions))
}

func dedup(l []string) []string {
	var out []string
	for i, s := range l {
		if i == 0 || s != l[i-1] {
			out = append(out, s)
		}
	}
	return out
}

// sigFamily: the families whose cases are sigen trees (sentence 1).
func sigFamily(name string) bool {
	return strings.HasPrefix(name, "gen") || name == "hygiene" || name == "width"
}

// reproduces re-evaluates a witness from scratch and checks that the same
// fingerprint comes out. toolErr is set when the case cannot be rebuilt at
// all (a failure of the machinery, not of the code under test).
func reproduces(w *witness) (ok bool, toolErr string) {
	st := newState()
	if sigFamily(w.family) {
		t, ok := sigen.Recognize(w.input)
		if !ok {
			return false, "the reference recogniser refuses a signature the reference generator produced"
		}
		st.doSig(kase{family: w.family, t: t})
	} else {
		st.doArb(kase{family: w.family, x: w.input})
	}
	_, ok = st.wit[w.fp]
	return ok, ""
}

// replay re-runs the input stored in a replay file and prints what happens.
func replay(path string) int {
	data, err := os.ReadFile(path)
	if err != nil {
		fmt.Println(err)
		return 2
	}
	var f struct {
		Fingerprint string `json:"fingerprint"`
		Replay      struct {
			Family, Input string
			Minimal       string `json:"minimal_input"`
			InputHex      string `json:"input_hex"`
			MinimalHex    string `json:"minimal_input_hex"`
		} `json:"replay"`
	}
	if err := json.Unmarshal(data, &f); err != nil {
		fmt.Println(err)
		return 2
	}
	// the exact bytes, when the file has them
	if b, err := hex.DecodeString(f.Replay.InputHex); err == nil && f.Replay.InputHex != "" {
		f.Replay.Input = string(b)
	}
	if b, err := hex.DecodeString(f.Replay.MinimalHex); err == nil && f.Replay.MinimalHex != "" {
		f.Replay.Minimal = string(b)
	}
	code := 0
	for _, in := range []string{f.Replay.Input, f.Replay.Minimal} {
		st := newState()
		if t, ok := sigen.Recognize(in); ok {
			st.doSig(kase{family: "replay", t: t})
		} else {
			st.doArb(kase{family: "replay", x: in})
		}
		fmt.Printf("input %q:\n", in)
		if len(st.wit) == 0 {
			fmt.Println("  no violation")
		}
		for fp, w := range st.wit {
			fmt.Printf("  VIOLATION %s\n    %s\n", fp, w.what)
			code = 1
		}
	}
	return code
}

// reparseAfterRegister enumerates short histories Parse, Parse, RegisterTo /
// GenerateType, Parse, Parse and checks that the second parse still prints
// the input.
func reparseAfterRegister(chk *report.Checker) (int, int) {
	evals, distinct := 0, 0
	var sigs []string
	for _, n := range hygieneStructNames {
		for _, m := range []string{"i", "s"} {
			sigs = append(sigs, "("+m+")<"+n+",a>")
		}
	}
	check := func(in string, phase string) {
		evals++
		var got string
		o := runner.Guard(func() {
			t, err := signature.Parse(in)
			if err != nil {
				got = "error: " + err.Error()
				return
			}
			got = t.Signature()
		})
		if o.Panic != "" {
			got = "panic: " + o.Panic
		}
		if got != in {
			chk.Report("Parse/after-RegisterTo/printed-signature-differs",
				fmt.Sprintf("after other parsed types were registered into a TypeSet, Parse(%q).Signature() = %q", in, got),
				map[string]interface{}{"input": in, "printed": got, "phase": phase})
		}
	}
	for _, a := range sigs {
		for _, b := range sigs {
			distinct++
			both := "(" + a + b + ")"
			runner.Guard(func() {
				set := signature.NewTypeSet()
				for _, x := range []string{a, b, both} {
					if t, err := signature.Parse(x); err == nil {
						t.RegisterTo(set)
						signature.GenerateType(t, "p", io.Discard)
					}
				}
			})
			check(a, "first")
			check(b, "second")
			check(both, "tuple")
		}
	}
	return evals, distinct
}
