package main

// Two families added after the fifth round of independently seeded changes:
//
//	width  tuples and structs of EVERY width 0..N (not only 0..3), alone and
//	       nested, judged by the oracle of sentence 1
//	bytes  the arbitrary-string universe over the whole byte alphabet 0..255
//	       (single bytes, pairs, every byte at every position of a few valid
//	       signatures, UTF-8 sequences - valid and invalid - at every
//	       position), judged by the oracle of sentence 2

import (
	"fmt"
	"sort"
	"strconv"

	"verif/internal/sigen"
)

// ---------------------------------------------------------------- width

// widthSpec describes the width family of a tier.
type widthSpec struct {
	full    []int // widths given every member pattern, kind and wrapper
	reduced []int // widths given the reduced product
}

func widthsOf(tier string) widthSpec {
	var s widthSpec
	// decimal and power-of-two boundaries beyond the contiguous range
	bound := []int{63, 64, 65, 99, 100, 101, 127, 128, 129, 255, 256, 257}
	n := 40
	if tier == "thorough" {
		n = 100
	}
	for w := 0; w <= n; w++ {
		s.full = append(s.full, w)
	}
	if tier == "thorough" {
		for w := n + 1; w <= 300; w++ {
			s.reduced = append(s.reduced, w)
		}
		s.reduced = append(s.reduced, 511, 512, 513, 999, 1000, 1001)
	} else {
		s.reduced = bound
	}
	return s
}

// widthCycle is the atom of member k in the "cycle" pattern: every atom of
// the property's list in turn, so that a dropped, repeated or misplaced
// member changes the predicted kind tree and the IDL name.
const widthCycle = sigen.AllAtoms

// widthCycleKey is the cycle without 'o' (an object reference has no
// comparable Go representation - a listed finding for map keys - and parsing
// one costs as much as parsing a hundred other members).
const widthCycleKey = "cCwWiIlLfdbsmXv"

// member-name schemes of the wide structs: m0 m1 ... and the positional
// names P0 P1 ... (what the repository itself calls the members of a tuple).
var widthSchemes = []string{"m", "P"}

func widthNames(scheme string, n int) []string {
	out := make([]string, n)
	for i := range out {
		out[i] = scheme + strconv.Itoa(i)
	}
	return out
}

// widthMembers lists the member patterns of width n: all i; the cycle over
// every atom; and, for n >= 1, all i with one composite member (list, map,
// 2-tuple, 2-struct) at the first, the middle and the last position.
// keyable patterns can be the key of a map.
type widthPattern struct {
	name    string
	members []*sigen.T
	keyable bool // may be the key of a map
	nested  bool // judged in every position of widthWrap (else alone and as a list element only)
}

func widthMembers(n int) []widthPattern {
	rep := func(f func(k int) *sigen.T) []*sigen.T {
		m := make([]*sigen.T, n)
		for k := range m {
			m[k] = f(k)
		}
		return m
	}
	out := []widthPattern{
		{"all-i", rep(func(int) *sigen.T { return sigen.A('i') }), true, true},
		{"cycle", rep(func(k int) *sigen.T { return sigen.A(widthCycle[k%len(widthCycle)]) }), false, false},
		{"cycle-no-o", rep(func(k int) *sigen.T { return sigen.A(widthCycleKey[k%len(widthCycleKey)]) }), true, true},
	}
	if n == 0 {
		return out[:1]
	}
	comps := []func() *sigen.T{
		func() *sigen.T { return sigen.L(sigen.A('s')) },
		func() *sigen.T { return sigen.M(sigen.A('s'), sigen.A('i')) },
		func() *sigen.T { return sigen.Tu(sigen.A('i'), sigen.A('s')) },
		func() *sigen.T { return sigen.St("Bb", []string{"k", "l"}, sigen.A('i'), sigen.A('s')) },
	}
	// every member a composite of one kind: a signature with MANY lists, maps,
	// tuples, plain structs or template-named structs at one level (a parser
	// that counts brackets, names or open constructs per signature shows here)
	out = append(out,
		widthPattern{"all-lists", rep(func(int) *sigen.T { return sigen.L(sigen.A('i')) }), false, false},
		widthPattern{"all-maps", rep(func(int) *sigen.T { return sigen.M(sigen.A('s'), sigen.A('i')) }), false, false},
		widthPattern{"all-tuples", rep(func(int) *sigen.T { return sigen.Tu(sigen.A('i')) }), false, false},
		widthPattern{"all-structs", rep(func(k int) *sigen.T { return sigen.St(fmt.Sprintf("S%d", k), []string{"a"}, sigen.A('i')) }), false, false},
		widthPattern{"all-template-structs", rep(func(k int) *sigen.T { return sigen.St(fmt.Sprintf("List<t%d>", k), []string{"a"}, sigen.A('i')) }), false, false},
	)
	pos := []int{0}
	if n/2 != 0 {
		pos = append(pos, n/2)
	}
	if n-1 != 0 && n-1 != n/2 {
		pos = append(pos, n-1)
	}
	for ci, c := range comps {
		for _, p := range pos {
			p, c := p, c
			out = append(out, widthPattern{fmt.Sprintf("composite%d@%d", ci, p), rep(func(k int) *sigen.T {
				if k == p {
					return c()
				}
				return sigen.A('i')
			}), false, false})
		}
	}
	return out
}

// widthNodes builds the wide nodes over one member pattern: the tuple and one
// struct per member-name scheme.
func widthNodes(p widthPattern) []*sigen.T {
	n := len(p.members)
	out := []*sigen.T{sigen.Tu(cloneAll(p.members)...)}
	for _, sc := range widthSchemes {
		out = append(out, sigen.St("Wide", widthNames(sc, n), cloneAll(p.members)...))
	}
	return out
}

func cloneAll(m []*sigen.T) []*sigen.T {
	out := make([]*sigen.T, len(m))
	for i, e := range m {
		out[i] = e.Clone()
	}
	return out
}

// widthWrap lists the positions a wide node x is judged in: alone, element of
// a list, value and (if keyable) key of a map, first and last member of a
// tuple, member of a struct, element of a list of lists, and last member of a
// tuple as wide as x itself (wide inside wide).
func widthWrap(x *sigen.T, p widthPattern, full bool) []*sigen.T {
	i, s := sigen.A('i'), sigen.A('s')
	out := []*sigen.T{x, sigen.L(x)}
	if !full || !p.nested {
		return out
	}
	out = append(out, sigen.M(s, x))
	if p.keyable {
		out = append(out, sigen.M(x, s))
	}
	out = append(out, sigen.Tu(x, i), sigen.Tu(i, x), sigen.St("Bb", []string{"k", "l"}, x, i), sigen.L(sigen.L(x)))
	if n := len(x.Elem); n >= 2 {
		m := make([]*sigen.T, n)
		for k := range m {
			m[k] = sigen.A('i')
		}
		m[n-1] = x
		out = append(out, sigen.Tu(m...))
	}
	return out
}

// widthFamily enumerates the family; it returns false when emit stopped it.
func widthFamily(spec widthSpec, emit func(*sigen.T) bool) bool {
	do := func(widths []int, full bool) bool {
		for _, n := range widths {
			pats := widthMembers(n)
			if !full && len(pats) > 2 {
				pats = pats[:2] // all-i, cycle
			}
			for _, p := range pats {
				for _, x := range widthNodes(p) {
					for _, t := range widthWrap(x, p, full) {
						if !emit(t) {
							return false
						}
					}
				}
			}
		}
		return true
	}
	return do(spec.full, true) && do(spec.reduced, false)
}

func widthUniverse(spec widthSpec) string {
	return fmt.Sprintf("tuples and structs of EVERY width in %s, each as {tuple, struct Wide with members m0 m1 ..., struct Wide with members P0 P1 ...}: "+
		"(a) members all i, and member k = k-th atom of the cycle %s, in the positions {alone, element of a list, value and key of a map, first and last member of a 2-tuple, member of a struct, "+
		"list of lists, last member of a tuple of the same width}; (b) the cycle with o (%s), alone and as the element of a list; (c) all i with one composite member - [s], {si}, (is), (is)<Bb,k,l> - at the first / middle / last position, alone and as the element of a list. "+
		"And for every width in %s: members {all i, cycle} x the three kinds x {alone, element of a list}. Judged by sentence 1 (print, fixed point, IDL name, Go kind tree, Go field names, Reader, TypeName)",
		rangeText(spec.full), widthCycleKey, widthCycle, rangeText(spec.reduced))
}

// rangeText prints a sorted list of integers as ranges.
func rangeText(l []int) string {
	l = append([]int(nil), l...)
	sort.Ints(l)
	s := ""
	for i := 0; i < len(l); {
		j := i
		for j+1 < len(l) && l[j+1] == l[j]+1 {
			j++
		}
		if s != "" {
			s += ","
		}
		if j > i+1 {
			s += fmt.Sprintf("%d..%d", l[i], l[j])
			i = j + 1
			continue
		}
		s += strconv.Itoa(l[i])
		i++
	}
	return "{" + s + "}"
}

// ---------------------------------------------------------------- bytes

// byteBases are the valid signatures every byte is inserted into and
// substituted in: their positions cover "between tokens", inside a struct
// name, inside a template argument, inside a member name, first and last.
var byteBases = []string{"i", "[s]", "{sm}", "(is)", "(i)<Ab,a_1>", "(is)<List<double>,a,bc>", "[{s(i)<A,a>}]"}

// utf8Pool: valid UTF-8 of 2, 3 and 4 bytes (letters, digits, blanks and
// separators of Unicode, boundaries of each length), and every kind of
// invalid sequence (lone continuation, truncated, overlong, surrogate, beyond
// U+10FFFF, bytes that never occur).
var utf8Pool = []string{
	// valid, 2 bytes: U+0080, NEL, NBSP, e-acute, E-acute, lambda, arabic-indic digit zero, U+07FF
	"\u0080", "\u0085", "\u00a0", "\u00e9", "\u00c9", "\u03bb", "\u0660", "\u07ff",
	// valid, 3 bytes: U+0800, en quad, euro, ideographic space, CJK letter, BOM, replacement character, fullwidth ( and A, U+FFFF
	"\u0800", "\u2000", "\u20ac", "\u3000", "\u4e2d", "\ufeff", "\ufffd", "\uff08", "\uff21", "\uffff",
	// valid, 4 bytes: U+10000, mathematical bold A, an emoji, U+10FFFF
	"\U00010000", "\U0001d400", "\U0001f600", "\U0010ffff",
	// e + combining acute, two accented letters
	"e\u0301", "\u00e9\u00e9",
	// invalid: lone continuation bytes, truncated 2/3/4-byte sequences, overlong forms, surrogates, beyond U+10FFFF,
	// 5-byte form, bytes that never occur, UTF-16 BOM, lead byte followed by ASCII, a Latin-1 letter
	"\x80", "\xbf", "\xc3", "\xe2\x82", "\xf0\x9f\x98", "\xc0\x80", "\xc1\xbf", "\xe0\x80\x80", "\xf0\x80\x80\x80",
	"\xed\xa0\x80", "\xed\xbf\xbf", "\xf4\x90\x80\x80", "\xf5\x80\x80\x80", "\xf8\x88\x80\x80\x80", "\xfe", "\xff", "\xff\xfe", "\xc3\x28", "\xe9",
}

// bytePositions emits, once each, every string obtained from a base by
// inserting seq at a gap (0..len) or by substituting seq for one byte.
func bytePositions(bases, seqs []string, emit func(string) bool) bool {
	seen := map[string]struct{}{}
	out := func(x string) bool {
		if _, dup := seen[x]; dup {
			return true
		}
		seen[x] = struct{}{}
		return emit(x)
	}
	for _, b := range bases {
		for _, q := range seqs {
			for i := 0; i <= len(b); i++ {
				if !out(b[:i] + q + b[i:]) {
					return false
				}
			}
			for i := 0; i < len(b); i++ {
				if !out(b[:i] + q + b[i+1:]) {
					return false
				}
			}
		}
	}
	return true
}

func allBytes() []string {
	out := make([]string, 256)
	for b := range out {
		out[b] = string([]byte{byte(b)})
	}
	return out
}

// byteAlphabet3 is the alphabet of the 3-byte strings of the thorough tier:
// the grammar alphabet plus 20 bytes that are not printable ASCII - NUL, the
// six ASCII blanks and separators, DEL, first / last continuation byte, NEL
// and NBSP as Latin-1, lead bytes of 2-, 3- and 4-byte sequences (so that
// whole 2- and 3-byte characters occur), 0xfe, 0xff.
func byteAlphabet3() string {
	return arbAlphabet + "\x00\t\n\v\f\r\x1f\x7f\x80\x85\xa0\xbf\xc2\xc3\xe2\xef\xf0\xf4\xfe\xff"
}

// byteClass names what is unusual about the bytes of a (minimised) input:
// "" for printable ASCII.
func byteClass(x string) string {
	high, ctl := false, false
	for i := 0; i < len(x); i++ {
		switch c := x[i]; {
		case c >= 0x80:
			high = true
		case c < 0x20 || c == 0x7f:
			ctl = true
		}
	}
	switch {
	case high:
		return "non-ascii-byte"
	case ctl:
		return "control-byte"
	}
	return ""
}
