// C20 - structural conversion preserves every value.
//
// Bounded-exhaustive exploration (engine A) of conversion.ConvertFrom.
//
// Compatible family: every (src, dst) pair of Go types of a bounded universe
// in which dst is obtained from src by widening integers within the same
// signedness, float32 -> float64, identity on bool / string, recursively
// through slices, maps (keys and values) and structs matched by field name
// (dst members permuted, extra dst member present), x every value of Val(src).
// Oracle: ConvertFrom(&dst, x) returns nil; an independent recursive walker
// finds every element / key / member of dst equal to the source's; converting
// dst back into a fresh value of src's type succeeds and gives x again.
//
// Incompatible family: every ordered pair of DIFFERENT kind classes among
// {bool, string, integer, float, slice, map, struct}, at the top level and
// nested as slice element / map key / map value / struct member of an
// otherwise identical container holding at least one element.
// Oracle: ConvertFrom returns an error (and does not panic).
//
// Narrowing and cross-signedness integer pairs, float64 -> float32 on values
// that are not float32, unmatched struct members, nil-versus-empty and NaN
// payloads are NOT judged: the statement does not speak about them.
package main

import (
	"encoding/json"
	"fmt"
	"hash/fnv"
	"math"
	"os"
	"reflect"
	"runtime"
	"sort"
	"strings"
	"time"

	"github.com/lugu/qiloop/type/conversion"

	"verif/internal/report"
	"verif/internal/sigen"
	"verif/internal/sigen/runner"
)

// ------------------------------------------------------------ types

// Types are sigen trees over the atoms c C w W i I l L f d b s, lists, maps
// and structs (member names are exported Go identifiers). rtype builds the
// reflect.Type.
func rtypeNoCache(t *sigen.T) reflect.Type {
	switch t.Kind {
	case sigen.Atom:
		switch t.Atom {
		case 'c':
			return reflect.TypeOf(int8(0))
		case 'C':
			return reflect.TypeOf(uint8(0))
		case 'w':
			return reflect.TypeOf(int16(0))
		case 'W':
			return reflect.TypeOf(uint16(0))
		case 'i':
			return reflect.TypeOf(int32(0))
		case 'I':
			return reflect.TypeOf(uint32(0))
		case 'l':
			return reflect.TypeOf(int64(0))
		case 'L':
			return reflect.TypeOf(uint64(0))
		case 'f':
			return reflect.TypeOf(float32(0))
		case 'd':
			return reflect.TypeOf(float64(0))
		case 'b':
			return reflect.TypeOf(false)
		case 's':
			return reflect.TypeOf("")
		}
	case sigen.List:
		return reflect.SliceOf(rtypeNoCache(t.Elem[0]))
	case sigen.Map:
		return reflect.MapOf(rtypeNoCache(t.Elem[0]), rtypeNoCache(t.Elem[1]))
	case sigen.Struct:
		f := make([]reflect.StructField, len(t.Elem))
		for i, e := range t.Elem {
			f[i] = reflect.StructField{Name: t.Fields[i], Type: rtypeNoCache(e)}
		}
		return reflect.StructOf(f)
	}
	panic("c20: unsupported type " + t.Sig())
}

func class(t *sigen.T) string {
	switch t.Kind {
	case sigen.Atom:
		switch sigen.AtomClass(t.Atom) {
		case "int":
			return "integer"
		case "flt":
			return "float"
		case "bool":
			return "bool"
		case "str":
			return "string"
		}
	case sigen.List:
		return "slice"
	case sigen.Map:
		return "map"
	case sigen.Struct:
		return "struct"
	}
	return "?"
}

type pair struct{ s, d *sigen.T }

func (p pair) String() string { return p.s.Sig() + " -> " + p.d.Sig() }

func atoms(s string) []*sigen.T {
	var out []*sigen.T
	for _, c := range []byte(s) {
		out = append(out, sigen.A(c))
	}
	return out
}

// scalarPairs: identity on bool and string, every widening within a
// signedness, float32/float64.
func scalarPairs() []pair {
	var out []pair
	out = append(out, pair{sigen.A('b'), sigen.A('b')}, pair{sigen.A('s'), sigen.A('s')})
	for _, fam := range []string{"cwil", "CWIL", "fd"} {
		for i := 0; i < len(fam); i++ {
			for j := i; j < len(fam); j++ {
				out = append(out, pair{sigen.A(fam[i]), sigen.A(fam[j])})
			}
		}
	}
	return out
}

func pickPairs(codes ...string) []pair {
	var out []pair
	for _, c := range codes {
		out = append(out, pair{sigen.A(c[0]), sigen.A(c[1])})
	}
	return out
}

// composites builds every slice, map and struct pair over the given element
// pairs; map keys range over keys; the second member of two-member structs
// ranges over second.
func composites(elems, keys, second []pair) []pair {
	var out []pair
	for _, e := range elems {
		out = append(out, pair{sigen.L(e.s), sigen.L(e.d)})
	}
	for _, k := range keys {
		for _, v := range elems {
			out = append(out, pair{sigen.M(k.s, v.s), sigen.M(k.d, v.d)})
		}
	}
	x := sigen.A('s') // type of the extra destination member
	for _, a := range elems {
		out = append(out,
			pair{sigen.St("S", []string{"A"}, a.s), sigen.St("S", []string{"A"}, a.d)},
			pair{sigen.St("S", []string{"A"}, a.s), sigen.St("S", []string{"Extra", "A"}, x, a.d)})
		for _, b := range second {
			src := sigen.St("S", []string{"A", "B"}, a.s, b.s)
			out = append(out,
				pair{src, sigen.St("S", []string{"A", "B"}, a.d, b.d)},
				pair{src, sigen.St("S", []string{"B", "A"}, b.d, a.d)},
				pair{src, sigen.St("S", []string{"B", "Extra", "A"}, b.d, x, a.d)})
		}
	}
	return out
}

func structOnly(ps []pair) []pair {
	var out []pair
	for _, p := range ps {
		if p.s.Kind == sigen.Struct {
			out = append(out, p)
		}
	}
	return out
}

// ------------------------------------------------------------ values

type env struct {
	rt map[string]reflect.Type
}

func (e *env) rtype(t *sigen.T) reflect.Type {
	k := t.Sig()
	if r, ok := e.rt[k]; ok {
		return r
	}
	r := rtypeNoCache(t)
	e.rt[k] = r
	return r
}

func pattern(bits uint) uint64 {
	p := uint64(0x0102030405060708)
	if bits < 64 {
		p &= 1<<bits - 1
	}
	return p
}

func bitsOf(c byte) uint {
	switch c {
	case 'c', 'C':
		return 8
	case 'w', 'W':
		return 16
	case 'i', 'I':
		return 32
	}
	return 64
}

// vals enumerates Val(t). level 0 is the value handed to ConvertFrom; nested
// positions are capped (6 at level 1, 3 deeper). The first value is always
// the distinguished non-zero value of the type.
func (e *env) vals(t *sigen.T, level int) []reflect.Value {
	limit := 1 << 30
	if level == 1 {
		limit = 6
	} else if level >= 2 {
		limit = 3
	}
	rt := e.rtype(t)
	var out []reflect.Value
	add := func(v reflect.Value) bool {
		if len(out) >= limit {
			return false
		}
		out = append(out, v)
		return true
	}
	mk := func(f func(v reflect.Value)) reflect.Value {
		v := reflect.New(rt).Elem()
		f(v)
		return v
	}
	switch t.Kind {
	case sigen.Atom:
		switch t.Atom {
		case 'b':
			add(reflect.ValueOf(true))
			add(reflect.ValueOf(false))
		case 's':
			for _, s := range []string{"q", "", "é世界", strings.Repeat("x", 255), "a"} {
				s := s
				add(mk(func(v reflect.Value) { v.SetString(s) }))
			}
		case 'c', 'w', 'i', 'l':
			n := bitsOf(t.Atom)
			min := int64(-1) << (n - 1)
			for _, x := range []int64{int64(pattern(n)), min, -min - 1, -1, 0, 1, 0x7f} {
				x := x
				add(mk(func(v reflect.Value) { v.SetInt(x) }))
			}
		case 'C', 'W', 'I', 'L':
			n := bitsOf(t.Atom)
			max := uint64(1)<<(n-1)<<1 - 1
			for _, x := range []uint64{pattern(n), max, uint64(1) << (n - 1), 0, 1, 0x7f} {
				x := x
				add(mk(func(v reflect.Value) { v.SetUint(x) }))
			}
		case 'f':
			for _, x := range []float32{1.5, -2.25, math.MaxFloat32, math.SmallestNonzeroFloat32, 0, float32(math.Copysign(0, -1)), float32(math.Inf(1)), float32(math.NaN())} {
				x := x
				add(mk(func(v reflect.Value) { v.SetFloat(float64(x)) }))
			}
		case 'd':
			for _, x := range []float64{1.5, 0.1, math.MaxFloat64, math.SmallestNonzeroFloat64, 0, math.Copysign(0, -1), math.Inf(-1), math.NaN()} {
				x := x
				add(mk(func(v reflect.Value) { v.SetFloat(x) }))
			}
		}
	case sigen.List:
		ev := e.vals(t.Elem[0], level+1)
		// distinguished: two different elements when possible
		if len(ev) >= 2 {
			add(mk(func(v reflect.Value) { v.Set(reflect.Append(v, ev[0], ev[1])) }))
		}
		add(mk(func(v reflect.Value) {}))                                     // nil
		add(mk(func(v reflect.Value) { v.Set(reflect.MakeSlice(rt, 0, 0)) })) // empty
		for _, x := range ev {
			x := x
			add(mk(func(v reflect.Value) { v.Set(reflect.Append(v, x)) }))
		}
		if len(ev) >= 2 {
			add(mk(func(v reflect.Value) { v.Set(reflect.Append(v, ev[len(ev)-1], ev[0], ev[0])) }))
		}
	case sigen.Map:
		kv := e.keyVals(t.Elem[0], level+1)
		vv := e.vals(t.Elem[1], level+1)
		set := func(pairs ...int) reflect.Value {
			return mk(func(v reflect.Value) {
				v.Set(reflect.MakeMap(rt))
				for i := 0; i+1 < len(pairs); i += 2 {
					v.SetMapIndex(kv[pairs[i]%len(kv)], vv[pairs[i+1]%len(vv)])
				}
			})
		}
		if len(kv) >= 2 {
			add(set(0, 0, 1, 1%len(vv)))
		}
		add(mk(func(v reflect.Value) {})) // nil
		add(set())                        // empty
		n := len(kv)
		if len(vv) > n {
			n = len(vv)
		}
		for i := 0; i < n; i++ {
			add(set(i, i))
		}
		if len(kv) >= 2 {
			add(set(0, len(vv)-1, 1, 0))
		}
	case sigen.Struct:
		fv := make([][]reflect.Value, len(t.Elem))
		for i, m := range t.Elem {
			fv[i] = e.vals(m, level+1)
		}
		build := func(pick func(i int) reflect.Value) reflect.Value {
			return mk(func(v reflect.Value) {
				for i := range t.Elem {
					v.Field(i).Set(pick(i))
				}
			})
		}
		// all distinguished
		add(build(func(i int) reflect.Value { return fv[i][0] }))
		// one member at a time over its full set
		for k := range t.Elem {
			for j := 1; j < len(fv[k]); j++ {
				k, j := k, j
				add(build(func(i int) reflect.Value {
					if i == k {
						return fv[i][j]
					}
					return fv[i][0]
				}))
			}
		}
		// the diagonal
		max := 0
		for _, l := range fv {
			if len(l) > max {
				max = len(l)
			}
		}
		for j := 1; j < max; j++ {
			j := j
			add(build(func(i int) reflect.Value { return fv[i][j%len(fv[i])] }))
		}
	}
	return out
}

// keyVals is vals without values that cannot be looked up again or that
// collide as keys: NaN (anywhere inside), and -0 (equal to 0 as a key).
func (e *env) keyVals(t *sigen.T, level int) []reflect.Value {
	var out []reflect.Value
	for _, v := range e.vals(t, level) {
		if !hasNaNOrNegZero(v) {
			out = append(out, v)
		}
	}
	return out
}

func hasNaNOrNegZero(v reflect.Value) bool {
	switch v.Kind() {
	case reflect.Float32, reflect.Float64:
		f := v.Float()
		return f != f || (f == 0 && math.Signbit(f))
	case reflect.Struct:
		for i := 0; i < v.NumField(); i++ {
			if hasNaNOrNegZero(v.Field(i)) {
				return true
			}
		}
	}
	return false
}

// ------------------------------------------------------------ walker

// same compares got (of dst type dt) with the source value src (of type st).
// where == "" if every element, key and member of got equals the source's;
// otherwise it describes the first difference, and length tells whether that
// difference is the element count of the outermost container.
func same(st, dt *sigen.T, src, got reflect.Value) (length bool, where string) {
	switch st.Kind {
	case sigen.Atom:
		switch class(st) {
		case "bool":
			if src.Bool() != got.Bool() {
				return false, fmt.Sprintf("bool %v became %v", src.Bool(), got.Bool())
			}
		case "string":
			if src.String() != got.String() {
				return false, fmt.Sprintf("string %q became %q", src.String(), got.String())
			}
		case "integer":
			if src.CanInt() {
				if !got.CanInt() || src.Int() != got.Int() {
					return false, fmt.Sprintf("%v %d became %v", src.Type(), src.Int(), got)
				}
			} else if !got.CanUint() || src.Uint() != got.Uint() {
				return false, fmt.Sprintf("%v %d became %v", src.Type(), src.Uint(), got)
			}
		case "float":
			a, b := src.Float(), got.Float()
			if a != a && b != b {
				return false, ""
			}
			if math.Float64bits(a) != math.Float64bits(b) {
				return false, fmt.Sprintf("%v %v became %v", src.Type(), a, b)
			}
		}
	case sigen.List:
		if src.Len() != got.Len() {
			return true, fmt.Sprintf("slice of %d elements became %d elements", src.Len(), got.Len())
		}
		for i := 0; i < src.Len(); i++ {
			if _, w := same(st.Elem[0], dt.Elem[0], src.Index(i), got.Index(i)); w != "" {
				return false, fmt.Sprintf("[%d]: %s", i, w)
			}
		}
	case sigen.Map:
		if src.Len() != got.Len() {
			return true, fmt.Sprintf("map of %d entries became %d entries", src.Len(), got.Len())
		}
		for _, k := range src.MapKeys() {
			// the entry of got whose key equals k
			var found reflect.Value
			for _, gk := range got.MapKeys() {
				if _, w := same(st.Elem[0], dt.Elem[0], k, gk); w == "" {
					found = gk
					break
				}
			}
			if !found.IsValid() {
				return false, fmt.Sprintf("key %v is missing from %v", k, got)
			}
			if _, w := same(st.Elem[1], dt.Elem[1], src.MapIndex(k), got.MapIndex(found)); w != "" {
				return false, fmt.Sprintf("[%v]: %s", k, w)
			}
		}
	case sigen.Struct:
		for i, name := range st.Fields {
			j := -1
			for x, n := range dt.Fields {
				if n == name {
					j = x
				}
			}
			if j < 0 {
				continue // no counterpart: not judged
			}
			if _, w := same(st.Elem[i], dt.Elem[j], src.Field(i), got.Field(j)); w != "" {
				return false, fmt.Sprintf(".%s: %s", name, w)
			}
		}
	}
	return false, ""
}

// ------------------------------------------------------------ evaluation

type failure struct {
	clause string // compatible-pair-refused | not-preserved | back-conversion-refused | roundtrip-not-preserved | panic | incompatible-kinds-converted
	detail string
	msg    string // panic message class
	site   string
	length bool // the difference is the element count of the outermost container
}

func (f *failure) key() string { return f.clause + "|" + f.msg + "|" + f.site }

// evalCompatible judges one compatible case.
func (e *env) evalCompatible(p pair, x reflect.Value) *failure {
	dt, st := e.rtype(p.d), e.rtype(p.s)
	dst := reflect.New(dt)
	var err error
	o := runner.GuardInline(func() { err = conversion.ConvertFrom(dst.Interface(), x.Interface()) })
	if o.Panic != "" {
		return &failure{"panic", "forward conversion panics: " + o.Panic, runner.MsgClass(o.Panic), o.Site, false}
	}
	if err != nil {
		return &failure{"compatible-pair-refused", err.Error(), "", "", false}
	}
	if l, w := same(p.s, p.d, x, dst.Elem()); w != "" {
		return &failure{"not-preserved", w, "", "", l}
	}
	back := reflect.New(st)
	o = runner.GuardInline(func() { err = conversion.ConvertFrom(back.Interface(), dst.Elem().Interface()) })
	if o.Panic != "" {
		return &failure{"panic", "back conversion panics: " + o.Panic, runner.MsgClass(o.Panic), o.Site, false}
	}
	if err != nil {
		return &failure{"back-conversion-refused", err.Error(), "", "", false}
	}
	if l, w := same(p.s, p.s, x, back.Elem()); w != "" {
		return &failure{"roundtrip-not-preserved", w, "", "", l}
	}
	return nil
}

// evalIncompatible judges one case in which a cross-class pair is reached.
func (e *env) evalIncompatible(p pair, x reflect.Value) *failure {
	dst := reflect.New(e.rtype(p.d))
	var err error
	o := runner.GuardInline(func() { err = conversion.ConvertFrom(dst.Interface(), x.Interface()) })
	if o.Panic != "" {
		return &failure{"panic", "conversion of incompatible kinds panics: " + o.Panic, runner.MsgClass(o.Panic), o.Site, false}
	}
	if err == nil {
		return &failure{"incompatible-kinds-converted", fmt.Sprintf("no error; destination is now %#v", dst.Elem().Interface()), "", "", false}
	}
	return nil
}

// child cases of a compatible case: (pair, value) for every element, key,
// map value and matched member.
type kase struct {
	p pair
	x reflect.Value
}

func children(c kase) []kase {
	var out []kase
	s, d := c.p.s, c.p.d
	if s.Kind != d.Kind {
		return nil
	}
	switch s.Kind {
	case sigen.List:
		for i := 0; i < c.x.Len(); i++ {
			out = append(out, kase{pair{s.Elem[0], d.Elem[0]}, c.x.Index(i)})
		}
	case sigen.Map:
		for _, k := range c.x.MapKeys() {
			out = append(out, kase{pair{s.Elem[0], d.Elem[0]}, k}, kase{pair{s.Elem[1], d.Elem[1]}, c.x.MapIndex(k)})
		}
	case sigen.Struct:
		for i, n := range s.Fields {
			for j, m := range d.Fields {
				if n == m {
					out = append(out, kase{pair{s.Elem[i], d.Elem[j]}, c.x.Field(i)})
				}
			}
		}
	}
	return out
}

// localize descends to the smallest sub-case that fails in the same way.
func localize(c kase, key string, eval func(kase) *failure) kase {
	for {
		moved := false
		for _, ch := range children(c) {
			if f := eval(ch); f != nil && f.key() == key {
				c = ch
				moved = true
				break
			}
		}
		if !moved {
			return c
		}
	}
}

func nodeName(p pair) string {
	if p.s.Kind == sigen.Atom && p.d.Kind == sigen.Atom && class(p.s) == class(p.d) {
		return rtypeNoCache(p.s).String() + "-into-" + rtypeNoCache(p.d).String()
	}
	if class(p.s) == class(p.d) {
		return class(p.s)
	}
	return class(p.s) + "-into-" + class(p.d)
}

// ------------------------------------------------------------ driver

type witness struct {
	fp, what      string
	src, dst, val string
	valIndex      int
	family        string
	count         int
	size          int
}

type wstate struct {
	e         *env
	evals     int
	pairs     int
	distinct  map[string]struct{}
	wit       map[string]*witness
	perFamily map[string]int
	samples   map[string][]string
}

func newState() *wstate {
	return &wstate{e: &env{rt: map[string]reflect.Type{}}, distinct: map[string]struct{}{}, wit: map[string]*witness{},
		perFamily: map[string]int{}, samples: map[string][]string{}}
}

func (st *wstate) sample(family, s string) {
	h := fnv.New32a()
	h.Write([]byte(s))
	key := fmt.Sprintf("%08x %s", h.Sum32(), s)
	l := st.samples[family]
	if len(l) == 4 && key >= l[3] {
		return
	}
	l = append(l, key)
	sort.Strings(l)
	if len(l) > 4 {
		l = l[:4]
	}
	st.samples[family] = l
}

func clip(s string) string {
	if len(s) > 200 {
		return s[:200] + "..."
	}
	return s
}

func (st *wstate) record(family string, orig kase, idx int, min kase, f *failure, entry string) {
	detail := nodeName(min.p)
	if f.clause == "panic" {
		detail = f.msg + "@" + f.site + "/" + detail
	}
	clause := f.clause
	if f.length {
		clause += ":length"
	}
	fp := report.FPEscape("ConvertFrom/" + detail + "/" + clause)
	what := fmt.Sprintf("%s: ConvertFrom(*%v, %v %s): %s: %s", entry, rtypeNoCache(min.p.d), rtypeNoCache(min.p.s), clip(fmt.Sprintf("%#v", min.x.Interface())), f.clause, clip(f.detail))
	size := orig.p.s.Size()*1000 + len(fmt.Sprintf("%#v", orig.x.Interface()))
	w, ok := st.wit[fp]
	cand := &witness{fp, what, orig.p.s.Sig(), orig.p.d.Sig(), fmt.Sprintf("%#v", orig.x.Interface()), idx, family, 1, size}
	if !ok {
		st.wit[fp] = cand
		return
	}
	if size < w.size || size == w.size && cand.src+cand.dst+cand.val < w.src+w.dst+w.val {
		cand.count = w.count
		*w = *cand
	}
	w.count++
}

type job struct {
	family string
	p      pair
	incomp bool
}

func (st *wstate) do(j job) {
	st.pairs++
	vals := st.e.vals(j.p.s, 0)
	for idx, x := range vals {
		if j.incomp && !reachesCrossClass(j.p, x) {
			continue
		}
		st.evals++
		st.perFamily[j.family]++
		c := kase{j.p, x}
		var f *failure
		eval := st.e.evalCompatible
		if j.incomp {
			eval = st.e.evalIncompatible
		}
		f = eval(c.p, c.x)
		out := "ok"
		if f != nil {
			out = f.clause
		}
		st.distinct[shapePair(j.p)+" => "+out] = struct{}{}
		if idx == 0 {
			st.sample(j.family, fmt.Sprintf("%v -> %v, e.g. %s => %s", st.e.rtype(j.p.s), st.e.rtype(j.p.d), clip(fmt.Sprintf("%#v", x.Interface())), out))
		}
		if f == nil {
			continue
		}
		min := c
		if !j.incomp {
			min = localize(c, f.key(), func(k kase) *failure { return st.e.evalCompatible(k.p, k.x) })
			if f2 := st.e.evalCompatible(min.p, min.x); f2 != nil && f2.key() == f.key() {
				f = f2
			}
		} else {
			min = st.e.localizeIncompatible(c, f.key())
			if f2 := st.e.evalIncompatible(min.p, min.x); f2 != nil && f2.key() == f.key() {
				f = f2
			}
		}
		st.record(j.family, c, idx, min, f, "family "+j.family)
	}
}

// shapePair abstracts a pair for the distinct count: the two constructor
// trees with integer atoms reduced to their width class.
func shapePair(p pair) string { return p.s.Sig() + ">" + p.d.Sig() }

// reachesCrossClass: the cross-class node of an incompatible pair is only
// reached when the containers on the way hold at least one element.
func reachesCrossClass(p pair, x reflect.Value) bool {
	if class(p.s) != class(p.d) {
		return true
	}
	switch p.s.Kind {
	case sigen.List:
		return x.Len() > 0 && reachesCrossClass(pair{p.s.Elem[0], p.d.Elem[0]}, x.Index(0))
	case sigen.Map:
		if x.Len() == 0 {
			return false
		}
		k := x.MapKeys()[0]
		if !sameTree(p.s.Elem[0], p.d.Elem[0]) {
			return reachesCrossClass(pair{p.s.Elem[0], p.d.Elem[0]}, k)
		}
		return reachesCrossClass(pair{p.s.Elem[1], p.d.Elem[1]}, x.MapIndex(k))
	case sigen.Struct:
		for i := range p.s.Elem {
			if !sameTree(p.s.Elem[i], p.d.Elem[i]) {
				return reachesCrossClass(pair{p.s.Elem[i], p.d.Elem[i]}, x.Field(i))
			}
		}
	}
	return false
}

func sameTree(a, b *sigen.T) bool { return a.Sig() == b.Sig() }

// localizeIncompatible descends to the smallest sub-case that holds the
// cross-class node and is still converted without an error: if the bare
// cross-class pair is refused correctly, the container that swallowed the
// refusal is the culprit.
func (e *env) localizeIncompatible(c kase, key string) kase {
	for {
		moved := false
		for _, ch := range children(c) {
			if sameTree(ch.p.s, ch.p.d) || !reachesCrossClass(ch.p, ch.x) {
				continue
			}
			if f := e.evalIncompatible(ch.p, ch.x); f != nil && f.key() == key {
				c = ch
				moved = true
				break
			}
		}
		if !moved {
			return c
		}
	}
}

// incompatiblePairs: representatives of every ordered pair of different kind
// classes, alone and nested once inside each container position.
func incompatiblePairs() []pair {
	reps := map[string][]*sigen.T{
		"bool":    atoms("b"),
		"string":  atoms("s"),
		"integer": atoms("cCiIlL"),
		"float":   atoms("fd"),
		"slice":   {sigen.L(sigen.A('i')), sigen.L(sigen.A('s')), sigen.L(sigen.A('C'))},
		"map":     {sigen.M(sigen.A('s'), sigen.A('i')), sigen.M(sigen.A('i'), sigen.A('s'))},
		"struct":  {sigen.St("S", []string{"A"}, sigen.A('i')), sigen.St("S", []string{"A", "B"}, sigen.A('s'), sigen.A('d'))},
	}
	classes := []string{"bool", "string", "integer", "float", "slice", "map", "struct"}
	var base []pair
	for _, a := range classes {
		for _, b := range classes {
			if a == b {
				continue
			}
			for _, s := range reps[a] {
				for _, d := range reps[b] {
					base = append(base, pair{s, d})
				}
			}
		}
	}
	out := append([]pair(nil), base...)
	k := sigen.A('s')
	for _, p := range base {
		out = append(out, pair{sigen.L(p.s), sigen.L(p.d)})
		out = append(out, pair{sigen.M(k, p.s), sigen.M(k, p.d)})
		if p.s.Comparable() && p.d.Comparable() {
			out = append(out, pair{sigen.M(p.s, k), sigen.M(p.d, k)})
		}
		out = append(out, pair{sigen.St("S", []string{"A", "B"}, k, p.s), sigen.St("S", []string{"A", "B"}, k, p.d)})
	}
	return out
}

func main() {
	chk := report.New("C20", "exploration")
	if len(os.Args) >= 3 && os.Args[1] == "--replay" {
		os.Exit(replay(os.Args[2]))
	}
	tier := report.Tier()
	start := time.Now()
	budget := 40 * time.Second
	workers := 8
	if tier == "thorough" {
		budget = 480 * time.Second
		workers = 16
	}
	if n := runtime.NumCPU(); workers > n {
		workers = n
	}
	deadline := start.Add(budget)

	P0 := scalarPairs()
	R0 := pickPairs("bb", "ss", "il", "cc", "CI", "fd", "LL")
	R1 := pickPairs("ss", "il", "fd")
	type famDef struct {
		name, universe string
		pairs          []pair
		incomp         bool
	}
	var fams []famDef
	fams = append(fams, famDef{"compatible:depth0", "the 25 scalar pairs: bool, string, every widening among int8/16/32/64 and among uint8/16/32/64, float32/float64 (identity included)", P0, false})
	fams = append(fams, famDef{"compatible:depth1", "slices, maps (25 key pairs x 25 value pairs), one-member structs (plain / extra dst member) and two-member structs (same order / permuted / permuted + extra dst member) over the 25 scalar pairs",
		composites(P0, P0, P0), false})
	d1r := composites(R0, R0, R0)
	keys2 := append(append([]pair(nil), R0...), structOnly(composites(R1, nil, R1))...)
	fams = append(fams, famDef{"compatible:depth2", "slices, maps, structs whose components are the 7 scalar pairs {bool, string, int32->int64, int8->int8, uint8->uint32, float32->float64, uint64->uint64} or any depth-1 composite over them; " +
		"map keys: those scalars or a struct over {string, int32->int64, float32->float64}; second member of two-member structs: one of the 7 scalar pairs",
		composites(append(append([]pair(nil), R0...), d1r...), keys2, R0), false})
	d1s := composites(R1, R1, R1)
	d2s := composites(append(append([]pair(nil), R1...), d1s...), R1, R1)
	fams = append(fams, famDef{"compatible:depth3", "slices, maps, structs whose components are {string, int32->int64, float32->float64} or any composite of depth <= 2 over them (map keys and second struct members: those 3 scalar pairs)",
		composites(append(append([]pair(nil), R1...), d2s...), R1, R1), false})
	fams = append(fams, famDef{"compatible:depth2-wide", "as depth2 but components range over all 25 scalar pairs and every depth-1 composite over the 7 scalar pairs; second struct member over all 25 scalar pairs",
		composites(append(append([]pair(nil), P0...), d1r...), keys2, P0), false})
	if tier == "thorough" {
		d2r := composites(append(append([]pair(nil), R0...), d1r...), R0, R0)
		fams = append(fams, famDef{"compatible:depth3-wide", "slices, maps, structs whose components are the 7 scalar pairs or any composite of depth <= 2 over them (map keys and second struct members: the 7 scalar pairs)",
			composites(append(append([]pair(nil), R0...), d2r...), R0, R0), false})
	}
	fams = append(fams, famDef{"incompatible", "ordered pairs of different kind classes among bool / string / integer(int8,uint8,int32,uint32,int64,uint64) / float(32,64) / slice / map / struct, " +
		"alone and nested as slice element, map value, map key and struct member of an otherwise identical container; only values that reach the cross-class node (non-empty containers)",
		incompatiblePairs(), true})

	states := make([]*wstate, workers)
	for i := range states {
		states[i] = newState()
	}
	type famRes struct {
		name, universe string
		pairs          int
		complete       bool
		wall           float64
	}
	var res []famRes
	for _, f := range fams {
		t0 := time.Now()
		f := f
		ok := runner.Each(workers, deadline, func(emit func(job) bool) {
			for _, p := range f.pairs {
				if !emit(job{f.name, p, f.incomp}) {
					return
				}
			}
		}, func(w int, j job) { states[w].do(j) })
		res = append(res, famRes{f.name, f.universe, len(f.pairs), ok, time.Since(t0).Seconds()})
	}

	total := newState()
	for _, st := range states {
		total.evals += st.evals
		total.pairs += st.pairs
		for k := range st.distinct {
			total.distinct[k] = struct{}{}
		}
		for k, v := range st.perFamily {
			total.perFamily[k] += v
		}
		for _, w := range st.wit {
			cur, ok := total.wit[w.fp]
			if !ok {
				c := *w
				total.wit[w.fp] = &c
				continue
			}
			n := cur.count + w.count
			if w.size < cur.size || w.size == cur.size && w.src+w.dst+w.val < cur.src+cur.dst+cur.val {
				*cur = *w
			}
			cur.count = n
		}
	}
	// distinct non-trivial: composite pairs only
	nontrivial := 0
	for k := range total.distinct {
		if strings.ContainsAny(k, "[{(") {
			nontrivial++
		}
	}
	var samples []interface{}
	for _, f := range fams {
		var all []string
		for _, st := range states {
			all = append(all, st.samples[f.name]...)
		}
		sort.Strings(all)
		n := 0
		for i, s := range all {
			if i > 0 && s == all[i-1] {
				continue
			}
			if n == 3 {
				break
			}
			n++
			samples = append(samples, f.name+": "+s[9:])
		}
	}

	fps := make([]string, 0, len(total.wit))
	for fp := range total.wit {
		fps = append(fps, fp)
	}
	sort.Strings(fps)
	for _, fp := range fps {
		w := total.wit[fp]
		// The oracle is deterministic, but the code under test ranges over Go
		// maps, so a defect may depend on the iteration order: the witness is
		// re-run 20 times; it is reported when the same failure was observed
		// again at least once (a wrong conversion result observed twice is
		// not a fluke); never seen again = engine error, not a violation.
		again := 0
		for i := 0; i < 20; i++ {
			if reproduces(w) {
				again++
			}
		}
		if again == 0 {
			chk.EngineError("violation %s on %s -> %s value #%d did not reproduce in 20 re-runs", fp, w.src, w.dst, w.valIndex)
			continue
		}
		if again < 20 {
			w.what += fmt.Sprintf(" [order-dependent: reproduced in %d of 20 re-runs]", again)
		}
		rep := map[string]interface{}{"family": w.family, "src_type": w.src, "dst_type": w.dst, "value_index": w.valIndex, "value": w.val,
			"cases_with_this_fingerprint": w.count, "note": "types are written in signature syntax (c C w W i I l L = int8 uint8 int16 uint16 int32 uint32 int64 uint64, f d = float32 float64, b bool, s string)",
			"replay_cmd": "./check.sh C20 quick --replay <this file>"}
		for i := 0; i < w.count; i++ {
			chk.Report(fp, fmt.Sprintf("%s [%d cases share this fingerprint]", w.what, w.count), rep)
		}
	}

	exhaustive := true
	var famCov []interface{}
	for _, r := range res {
		if !r.complete {
			exhaustive = false
		}
		famCov = append(famCov, map[string]interface{}{"family": r.name, "universe": r.universe, "type_pairs": r.pairs, "evaluations": total.perFamily[r.name], "complete": r.complete, "wall_s": r.wall})
	}
	cov := map[string]interface{}{
		"evaluations":         total.evals,
		"type_pairs":          total.pairs,
		"distinct_nontrivial": nontrivial,
		"rule": "every (src type, dst type) pair of each family x every value of Val(src) (booleans both; integers {byte-asymmetric pattern, min, max, -1, 0, 1, 0x7f}; floats {1.5, a second finite value, max, smallest denormal, 0, -0, Inf, NaN}; " +
			"strings {\"q\", \"\", multi-byte, 255 bytes, \"a\"}; slices {two elements, nil, empty, every single element, three elements}; maps {two entries, nil, empty, every single entry of the key/value diagonal, two entries crossed}; " +
			"structs {all distinguished, one member at a time over its whole set, the diagonal}; nested positions capped to the first 6 values at level 1 and 3 deeper). " +
			"distinct_nontrivial = number of distinct (src type, dst type, outcome class) triples in which the types are composite (scalar pairs are counted as trivial)",
		"distinct_pair_outcomes_including_scalars": len(total.distinct),
		"samples":                samples,
		"exhaustive":             exhaustive,
		"families":               famCov,
		"per_family_evaluations": total.perFamily,
		"workers":                workers,
	}
	assumptions := []string{
		"small-scope hypothesis: recursion mistakes of convertSlice / convertMap / convertStruct show on containers of depth <= 2 (3 in thorough) holding 0..3 elements",
		"the destination is a fresh zero value; destinations pre-populated with other data are not explored",
		"not judged (the statement is silent): narrowing and cross-signedness integer pairs, struct members without a counterpart, nil versus empty containers, NaN payload bits, int / uint / pointer / interface kinds",
		"conversion.DecodeFrom / EncodeInto are not exercised (they add the codec, which is C02/C03's business); ConvertFrom is the function they delegate to",
	}
	os.Exit(chk.Finish(cov, assumptions))
}

func findCase(src, dst string, idx int) (kase, bool) {
	s, ok1 := sigen.Recognize(src)
	d, ok2 := sigen.Recognize(dst)
	if !ok1 || !ok2 {
		return kase{}, false
	}
	e := &env{rt: map[string]reflect.Type{}}
	vals := e.vals(s, 0)
	if idx < 0 || idx >= len(vals) {
		return kase{}, false
	}
	return kase{pair{s, d}, vals[idx]}, true
}

func reproduces(w *witness) bool {
	c, ok := findCase(w.src, w.dst, w.valIndex)
	if !ok {
		return false
	}
	st := newState()
	st.doOne(w.family, c, w.valIndex)
	_, ok = st.wit[w.fp]
	return ok
}

// doOne judges a single case (used for confirmation and replay).
func (st *wstate) doOne(family string, c kase, idx int) {
	incomp := family == "incompatible"
	if family == "replay" {
		incomp = !compatible(c.p)
	}
	var f *failure
	if incomp {
		f = st.e.evalIncompatible(c.p, c.x)
	} else {
		f = st.e.evalCompatible(c.p, c.x)
	}
	if f == nil {
		return
	}
	min := c
	if !incomp {
		min = localize(c, f.key(), func(k kase) *failure { return st.e.evalCompatible(k.p, k.x) })
		if f2 := st.e.evalCompatible(min.p, min.x); f2 != nil && f2.key() == f.key() {
			f = f2
		}
	} else {
		min = st.e.localizeIncompatible(c, f.key())
		if f2 := st.e.evalIncompatible(min.p, min.x); f2 != nil && f2.key() == f.key() {
			f = f2
		}
	}
	st.record(family, c, idx, min, f, "family "+family)
}

// compatible: same class everywhere (used by replay to choose the oracle).
func compatible(p pair) bool {
	if class(p.s) != class(p.d) {
		return false
	}
	switch p.s.Kind {
	case sigen.List:
		return compatible(pair{p.s.Elem[0], p.d.Elem[0]})
	case sigen.Map:
		return compatible(pair{p.s.Elem[0], p.d.Elem[0]}) && compatible(pair{p.s.Elem[1], p.d.Elem[1]})
	case sigen.Struct:
		for i, n := range p.s.Fields {
			for j, m := range p.d.Fields {
				if n == m && !compatible(pair{p.s.Elem[i], p.d.Elem[j]}) {
					return false
				}
			}
		}
	}
	return true
}

func replay(path string) int {
	data, err := os.ReadFile(path)
	if err != nil {
		fmt.Println(err)
		return 2
	}
	var f struct {
		Replay struct {
			Src   string `json:"src_type"`
			Dst   string `json:"dst_type"`
			Index int    `json:"value_index"`
		} `json:"replay"`
	}
	if err := json.Unmarshal(data, &f); err != nil {
		fmt.Println(err)
		return 2
	}
	c, ok := findCase(f.Replay.Src, f.Replay.Dst, f.Replay.Index)
	if !ok {
		fmt.Println("cannot rebuild the case")
		return 2
	}
	st := newState()
	st.doOne("replay", c, f.Replay.Index)
	fmt.Printf("ConvertFrom(*%v, %v %#v)\n", rtypeNoCache(c.p.d), rtypeNoCache(c.p.s), c.x.Interface())
	if len(st.wit) == 0 {
		fmt.Println("  no violation")
		return 0
	}
	for fp, w := range st.wit {
		fmt.Printf("  VIOLATION %s\n    %s\n", fp, w.what)
	}
	return 1
}
