// C20 - structural conversion preserves every value.
//
// Bounded-exhaustive exploration (engine A) of conversion.ConvertFrom.
//
// Compatible family: every (src, dst) pair of Go types of a bounded universe
// in which dst is obtained from src by widening integers within the same
// signedness, float32 -> float64, identity on bool / string, recursively
// through slices, maps (keys and values) and structs matched by field name
// (dst members permuted, extra dst member present), x every value of Val(src).
// Oracle: ConvertFrom(&dst, x) returns nil; an independent recursive walker
// finds every element / key / member of dst equal to the source's; converting
// dst back into a fresh value of src's type succeeds and gives x again.
//
// Incompatible family: every ordered pair of DIFFERENT kind classes among
// {bool, string, integer, float, slice, map, struct}, at the top level and
// nested as slice element / map key / map value / struct member of an
// otherwise identical container holding at least one element.
// Oracle: ConvertFrom returns an error (and does not panic).
//
// Struct-member families ("struct-members:compatible" / ":incompatible"):
// the shapes of struct MEMBERS that reflect.StructOf cannot build, declared
// statically in zoo_gen.go (written by gen/main.go), enumerated as
// position of the special member {first, middle, last} x kind of special
// member x side {destination only, source only, both} x nesting {alone,
// slice element, map value, map key, member of another struct}:
//   - a member that is not exported (bool, slice, map, struct, blank "_",
//     embedded struct of an unexported type, embedded scalar of an
//     unexported type) and has NO counterpart on the other side;
//   - an unexported source member v whose counterpart is the exported
//     destination member V;
//   - an embedded exported struct E (embedded on both sides, on one side with
//     an ordinary member called E on the other, or without counterpart);
//   - exported members whose names differ only in letter case (Ab / AB).
//
// What "matched by field name" means is taken from the statement and from
// the repository's own TestStruct (which expects E to receive e): a
// destination member is matched with the source member of the same name,
// letter case ignored. The oracle is the statement's: every EXPORTED
// destination member that has a counterpart equals it (the other exported
// members of the struct included - a special member must not disturb its
// neighbours); the round trip recovers the source's exported matched members;
// a matched pair of different kind classes is refused; never a panic.
// Nothing is promised about the content of a member that is not exported
// (reflection cannot store into it), so that content is never judged, and
// the universe holds NO pair in which an unexported destination member has a
// counterpart, and no struct with two members equal up to letter case
// (inUniverse; a back conversion that would be such a pair is skipped and
// counted).
//
// Narrowing and cross-signedness integer pairs, float64 -> float32 on values
// that are not float32, unmatched struct members, nil-versus-empty and NaN
// payloads are NOT judged: the statement does not speak about them.
//
//go:generate sh -c "go run ./gen | gofmt > zoo_gen.go"
package main

import (
	"encoding/json"
	"fmt"
	"hash/fnv"
	"math"
	"os"
	"reflect"
	"runtime"
	"sort"
	"strings"
	"time"
	"unsafe"

	"github.com/lugu/qiloop/type/conversion"

	"verif/internal/report"
	"verif/internal/sigen"
	"verif/internal/sigen/runner"
)

// ------------------------------------------------------------ types

// Types are sigen trees over the atoms c C w W i I l L f d b s, lists, maps
// and structs. A struct called "S" has exported members only and is built by
// reflect.StructOf; any other struct name designates a statically declared
// type of the zoo (zoo_gen.go), found by its signature. rtype builds the
// reflect.Type.
//
// In the tree of a static type the member names are the Go names, except
// that the blank member "_" is spelled "blank" (the signature grammar has no
// such identifier); an embedded member carries the name of its type, as in Go.
var statics = map[string]reflect.Type{} // signature -> static type; filled by loadZoo, read-only afterwards

var zooTrees = map[string]*sigen.T{} // shape key -> tree

// treeOf describes a Go type of the zoo as a sigen tree and registers the
// named struct types it meets.
func treeOf(t reflect.Type) *sigen.T {
	switch t.Kind() {
	case reflect.Bool:
		return sigen.A('b')
	case reflect.String:
		return sigen.A('s')
	case reflect.Int8:
		return sigen.A('c')
	case reflect.Uint8:
		return sigen.A('C')
	case reflect.Int16:
		return sigen.A('w')
	case reflect.Uint16:
		return sigen.A('W')
	case reflect.Int32:
		return sigen.A('i')
	case reflect.Uint32:
		return sigen.A('I')
	case reflect.Int64:
		return sigen.A('l')
	case reflect.Uint64:
		return sigen.A('L')
	case reflect.Float32:
		return sigen.A('f')
	case reflect.Float64:
		return sigen.A('d')
	case reflect.Slice:
		return sigen.L(treeOf(t.Elem()))
	case reflect.Map:
		return sigen.M(treeOf(t.Key()), treeOf(t.Elem()))
	case reflect.Struct:
		names := make([]string, t.NumField())
		elems := make([]*sigen.T, t.NumField())
		for i := range names {
			f := t.Field(i)
			names[i] = f.Name
			if f.Name == "_" {
				names[i] = "blank"
			}
			elems[i] = treeOf(f.Type)
		}
		name := t.Name()
		if name == "" {
			name = "S"
		}
		tr := sigen.St(name, names, elems...)
		if name != "S" {
			if _, ok := statics[tr.Sig()]; !ok {
				statics[tr.Sig()] = t
			}
		}
		return tr
	}
	panic("c20: unsupported zoo type " + t.String())
}

func loadZoo() {
	keys := make([]string, 0, len(zoo))
	for k := range zoo {
		keys = append(keys, k)
	}
	sort.Strings(keys)
	for _, k := range keys {
		zooTrees[k] = treeOf(zoo[k])
	}
}

// typeString prints a type with the static struct types spelled out.
func typeString(t reflect.Type) string {
	switch t.Kind() {
	case reflect.Slice:
		return "[]" + typeString(t.Elem())
	case reflect.Map:
		return "map[" + typeString(t.Key()) + "]" + typeString(t.Elem())
	case reflect.Struct:
		var b strings.Builder
		if t.Name() != "" {
			b.WriteString(t.String())
			b.WriteString("{")
		} else {
			b.WriteString("struct {")
		}
		for i := 0; i < t.NumField(); i++ {
			f := t.Field(i)
			if i > 0 {
				b.WriteString(";")
			}
			b.WriteString(" ")
			if f.Anonymous {
				b.WriteString("(embedded) ")
			} else {
				b.WriteString(f.Name + " ")
			}
			b.WriteString(typeString(f.Type))
		}
		b.WriteString(" }")
		return b.String()
	}
	return t.String()
}

func rtypeNoCache(t *sigen.T) reflect.Type {
	switch t.Kind {
	case sigen.Atom:
		switch t.Atom {
		case 'c':
			return reflect.TypeOf(int8(0))
		case 'C':
			return reflect.TypeOf(uint8(0))
		case 'w':
			return reflect.TypeOf(int16(0))
		case 'W':
			return reflect.TypeOf(uint16(0))
		case 'i':
			return reflect.TypeOf(int32(0))
		case 'I':
			return reflect.TypeOf(uint32(0))
		case 'l':
			return reflect.TypeOf(int64(0))
		case 'L':
			return reflect.TypeOf(uint64(0))
		case 'f':
			return reflect.TypeOf(float32(0))
		case 'd':
			return reflect.TypeOf(float64(0))
		case 'b':
			return reflect.TypeOf(false)
		case 's':
			return reflect.TypeOf("")
		}
	case sigen.List:
		return reflect.SliceOf(rtypeNoCache(t.Elem[0]))
	case sigen.Map:
		return reflect.MapOf(rtypeNoCache(t.Elem[0]), rtypeNoCache(t.Elem[1]))
	case sigen.Struct:
		if t.Name != "S" {
			if rt, ok := statics[t.Sig()]; ok {
				return rt
			}
			panic("c20: no static type for " + t.Sig())
		}
		f := make([]reflect.StructField, len(t.Elem))
		for i, e := range t.Elem {
			f[i] = reflect.StructField{Name: t.Fields[i], Type: rtypeNoCache(e)}
		}
		return reflect.StructOf(f)
	}
	panic("c20: unsupported type " + t.Sig())
}

func class(t *sigen.T) string {
	switch t.Kind {
	case sigen.Atom:
		switch sigen.AtomClass(t.Atom) {
		case "int":
			return "integer"
		case "flt":
			return "float"
		case "bool":
			return "bool"
		case "str":
			return "string"
		}
	case sigen.List:
		return "slice"
	case sigen.Map:
		return "map"
	case sigen.Struct:
		return "struct"
	}
	return "?"
}

type pair struct{ s, d *sigen.T }

func (p pair) String() string { return p.s.Sig() + " -> " + p.d.Sig() }

func atoms(s string) []*sigen.T {
	var out []*sigen.T
	for _, c := range []byte(s) {
		out = append(out, sigen.A(c))
	}
	return out
}

// scalarPairs: identity on bool and string, every widening within a
// signedness, float32/float64.
func scalarPairs() []pair {
	var out []pair
	out = append(out, pair{sigen.A('b'), sigen.A('b')}, pair{sigen.A('s'), sigen.A('s')})
	for _, fam := range []string{"cwil", "CWIL", "fd"} {
		for i := 0; i < len(fam); i++ {
			for j := i; j < len(fam); j++ {
				out = append(out, pair{sigen.A(fam[i]), sigen.A(fam[j])})
			}
		}
	}
	return out
}

func pickPairs(codes ...string) []pair {
	var out []pair
	for _, c := range codes {
		out = append(out, pair{sigen.A(c[0]), sigen.A(c[1])})
	}
	return out
}

// composites builds every slice, map and struct pair over the given element
// pairs; map keys range over keys; the second member of two-member structs
// ranges over second.
func composites(elems, keys, second []pair) []pair {
	var out []pair
	for _, e := range elems {
		out = append(out, pair{sigen.L(e.s), sigen.L(e.d)})
	}
	for _, k := range keys {
		for _, v := range elems {
			out = append(out, pair{sigen.M(k.s, v.s), sigen.M(k.d, v.d)})
		}
	}
	x := sigen.A('s') // type of the extra destination member
	for _, a := range elems {
		out = append(out,
			pair{sigen.St("S", []string{"A"}, a.s), sigen.St("S", []string{"A"}, a.d)},
			pair{sigen.St("S", []string{"A"}, a.s), sigen.St("S", []string{"Extra", "A"}, x, a.d)})
		for _, b := range second {
			src := sigen.St("S", []string{"A", "B"}, a.s, b.s)
			out = append(out,
				pair{src, sigen.St("S", []string{"A", "B"}, a.d, b.d)},
				pair{src, sigen.St("S", []string{"B", "A"}, b.d, a.d)},
				pair{src, sigen.St("S", []string{"B", "Extra", "A"}, b.d, x, a.d)})
		}
	}
	return out
}

func structOnly(ps []pair) []pair {
	var out []pair
	for _, p := range ps {
		if p.s.Kind == sigen.Struct {
			out = append(out, p)
		}
	}
	return out
}

// ------------------------------------------------------------ values

type env struct {
	rt          map[string]reflect.Type
	back        map[string]bool
	backSkipped int // compatible cases judged on the forward conversion only
}

// backOK: the reverse pair belongs to the universe too.
func (e *env) backOK(p pair) bool {
	k := p.s.Sig() + ">" + p.d.Sig()
	ok, seen := e.back[k]
	if !seen {
		ok = inUniverse(p.d, p.s)
		e.back[k] = ok
	}
	return ok
}

func newEnv() *env { return &env{rt: map[string]reflect.Type{}, back: map[string]bool{}} }

func (e *env) rtype(t *sigen.T) reflect.Type {
	k := t.Sig()
	if r, ok := e.rt[k]; ok {
		return r
	}
	r := rtypeNoCache(t)
	e.rt[k] = r
	return r
}

func pattern(bits uint) uint64 {
	p := uint64(0x0102030405060708)
	if bits < 64 {
		p &= 1<<bits - 1
	}
	return p
}

func bitsOf(c byte) uint {
	switch c {
	case 'c', 'C':
		return 8
	case 'w', 'W':
		return 16
	case 'i', 'I':
		return 32
	}
	return 64
}

// vals enumerates Val(t). level 0 is the value handed to ConvertFrom; nested
// positions are capped (6 at level 1, 3 deeper). The first value is always
// the distinguished non-zero value of the type.
func (e *env) vals(t *sigen.T, level int) []reflect.Value {
	limit := 1 << 30
	if level == 1 {
		limit = 6
	} else if level >= 2 {
		limit = 3
	}
	rt := e.rtype(t)
	var out []reflect.Value
	add := func(v reflect.Value) bool {
		if len(out) >= limit {
			return false
		}
		out = append(out, v)
		return true
	}
	mk := func(f func(v reflect.Value)) reflect.Value {
		v := reflect.New(rt).Elem()
		f(v)
		return v
	}
	switch t.Kind {
	case sigen.Atom:
		switch t.Atom {
		case 'b':
			add(reflect.ValueOf(true))
			add(reflect.ValueOf(false))
		case 's':
			for _, s := range []string{"q", "", "é世界", strings.Repeat("x", 255), "a"} {
				s := s
				add(mk(func(v reflect.Value) { v.SetString(s) }))
			}
		case 'c', 'w', 'i', 'l':
			n := bitsOf(t.Atom)
			min := int64(-1) << (n - 1)
			for _, x := range []int64{int64(pattern(n)), min, -min - 1, -1, 0, 1, 0x7f} {
				x := x
				add(mk(func(v reflect.Value) { v.SetInt(x) }))
			}
		case 'C', 'W', 'I', 'L':
			n := bitsOf(t.Atom)
			max := uint64(1)<<(n-1)<<1 - 1
			for _, x := range []uint64{pattern(n), max, uint64(1) << (n - 1), 0, 1, 0x7f} {
				x := x
				add(mk(func(v reflect.Value) { v.SetUint(x) }))
			}
		case 'f':
			for _, x := range []float32{1.5, -2.25, math.MaxFloat32, math.SmallestNonzeroFloat32, 0, float32(math.Copysign(0, -1)), float32(math.Inf(1)), float32(math.NaN())} {
				x := x
				add(mk(func(v reflect.Value) { v.SetFloat(float64(x)) }))
			}
		case 'd':
			for _, x := range []float64{1.5, 0.1, math.MaxFloat64, math.SmallestNonzeroFloat64, 0, math.Copysign(0, -1), math.Inf(-1), math.NaN()} {
				x := x
				add(mk(func(v reflect.Value) { v.SetFloat(x) }))
			}
		}
	case sigen.List:
		ev := e.vals(t.Elem[0], level+1)
		// distinguished: two different elements when possible
		if len(ev) >= 2 {
			add(mk(func(v reflect.Value) { v.Set(reflect.Append(v, ev[0], ev[1])) }))
		}
		add(mk(func(v reflect.Value) {}))                                     // nil
		add(mk(func(v reflect.Value) { v.Set(reflect.MakeSlice(rt, 0, 0)) })) // empty
		for _, x := range ev {
			x := x
			add(mk(func(v reflect.Value) { v.Set(reflect.Append(v, x)) }))
		}
		if len(ev) >= 2 {
			add(mk(func(v reflect.Value) { v.Set(reflect.Append(v, ev[len(ev)-1], ev[0], ev[0])) }))
		}
	case sigen.Map:
		kv := e.keyVals(t.Elem[0], level+1)
		vv := e.vals(t.Elem[1], level+1)
		set := func(pairs ...int) reflect.Value {
			return mk(func(v reflect.Value) {
				v.Set(reflect.MakeMap(rt))
				for i := 0; i+1 < len(pairs); i += 2 {
					v.SetMapIndex(kv[pairs[i]%len(kv)], vv[pairs[i+1]%len(vv)])
				}
			})
		}
		if len(kv) >= 2 {
			add(set(0, 0, 1, 1%len(vv)))
		}
		add(mk(func(v reflect.Value) {})) // nil
		add(set())                        // empty
		n := len(kv)
		if len(vv) > n {
			n = len(vv)
		}
		for i := 0; i < n; i++ {
			add(set(i, i))
		}
		if len(kv) >= 2 {
			add(set(0, len(vv)-1, 1, 0))
		}
	case sigen.Struct:
		fv := make([][]reflect.Value, len(t.Elem))
		for i, m := range t.Elem {
			fv[i] = e.vals(m, level+1)
		}
		build := func(pick func(i int) reflect.Value) reflect.Value {
			return mk(func(v reflect.Value) {
				for i := range t.Elem {
					setMember(v.Field(i), pick(i))
				}
			})
		}
		// all distinguished
		add(build(func(i int) reflect.Value { return fv[i][0] }))
		// one member at a time over its full set
		for k := range t.Elem {
			for j := 1; j < len(fv[k]); j++ {
				k, j := k, j
				add(build(func(i int) reflect.Value {
					if i == k {
						return fv[i][j]
					}
					return fv[i][0]
				}))
			}
		}
		// the diagonal
		max := 0
		for _, l := range fv {
			if len(l) > max {
				max = len(l)
			}
		}
		for j := 1; j < max; j++ {
			j := j
			add(build(func(i int) reflect.Value { return fv[i][j%len(fv[i])] }))
		}
	}
	return out
}

// setMember stores val into member f of an addressable struct of the check's
// own making. Members that are not exported are written through their
// address (the SOURCE values of the struct-member families carry non-zero
// content there); a member of a named type (embedded myint, a local E)
// receives the converted value.
func setMember(f, val reflect.Value) {
	if val.Type() != f.Type() {
		val = val.Convert(f.Type())
	}
	if !f.CanSet() {
		f = reflect.NewAt(f.Type(), unsafe.Pointer(f.UnsafeAddr())).Elem()
	}
	f.Set(val)
}

// keyVals is vals without values that cannot be looked up again or that
// collide as keys: NaN (anywhere inside), and -0 (equal to 0 as a key).
func (e *env) keyVals(t *sigen.T, level int) []reflect.Value {
	var out []reflect.Value
	for _, v := range e.vals(t, level) {
		if !hasNaNOrNegZero(v) {
			out = append(out, v)
		}
	}
	return out
}

func hasNaNOrNegZero(v reflect.Value) bool {
	switch v.Kind() {
	case reflect.Float32, reflect.Float64:
		f := v.Float()
		return f != f || (f == 0 && math.Signbit(f))
	case reflect.Struct:
		for i := 0; i < v.NumField(); i++ {
			if hasNaNOrNegZero(v.Field(i)) {
				return true
			}
		}
	}
	return false
}

// ------------------------------------------------------------ struct members

func exported(name string) bool { return name != "" && name[0] >= 'A' && name[0] <= 'Z' }

// counterpart: the member of the source struct s designated by "matched by
// field name" for member j of the destination struct d - the one of the same
// name, letter case ignored; -1 if there is none.
func counterpart(s, d *sigen.T, j int) int {
	for i, n := range s.Fields {
		if strings.EqualFold(n, d.Fields[j]) {
			return i
		}
	}
	return -1
}

// matched lists the judged member pairs (i of s, j of d): every EXPORTED
// member of d that has a counterpart in s, in s's order.
func matched(s, d *sigen.T) [][2]int {
	var out [][2]int
	for i := range s.Fields {
		for j := range d.Fields {
			if exported(d.Fields[j]) && counterpart(s, d, j) == i {
				out = append(out, [2]int{i, j})
			}
		}
	}
	return out
}

// inUniverse: the pair is one about which the statement promises something
// everywhere: no struct on either side has two members equal up to letter
// case, and no member of a destination struct that is not exported has a
// counterpart in the source (reflection cannot store into it).
func inUniverse(s, d *sigen.T) bool {
	if s.Kind != d.Kind {
		return true
	}
	switch s.Kind {
	case sigen.List:
		return inUniverse(s.Elem[0], d.Elem[0])
	case sigen.Map:
		return inUniverse(s.Elem[0], d.Elem[0]) && inUniverse(s.Elem[1], d.Elem[1])
	case sigen.Struct:
		for _, t := range []*sigen.T{s, d} {
			for a := range t.Fields {
				for b := a + 1; b < len(t.Fields); b++ {
					if strings.EqualFold(t.Fields[a], t.Fields[b]) {
						return false
					}
				}
			}
		}
		for j := range d.Fields {
			i := counterpart(s, d, j)
			if i < 0 {
				continue
			}
			if !exported(d.Fields[j]) {
				return false
			}
			if !inUniverse(s.Elem[i], d.Elem[j]) {
				return false
			}
		}
	}
	return true
}

// lossless: every member of every source struct has a counterpart, so two
// different source values never convert to the same destination value (needed
// of map keys).
func lossless(s, d *sigen.T) bool {
	if s.Kind != d.Kind {
		return true
	}
	switch s.Kind {
	case sigen.List:
		return lossless(s.Elem[0], d.Elem[0])
	case sigen.Map:
		return lossless(s.Elem[0], d.Elem[0]) && lossless(s.Elem[1], d.Elem[1])
	case sigen.Struct:
		m := matched(s, d)
		if len(m) != len(s.Fields) {
			return false
		}
		for _, ij := range m {
			if !lossless(s.Elem[ij[0]], d.Elem[ij[1]]) {
				return false
			}
		}
	}
	return true
}

// memberClass names the struct pair for the fingerprint.
func memberClass(s, d *sigen.T) string {
	embedded := false
	for _, t := range []*sigen.T{s, d} {
		for i, n := range t.Fields {
			if !exported(n) {
				return "struct-with-unexported-member"
			}
			if e := t.Elem[i]; e.Kind == sigen.Struct && e.Name == n {
				embedded = true
			}
		}
	}
	if embedded {
		return "struct-with-embedded-member"
	}
	if s.Kind == sigen.Struct && d.Kind == sigen.Struct {
		for _, ij := range matched(s, d) {
			if s.Fields[ij[0]] != d.Fields[ij[1]] {
				return "struct-names-differing-in-case"
			}
		}
	}
	return "struct"
}

// ------------------------------------------------------------ walker

// same compares got with the source value src (of type st). Forward
// (back == false): got is of the destination type dt and every judged member
// (matched) is compared with its counterpart. Round trip (back == true): got
// is of type st again and is compared on the members of st that are exported
// and were matched with a member of dt on the way (the others cannot have
// travelled). where == "" if every element, key and judged member of got
// equals the source's; otherwise it describes the first difference, and
// length tells whether that difference is the element count of the outermost
// container.
func same(st, dt *sigen.T, src, got reflect.Value, back bool) (length bool, where string) {
	switch st.Kind {
	case sigen.Atom:
		switch class(st) {
		case "bool":
			if src.Bool() != got.Bool() {
				return false, fmt.Sprintf("bool %v became %v", src.Bool(), got.Bool())
			}
		case "string":
			if src.String() != got.String() {
				return false, fmt.Sprintf("string %q became %q", src.String(), got.String())
			}
		case "integer":
			if src.CanInt() {
				if !got.CanInt() || src.Int() != got.Int() {
					return false, fmt.Sprintf("%v %d became %v", src.Type(), src.Int(), got)
				}
			} else if !got.CanUint() || src.Uint() != got.Uint() {
				return false, fmt.Sprintf("%v %d became %v", src.Type(), src.Uint(), got)
			}
		case "float":
			a, b := src.Float(), got.Float()
			if a != a && b != b {
				return false, ""
			}
			if math.Float64bits(a) != math.Float64bits(b) {
				return false, fmt.Sprintf("%v %v became %v", src.Type(), a, b)
			}
		}
	case sigen.List:
		if src.Len() != got.Len() {
			return true, fmt.Sprintf("slice of %d elements became %d elements", src.Len(), got.Len())
		}
		for i := 0; i < src.Len(); i++ {
			if _, w := same(st.Elem[0], dt.Elem[0], src.Index(i), got.Index(i), back); w != "" {
				return false, fmt.Sprintf("[%d]: %s", i, w)
			}
		}
	case sigen.Map:
		if src.Len() != got.Len() {
			return true, fmt.Sprintf("map of %d entries became %d entries", src.Len(), got.Len())
		}
		for _, k := range src.MapKeys() {
			// the entry of got whose key equals k
			var found reflect.Value
			for _, gk := range got.MapKeys() {
				if _, w := same(st.Elem[0], dt.Elem[0], k, gk, back); w == "" {
					found = gk
					break
				}
			}
			if !found.IsValid() {
				return false, fmt.Sprintf("key %v is missing from %v", k, got)
			}
			if _, w := same(st.Elem[1], dt.Elem[1], src.MapIndex(k), got.MapIndex(found), back); w != "" {
				return false, fmt.Sprintf("[%v]: %s", k, w)
			}
		}
	case sigen.Struct:
		// members without a counterpart and members that are not exported
		// on the receiving side are not judged
		for _, ij := range matched(st, dt) {
			i, j := ij[0], ij[1]
			g := j
			if back {
				if !exported(st.Fields[i]) {
					continue
				}
				g = i
			}
			if _, w := same(st.Elem[i], dt.Elem[j], src.Field(i), got.Field(g), back); w != "" {
				return false, fmt.Sprintf(".%s: %s", st.Fields[i], w)
			}
		}
	}
	return false, ""
}

// ------------------------------------------------------------ evaluation

type failure struct {
	clause string // compatible-pair-refused | not-preserved | back-conversion-refused | roundtrip-not-preserved | panic | incompatible-kinds-converted
	detail string
	msg    string // panic message class
	site   string
	length bool // the difference is the element count of the outermost container
}

func (f *failure) key() string { return f.clause + "|" + f.msg + "|" + f.site }

// evalCompatible judges one compatible case.
func (e *env) evalCompatible(p pair, x reflect.Value) *failure {
	dt, st := e.rtype(p.d), e.rtype(p.s)
	dst := reflect.New(dt)
	var err error
	o := runner.GuardInline(func() { err = conversion.ConvertFrom(dst.Interface(), x.Interface()) })
	if o.Panic != "" {
		return &failure{"panic", "forward conversion panics: " + o.Panic, runner.MsgClass(o.Panic), o.Site, false}
	}
	if err != nil {
		return &failure{"compatible-pair-refused", err.Error(), "", "", false}
	}
	if l, w := same(p.s, p.d, x, dst.Elem(), false); w != "" {
		return &failure{"not-preserved", w, "", "", l}
	}
	if !e.backOK(p) {
		// the way back would store into a member that is not exported
		e.backSkipped++
		return nil
	}
	back := reflect.New(st)
	o = runner.GuardInline(func() { err = conversion.ConvertFrom(back.Interface(), dst.Elem().Interface()) })
	if o.Panic != "" {
		return &failure{"panic", "back conversion panics: " + o.Panic, runner.MsgClass(o.Panic), o.Site, false}
	}
	if err != nil {
		return &failure{"back-conversion-refused", err.Error(), "", "", false}
	}
	if l, w := same(p.s, p.d, x, back.Elem(), true); w != "" {
		return &failure{"roundtrip-not-preserved", w, "", "", l}
	}
	return nil
}

// evalIncompatible judges one case in which a cross-class pair is reached.
func (e *env) evalIncompatible(p pair, x reflect.Value) *failure {
	dst := reflect.New(e.rtype(p.d))
	var err error
	o := runner.GuardInline(func() { err = conversion.ConvertFrom(dst.Interface(), x.Interface()) })
	if o.Panic != "" {
		return &failure{"panic", "conversion of incompatible kinds panics: " + o.Panic, runner.MsgClass(o.Panic), o.Site, false}
	}
	if err == nil {
		return &failure{"incompatible-kinds-converted", fmt.Sprintf("no error; destination is now %#v", dst.Elem().Interface()), "", "", false}
	}
	return nil
}

// child cases of a compatible case: (pair, value) for every element, key,
// map value and matched member.
type kase struct {
	p pair
	x reflect.Value
}

func children(c kase) []kase {
	var out []kase
	s, d := c.p.s, c.p.d
	if s.Kind != d.Kind {
		return nil
	}
	switch s.Kind {
	case sigen.List:
		for i := 0; i < c.x.Len(); i++ {
			out = append(out, kase{pair{s.Elem[0], d.Elem[0]}, c.x.Index(i)})
		}
	case sigen.Map:
		for _, k := range c.x.MapKeys() {
			out = append(out, kase{pair{s.Elem[0], d.Elem[0]}, k}, kase{pair{s.Elem[1], d.Elem[1]}, c.x.MapIndex(k)})
		}
	case sigen.Struct:
		for _, ij := range matched(s, d) {
			if exported(s.Fields[ij[0]]) { // the others cannot be handed to ConvertFrom on their own
				out = append(out, kase{pair{s.Elem[ij[0]], d.Elem[ij[1]]}, c.x.Field(ij[0])})
			}
		}
	}
	return out
}

// localize descends to the smallest sub-case that fails in the same way.
func localize(c kase, key string, eval func(kase) *failure) kase {
	for {
		moved := false
		for _, ch := range children(c) {
			if f := eval(ch); f != nil && f.key() == key {
				c = ch
				moved = true
				break
			}
		}
		if !moved {
			return c
		}
	}
}

func nodeName(p pair) string {
	if p.s.Kind == sigen.Atom && p.d.Kind == sigen.Atom && class(p.s) == class(p.d) {
		return rtypeNoCache(p.s).String() + "-into-" + rtypeNoCache(p.d).String()
	}
	if class(p.s) == class(p.d) {
		if p.s.Kind == sigen.Struct {
			return memberClass(p.s, p.d)
		}
		return class(p.s)
	}
	return class(p.s) + "-into-" + class(p.d)
}

// ------------------------------------------------------------ driver

type witness struct {
	fp, what      string
	src, dst, val string
	valIndex      int
	family        string
	incomp        bool
	count         int
	size          int
}

type wstate struct {
	e         *env
	evals     int
	pairs     int
	distinct  map[string]struct{}
	wit       map[string]*witness
	perFamily map[string]int
	samples   map[string][]string
}

func newState() *wstate {
	return &wstate{e: newEnv(), distinct: map[string]struct{}{}, wit: map[string]*witness{},
		perFamily: map[string]int{}, samples: map[string][]string{}}
}

func (st *wstate) sample(family, s string) {
	h := fnv.New32a()
	h.Write([]byte(s))
	key := fmt.Sprintf("%08x %s", h.Sum32(), s)
	l := st.samples[family]
	if len(l) == 4 && key >= l[3] {
		return
	}
	l = append(l, key)
	sort.Strings(l)
	if len(l) > 4 {
		l = l[:4]
	}
	st.samples[family] = l
}

func clip(s string) string {
	if len(s) > 200 {
		return s[:200] + "..."
	}
	return s
}

func (st *wstate) record(family string, incomp bool, orig kase, idx int, min kase, f *failure, entry string) {
	detail := nodeName(min.p)
	if f.clause == "panic" {
		detail = f.msg + "@" + f.site + "/" + detail
	}
	clause := f.clause
	if f.length {
		clause += ":length"
	}
	fp := report.FPEscape("ConvertFrom/" + detail + "/" + clause)
	what := fmt.Sprintf("%s: ConvertFrom(*%v, %v %s): %s: %s", entry, typeString(rtypeNoCache(min.p.d)), typeString(rtypeNoCache(min.p.s)), clip(fmt.Sprintf("%#v", min.x.Interface())), f.clause, clip(f.detail))
	size := orig.p.s.Size()*1000 + len(fmt.Sprintf("%#v", orig.x.Interface()))
	w, ok := st.wit[fp]
	cand := &witness{fp, what, orig.p.s.Sig(), orig.p.d.Sig(), fmt.Sprintf("%#v", orig.x.Interface()), idx, family, incomp, 1, size}
	if !ok {
		st.wit[fp] = cand
		return
	}
	if size < w.size || size == w.size && cand.src+cand.dst+cand.val < w.src+w.dst+w.val {
		cand.count = w.count
		*w = *cand
	}
	w.count++
}

type job struct {
	family string
	p      pair
	incomp bool
}

func (st *wstate) do(j job) {
	st.pairs++
	vals := st.e.vals(j.p.s, 0)
	for idx, x := range vals {
		if j.incomp && !reachesCrossClass(j.p, x) {
			continue
		}
		st.evals++
		st.perFamily[j.family]++
		c := kase{j.p, x}
		var f *failure
		eval := st.e.evalCompatible
		if j.incomp {
			eval = st.e.evalIncompatible
		}
		f = eval(c.p, c.x)
		out := "ok"
		if f != nil {
			out = f.clause
		}
		st.distinct[shapePair(j.p)+" => "+out] = struct{}{}
		if idx == 0 {
			st.sample(j.family, fmt.Sprintf("%v -> %v, e.g. %s => %s", typeString(st.e.rtype(j.p.s)), typeString(st.e.rtype(j.p.d)), clip(fmt.Sprintf("%#v", x.Interface())), out))
		}
		if f == nil {
			continue
		}
		min := c
		if !j.incomp {
			min = localize(c, f.key(), func(k kase) *failure { return st.e.evalCompatible(k.p, k.x) })
			if f2 := st.e.evalCompatible(min.p, min.x); f2 != nil && f2.key() == f.key() {
				f = f2
			}
		} else {
			min = st.e.localizeIncompatible(c, f.key())
			if f2 := st.e.evalIncompatible(min.p, min.x); f2 != nil && f2.key() == f.key() {
				f = f2
			}
		}
		st.record(j.family, j.incomp, c, idx, min, f, "family "+j.family)
	}
}

// shapePair abstracts a pair for the distinct count: the two constructor
// trees with integer atoms reduced to their width class.
func shapePair(p pair) string { return p.s.Sig() + ">" + p.d.Sig() }

// reachesCrossClass: the cross-class node of an incompatible pair is only
// reached when the containers on the way hold at least one element; it is
// reached as soon as ONE element, entry or matched member leads to it.
func reachesCrossClass(p pair, x reflect.Value) bool {
	if class(p.s) != class(p.d) {
		return true
	}
	switch p.s.Kind {
	case sigen.List:
		for i := 0; i < x.Len(); i++ {
			if reachesCrossClass(pair{p.s.Elem[0], p.d.Elem[0]}, x.Index(i)) {
				return true
			}
		}
	case sigen.Map:
		for _, k := range x.MapKeys() {
			if !sameTree(p.s.Elem[0], p.d.Elem[0]) && reachesCrossClass(pair{p.s.Elem[0], p.d.Elem[0]}, k) {
				return true
			}
			if !sameTree(p.s.Elem[1], p.d.Elem[1]) && reachesCrossClass(pair{p.s.Elem[1], p.d.Elem[1]}, x.MapIndex(k)) {
				return true
			}
		}
	case sigen.Struct:
		for _, ij := range matched(p.s, p.d) {
			i, j := ij[0], ij[1]
			if !sameTree(p.s.Elem[i], p.d.Elem[j]) && reachesCrossClass(pair{p.s.Elem[i], p.d.Elem[j]}, x.Field(i)) {
				return true
			}
		}
	}
	return false
}

func sameTree(a, b *sigen.T) bool { return a.Sig() == b.Sig() }

// localizeIncompatible descends to the smallest sub-case that holds the
// cross-class node and is still converted without an error: if the bare
// cross-class pair is refused correctly, the container that swallowed the
// refusal is the culprit.
func (e *env) localizeIncompatible(c kase, key string) kase {
	for {
		moved := false
		for _, ch := range children(c) {
			if sameTree(ch.p.s, ch.p.d) || !reachesCrossClass(ch.p, ch.x) {
				continue
			}
			if f := e.evalIncompatible(ch.p, ch.x); f != nil && f.key() == key {
				c = ch
				moved = true
				break
			}
		}
		if !moved {
			return c
		}
	}
}

// incompatiblePairs: representatives of every ordered pair of different kind
// classes, alone and nested once inside each container position.
func incompatiblePairs() []pair {
	reps := map[string][]*sigen.T{
		"bool":    atoms("b"),
		"string":  atoms("s"),
		"integer": atoms("cCiIlL"),
		"float":   atoms("fd"),
		"slice":   {sigen.L(sigen.A('i')), sigen.L(sigen.A('s')), sigen.L(sigen.A('C'))},
		"map":     {sigen.M(sigen.A('s'), sigen.A('i')), sigen.M(sigen.A('i'), sigen.A('s'))},
		"struct":  {sigen.St("S", []string{"A"}, sigen.A('i')), sigen.St("S", []string{"A", "B"}, sigen.A('s'), sigen.A('d'))},
	}
	classes := []string{"bool", "string", "integer", "float", "slice", "map", "struct"}
	var base []pair
	for _, a := range classes {
		for _, b := range classes {
			if a == b {
				continue
			}
			for _, s := range reps[a] {
				for _, d := range reps[b] {
					base = append(base, pair{s, d})
				}
			}
		}
	}
	out := append([]pair(nil), base...)
	k := sigen.A('s')
	for _, p := range base {
		out = append(out, pair{sigen.L(p.s), sigen.L(p.d)})
		out = append(out, pair{sigen.M(k, p.s), sigen.M(k, p.d)})
		if p.s.Comparable() && p.d.Comparable() {
			out = append(out, pair{sigen.M(p.s, k), sigen.M(p.d, k)})
		}
		out = append(out, pair{sigen.St("S", []string{"A", "B"}, k, p.s), sigen.St("S", []string{"A", "B"}, k, p.d)})
	}
	return out
}

// ------------------------------------------------------------ struct-member families

var zooMissing []string

func zooT(key string) *sigen.T {
	t, ok := zooTrees[key]
	if !ok {
		zooMissing = append(zooMissing, key)
		return sigen.St("S", nil)
	}
	return t
}

var positions = []string{"first", "middle", "last"}

var specialKinds = []string{"bool", "slice", "map", "struct", "blank", "embstruct", "embscalar"}

// place puts the special member first / in the middle / last among a and b.
func place[X any](pos string, special, a, b X) []X {
	switch pos {
	case "first":
		return []X{special, a, b}
	case "middle":
		return []X{a, special, b}
	}
	return []X{a, b, special}
}

func wideOf(narrow bool) (byte, byte) {
	if narrow {
		return 'i', 'f'
	}
	return 'l', 'd'
}

// plain: the struct {A; B} of a payload with exported members only.
func plainAB(narrow bool, payload string) (a, b *sigen.T) {
	n, f := wideOf(narrow)
	switch payload {
	case "composite":
		return sigen.L(sigen.A(n)), sigen.M(sigen.A('s'), sigen.A(f))
	case "nested":
		return sigen.St("S", []string{"P", "Q"}, sigen.A(n), sigen.A('s')), sigen.A('s')
	}
	return sigen.A(n), sigen.A('s')
}

func plain(narrow bool, payload string) *sigen.T {
	a, b := plainAB(narrow, payload)
	return sigen.St("S", []string{"A", "B"}, a, b)
}

func flavour(narrow bool) string {
	if narrow {
		return "narrow"
	}
	return "wide"
}

type specialT struct {
	t                  *sigen.T
	pos, kind, payload string
}

// specials: every zoo struct of a flavour with one special member that has
// no counterpart on the other side.
func specials(narrow bool) []specialT {
	var out []specialT
	for _, pl := range []string{"scalar", "composite", "nested"} {
		for _, k := range specialKinds {
			if pl != "scalar" && k != "bool" {
				continue
			}
			for _, pos := range positions {
				out = append(out, specialT{zooT("special/" + flavour(narrow) + "/" + pos + "/" + k + "/" + pl), pos, k, pl})
			}
		}
	}
	return out
}

// the four kinds of the unexported source member v / exported destination
// member V, as (source, destination) trees.
func matchedKinds() map[string]pair {
	i, l := sigen.A('i'), sigen.A('l')
	return map[string]pair{
		"bool":   {sigen.A('b'), sigen.A('b')},
		"slice":  {sigen.L(i), sigen.L(l)},
		"map":    {sigen.M(sigen.A('s'), i), sigen.M(sigen.A('s'), l)},
		"struct": {sigen.St("S", []string{"P"}, i), sigen.St("S", []string{"P"}, l)},
	}
}

var matchedKindNames = []string{"bool", "slice", "map", "struct"}

// otherClasses: one representative type of every kind class except that of t.
func otherClasses(t *sigen.T) []*sigen.T {
	var out []*sigen.T
	for _, r := range []*sigen.T{sigen.A('b'), sigen.A('s'), sigen.A('l'), sigen.A('d'), sigen.L(sigen.A('l')),
		sigen.M(sigen.A('s'), sigen.A('l')), sigen.St("S", []string{"P"}, sigen.A('l'))} {
		if class(r) != class(t) {
			out = append(out, r)
		}
	}
	return out
}

// structMemberBase enumerates the un-nested pairs of the struct-member
// families and counts them per group.
func structMemberBase() (compat, incomp []pair, groups map[string]int) {
	groups = map[string]int{}
	addC := func(g string, p pair) { compat = append(compat, p); groups[g]++ }
	addI := func(g string, p pair) { incomp = append(incomp, p); groups[g]++ }
	s, l, i := sigen.A('s'), sigen.A('l'), sigen.A('i')
	narrow, wide := specials(true), specials(false)

	// 1. special member without counterpart: destination only, source only, both
	for _, d := range wide {
		addC("dst-only", pair{plain(true, d.payload), d.t})
	}
	for _, n := range narrow {
		addC("src-only", pair{n.t, plain(false, n.payload)})
	}
	for _, n := range narrow {
		for _, d := range wide {
			if n.payload != d.payload || n.kind == "blank" && d.kind == "blank" { // "_" would be its own counterpart
				continue
			}
			addC("both-sides", pair{n.t, d.t})
		}
	}
	// the same with ONE matched exported member of another kind class
	for _, d := range wide {
		if d.payload != "scalar" {
			continue
		}
		for _, c := range otherClasses(l) {
			addI("dst-only/A-crossed", pair{sigen.St("S", []string{"A", "B"}, c, s), d.t})
		}
		for _, c := range otherClasses(s) {
			addI("dst-only/B-crossed", pair{sigen.St("S", []string{"A", "B"}, i, c), d.t})
		}
	}
	for _, n := range narrow {
		if n.payload != "scalar" {
			continue
		}
		for _, c := range otherClasses(i) {
			addI("src-only/A-crossed", pair{n.t, sigen.St("S", []string{"A", "B"}, c, s)})
		}
		for _, c := range otherClasses(s) {
			addI("src-only/B-crossed", pair{n.t, sigen.St("S", []string{"A", "B"}, l, c)})
		}
	}

	// 2. unexported source member v, exported destination member V
	mk := matchedKinds()
	for _, k := range matchedKindNames {
		for _, ps := range positions {
			src := zooT("matched/narrow/" + ps + "/" + k)
			for _, pd := range positions {
				addC("v-into-V", pair{src, sigen.St("S", place(pd, "V", "A", "B"), place(pd, mk[k].d, l, s)...)})
			}
			for _, c := range otherClasses(mk[k].s) {
				addI("v-into-V/crossed", pair{src, sigen.St("S", place(ps, "V", "A", "B"), place(ps, c, l, s)...)})
			}
		}
	}

	// 3. embedded exported struct E
	pq := func(n byte) *sigen.T { return sigen.St("S", []string{"P", "Q"}, sigen.A(n), s) }
	memberE := func(narrow bool, pos string) *sigen.T { // an ordinary member called E
		n, _ := wideOf(narrow)
		return sigen.St("S", place(pos, "E", "A", "B"), place(pos, pq(n), sigen.A(n), s)...)
	}
	for _, ps := range positions {
		for _, pd := range positions {
			addC("E-embedded-both", pair{zooT("embedded/narrow/" + ps), zooT("embedded/wide/" + pd)})
		}
		addC("E-member-into-embedded", pair{memberE(true, ps), zooT("embedded/wide/" + ps)})
		addC("E-embedded-into-member", pair{zooT("embedded/narrow/" + ps), memberE(false, ps)})
		addC("E-embedded-dst-only", pair{plain(true, "scalar"), zooT("embedded/wide/" + ps)})
		addC("E-embedded-src-only", pair{zooT("embedded/narrow/" + ps), plain(false, "scalar")})
		for _, c := range otherClasses(pq('l')) {
			addI("E-embedded/crossed", pair{zooT("embedded/narrow/" + ps), sigen.St("S", place(ps, "E", "A", "B"), place(ps, c, l, s)...)})
			addI("E-embedded/crossed", pair{sigen.St("S", place(ps, "E", "A", "B"), place(ps, c, i, s)...), zooT("embedded/wide/" + ps)})
		}
		// a member of E of another class
		addI("E-embedded/P-crossed", pair{zooT("embedded/narrow/" + ps), sigen.St("S", place(ps, "E", "A", "B"), place(ps, sigen.St("S", []string{"P", "Q"}, s, s), l, s)...)})
		addI("E-embedded/P-crossed", pair{sigen.St("S", place(ps, "E", "A", "B"), place(ps, sigen.St("S", []string{"P", "Q"}, s, s), i, s)...), zooT("embedded/wide/" + ps)})
	}

	// 4. exported members whose names differ only in letter case
	for _, names := range [][2]string{{"Ab", "AB"}, {"AB", "Ab"}} {
		for _, ps := range positions {
			src := sigen.St("S", place(ps, names[0], "A", "B"), place(ps, i, i, s)...)
			for _, pd := range positions {
				addC("case", pair{src, sigen.St("S", place(pd, names[1], "A", "B"), place(pd, l, l, s)...)})
			}
			for _, c := range otherClasses(i) {
				addI("case/crossed", pair{src, sigen.St("S", place(ps, names[1], "A", "B"), place(ps, c, l, s)...)})
			}
		}
	}
	return
}

// nest puts a pair at every position of a container: slice element, map
// value, map key (when both types are comparable and no two source values
// can collide in the destination), member of a struct (same order / permuted
// with an extra destination member).
func nest(p pair, compat bool) []pair {
	s := sigen.A('s')
	out := []pair{
		{sigen.L(p.s), sigen.L(p.d)},
		{sigen.M(s, p.s), sigen.M(s, p.d)},
	}
	if p.s.Comparable() && p.d.Comparable() && (!compat || lossless(p.s, p.d)) {
		out = append(out, pair{sigen.M(p.s, s), sigen.M(p.d, s)})
	}
	out = append(out, pair{sigen.St("S", []string{"A", "B"}, p.s, s), sigen.St("S", []string{"A", "B"}, p.d, s)})
	if compat {
		out = append(out, pair{sigen.St("S", []string{"A", "B"}, s, p.s), sigen.St("S", []string{"B", "Extra", "A"}, p.d, s, s)})
	}
	return out
}

// nestAll: the pairs, each of them nested once, and (levels == 2) each of
// those nested once more.
func nestAll(base []pair, compat bool, levels int) []pair {
	out := append([]pair(nil), base...)
	cur := base
	for n := 0; n < levels; n++ {
		var next []pair
		for _, p := range cur {
			next = append(next, nest(p, compat)...)
		}
		out = append(out, next...)
		cur = next
	}
	return out
}

func main() {
	chk := report.New("C20", "exploration")
	loadZoo()
	if len(os.Args) >= 3 && os.Args[1] == "--replay" {
		os.Exit(replay(os.Args[2]))
	}
	tier := report.Tier()
	start := time.Now()
	budget := 40 * time.Second
	workers := 8
	if tier == "thorough" {
		budget = 480 * time.Second
		workers = 16
	}
	if n := runtime.NumCPU(); workers > n {
		workers = n
	}
	deadline := start.Add(budget)

	P0 := scalarPairs()
	R0 := pickPairs("bb", "ss", "il", "cc", "CI", "fd", "LL")
	R1 := pickPairs("ss", "il", "fd")
	type famDef struct {
		name, universe string
		pairs          []pair
		incomp         bool
	}
	var fams []famDef
	fams = append(fams, famDef{"compatible:depth0", "the 25 scalar pairs: bool, string, every widening among int8/16/32/64 and among uint8/16/32/64, float32/float64 (identity included)", P0, false})
	fams = append(fams, famDef{"compatible:depth1", "slices, maps (25 key pairs x 25 value pairs), one-member structs (plain / extra dst member) and two-member structs (same order / permuted / permuted + extra dst member) over the 25 scalar pairs",
		composites(P0, P0, P0), false})
	d1r := composites(R0, R0, R0)
	keys2 := append(append([]pair(nil), R0...), structOnly(composites(R1, nil, R1))...)
	fams = append(fams, famDef{"compatible:depth2", "slices, maps, structs whose components are the 7 scalar pairs {bool, string, int32->int64, int8->int8, uint8->uint32, float32->float64, uint64->uint64} or any depth-1 composite over them; " +
		"map keys: those scalars or a struct over {string, int32->int64, float32->float64}; second member of two-member structs: one of the 7 scalar pairs",
		composites(append(append([]pair(nil), R0...), d1r...), keys2, R0), false})
	d1s := composites(R1, R1, R1)
	d2s := composites(append(append([]pair(nil), R1...), d1s...), R1, R1)
	fams = append(fams, famDef{"compatible:depth3", "slices, maps, structs whose components are {string, int32->int64, float32->float64} or any composite of depth <= 2 over them (map keys and second struct members: those 3 scalar pairs)",
		composites(append(append([]pair(nil), R1...), d2s...), R1, R1), false})
	fams = append(fams, famDef{"compatible:depth2-wide", "as depth2 but components range over all 25 scalar pairs and every depth-1 composite over the 7 scalar pairs; second struct member over all 25 scalar pairs",
		composites(append(append([]pair(nil), P0...), d1r...), keys2, P0), false})
	if tier == "thorough" {
		d2r := composites(append(append([]pair(nil), R0...), d1r...), R0, R0)
		fams = append(fams, famDef{"compatible:depth3-wide", "slices, maps, structs whose components are the 7 scalar pairs or any composite of depth <= 2 over them (map keys and second struct members: the 7 scalar pairs)",
			composites(append(append([]pair(nil), R0...), d2r...), R0, R0), false})
	}
	fams = append(fams, famDef{"incompatible", "ordered pairs of different kind classes among bool / string / integer(int8,uint8,int32,uint32,int64,uint64) / float(32,64) / slice / map / struct, " +
		"alone and nested as slice element, map value, map key and struct member of an otherwise identical container; only values that reach the cross-class node (non-empty containers)",
		incompatiblePairs(), true})

	// struct-member families
	levels := 1
	if tier == "thorough" {
		levels = 2
	}
	smC, smI, smGroups := structMemberBase()
	gnames := make([]string, 0, len(smGroups))
	for g := range smGroups {
		gnames = append(gnames, g)
	}
	sort.Strings(gnames)
	var gtxt []string
	for _, g := range gnames {
		gtxt = append(gtxt, fmt.Sprintf("%s %d", g, smGroups[g]))
	}
	nesting := "each pair alone and nested once as slice element, map value (string key), map key (comparable, collision-free types only), member of a struct"
	if levels == 2 {
		nesting = "each pair alone, nested once and nested twice (every combination of slice element, map value, map key where comparable and collision-free, member of a struct)"
	}
	smText := "struct members that reflect.StructOf cannot build (statically declared types, zoo_gen.go) and member-name shapes: " +
		"payload members A (int32 -> int64) and B (string) plus ONE special member placed first / middle / last. " +
		"dst-only, src-only, both-sides: the special member has no counterpart; kinds {unexported bool, []int32, map[string]int32, struct{P int32}, blank _ int32, embedded struct of an unexported type, embedded scalar of an unexported type} " +
		"(kind bool also with payload A []int32 -> []int64, B map[string]float32 -> map[string]float64 and with payload A struct{P; unexported bool; Q} nested); both-sides = every source shape x every destination shape of the same payload except blank x blank. " +
		"v-into-V: unexported source member v {bool, []int32, map[string]int32, struct{P int32}} whose counterpart is the exported destination member V (3 x 3 positions; forward conversion only, the way back would store into v). " +
		"E-*: embedded exported struct E{P; Q} on both sides (3 x 3 positions), embedded on one side with an ordinary member E on the other, embedded without counterpart. " +
		"case: exported member Ab whose counterpart is AB and conversely (3 x 3 positions). " +
		"groups (un-nested pairs): " + strings.Join(gtxt, ", ") + "; " + nesting
	fams = append(fams, famDef{"struct-members:compatible", smText + ". Oracle: every exported destination member with a counterpart (same name, letter case ignored) equals it, the round trip recovers the exported matched members of the source, no error, no panic; the content of members that are not exported is not judged",
		nestAll(smC, true, levels), false})
	fams = append(fams, famDef{"struct-members:incompatible", "the same struct shapes in which ONE matched member pair (A, B, v/V, E, a member of E, Ab/AB) is of two different kind classes (the destination or source member ranges over one representative of each of the 6 other classes), " + nesting + "; only values that reach the cross-class node. Oracle: refused with an error, no panic",
		nestAll(smI, false, levels), true})
	for _, k := range zooMissing {
		chk.EngineError("zoo_gen.go has no type for shape %s (re-run go generate in checks/c20)", k)
	}
	for _, f := range fams {
		if !strings.HasPrefix(f.name, "struct-members:") {
			continue
		}
		for _, p := range f.pairs {
			if !inUniverse(p.s, p.d) {
				chk.EngineError("family %s: pair %v is outside the judged universe (an unexported destination member has a counterpart, or two members are equal up to letter case)", f.name, p)
			}
		}
	}
	if len(zooMissing) > 0 {
		os.Exit(chk.Finish(nil, nil))
	}
	// the cheap families first: the deadline, if it ever strikes, strikes the
	// widest compatible family
	sort.SliceStable(fams, func(a, b int) bool {
		wide := func(n string) bool { return strings.HasSuffix(n, "-wide") }
		return !wide(fams[a].name) && wide(fams[b].name)
	})

	states := make([]*wstate, workers)
	for i := range states {
		states[i] = newState()
	}
	type famRes struct {
		name, universe string
		pairs          int
		complete       bool
		wall           float64
	}
	var res []famRes
	for _, f := range fams {
		t0 := time.Now()
		f := f
		ok := runner.Each(workers, deadline, func(emit func(job) bool) {
			for _, p := range f.pairs {
				if !emit(job{f.name, p, f.incomp}) {
					return
				}
			}
		}, func(w int, j job) { states[w].do(j) })
		res = append(res, famRes{f.name, f.universe, len(f.pairs), ok, time.Since(t0).Seconds()})
	}

	total := newState()
	for _, st := range states {
		total.evals += st.evals
		total.pairs += st.pairs
		total.e.backSkipped += st.e.backSkipped
		for k := range st.distinct {
			total.distinct[k] = struct{}{}
		}
		for k, v := range st.perFamily {
			total.perFamily[k] += v
		}
		for _, w := range st.wit {
			cur, ok := total.wit[w.fp]
			if !ok {
				c := *w
				total.wit[w.fp] = &c
				continue
			}
			n := cur.count + w.count
			if w.size < cur.size || w.size == cur.size && w.src+w.dst+w.val < cur.src+cur.dst+cur.val {
				*cur = *w
			}
			cur.count = n
		}
	}
	// distinct non-trivial: composite pairs only
	nontrivial := 0
	for k := range total.distinct {
		if strings.ContainsAny(k, "[{(") {
			nontrivial++
		}
	}
	var samples []interface{}
	for _, f := range fams {
		var all []string
		for _, st := range states {
			all = append(all, st.samples[f.name]...)
		}
		sort.Strings(all)
		n := 0
		for i, s := range all {
			if i > 0 && s == all[i-1] {
				continue
			}
			if n == 3 {
				break
			}
			n++
			samples = append(samples, f.name+": "+s[9:])
		}
	}

	fps := make([]string, 0, len(total.wit))
	for fp := range total.wit {
		fps = append(fps, fp)
	}
	sort.Strings(fps)
	for _, fp := range fps {
		w := total.wit[fp]
		// The oracle is deterministic, but the code under test ranges over Go
		// maps, so a defect may depend on the iteration order: the witness is
		// re-run 20 times; it is reported when the same failure was observed
		// again at least once (a wrong conversion result observed twice is
		// not a fluke); never seen again = engine error, not a violation.
		again := 0
		for i := 0; i < 20; i++ {
			if reproduces(w) {
				again++
			}
		}
		if again == 0 {
			chk.EngineError("violation %s on %s -> %s value #%d did not reproduce in 20 re-runs", fp, w.src, w.dst, w.valIndex)
			continue
		}
		if again < 20 {
			w.what += fmt.Sprintf(" [order-dependent: reproduced in %d of 20 re-runs]", again)
		}
		rep := map[string]interface{}{"family": w.family, "src_type": w.src, "dst_type": w.dst, "value_index": w.valIndex, "value": w.val,
			"cases_with_this_fingerprint": w.count, "note": "types are written in signature syntax (c C w W i I l L = int8 uint8 int16 uint16 int32 uint32 int64 uint64, f d = float32 float64, b bool, s string); a struct whose name is not S is the statically declared Go type of that name in checks/c20/zoo_gen.go (member blank = _)",
			"src_go_type": typeString(rtypeNoCache(mustTree(w.src))), "dst_go_type": typeString(rtypeNoCache(mustTree(w.dst))),
			"replay_cmd": "./check.sh C20 quick --replay <this file>"}
		for i := 0; i < w.count; i++ {
			chk.Report(fp, fmt.Sprintf("%s [%d cases share this fingerprint]", w.what, w.count), rep)
		}
	}

	exhaustive := true
	var famCov []interface{}
	for _, r := range res {
		if !r.complete {
			exhaustive = false
		}
		famCov = append(famCov, map[string]interface{}{"family": r.name, "universe": r.universe, "type_pairs": r.pairs, "evaluations": total.perFamily[r.name], "complete": r.complete, "wall_s": r.wall})
	}
	cov := map[string]interface{}{
		"evaluations":                          total.evals,
		"type_pairs":                           total.pairs,
		"static_struct_types":                  len(statics),
		"struct_member_groups_unnested_pairs":  smGroups,
		"compatible_cases_judged_forward_only": total.e.backSkipped,
		"distinct_nontrivial":                  nontrivial,
		"rule": "every (src type, dst type) pair of each family x every value of Val(src) (booleans both; integers {byte-asymmetric pattern, min, max, -1, 0, 1, 0x7f}; floats {1.5, a second finite value, max, smallest denormal, 0, -0, Inf, NaN}; " +
			"strings {\"q\", \"\", multi-byte, 255 bytes, \"a\"}; slices {two elements, nil, empty, every single element, three elements}; maps {two entries, nil, empty, every single entry of the key/value diagonal, two entries crossed}; " +
			"structs {all distinguished, one member at a time over its whole set, the diagonal} - members of a SOURCE struct that are not exported are given their values too (written through their address); nested positions capped to the first 6 values at level 1 and 3 deeper). " +
			"compatible_cases_judged_forward_only = cases of the v-into-V group, whose way back would store into the unexported member v: only the forward conversion is judged there. " +
			"distinct_nontrivial = number of distinct (src type, dst type, outcome class) triples in which the types are composite (scalar pairs are counted as trivial)",
		"distinct_pair_outcomes_including_scalars": len(total.distinct),
		"samples":                samples,
		"exhaustive":             exhaustive,
		"families":               famCov,
		"per_family_evaluations": total.perFamily,
		"workers":                workers,
	}
	assumptions := []string{
		"small-scope hypothesis: recursion mistakes of convertSlice / convertMap / convertStruct show on containers of depth <= 2 (3 in thorough) holding 0..3 elements",
		"the destination is a fresh zero value; destinations pre-populated with other data are not explored",
		"not judged (the statement is silent): narrowing and cross-signedness integer pairs, struct members without a counterpart, the content of struct members that are not exported, nil versus empty containers, NaN payload bits, int / uint / pointer / interface kinds",
		"struct members are matched by name with letter case ignored (the repository's TestStruct expects exported E to receive unexported e); not in the universe: an unexported (or blank) destination member that HAS a counterpart in the source, and structs with two members equal up to letter case",
		"conversion.DecodeFrom / EncodeInto are not exercised (they add the codec, which is C02/C03's business); ConvertFrom is the function they delegate to",
	}
	os.Exit(chk.Finish(cov, assumptions))
}

func mustTree(sig string) *sigen.T {
	t, ok := sigen.Recognize(sig)
	if !ok {
		panic("c20: unparsable signature " + sig)
	}
	return t
}

func findCase(src, dst string, idx int) (kase, bool) {
	s, ok1 := sigen.Recognize(src)
	d, ok2 := sigen.Recognize(dst)
	if !ok1 || !ok2 {
		return kase{}, false
	}
	e := newEnv()
	vals := e.vals(s, 0)
	if idx < 0 || idx >= len(vals) {
		return kase{}, false
	}
	return kase{pair{s, d}, vals[idx]}, true
}

func reproduces(w *witness) bool {
	c, ok := findCase(w.src, w.dst, w.valIndex)
	if !ok {
		return false
	}
	st := newState()
	st.doOne(w.family, w.incomp, c, w.valIndex)
	_, ok = st.wit[w.fp]
	return ok
}

// doOne judges a single case (used for confirmation and replay).
func (st *wstate) doOne(family string, incomp bool, c kase, idx int) {
	if family == "replay" {
		incomp = !compatible(c.p)
	}
	var f *failure
	if incomp {
		f = st.e.evalIncompatible(c.p, c.x)
	} else {
		f = st.e.evalCompatible(c.p, c.x)
	}
	if f == nil {
		return
	}
	min := c
	if !incomp {
		min = localize(c, f.key(), func(k kase) *failure { return st.e.evalCompatible(k.p, k.x) })
		if f2 := st.e.evalCompatible(min.p, min.x); f2 != nil && f2.key() == f.key() {
			f = f2
		}
	} else {
		min = st.e.localizeIncompatible(c, f.key())
		if f2 := st.e.evalIncompatible(min.p, min.x); f2 != nil && f2.key() == f.key() {
			f = f2
		}
	}
	st.record(family, incomp, c, idx, min, f, "family "+family)
}

// compatible: same class everywhere (used by replay to choose the oracle).
func compatible(p pair) bool {
	if class(p.s) != class(p.d) {
		return false
	}
	switch p.s.Kind {
	case sigen.List:
		return compatible(pair{p.s.Elem[0], p.d.Elem[0]})
	case sigen.Map:
		return compatible(pair{p.s.Elem[0], p.d.Elem[0]}) && compatible(pair{p.s.Elem[1], p.d.Elem[1]})
	case sigen.Struct:
		for _, ij := range matched(p.s, p.d) {
			if !compatible(pair{p.s.Elem[ij[0]], p.d.Elem[ij[1]]}) {
				return false
			}
		}
	}
	return true
}

func replay(path string) int {
	data, err := os.ReadFile(path)
	if err != nil {
		fmt.Println(err)
		return 2
	}
	var f struct {
		Replay struct {
			Src   string `json:"src_type"`
			Dst   string `json:"dst_type"`
			Index int    `json:"value_index"`
		} `json:"replay"`
	}
	if err := json.Unmarshal(data, &f); err != nil {
		fmt.Println(err)
		return 2
	}
	c, ok := findCase(f.Replay.Src, f.Replay.Dst, f.Replay.Index)
	if !ok {
		fmt.Println("cannot rebuild the case")
		return 2
	}
	st := newState()
	st.doOne("replay", false, c, f.Replay.Index)
	fmt.Printf("ConvertFrom(*%v, %v %#v)\n", typeString(rtypeNoCache(c.p.d)), typeString(rtypeNoCache(c.p.s)), c.x.Interface())
	if len(st.wit) == 0 {
		fmt.Println("  no violation")
		return 0
	}
	for fp, w := range st.wit {
		fmt.Printf("  VIOLATION %s\n    %s\n", fp, w.what)
	}
	return 1
}
