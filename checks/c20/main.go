// C20 - structural conversion preserves every value.
//
// Bounded-exhaustive exploration (engine A) of conversion.ConvertFrom.
//
// Compatible family: every (src, dst) pair of Go types of a bounded universe
// in which dst is obtained from src by widening integers within the same
// signedness, float32 -> float64, identity on bool / string, recursively
// through slices, maps (keys and values) and structs matched by field name
// (dst members permuted, extra dst member present), x every value of Val(src).
// Oracle: ConvertFrom(&dst, x) returns nil; an independent recursive walker
// finds every element / key / member of dst equal to the source's; converting
// dst back into a fresh value of src's type succeeds and gives x again.
//
// Incompatible family: every ordered pair of DIFFERENT kind classes among
// {bool, string, integer, float, slice, map, struct}, at the top level and
// nested as slice element / map key / map value / struct member of an
// otherwise identical container holding at least one element.
// Oracle: ConvertFrom returns an error (and does not panic).
//
// Struct-member families ("struct-members:compatible" / ":incompatible"):
// the shapes of struct MEMBERS that reflect.StructOf cannot build, declared
// statically in zoo_gen.go (written by gen/main.go), enumerated as
// position of the special member {first, middle, last} x kind of special
// member x side {destination only, source only, both} x nesting {alone,
// slice element, map value, map key, member of another struct}:
//   - a member that is not exported (bool, slice, map, struct, blank "_",
//     embedded struct of an unexported type, embedded scalar of an
//     unexported type) and has NO counterpart on the other side;
//   - an unexported source member v whose counterpart is the exported
//     destination member V;
//   - an embedded exported struct E (embedded on both sides, on one side with
//     an ordinary member called E on the other, or without counterpart);
//   - exported members whose names differ only in letter case (Ab / AB).
//
// What "matched by field name" means is taken from the statement and from
// the repository's own TestStruct (which expects E to receive e): a
// destination member is matched with the source member of the same name,
// letter case ignored. The oracle is the statement's: every EXPORTED
// destination member that has a counterpart equals it (the other exported
// members of the struct included - a special member must not disturb its
// neighbours); the round trip recovers the source's exported matched members;
// a matched pair of different kind classes is refused; never a panic.
// Nothing is promised about the content of a member that is not exported
// (reflection cannot store into it), so that content is never judged, and
// the universe holds NO pair in which an unexported destination member has a
// counterpart, and no struct with two members equal up to letter case
// (inUniverse; a back conversion that would be such a pair is skipped and
// counted).
//
// Member-name shapes (groups names/two-in-one and names/one-each-side of the
// struct-member families): pairs of member names that are different names,
// also with letter case ignored, but resemble each other - they differ only
// by underscores (inner, trailing, doubled, before a digit, leading: _Ab is
// not exported and needs a statically declared type), by digits, by a letter
// that is not ASCII, or one is a prefix of the other (namePairs). Both names
// in one struct on both sides: each member receives its own value. One name
// on each side: they are not counterparts, so the pair is converted without
// an error even when the two members are of different kind classes, and the
// destination member keeps what it held.
//
// Populated destinations (families populated:*): every case of the compatible
// families is also converted into a destination variable that already holds
// data (and back into a variable of the source type that does), see
// populations. The oracle is the same: a slice has exactly the source's
// elements, every key of the source is present with the source's value,
// every matched member equals its counterpart, a member without counterpart
// is left alone; a map key that only the old destination had may stay (the
// implementation converts into the existing map; the statement is silent).
// A failure that shows with a fresh destination as well is reported by the
// fresh family only; the entry point of the others is written
// ConvertFrom(populated-destination) in the fingerprint.
//
// Narrowing and cross-signedness integer pairs, float64 -> float32 on values
// that are not float32, unmatched struct members, nil-versus-empty and NaN
// payloads are NOT judged: the statement does not speak about them.
//
//go:generate sh -c "go run ./gen | gofmt > zoo_gen.go"
package main

import (
	"encoding/json"
	"fmt"
	"hash/fnv"
	"math"
	"os"
	"reflect"
	"runtime"
	"sort"
	"strings"
	"time"
	"unicode"
	"unicode/utf8"
	"unsafe"

	"github.com/lugu/qiloop/type/conversion"

	"verif/internal/report"
	"verif/internal/sigen"
	"verif/internal/sigen/runner"
)

// ------------------------------------------------------------ types

// Types are sigen trees over the atoms c C w W i I l L f d b s, lists, maps
// and structs. A struct called "S" has exported members only and is built by
// reflect.StructOf; any other struct name designates a statically declared
// type of the zoo (zoo_gen.go), found by its signature. rtype builds the
// reflect.Type.
//
// In the tree of a static type the member names are the Go names, except
// that the blank member "_" is spelled "blank" (the signature grammar has no
// such identifier); an embedded member carries the name of its type, as in Go.
var statics = map[string]reflect.Type{} // signature -> static type; filled by loadZoo, read-only afterwards

var zooTrees = map[string]*sigen.T{} // shape key -> tree

// treeOf describes a Go type of the zoo as a sigen tree and registers the
// named struct types it meets.
func treeOf(t reflect.Type) *sigen.T {
	switch t.Kind() {
	case reflect.Bool:
		return sigen.A('b')
	case reflect.String:
		return sigen.A('s')
	case reflect.Int8:
		return sigen.A('c')
	case reflect.Uint8:
		return sigen.A('C')
	case reflect.Int16:
		return sigen.A('w')
	case reflect.Uint16:
		return sigen.A('W')
	case reflect.Int32:
		return sigen.A('i')
	case reflect.Uint32:
		return sigen.A('I')
	case reflect.Int64:
		return sigen.A('l')
	case reflect.Uint64:
		return sigen.A('L')
	case reflect.Float32:
		return sigen.A('f')
	case reflect.Float64:
		return sigen.A('d')
	case reflect.Slice:
		return sigen.L(treeOf(t.Elem()))
	case reflect.Map:
		return sigen.M(treeOf(t.Key()), treeOf(t.Elem()))
	case reflect.Struct:
		names := make([]string, t.NumField())
		elems := make([]*sigen.T, t.NumField())
		for i := range names {
			f := t.Field(i)
			names[i] = f.Name
			if f.Name == "_" {
				names[i] = "blank"
			}
			elems[i] = treeOf(f.Type)
		}
		name := t.Name()
		if name == "" {
			name = "S"
		}
		tr := sigen.St(name, names, elems...)
		if name != "S" {
			if _, ok := statics[tr.Sig()]; !ok {
				statics[tr.Sig()] = t
			}
		}
		return tr
	}
	panic("c20: unsupported zoo type " + t.String())
}

func loadZoo() {
	keys := make([]string, 0, len(zoo))
	for k := range zoo {
		keys = append(keys, k)
	}
	sort.Strings(keys)
	for _, k := range keys {
		zooTrees[k] = treeOf(zoo[k])
	}
}

// typeString prints a type with the static struct types spelled out.
func typeString(t reflect.Type) string {
	switch t.Kind() {
	case reflect.Slice:
		return "[]" + typeString(t.Elem())
	case reflect.Map:
		return "map[" + typeString(t.Key()) + "]" + typeString(t.Elem())
	case reflect.Struct:
		var b strings.Builder
		if t.Name() != "" {
			b.WriteString(t.String())
			b.WriteString("{")
		} else {
			b.WriteString("struct {")
		}
		for i := 0; i < t.NumField(); i++ {
			f := t.Field(i)
			if i > 0 {
				b.WriteString(";")
			}
			b.WriteString(" ")
			if f.Anonymous {
				b.WriteString("(embedded) ")
			} else {
				b.WriteString(f.Name + " ")
			}
			b.WriteString(typeString(f.Type))
		}
		b.WriteString(" }")
		return b.String()
	}
	return t.String()
}

func rtypeNoCache(t *sigen.T) reflect.Type {
	switch t.Kind {
	case sigen.Atom:
		switch t.Atom {
		case 'c':
			return reflect.TypeOf(int8(0))
		case 'C':
			return reflect.TypeOf(uint8(0))
		case 'w':
			return reflect.TypeOf(int16(0))
		case 'W':
			return reflect.TypeOf(uint16(0))
		case 'i':
			return reflect.TypeOf(int32(0))
		case 'I':
			return reflect.TypeOf(uint32(0))
		case 'l':
			return reflect.TypeOf(int64(0))
		case 'L':
			return reflect.TypeOf(uint64(0))
		case 'f':
			return reflect.TypeOf(float32(0))
		case 'd':
			return reflect.TypeOf(float64(0))
		case 'b':
			return reflect.TypeOf(false)
		case 's':
			return reflect.TypeOf("")
		}
	case sigen.List:
		return reflect.SliceOf(rtypeNoCache(t.Elem[0]))
	case sigen.Map:
		return reflect.MapOf(rtypeNoCache(t.Elem[0]), rtypeNoCache(t.Elem[1]))
	case sigen.Struct:
		if t.Name != "S" {
			if rt, ok := statics[t.Sig()]; ok {
				return rt
			}
			panic("c20: no static type for " + t.Sig())
		}
		f := make([]reflect.StructField, len(t.Elem))
		for i, e := range t.Elem {
			f[i] = reflect.StructField{Name: t.Fields[i], Type: rtypeNoCache(e)}
		}
		return reflect.StructOf(f)
	}
	panic("c20: unsupported type " + t.Sig())
}

func class(t *sigen.T) string {
	switch t.Kind {
	case sigen.Atom:
		switch sigen.AtomClass(t.Atom) {
		case "int":
			return "integer"
		case "flt":
			return "float"
		case "bool":
			return "bool"
		case "str":
			return "string"
		}
	case sigen.List:
		return "slice"
	case sigen.Map:
		return "map"
	case sigen.Struct:
		return "struct"
	}
	return "?"
}

type pair struct{ s, d *sigen.T }

func (p pair) String() string { return p.s.Sig() + " -> " + p.d.Sig() }

func atoms(s string) []*sigen.T {
	var out []*sigen.T
	for _, c := range []byte(s) {
		out = append(out, sigen.A(c))
	}
	return out
}

// scalarPairs: identity on bool and string, every widening within a
// signedness, float32/float64.
func scalarPairs() []pair {
	var out []pair
	out = append(out, pair{sigen.A('b'), sigen.A('b')}, pair{sigen.A('s'), sigen.A('s')})
	for _, fam := range []string{"cwil", "CWIL", "fd"} {
		for i := 0; i < len(fam); i++ {
			for j := i; j < len(fam); j++ {
				out = append(out, pair{sigen.A(fam[i]), sigen.A(fam[j])})
			}
		}
	}
	return out
}

func pickPairs(codes ...string) []pair {
	var out []pair
	for _, c := range codes {
		out = append(out, pair{sigen.A(c[0]), sigen.A(c[1])})
	}
	return out
}

// composites builds every slice, map and struct pair over the given element
// pairs; map keys range over keys; the second member of two-member structs
// ranges over second.
func composites(elems, keys, second []pair) []pair {
	var out []pair
	for _, e := range elems {
		out = append(out, pair{sigen.L(e.s), sigen.L(e.d)})
	}
	for _, k := range keys {
		for _, v := range elems {
			out = append(out, pair{sigen.M(k.s, v.s), sigen.M(k.d, v.d)})
		}
	}
	x := sigen.A('s') // type of the extra destination member
	for _, a := range elems {
		out = append(out,
			pair{sigen.St("S", []string{"A"}, a.s), sigen.St("S", []string{"A"}, a.d)},
			pair{sigen.St("S", []string{"A"}, a.s), sigen.St("S", []string{"Extra", "A"}, x, a.d)})
		for _, b := range second {
			src := sigen.St("S", []string{"A", "B"}, a.s, b.s)
			out = append(out,
				pair{src, sigen.St("S", []string{"A", "B"}, a.d, b.d)},
				pair{src, sigen.St("S", []string{"B", "A"}, b.d, a.d)},
				pair{src, sigen.St("S", []string{"B", "Extra", "A"}, b.d, x, a.d)})
		}
	}
	return out
}

func structOnly(ps []pair) []pair {
	var out []pair
	for _, p := range ps {
		if p.s.Kind == sigen.Struct {
			out = append(out, p)
		}
	}
	return out
}

// ------------------------------------------------------------ values

type env struct {
	rt          map[string]reflect.Type
	rtp         map[*sigen.T]reflect.Type // the same, by node
	back        map[string]bool
	backSkipped int // compatible cases judged on the forward conversion only
	pop         map[string]popSrc
	dist        map[string]reflect.Value // distinguished value per type
}

type popSrc struct {
	v   [3]reflect.Value
	cut bool
}

// backOK: the reverse pair belongs to the universe too.
func (e *env) backOK(p pair) bool {
	k := p.s.Sig() + ">" + p.d.Sig()
	ok, seen := e.back[k]
	if !seen {
		ok = inUniverse(p.d, p.s)
		e.back[k] = ok
	}
	return ok
}

func newEnv() *env {
	return &env{rt: map[string]reflect.Type{}, rtp: map[*sigen.T]reflect.Type{}, back: map[string]bool{}, pop: map[string]popSrc{}, dist: map[string]reflect.Value{}}
}

func (e *env) rtype(t *sigen.T) reflect.Type {
	if r, ok := e.rtp[t]; ok {
		return r
	}
	k := t.Sig()
	r, ok := e.rt[k]
	if !ok {
		r = rtypeNoCache(t)
		e.rt[k] = r
	}
	e.rtp[t] = r
	return r
}

func pattern(bits uint) uint64 {
	p := uint64(0x0102030405060708)
	if bits < 64 {
		p &= 1<<bits - 1
	}
	return p
}

func bitsOf(c byte) uint {
	switch c {
	case 'c', 'C':
		return 8
	case 'w', 'W':
		return 16
	case 'i', 'I':
		return 32
	}
	return 64
}

// vals enumerates Val(t). level 0 is the value handed to ConvertFrom; nested
// positions are capped (6 at level 1, 3 deeper). The first value is always
// the distinguished non-zero value of the type.
func (e *env) vals(t *sigen.T, level int) []reflect.Value {
	limit := 1 << 30
	if level == 1 {
		limit = 6
	} else if level >= 2 {
		limit = 3
	}
	rt := e.rtype(t)
	var out []reflect.Value
	add := func(v reflect.Value) bool {
		if len(out) >= limit {
			return false
		}
		out = append(out, v)
		return true
	}
	mk := func(f func(v reflect.Value)) reflect.Value {
		v := reflect.New(rt).Elem()
		f(v)
		return v
	}
	switch t.Kind {
	case sigen.Atom:
		switch t.Atom {
		case 'b':
			add(reflect.ValueOf(true))
			add(reflect.ValueOf(false))
		case 's':
			for _, s := range []string{"q", "", "é世界", strings.Repeat("x", 255), "a"} {
				s := s
				add(mk(func(v reflect.Value) { v.SetString(s) }))
			}
		case 'c', 'w', 'i', 'l':
			n := bitsOf(t.Atom)
			min := int64(-1) << (n - 1)
			for _, x := range []int64{int64(pattern(n)), min, -min - 1, -1, 0, 1, 0x7f} {
				x := x
				add(mk(func(v reflect.Value) { v.SetInt(x) }))
			}
		case 'C', 'W', 'I', 'L':
			n := bitsOf(t.Atom)
			max := uint64(1)<<(n-1)<<1 - 1
			for _, x := range []uint64{pattern(n), max, uint64(1) << (n - 1), 0, 1, 0x7f} {
				x := x
				add(mk(func(v reflect.Value) { v.SetUint(x) }))
			}
		case 'f':
			for _, x := range []float32{1.5, -2.25, math.MaxFloat32, math.SmallestNonzeroFloat32, 0, float32(math.Copysign(0, -1)), float32(math.Inf(1)), float32(math.NaN())} {
				x := x
				add(mk(func(v reflect.Value) { v.SetFloat(float64(x)) }))
			}
		case 'd':
			for _, x := range []float64{1.5, 0.1, math.MaxFloat64, math.SmallestNonzeroFloat64, 0, math.Copysign(0, -1), math.Inf(-1), math.NaN()} {
				x := x
				add(mk(func(v reflect.Value) { v.SetFloat(x) }))
			}
		}
	case sigen.List:
		ev := e.vals(t.Elem[0], level+1)
		// distinguished: two different elements when possible
		if len(ev) >= 2 {
			add(mk(func(v reflect.Value) { v.Set(reflect.Append(v, ev[0], ev[1])) }))
		}
		add(mk(func(v reflect.Value) {}))                                     // nil
		add(mk(func(v reflect.Value) { v.Set(reflect.MakeSlice(rt, 0, 0)) })) // empty
		for _, x := range ev {
			x := x
			add(mk(func(v reflect.Value) { v.Set(reflect.Append(v, x)) }))
		}
		if len(ev) >= 2 {
			add(mk(func(v reflect.Value) { v.Set(reflect.Append(v, ev[len(ev)-1], ev[0], ev[0])) }))
		}
	case sigen.Map:
		kv := e.keyVals(t.Elem[0], level+1)
		vv := e.vals(t.Elem[1], level+1)
		set := func(pairs ...int) reflect.Value {
			return mk(func(v reflect.Value) {
				v.Set(reflect.MakeMap(rt))
				for i := 0; i+1 < len(pairs); i += 2 {
					v.SetMapIndex(kv[pairs[i]%len(kv)], vv[pairs[i+1]%len(vv)])
				}
			})
		}
		if len(kv) >= 2 {
			add(set(0, 0, 1, 1%len(vv)))
		}
		add(mk(func(v reflect.Value) {})) // nil
		add(set())                        // empty
		n := len(kv)
		if len(vv) > n {
			n = len(vv)
		}
		for i := 0; i < n; i++ {
			add(set(i, i))
		}
		if len(kv) >= 2 {
			add(set(0, len(vv)-1, 1, 0))
		}
	case sigen.Struct:
		fv := make([][]reflect.Value, len(t.Elem))
		for i, m := range t.Elem {
			fv[i] = e.vals(m, level+1)
		}
		build := func(pick func(i int) reflect.Value) reflect.Value {
			return mk(func(v reflect.Value) {
				for i := range t.Elem {
					setMember(v.Field(i), pick(i))
				}
			})
		}
		// all distinguished
		add(build(func(i int) reflect.Value { return fv[i][0] }))
		// one member at a time over its full set
		for k := range t.Elem {
			for j := 1; j < len(fv[k]); j++ {
				k, j := k, j
				add(build(func(i int) reflect.Value {
					if i == k {
						return fv[i][j]
					}
					return fv[i][0]
				}))
			}
		}
		// the diagonal
		max := 0
		for _, l := range fv {
			if len(l) > max {
				max = len(l)
			}
		}
		for j := 1; j < max; j++ {
			j := j
			add(build(func(i int) reflect.Value { return fv[i][j%len(fv[i])] }))
		}
	}
	return out
}

// setMember stores val into member f of an addressable struct of the check's
// own making. Members that are not exported are written through their
// address (the SOURCE values of the struct-member families carry non-zero
// content there); a member of a named type (embedded myint, a local E)
// receives the converted value.
func setMember(f, val reflect.Value) {
	if val.Type() != f.Type() {
		val = val.Convert(f.Type())
	}
	if !f.CanSet() {
		f = reflect.NewAt(f.Type(), unsafe.Pointer(f.UnsafeAddr())).Elem()
	}
	f.Set(val)
}

// keyVals is vals without values that cannot be looked up again or that
// collide as keys: NaN (anywhere inside), and -0 (equal to 0 as a key).
func (e *env) keyVals(t *sigen.T, level int) []reflect.Value {
	var out []reflect.Value
	for _, v := range e.vals(t, level) {
		if !hasNaNOrNegZero(v) {
			out = append(out, v)
		}
	}
	return out
}

func hasNaNOrNegZero(v reflect.Value) bool {
	switch v.Kind() {
	case reflect.Float32, reflect.Float64:
		f := v.Float()
		return f != f || (f == 0 && math.Signbit(f))
	case reflect.Struct:
		for i := 0; i < v.NumField(); i++ {
			if hasNaNOrNegZero(v.Field(i)) {
				return true
			}
		}
	}
	return false
}

// ------------------------------------------------------------ struct members

// exported: Go's rule - the first character is a Unicode upper case letter.
func exported(name string) bool {
	r, _ := utf8.DecodeRuneInString(name)
	return unicode.IsUpper(r)
}

// counterpart: the member of the source struct s designated by "matched by
// field name" for member j of the destination struct d - the one of the same
// name, letter case ignored; -1 if there is none.
func counterpart(s, d *sigen.T, j int) int {
	for i, n := range s.Fields {
		if strings.EqualFold(n, d.Fields[j]) {
			return i
		}
	}
	return -1
}

// matched lists the judged member pairs (i of s, j of d): every EXPORTED
// member of d that has a counterpart in s, in s's order.
func matched(s, d *sigen.T) [][2]int {
	var out [][2]int
	for i := range s.Fields {
		for j := range d.Fields {
			if exported(d.Fields[j]) && counterpart(s, d, j) == i {
				out = append(out, [2]int{i, j})
			}
		}
	}
	return out
}

// inUniverse: the pair is one about which the statement promises something
// everywhere: no struct on either side has two members equal up to letter
// case, and no member of a destination struct that is not exported has a
// counterpart in the source (reflection cannot store into it).
func inUniverse(s, d *sigen.T) bool {
	if s.Kind != d.Kind {
		return true
	}
	switch s.Kind {
	case sigen.List:
		return inUniverse(s.Elem[0], d.Elem[0])
	case sigen.Map:
		return inUniverse(s.Elem[0], d.Elem[0]) && inUniverse(s.Elem[1], d.Elem[1])
	case sigen.Struct:
		for _, t := range []*sigen.T{s, d} {
			for a := range t.Fields {
				for b := a + 1; b < len(t.Fields); b++ {
					if strings.EqualFold(t.Fields[a], t.Fields[b]) {
						return false
					}
				}
			}
		}
		for j := range d.Fields {
			i := counterpart(s, d, j)
			if i < 0 {
				continue
			}
			if !exported(d.Fields[j]) {
				return false
			}
			if !inUniverse(s.Elem[i], d.Elem[j]) {
				return false
			}
		}
	}
	return true
}

// lossless: every member of every source struct has a counterpart, so two
// different source values never convert to the same destination value (needed
// of map keys).
func lossless(s, d *sigen.T) bool {
	if s.Kind != d.Kind {
		return true
	}
	switch s.Kind {
	case sigen.List:
		return lossless(s.Elem[0], d.Elem[0])
	case sigen.Map:
		return lossless(s.Elem[0], d.Elem[0]) && lossless(s.Elem[1], d.Elem[1])
	case sigen.Struct:
		m := matched(s, d)
		if len(m) != len(s.Fields) {
			return false
		}
		for _, ij := range m {
			if !lossless(s.Elem[ij[0]], d.Elem[ij[1]]) {
				return false
			}
		}
	}
	return true
}

// nameShape tells in which way two different member names resemble each
// other ("" if they do not): equal up to letter case; equal once the
// underscores are removed; equal once the digits are removed; of the same
// length and different only where a letter is not ASCII; one a prefix of the
// other (the last four with letter case ignored).
func nameShape(a, b string) string {
	if a == b {
		return ""
	}
	if strings.EqualFold(a, b) {
		return "case"
	}
	strip := func(s string, drop func(rune) bool) string {
		return strings.Map(func(r rune) rune {
			if drop(r) {
				return -1
			}
			return r
		}, s)
	}
	if us := func(r rune) bool { return r == '_' }; strings.EqualFold(strip(a, us), strip(b, us)) {
		return "underscores"
	}
	if dg := func(r rune) bool { return r >= '0' && r <= '9' }; strings.EqualFold(strip(a, dg), strip(b, dg)) {
		return "digits"
	}
	if ra, rb := []rune(strings.ToLower(a)), []rune(strings.ToLower(b)); len(ra) == len(rb) {
		only := true
		for i := range ra {
			if ra[i] != rb[i] && ra[i] < utf8.RuneSelf && rb[i] < utf8.RuneSelf {
				only = false
			}
		}
		if only {
			return "unicode-letters"
		}
	}
	if la, lb := strings.ToLower(a), strings.ToLower(b); strings.HasPrefix(la, lb) || strings.HasPrefix(lb, la) {
		return "prefix"
	}
	return ""
}

// similarNames: the first resemblance (other than letter case) among the
// member names of the two structs taken together.
func similarNames(s, d *sigen.T, shapes ...string) string {
	names := append(append([]string(nil), s.Fields...), d.Fields...)
	for _, want := range shapes {
		for a := range names {
			for b := a + 1; b < len(names); b++ {
				if nameShape(names[a], names[b]) == want {
					return want
				}
			}
		}
	}
	return ""
}

// memberClass names the struct pair for the fingerprint.
func memberClass(s, d *sigen.T) string {
	if sh := similarNames(s, d, "underscores", "digits", "unicode-letters"); sh != "" {
		return "struct-names-differing-in-" + sh
	}
	embedded := false
	for _, t := range []*sigen.T{s, d} {
		for i, n := range t.Fields {
			if !exported(n) {
				return "struct-with-unexported-member"
			}
			if e := t.Elem[i]; e.Kind == sigen.Struct && e.Name == n {
				embedded = true
			}
		}
	}
	if embedded {
		return "struct-with-embedded-member"
	}
	if s.Kind == sigen.Struct && d.Kind == sigen.Struct {
		for _, ij := range matched(s, d) {
			if s.Fields[ij[0]] != d.Fields[ij[1]] {
				return "struct-names-differing-in-case"
			}
		}
	}
	if similarNames(s, d, "prefix") != "" {
		return "struct-names-prefix-of-one-another"
	}
	return "struct"
}

// ------------------------------------------------------------ walker

// sameOpt describes the destination variable the conversion was made into.
//
// pre is the value the destination node held BEFORE the conversion, where the
// walker still knows it: at the root and below struct members (the zero value
// for a fresh destination); it is the invalid Value below a slice element or
// a map entry (the implementation may reuse the old element or make a new
// one; nothing is promised about which). populated: the destination held
// data; a map may then keep entries whose key the source does not have.
type sameOpt struct {
	pre       reflect.Value
	populated bool
}

// same compares got with the source value src (of type st). Forward
// (back == false): got is of the destination type dt and every judged member
// (matched) is compared with its counterpart; an EXPORTED member of a
// destination struct that has no counterpart must still hold what it held
// before the conversion (o.pre), where that is known. Round trip
// (back == true): got is of type st again and is compared on the members of
// st that are exported and were matched with a member of dt on the way (the
// others cannot have travelled). where == "" if every element, key and judged
// member of got equals the source's; otherwise it describes the first
// difference, and kind is "length" if that difference is the element count of
// the outermost container, "unmatched" if it is a member without counterpart
// that changed.
//
// Slices: exactly the source's elements, whatever the destination held. Maps:
// every key of the source with the source's value; into a fresh destination
// nothing else; into a populated one, any other key must have been a key of
// the old destination (where known) - the implementation under test merges
// into an existing map as encoding/json does, and the statement says nothing
// about keys the source does not define.
func same(st, dt *sigen.T, src, got reflect.Value, back bool, o sameOpt) (kind string, where string) {
	below := sameOpt{populated: o.populated}
	switch st.Kind {
	case sigen.Atom:
		switch class(st) {
		case "bool":
			if src.Bool() != got.Bool() {
				return "", fmt.Sprintf("bool %v became %v", src.Bool(), got.Bool())
			}
		case "string":
			if src.String() != got.String() {
				return "", fmt.Sprintf("string %q became %q", src.String(), got.String())
			}
		case "integer":
			if src.CanInt() {
				if !got.CanInt() || src.Int() != got.Int() {
					return "", fmt.Sprintf("%v %d became %v", src.Type(), src.Int(), got)
				}
			} else if !got.CanUint() || src.Uint() != got.Uint() {
				return "", fmt.Sprintf("%v %d became %v", src.Type(), src.Uint(), got)
			}
		case "float":
			a, b := src.Float(), got.Float()
			if a != a && b != b {
				return "", ""
			}
			if math.Float64bits(a) != math.Float64bits(b) {
				return "", fmt.Sprintf("%v %v became %v", src.Type(), a, b)
			}
		}
	case sigen.List:
		if src.Len() != got.Len() {
			return "length", fmt.Sprintf("slice of %d elements became %d elements", src.Len(), got.Len())
		}
		for i := 0; i < src.Len(); i++ {
			if k, w := same(st.Elem[0], dt.Elem[0], src.Index(i), got.Index(i), back, below); w != "" {
				return keepUnmatched(k), fmt.Sprintf("[%d]: %s", i, w)
			}
		}
	case sigen.Map:
		if !o.populated && src.Len() != got.Len() {
			return "length", fmt.Sprintf("map of %d entries became %d entries", src.Len(), got.Len())
		}
		used := map[int]bool{}
		gkeys := got.MapKeys()
		for _, k := range src.MapKeys() {
			// the entry of got whose key equals k
			found := -1
			for gi, gk := range gkeys {
				if _, w := same(st.Elem[0], dt.Elem[0], k, gk, back, sameOpt{}); w == "" {
					found = gi
					break
				}
			}
			if found < 0 {
				return "", fmt.Sprintf("key %v is missing from %v", k, got)
			}
			used[found] = true
			if kk, w := same(st.Elem[1], dt.Elem[1], src.MapIndex(k), got.MapIndex(gkeys[found]), back, below); w != "" {
				return keepUnmatched(kk), fmt.Sprintf("[%v]: %s", k, w)
			}
		}
		if len(used) != len(gkeys) && (!o.populated || o.pre.IsValid()) {
			// keys the source does not have: each of them was a key of the
			// old destination
			for gi, gk := range gkeys {
				if used[gi] {
					continue
				}
				old := false
				if o.pre.IsValid() {
					for _, pk := range o.pre.MapKeys() {
						if identical(pk, gk) {
							old = true
							break
						}
					}
				}
				if !old {
					return "length", fmt.Sprintf("key %v is neither a key of the source nor of the old destination: %v", gk, got)
				}
			}
		}
	case sigen.Struct:
		// members that are not exported on the receiving side are not judged
		for _, ij := range matched(st, dt) {
			i, j := ij[0], ij[1]
			g := j
			if back {
				if !exported(st.Fields[i]) {
					continue
				}
				g = i
			}
			sub := below
			if !back && o.pre.IsValid() {
				sub.pre = o.pre.Field(j)
			}
			if k, w := same(st.Elem[i], dt.Elem[j], src.Field(i), got.Field(g), back, sub); w != "" {
				return keepUnmatched(k), fmt.Sprintf(".%s: %s", st.Fields[i], w)
			}
		}
		if !back && o.pre.IsValid() {
			for j, n := range dt.Fields {
				if !exported(n) || counterpart(st, dt, j) >= 0 {
					continue
				}
				if !identical(o.pre.Field(j), got.Field(j)) {
					return "unmatched", fmt.Sprintf(".%s has no counterpart in the source and held %s before the conversion, %s after", n, show(o.pre.Field(j)), show(got.Field(j)))
				}
			}
		}
	}
	return "", ""
}

// keepUnmatched: the kind of a difference found deeper - "length" describes
// the outermost container only.
func keepUnmatched(kind string) string {
	if kind == "unmatched" {
		return kind
	}
	return ""
}

// describe prints what a variable holds, the elements waiting behind the
// length of a slice included.
func describe(v reflect.Value) string {
	s := fmt.Sprintf("%#v", clone(v).Interface())
	if v.Kind() == reflect.Slice && v.Cap() > v.Len() {
		s += fmt.Sprintf(" with capacity %d, behind the length: %#v", v.Cap(), clone(v.Slice(v.Len(), v.Cap())).Interface())
	}
	return clip(s)
}

// show prints a value that may have been read from a member that is not
// exported.
func show(v reflect.Value) string { return clip(fmt.Sprintf("%v", v)) }

// identical: a and b (of one type) hold the same data, element for element
// (floats by bits, NaN equal to NaN; nil and empty containers alike). Only
// reading accessors are used, so members that are not exported are compared
// too.
func identical(a, b reflect.Value) bool {
	switch a.Kind() {
	case reflect.Bool:
		return a.Bool() == b.Bool()
	case reflect.String:
		return a.String() == b.String()
	case reflect.Int8, reflect.Int16, reflect.Int32, reflect.Int64, reflect.Int:
		return a.Int() == b.Int()
	case reflect.Uint8, reflect.Uint16, reflect.Uint32, reflect.Uint64, reflect.Uint:
		return a.Uint() == b.Uint()
	case reflect.Float32, reflect.Float64:
		x, y := a.Float(), b.Float()
		return x != x && y != y || math.Float64bits(x) == math.Float64bits(y)
	case reflect.Slice:
		if a.Len() != b.Len() {
			return false
		}
		for i := 0; i < a.Len(); i++ {
			if !identical(a.Index(i), b.Index(i)) {
				return false
			}
		}
		return true
	case reflect.Map:
		if a.Len() != b.Len() {
			return false
		}
		bk := b.MapKeys()
		for _, k := range a.MapKeys() {
			ok := false
			for _, k2 := range bk {
				if identical(k, k2) && identical(a.MapIndex(k), b.MapIndex(k2)) {
					ok = true
					break
				}
			}
			if !ok {
				return false
			}
		}
		return true
	case reflect.Struct:
		for i := 0; i < a.NumField(); i++ {
			if !identical(a.Field(i), b.Field(i)) {
				return false
			}
		}
		return true
	}
	panic("c20: identical: unsupported kind " + a.Kind().String())
}

// ------------------------------------------------------------ reference conversion

// imageInto is the check's own conversion of x (of type st) into out, a zero
// value of type dt, written from the statement: scalars keep their value,
// slices and maps are rebuilt element by element, a destination member
// receives the image of its counterpart. A destination member WITHOUT
// counterpart is given (a copy of) the distinguished non-zero value of its
// type when fill is set. Only reading accessors are applied to x, and members
// that are not exported are written through their address. It is used to
// build the values that populated destinations hold; the oracle (same) does
// not depend on it.
func (e *env) imageInto(st, dt *sigen.T, x, out reflect.Value, fill bool) {
	if !out.CanSet() {
		out = reflect.NewAt(out.Type(), unsafe.Pointer(out.UnsafeAddr())).Elem()
	}
	switch dt.Kind {
	case sigen.Atom:
		switch class(dt) {
		case "bool":
			out.SetBool(x.Bool())
		case "string":
			out.SetString(x.String())
		case "integer":
			if x.CanInt() {
				out.SetInt(x.Int())
			} else {
				out.SetUint(x.Uint())
			}
		case "float":
			out.SetFloat(x.Float())
		}
	case sigen.List:
		if x.IsNil() {
			return
		}
		out.Set(reflect.MakeSlice(out.Type(), x.Len(), x.Len()))
		for i := 0; i < x.Len(); i++ {
			e.imageInto(st.Elem[0], dt.Elem[0], x.Index(i), out.Index(i), fill)
		}
	case sigen.Map:
		if x.IsNil() {
			return
		}
		out.Set(reflect.MakeMapWithSize(out.Type(), x.Len()))
		for _, k := range x.MapKeys() {
			nk := reflect.New(out.Type().Key()).Elem()
			// members of a KEY that have no counterpart stay zero, as in a
			// key the conversion makes: an old key and a new one that agree
			// on the matched members are then one key
			e.imageInto(st.Elem[0], dt.Elem[0], k, nk, false)
			nv := reflect.New(out.Type().Elem()).Elem()
			e.imageInto(st.Elem[1], dt.Elem[1], x.MapIndex(k), nv, fill)
			out.SetMapIndex(nk, nv)
		}
	case sigen.Struct:
		for j := range dt.Fields {
			i := counterpart(st, dt, j)
			if i >= 0 && exported(dt.Fields[j]) {
				e.imageInto(st.Elem[i], dt.Elem[j], x.Field(i), out.Field(j), fill)
			} else if fill {
				// a copy of the distinguished value: populations share nothing
				m := dt.Elem[j]
				d, ok := e.dist[m.Sig()]
				if !ok {
					d = e.vals(m, 2)[0]
					e.dist[m.Sig()] = d
				}
				setMember(out.Field(j), clone(d))
			}
		}
	}
}

// clone copies x into a new value that shares no memory with it; the spare
// capacity of a slice and the elements waiting there are copied too. Only
// reading accessors are applied to x.
func clone(x reflect.Value) reflect.Value {
	out := reflect.New(x.Type()).Elem()
	cloneInto(x, out)
	return out
}

func cloneInto(x, out reflect.Value) {
	if !out.CanSet() {
		out = reflect.NewAt(out.Type(), unsafe.Pointer(out.UnsafeAddr())).Elem()
	}
	switch x.Kind() {
	case reflect.Bool:
		out.SetBool(x.Bool())
	case reflect.String:
		out.SetString(x.String())
	case reflect.Int8, reflect.Int16, reflect.Int32, reflect.Int64, reflect.Int:
		out.SetInt(x.Int())
	case reflect.Uint8, reflect.Uint16, reflect.Uint32, reflect.Uint64, reflect.Uint:
		out.SetUint(x.Uint())
	case reflect.Float32, reflect.Float64:
		out.SetFloat(x.Float())
	case reflect.Slice:
		if x.IsNil() {
			return
		}
		n := reflect.MakeSlice(x.Type(), x.Len(), x.Cap())
		xf, nf := x.Slice(0, x.Cap()), n.Slice(0, x.Cap())
		for i := 0; i < x.Cap(); i++ {
			cloneInto(xf.Index(i), nf.Index(i))
		}
		out.Set(n)
	case reflect.Map:
		if x.IsNil() {
			return
		}
		out.Set(reflect.MakeMapWithSize(x.Type(), x.Len()))
		for _, k := range x.MapKeys() {
			out.SetMapIndex(clone(k), clone(x.MapIndex(k)))
		}
	case reflect.Struct:
		for i := 0; i < x.NumField(); i++ {
			cloneInto(x.Field(i), out.Field(i))
		}
	default:
		panic("c20: clone: unsupported kind " + x.Kind().String())
	}
}

// spare cuts every slice of v that holds two elements or more down to its
// first element WITHOUT giving up the backing array: the old elements stay
// behind the length, where a conversion that grows the slice in place finds
// them again. It reports whether there was such a slice.
func spare(v reflect.Value) bool {
	if !v.CanSet() && v.CanAddr() {
		v = reflect.NewAt(v.Type(), unsafe.Pointer(v.UnsafeAddr())).Elem()
	}
	cut := false
	switch v.Kind() {
	case reflect.Slice:
		for i := 0; i < v.Len(); i++ {
			if spare(v.Index(i)) {
				cut = true
			}
		}
		if v.Len() >= 2 && v.CanSet() {
			v.SetLen(1)
			cut = true
		}
	case reflect.Map:
		for _, k := range v.MapKeys() {
			el := reflect.New(v.Type().Elem()).Elem()
			el.Set(v.MapIndex(k))
			if spare(el) {
				v.SetMapIndex(k, el)
				cut = true
			}
		}
	case reflect.Struct:
		for i := 0; i < v.NumField(); i++ {
			if spare(v.Field(i)) {
				cut = true
			}
		}
	}
	return cut
}

// The values a populated destination holds are the images of three values of
// the SOURCE type (so that they are also values the way back can carry):
var populations = []string{
	"distinguished", // the first value of Val(src): two elements / entries, every member non-zero
	"largest",       // the last value of Val(src): three elements, two crossed entries, the last diagonal struct
	"spare",         // the largest with every slice of two or more elements cut to one element in place (old elements stay behind the length); the middle value of Val(src) where there is no such slice
}

// activePopulations: quick runs the first and the last (between them the old
// destination is longer than, shorter than and as long as the sources, with
// other content); thorough adds the largest.
var activePopulations = []int{0, 2}

func populationNames() string {
	var l []string
	for _, k := range activePopulations {
		l = append(l, populations[k])
	}
	return strings.Join(l, ", ")
}

// populationSource: the value of Val(t) behind population k, and whether it
// is to be cut by spare.
func (e *env) populationSource(t *sigen.T, k int) (reflect.Value, bool) {
	key := t.Sig()
	p, ok := e.pop[key]
	if !ok {
		vals := e.vals(t, 0)
		p.v[0], p.v[1], p.v[2] = vals[0], vals[len(vals)-1], vals[len(vals)-1]
		if !spare(clone(p.v[2])) {
			p.v[2] = vals[len(vals)/2]
		} else {
			p.cut = true
		}
		e.pop[key] = p
	}
	return p.v[k], k == 2 && p.cut
}

// populated builds the two variables of a populated case: the destination of
// the forward conversion (type p.d) and that of the way back (type p.s).
func (e *env) populated(p pair, k int) (fwd, back reflect.Value) {
	src, cut := e.populationSource(p.s, k)
	fwd = reflect.New(e.rtype(p.d))
	e.imageInto(p.s, p.d, src, fwd.Elem(), true)
	back = reflect.New(e.rtype(p.s))
	cloneInto(src, back.Elem())
	if cut {
		spare(fwd.Elem())
		spare(back.Elem())
	}
	return
}

// ------------------------------------------------------------ evaluation

type failure struct {
	clause string // compatible-pair-refused | not-preserved | back-conversion-refused | roundtrip-not-preserved | panic | incompatible-kinds-converted
	detail string
	msg    string // panic message class
	site   string
	length bool // the difference is the element count of the outermost container
}

func (f *failure) key() string { return f.clause + "|" + f.msg + "|" + f.site }

// evalCompatible judges one compatible case. pk < 0: both conversions are
// made into fresh zero values. pk >= 0: into variables that already hold the
// data of population pk (the same variable reused for a second call) - or, for
// a sub-case met while localizing a failure, the part of the parent's
// variables the sub-case is converted into (c.fwd, c.back: never handed to
// the code under test themselves).
func (e *env) evalCompatible(c kase, pk int) *failure {
	p, x := c.p, c.x
	dt, st := e.rtype(p.d), e.rtype(p.s)
	var dst, back reflect.Value
	o := sameOpt{}
	switch {
	case pk >= 0 && c.fwd.IsValid():
		dst, back = reflect.New(dt), reflect.New(st)
		cloneInto(c.fwd, dst.Elem())
		cloneInto(c.back, back.Elem())
		o = sameOpt{pre: c.fwd, populated: true}
	case pk >= 0:
		dst, back = e.populated(p, pk)
		o = sameOpt{pre: clone(dst.Elem()), populated: true}
	default:
		dst, back = reflect.New(dt), reflect.New(st)
		o.pre = reflect.Zero(dt)
	}
	var err error
	g := runner.GuardInline(func() { err = conversion.ConvertFrom(dst.Interface(), x.Interface()) })
	if g.Panic != "" {
		return &failure{"panic", "forward conversion panics: " + g.Panic, runner.MsgClass(g.Panic), g.Site, false}
	}
	if err != nil {
		return &failure{"compatible-pair-refused", err.Error(), "", "", false}
	}
	if k, w := same(p.s, p.d, x, dst.Elem(), false, o); w != "" {
		if k == "unmatched" {
			return &failure{"unmatched-member-changed", w, "", "", false}
		}
		return &failure{"not-preserved", w, "", "", k == "length"}
	}
	if !e.backOK(p) {
		// the way back would store into a member that is not exported
		e.backSkipped++
		return nil
	}
	g = runner.GuardInline(func() { err = conversion.ConvertFrom(back.Interface(), dst.Elem().Interface()) })
	if g.Panic != "" {
		return &failure{"panic", "back conversion panics: " + g.Panic, runner.MsgClass(g.Panic), g.Site, false}
	}
	if err != nil {
		return &failure{"back-conversion-refused", err.Error(), "", "", false}
	}
	if k, w := same(p.s, p.d, x, back.Elem(), true, sameOpt{populated: pk >= 0}); w != "" {
		return &failure{"roundtrip-not-preserved", w, "", "", k == "length"}
	}
	return nil
}

// evalIncompatible judges one case in which a cross-class pair is reached.
func (e *env) evalIncompatible(p pair, x reflect.Value) *failure {
	dst := reflect.New(e.rtype(p.d))
	var err error
	o := runner.GuardInline(func() { err = conversion.ConvertFrom(dst.Interface(), x.Interface()) })
	if o.Panic != "" {
		return &failure{"panic", "conversion of incompatible kinds panics: " + o.Panic, runner.MsgClass(o.Panic), o.Site, false}
	}
	if err == nil {
		return &failure{"incompatible-kinds-converted", fmt.Sprintf("no error; destination is now %#v", dst.Elem().Interface()), "", "", false}
	}
	return nil
}

// child cases of a compatible case: (pair, value) for every element, key,
// map value and matched member.
type kase struct {
	p         pair
	x         reflect.Value
	fwd, back reflect.Value // populated cases being localized: what the two destination variables hold (else invalid)
}

// withVars gives a populated case its two variables explicitly, so that its
// sub-cases can be given their parts of them.
func (e *env) withVars(c kase, pk int) kase {
	if pk >= 0 && !c.fwd.IsValid() {
		f, b := e.populated(c.p, pk)
		c.fwd, c.back = f.Elem(), b.Elem()
	}
	return c
}

// oldElem: what element i of a destination slice holds when n elements are
// converted into old - the old element where the backing array is kept (also
// behind the length), a zero value where a new array is needed.
func oldElem(old reflect.Value, i, n int) reflect.Value {
	if old.Cap() >= n {
		return old.Slice(0, old.Cap()).Index(i)
	}
	return reflect.New(old.Type().Elem()).Elem()
}

func children(c kase) []kase {
	var out []kase
	s, d := c.p.s, c.p.d
	if s.Kind != d.Kind {
		return nil
	}
	vars := c.fwd.IsValid()
	switch s.Kind {
	case sigen.List:
		for i := 0; i < c.x.Len(); i++ {
			k := kase{p: pair{s.Elem[0], d.Elem[0]}, x: c.x.Index(i)}
			if vars {
				k.fwd, k.back = oldElem(c.fwd, i, c.x.Len()), oldElem(c.back, i, c.x.Len())
			}
			out = append(out, k)
		}
	case sigen.Map:
		// keys and values are converted into new variables
		for _, k := range c.x.MapKeys() {
			kk := kase{p: pair{s.Elem[0], d.Elem[0]}, x: k}
			kv := kase{p: pair{s.Elem[1], d.Elem[1]}, x: c.x.MapIndex(k)}
			if vars {
				kk.fwd, kk.back = reflect.New(c.fwd.Type().Key()).Elem(), reflect.New(c.back.Type().Key()).Elem()
				kv.fwd, kv.back = reflect.New(c.fwd.Type().Elem()).Elem(), reflect.New(c.back.Type().Elem()).Elem()
			}
			out = append(out, kk, kv)
		}
	case sigen.Struct:
		for _, ij := range matched(s, d) {
			if exported(s.Fields[ij[0]]) { // the others cannot be handed to ConvertFrom on their own
				k := kase{p: pair{s.Elem[ij[0]], d.Elem[ij[1]]}, x: c.x.Field(ij[0])}
				if vars {
					k.fwd, k.back = c.fwd.Field(ij[1]), c.back.Field(ij[0])
				}
				out = append(out, k)
			}
		}
	}
	return out
}

// localize descends to the smallest sub-case that fails in the same way.
func localize(c kase, key string, eval func(kase) *failure) kase {
	for {
		moved := false
		for _, ch := range children(c) {
			if f := eval(ch); f != nil && f.key() == key {
				c = ch
				moved = true
				break
			}
		}
		if !moved {
			return c
		}
	}
}

func nodeName(p pair) string {
	if p.s.Kind == sigen.Atom && p.d.Kind == sigen.Atom && class(p.s) == class(p.d) {
		return rtypeNoCache(p.s).String() + "-into-" + rtypeNoCache(p.d).String()
	}
	if class(p.s) == class(p.d) {
		if p.s.Kind == sigen.Struct {
			return memberClass(p.s, p.d)
		}
		return class(p.s)
	}
	return class(p.s) + "-into-" + class(p.d)
}

// ------------------------------------------------------------ driver

type witness struct {
	fp, what      string
	src, dst, val string
	valIndex      int
	popIndex      int // population of the destination variables, -1 = fresh
	family        string
	incomp        bool
	count         int
	size          int
}

type wstate struct {
	e         *env
	evals     int
	pairs     int
	distinct  map[string]struct{}
	wit       map[string]*witness
	perFamily map[string]int
	samples   map[string][]string
}

func newState() *wstate {
	return &wstate{e: newEnv(), distinct: map[string]struct{}{}, wit: map[string]*witness{},
		perFamily: map[string]int{}, samples: map[string][]string{}}
}

func (st *wstate) sample(family, s string) {
	h := fnv.New32a()
	h.Write([]byte(s))
	key := fmt.Sprintf("%08x %s", h.Sum32(), s)
	l := st.samples[family]
	if len(l) == 4 && key >= l[3] {
		return
	}
	l = append(l, key)
	sort.Strings(l)
	if len(l) > 4 {
		l = l[:4]
	}
	st.samples[family] = l
}

func clip(s string) string {
	if len(s) > 200 {
		return s[:200] + "..."
	}
	return s
}

func (st *wstate) record(family string, incomp bool, orig kase, idx, pk int, min kase, f *failure, entry string) {
	detail := nodeName(min.p)
	if f.clause == "panic" {
		detail = f.msg + "@" + f.site + "/" + detail
	}
	clause := f.clause
	if f.length {
		clause += ":length"
	}
	call, into := "ConvertFrom", ""
	if pk >= 0 {
		// a failure that needs a destination holding data has its own entry
		// point in the fingerprint
		call = "ConvertFrom(populated-destination)"
		held := min.fwd
		if !held.IsValid() {
			fwd, _ := st.e.populated(min.p, pk)
			held = fwd.Elem()
		}
		into = fmt.Sprintf(" (population %q: the destination variable held %s; on the way back the variable of the source type held the same data)", populations[pk], describe(held))
	}
	fp := report.FPEscape(call + "/" + detail + "/" + clause)
	what := fmt.Sprintf("%s: ConvertFrom(*%v, %v %s)%s: %s: %s", entry, typeString(rtypeNoCache(min.p.d)), typeString(rtypeNoCache(min.p.s)), clip(fmt.Sprintf("%#v", min.x.Interface())), into, f.clause, clip(f.detail))
	size := orig.p.s.Size()*1000 + len(fmt.Sprintf("%#v", orig.x.Interface()))
	w, ok := st.wit[fp]
	cand := &witness{fp, what, orig.p.s.Sig(), orig.p.d.Sig(), fmt.Sprintf("%#v", orig.x.Interface()), idx, pk, family, incomp, 1, size}
	if !ok {
		st.wit[fp] = cand
		return
	}
	if size < w.size || size == w.size && cand.src+cand.dst+cand.val < w.src+w.dst+w.val {
		cand.count = w.count
		*w = *cand
	}
	w.count++
}

type job struct {
	family    string
	p         pair
	incomp    bool
	populated bool // compatible pairs converted into variables that already hold data
}

func (st *wstate) do(j job) {
	st.pairs++
	vals := st.e.vals(j.p.s, 0)
	pks := []int{-1}
	if j.populated {
		pks = activePopulations
	}
	for idx, x := range vals {
		if j.incomp && !reachesCrossClass(j.p, x) {
			continue
		}
		for _, pk := range pks {
			st.evals++
			st.perFamily[j.family]++
			out := st.judge(j.family, j.incomp, kase{p: j.p, x: x}, idx, pk)
			st.distinct[shapePair(j.p)+" => "+out] = struct{}{}
			if idx == 0 && pk <= 0 {
				st.sample(j.family, fmt.Sprintf("%v -> %v, e.g. %s => %s", typeString(st.e.rtype(j.p.s)), typeString(st.e.rtype(j.p.d)), clip(fmt.Sprintf("%#v", x.Interface())), out))
			}
		}
	}
}

// judge evaluates one case, localizes a failure and records it; it returns
// the outcome class.
func (st *wstate) judge(family string, incomp bool, c kase, idx, pk int) string {
	var f *failure
	if incomp {
		f = st.e.evalIncompatible(c.p, c.x)
	} else {
		f = st.e.evalCompatible(c, pk)
	}
	if f == nil {
		return "ok"
	}
	out := f.clause
	if pk >= 0 {
		// a failure that does not need the populated destination is the
		// business of the family this one repeats (same pair, same value,
		// fresh destination): it is reported there, under the plain entry
		if f0 := st.e.evalCompatible(c, -1); f0 != nil && f0.key() == f.key() {
			return out
		}
	}
	min := c
	if !incomp {
		min = localize(st.e.withVars(c, pk), f.key(), func(k kase) *failure { return st.e.evalCompatible(k, pk) })
		if f2 := st.e.evalCompatible(min, pk); f2 != nil && f2.key() == f.key() {
			f = f2
		}
	} else {
		min = st.e.localizeIncompatible(c, f.key())
		if f2 := st.e.evalIncompatible(min.p, min.x); f2 != nil && f2.key() == f.key() {
			f = f2
		}
	}
	st.record(family, incomp, c, idx, pk, min, f, "family "+family)
	return out
}

// shapePair abstracts a pair for the distinct count: the two constructor
// trees with integer atoms reduced to their width class.
func shapePair(p pair) string { return p.s.Sig() + ">" + p.d.Sig() }

// reachesCrossClass: the cross-class node of an incompatible pair is only
// reached when the containers on the way hold at least one element; it is
// reached as soon as ONE element, entry or matched member leads to it.
func reachesCrossClass(p pair, x reflect.Value) bool {
	if class(p.s) != class(p.d) {
		return true
	}
	switch p.s.Kind {
	case sigen.List:
		for i := 0; i < x.Len(); i++ {
			if reachesCrossClass(pair{p.s.Elem[0], p.d.Elem[0]}, x.Index(i)) {
				return true
			}
		}
	case sigen.Map:
		for _, k := range x.MapKeys() {
			if !sameTree(p.s.Elem[0], p.d.Elem[0]) && reachesCrossClass(pair{p.s.Elem[0], p.d.Elem[0]}, k) {
				return true
			}
			if !sameTree(p.s.Elem[1], p.d.Elem[1]) && reachesCrossClass(pair{p.s.Elem[1], p.d.Elem[1]}, x.MapIndex(k)) {
				return true
			}
		}
	case sigen.Struct:
		for _, ij := range matched(p.s, p.d) {
			i, j := ij[0], ij[1]
			if !sameTree(p.s.Elem[i], p.d.Elem[j]) && reachesCrossClass(pair{p.s.Elem[i], p.d.Elem[j]}, x.Field(i)) {
				return true
			}
		}
	}
	return false
}

func sameTree(a, b *sigen.T) bool { return a.Sig() == b.Sig() }

// localizeIncompatible descends to the smallest sub-case that holds the
// cross-class node and is still converted without an error: if the bare
// cross-class pair is refused correctly, the container that swallowed the
// refusal is the culprit.
func (e *env) localizeIncompatible(c kase, key string) kase {
	for {
		moved := false
		for _, ch := range children(c) {
			if sameTree(ch.p.s, ch.p.d) || !reachesCrossClass(ch.p, ch.x) {
				continue
			}
			if f := e.evalIncompatible(ch.p, ch.x); f != nil && f.key() == key {
				c = ch
				moved = true
				break
			}
		}
		if !moved {
			return c
		}
	}
}

// incompatiblePairs: representatives of every ordered pair of different kind
// classes, alone and nested once inside each container position.
func incompatiblePairs() []pair {
	reps := map[string][]*sigen.T{
		"bool":    atoms("b"),
		"string":  atoms("s"),
		"integer": atoms("cCiIlL"),
		"float":   atoms("fd"),
		"slice":   {sigen.L(sigen.A('i')), sigen.L(sigen.A('s')), sigen.L(sigen.A('C'))},
		"map":     {sigen.M(sigen.A('s'), sigen.A('i')), sigen.M(sigen.A('i'), sigen.A('s'))},
		"struct":  {sigen.St("S", []string{"A"}, sigen.A('i')), sigen.St("S", []string{"A", "B"}, sigen.A('s'), sigen.A('d'))},
	}
	classes := []string{"bool", "string", "integer", "float", "slice", "map", "struct"}
	var base []pair
	for _, a := range classes {
		for _, b := range classes {
			if a == b {
				continue
			}
			for _, s := range reps[a] {
				for _, d := range reps[b] {
					base = append(base, pair{s, d})
				}
			}
		}
	}
	out := append([]pair(nil), base...)
	k := sigen.A('s')
	for _, p := range base {
		out = append(out, pair{sigen.L(p.s), sigen.L(p.d)})
		out = append(out, pair{sigen.M(k, p.s), sigen.M(k, p.d)})
		if p.s.Comparable() && p.d.Comparable() {
			out = append(out, pair{sigen.M(p.s, k), sigen.M(p.d, k)})
		}
		out = append(out, pair{sigen.St("S", []string{"A", "B"}, k, p.s), sigen.St("S", []string{"A", "B"}, k, p.d)})
	}
	return out
}

// ------------------------------------------------------------ struct-member families

var zooMissing []string

func zooT(key string) *sigen.T {
	t, ok := zooTrees[key]
	if !ok {
		zooMissing = append(zooMissing, key)
		return sigen.St("S", nil)
	}
	return t
}

var positions = []string{"first", "middle", "last"}

var specialKinds = []string{"bool", "slice", "map", "struct", "blank", "embstruct", "embscalar"}

// place puts the special member first / in the middle / last among a and b.
func place[X any](pos string, special, a, b X) []X {
	switch pos {
	case "first":
		return []X{special, a, b}
	case "middle":
		return []X{a, special, b}
	}
	return []X{a, b, special}
}

func wideOf(narrow bool) (byte, byte) {
	if narrow {
		return 'i', 'f'
	}
	return 'l', 'd'
}

// plain: the struct {A; B} of a payload with exported members only.
func plainAB(narrow bool, payload string) (a, b *sigen.T) {
	n, f := wideOf(narrow)
	switch payload {
	case "composite":
		return sigen.L(sigen.A(n)), sigen.M(sigen.A('s'), sigen.A(f))
	case "nested":
		return sigen.St("S", []string{"P", "Q"}, sigen.A(n), sigen.A('s')), sigen.A('s')
	}
	return sigen.A(n), sigen.A('s')
}

func plain(narrow bool, payload string) *sigen.T {
	a, b := plainAB(narrow, payload)
	return sigen.St("S", []string{"A", "B"}, a, b)
}

func flavour(narrow bool) string {
	if narrow {
		return "narrow"
	}
	return "wide"
}

type specialT struct {
	t                  *sigen.T
	pos, kind, payload string
}

// specials: every zoo struct of a flavour with one special member that has
// no counterpart on the other side.
func specials(narrow bool) []specialT {
	var out []specialT
	for _, pl := range []string{"scalar", "composite", "nested"} {
		for _, k := range specialKinds {
			if pl != "scalar" && k != "bool" {
				continue
			}
			for _, pos := range positions {
				out = append(out, specialT{zooT("special/" + flavour(narrow) + "/" + pos + "/" + k + "/" + pl), pos, k, pl})
			}
		}
	}
	return out
}

// the four kinds of the unexported source member v / exported destination
// member V, as (source, destination) trees.
func matchedKinds() map[string]pair {
	i, l := sigen.A('i'), sigen.A('l')
	return map[string]pair{
		"bool":   {sigen.A('b'), sigen.A('b')},
		"slice":  {sigen.L(i), sigen.L(l)},
		"map":    {sigen.M(sigen.A('s'), i), sigen.M(sigen.A('s'), l)},
		"struct": {sigen.St("S", []string{"P"}, i), sigen.St("S", []string{"P"}, l)},
	}
}

var matchedKindNames = []string{"bool", "slice", "map", "struct"}

// otherClasses: one representative type of every kind class except that of t.
func otherClasses(t *sigen.T) []*sigen.T {
	var out []*sigen.T
	for _, r := range []*sigen.T{sigen.A('b'), sigen.A('s'), sigen.A('l'), sigen.A('d'), sigen.L(sigen.A('l')),
		sigen.M(sigen.A('s'), sigen.A('l')), sigen.St("S", []string{"P"}, sigen.A('l'))} {
		if class(r) != class(t) {
			out = append(out, r)
		}
	}
	return out
}

// structMemberBase enumerates the un-nested pairs of the struct-member
// families and counts them per group.
func structMemberBase() (compat, incomp []pair, groups map[string]int) {
	groups = map[string]int{}
	addC := func(g string, p pair) { compat = append(compat, p); groups[g]++ }
	addI := func(g string, p pair) { incomp = append(incomp, p); groups[g]++ }
	s, l, i := sigen.A('s'), sigen.A('l'), sigen.A('i')
	narrow, wide := specials(true), specials(false)

	// 1. special member without counterpart: destination only, source only, both
	for _, d := range wide {
		addC("dst-only", pair{plain(true, d.payload), d.t})
	}
	for _, n := range narrow {
		addC("src-only", pair{n.t, plain(false, n.payload)})
	}
	for _, n := range narrow {
		for _, d := range wide {
			if n.payload != d.payload || n.kind == "blank" && d.kind == "blank" { // "_" would be its own counterpart
				continue
			}
			addC("both-sides", pair{n.t, d.t})
		}
	}
	// the same with ONE matched exported member of another kind class
	for _, d := range wide {
		if d.payload != "scalar" {
			continue
		}
		for _, c := range otherClasses(l) {
			addI("dst-only/A-crossed", pair{sigen.St("S", []string{"A", "B"}, c, s), d.t})
		}
		for _, c := range otherClasses(s) {
			addI("dst-only/B-crossed", pair{sigen.St("S", []string{"A", "B"}, i, c), d.t})
		}
	}
	for _, n := range narrow {
		if n.payload != "scalar" {
			continue
		}
		for _, c := range otherClasses(i) {
			addI("src-only/A-crossed", pair{n.t, sigen.St("S", []string{"A", "B"}, c, s)})
		}
		for _, c := range otherClasses(s) {
			addI("src-only/B-crossed", pair{n.t, sigen.St("S", []string{"A", "B"}, l, c)})
		}
	}

	// 2. unexported source member v, exported destination member V
	mk := matchedKinds()
	for _, k := range matchedKindNames {
		for _, ps := range positions {
			src := zooT("matched/narrow/" + ps + "/" + k)
			for _, pd := range positions {
				addC("v-into-V", pair{src, sigen.St("S", place(pd, "V", "A", "B"), place(pd, mk[k].d, l, s)...)})
			}
			for _, c := range otherClasses(mk[k].s) {
				addI("v-into-V/crossed", pair{src, sigen.St("S", place(ps, "V", "A", "B"), place(ps, c, l, s)...)})
			}
		}
	}

	// 3. embedded exported struct E
	pq := func(n byte) *sigen.T { return sigen.St("S", []string{"P", "Q"}, sigen.A(n), s) }
	memberE := func(narrow bool, pos string) *sigen.T { // an ordinary member called E
		n, _ := wideOf(narrow)
		return sigen.St("S", place(pos, "E", "A", "B"), place(pos, pq(n), sigen.A(n), s)...)
	}
	for _, ps := range positions {
		for _, pd := range positions {
			addC("E-embedded-both", pair{zooT("embedded/narrow/" + ps), zooT("embedded/wide/" + pd)})
		}
		addC("E-member-into-embedded", pair{memberE(true, ps), zooT("embedded/wide/" + ps)})
		addC("E-embedded-into-member", pair{zooT("embedded/narrow/" + ps), memberE(false, ps)})
		addC("E-embedded-dst-only", pair{plain(true, "scalar"), zooT("embedded/wide/" + ps)})
		addC("E-embedded-src-only", pair{zooT("embedded/narrow/" + ps), plain(false, "scalar")})
		for _, c := range otherClasses(pq('l')) {
			addI("E-embedded/crossed", pair{zooT("embedded/narrow/" + ps), sigen.St("S", place(ps, "E", "A", "B"), place(ps, c, l, s)...)})
			addI("E-embedded/crossed", pair{sigen.St("S", place(ps, "E", "A", "B"), place(ps, c, i, s)...), zooT("embedded/wide/" + ps)})
		}
		// a member of E of another class
		addI("E-embedded/P-crossed", pair{zooT("embedded/narrow/" + ps), sigen.St("S", place(ps, "E", "A", "B"), place(ps, sigen.St("S", []string{"P", "Q"}, s, s), l, s)...)})
		addI("E-embedded/P-crossed", pair{sigen.St("S", place(ps, "E", "A", "B"), place(ps, sigen.St("S", []string{"P", "Q"}, s, s), i, s)...), zooT("embedded/wide/" + ps)})
	}

	// 4. exported members whose names differ only in letter case (of a
	// letter that is not the first one; ASCII and not)
	for _, names := range [][2]string{{"Ab", "AB"}, {"AB", "Ab"}, {"FrameId", "FrameID"}, {"FrameID", "FrameId"}, {"Aé", "AÉ"}, {"AÉ", "Aé"}} {
		for _, ps := range positions {
			src := sigen.St("S", place(ps, names[0], "A", "B"), place(ps, i, i, s)...)
			for _, pd := range positions {
				addC("case", pair{src, sigen.St("S", place(pd, names[1], "A", "B"), place(pd, l, l, s)...)})
			}
			for _, c := range otherClasses(i) {
				addI("case/crossed", pair{src, sigen.St("S", place(ps, names[1], "A", "B"), place(ps, c, l, s)...)})
			}
		}
	}

	// 5. member names that resemble each other WITHOUT being the same name
	for _, np := range namePairs {
		lead := np.shape == "underscore-leading"
		// two-in-one: both members on both sides, each receives its own value
		for _, kind := range nameKindNames {
			k := nameKinds[kind]
			for _, so := range []string{"xzy", "yzx"} {
				var src *sigen.T
				if lead {
					src = zooT("names/lead/two/" + so + "/" + kind)
				} else {
					src = sigen.St("S", order3(so, np.x, "Z", np.y), order3(so, k[0].s, s, k[1].s)...)
				}
				for _, do := range []string{"xzy", "yzx"} {
					if lead { // the destination holds Ab only (Z, Ab / Ab, Z): it could not store into _Ab
						o2 := map[string]string{"xzy": "zx", "yzx": "xz"}[do]
						addC("names/two-in-one", pair{src, sigen.St("S", order2(o2, np.y, "Z"), order2(o2, k[1].d, s)...)})
						continue
					}
					addC("names/two-in-one", pair{src, sigen.St("S", order3(do, np.x, "Z", np.y), order3(do, k[0].d, s, k[1].d)...)})
				}
			}
		}
		// one-each-side: X (Y) in the source only, Y (X) in the destination
		// only - they are different names: the pair is converted without an
		// error, also when X and Y are of different kind classes, Z arrives,
		// and the destination member keeps what it held
		for _, kind := range []string{"ints", "crossed"} {
			for _, names := range [][2]string{{np.x, np.y}, {np.y, np.x}} {
				for _, do := range []string{"xz", "zx"} {
					srcT, dstT := i, l
					if kind == "crossed" {
						srcT, dstT = s, sigen.L(l)
					}
					src := sigen.St("S", []string{names[0], "Z"}, srcT, s)
					dst := sigen.St("S", order2(do, names[1], "Z"), order2(do, dstT, s)...)
					if !exported(names[0]) {
						src = zooT("names/lead/src/" + kind)
					}
					if !exported(names[1]) {
						dst = zooT("names/lead/dst/" + do + "/" + kind)
					}
					addC("names/one-each-side", pair{src, dst})
				}
			}
		}
	}
	return
}

// namePairs: two member names X, Y that are different names (also with
// letter case ignored) and resemble each other.
var namePairs = []struct{ x, y, shape string }{
	{"Frame_id", "FrameId", "underscore-inner"},
	{"Tag_s", "Tags", "underscore-inner"},
	{"X_1", "X1", "underscore-before-digit"},
	{"Ab_", "Ab", "underscore-trailing"},
	{"A_b", "A__b", "underscore-doubled"},
	{"Frame_id", "FrameID", "underscore-and-case"},
	{"_Ab", "Ab", "underscore-leading"}, // _Ab is not exported: statically declared types
	{"A1", "A2", "digit"},
	{"A1", "A01", "digit-leading-zero"},
	{"A1", "A", "digit-suffix"},
	{"Aé", "Ae", "unicode-diacritic"},
	{"Aé", "Aè", "unicode-two-diacritics"},
	{"Äb", "Ab", "unicode-first-letter"},
	{"Tag", "Tags", "prefix"},
	{"Ab", "Abc", "prefix"},
}

func namePairsText() string {
	var l []string
	for _, np := range namePairs {
		l = append(l, fmt.Sprintf("%s / %s (%s)", np.x, np.y, np.shape))
	}
	return strings.Join(l, ", ")
}

// nameKinds: the types of the members X and Y of a two-in-one pair, as
// (source, destination) trees.
var nameKindNames = []string{"ints", "mixed", "nested"}

var nameKinds = map[string][2]pair{
	"ints":   {{sigen.A('i'), sigen.A('l')}, {sigen.A('i'), sigen.A('l')}},
	"mixed":  {{sigen.A('s'), sigen.A('s')}, {sigen.L(sigen.A('c')), sigen.L(sigen.A('i'))}},
	"nested": {{sigen.St("S", []string{"P"}, sigen.A('i')), sigen.St("S", []string{"P"}, sigen.A('l'))}, {sigen.M(sigen.A('s'), sigen.A('i')), sigen.M(sigen.A('s'), sigen.A('l'))}},
}

// order3 arranges x, z, y as "xzy" or "yzx"; order2 arranges x, z as "xz" or
// "zx".
func order3[X any](o string, x, z, y X) []X {
	if o == "yzx" {
		return []X{y, z, x}
	}
	return []X{x, z, y}
}

func order2[X any](o string, x, z X) []X {
	if o[0] == 'z' {
		return []X{z, x}
	}
	return []X{x, z}
}

// nest puts a pair at every position of a container: slice element, map
// value, map key (when both types are comparable and no two source values
// can collide in the destination), member of a struct (same order / permuted
// with an extra destination member).
func nest(p pair, compat bool) []pair {
	s := sigen.A('s')
	out := []pair{
		{sigen.L(p.s), sigen.L(p.d)},
		{sigen.M(s, p.s), sigen.M(s, p.d)},
	}
	if p.s.Comparable() && p.d.Comparable() && (!compat || lossless(p.s, p.d)) {
		out = append(out, pair{sigen.M(p.s, s), sigen.M(p.d, s)})
	}
	out = append(out, pair{sigen.St("S", []string{"A", "B"}, p.s, s), sigen.St("S", []string{"A", "B"}, p.d, s)})
	if compat {
		out = append(out, pair{sigen.St("S", []string{"A", "B"}, s, p.s), sigen.St("S", []string{"B", "Extra", "A"}, p.d, s, s)})
	}
	return out
}

// nestAll: the pairs, each of them nested once, and (levels == 2) each of
// those nested once more.
func nestAll(base []pair, compat bool, levels int) []pair {
	out := append([]pair(nil), base...)
	cur := base
	for n := 0; n < levels; n++ {
		var next []pair
		for _, p := range cur {
			next = append(next, nest(p, compat)...)
		}
		out = append(out, next...)
		cur = next
	}
	return out
}

func main() {
	chk := report.New("C20", "exploration")
	loadZoo()
	if len(os.Args) >= 3 && os.Args[1] == "--replay" {
		os.Exit(replay(os.Args[2]))
	}
	tier := report.Tier()
	start := time.Now()
	budget := 90 * time.Second // a cap, not a target: ~10 s on an idle machine, ~35 s with the machine four times oversubscribed
	workers := 8
	if tier == "thorough" {
		budget = 480 * time.Second
		workers = 16
	}
	if n := runtime.NumCPU(); workers > n {
		workers = n
	}
	deadline := start.Add(budget)

	P0 := scalarPairs()
	R0 := pickPairs("bb", "ss", "il", "cc", "CI", "fd", "LL")
	R1 := pickPairs("ss", "il", "fd")
	type famDef struct {
		name, universe string
		pairs          []pair
		incomp         bool
	}
	var fams []famDef
	fams = append(fams, famDef{"compatible:depth0", "the 25 scalar pairs: bool, string, every widening among int8/16/32/64 and among uint8/16/32/64, float32/float64 (identity included)", P0, false})
	fams = append(fams, famDef{"compatible:depth1", "slices, maps (25 key pairs x 25 value pairs), one-member structs (plain / extra dst member) and two-member structs (same order / permuted / permuted + extra dst member) over the 25 scalar pairs",
		composites(P0, P0, P0), false})
	d1r := composites(R0, R0, R0)
	keys2 := append(append([]pair(nil), R0...), structOnly(composites(R1, nil, R1))...)
	fams = append(fams, famDef{"compatible:depth2", "slices, maps, structs whose components are the 7 scalar pairs {bool, string, int32->int64, int8->int8, uint8->uint32, float32->float64, uint64->uint64} or any depth-1 composite over them; " +
		"map keys: those scalars or a struct over {string, int32->int64, float32->float64}; second member of two-member structs: one of the 7 scalar pairs",
		composites(append(append([]pair(nil), R0...), d1r...), keys2, R0), false})
	d1s := composites(R1, R1, R1)
	d2s := composites(append(append([]pair(nil), R1...), d1s...), R1, R1)
	fams = append(fams, famDef{"compatible:depth3", "slices, maps, structs whose components are {string, int32->int64, float32->float64} or any composite of depth <= 2 over them (map keys and second struct members: those 3 scalar pairs)",
		composites(append(append([]pair(nil), R1...), d2s...), R1, R1), false})
	fams = append(fams, famDef{"compatible:depth2-wide", "as depth2 but components range over all 25 scalar pairs and every depth-1 composite over the 7 scalar pairs; second struct member over all 25 scalar pairs",
		composites(append(append([]pair(nil), P0...), d1r...), keys2, P0), false})
	if tier == "thorough" {
		d2r := composites(append(append([]pair(nil), R0...), d1r...), R0, R0)
		fams = append(fams, famDef{"compatible:depth3-wide", "slices, maps, structs whose components are the 7 scalar pairs or any composite of depth <= 2 over them (map keys and second struct members: the 7 scalar pairs)",
			composites(append(append([]pair(nil), R0...), d2r...), R0, R0), false})
	}
	fams = append(fams, famDef{"incompatible", "ordered pairs of different kind classes among bool / string / integer(int8,uint8,int32,uint32,int64,uint64) / float(32,64) / slice / map / struct, " +
		"alone and nested as slice element, map value, map key and struct member of an otherwise identical container; only values that reach the cross-class node (non-empty containers)",
		incompatiblePairs(), true})

	// struct-member families
	levels := 1
	if tier == "thorough" {
		levels = 2
	}
	smC, smI, smGroups := structMemberBase()
	gnames := make([]string, 0, len(smGroups))
	for g := range smGroups {
		gnames = append(gnames, g)
	}
	sort.Strings(gnames)
	var gtxt []string
	for _, g := range gnames {
		gtxt = append(gtxt, fmt.Sprintf("%s %d", g, smGroups[g]))
	}
	nesting := "each pair alone and nested once as slice element, map value (string key), map key (comparable, collision-free types only), member of a struct"
	if levels == 2 {
		nesting = "each pair alone, nested once and nested twice (every combination of slice element, map value, map key where comparable and collision-free, member of a struct)"
	}
	smText := "struct members that reflect.StructOf cannot build (statically declared types, zoo_gen.go) and member-name shapes: " +
		"payload members A (int32 -> int64) and B (string) plus ONE special member placed first / middle / last. " +
		"dst-only, src-only, both-sides: the special member has no counterpart; kinds {unexported bool, []int32, map[string]int32, struct{P int32}, blank _ int32, embedded struct of an unexported type, embedded scalar of an unexported type} " +
		"(kind bool also with payload A []int32 -> []int64, B map[string]float32 -> map[string]float64 and with payload A struct{P; unexported bool; Q} nested); both-sides = every source shape x every destination shape of the same payload except blank x blank. " +
		"v-into-V: unexported source member v {bool, []int32, map[string]int32, struct{P int32}} whose counterpart is the exported destination member V (3 x 3 positions; forward conversion only, the way back would store into v). " +
		"E-*: embedded exported struct E{P; Q} on both sides (3 x 3 positions), embedded on one side with an ordinary member E on the other, embedded without counterpart. " +
		"case: exported member Ab whose counterpart is AB, FrameId / FrameID, Aé / AÉ and conversely (3 x 3 positions). " +
		"names/*: two member names X, Y that are DIFFERENT names, also with letter case ignored, and resemble each other - " + namePairsText() + " - with the string member Z. " +
		"names/two-in-one: the source holds X, Z, Y in the order xzy / yzx and so does the destination (2 x 2 orders), members of kinds {X int32 -> int64, Y int32 -> int64; X string, Y []int8 -> []int32; X struct{P int32} -> struct{P int64}, Y map[string]int32 -> map[string]int64}; " +
		"each member must receive its own value (for _Ab, which is not exported, the source is a statically declared type and the destination holds Ab and Z only). " +
		"names/one-each-side: source {X, Z} and destination {Y, Z} / {Z, Y}, and the same with X and Y exchanged, X and Y both integers (int32, int64) or of two kind classes (string, []int64): X and Y are not counterparts, " +
		"so the pair is converted without an error, Z arrives and the destination member keeps what it held. " +
		"groups (un-nested pairs): " + strings.Join(gtxt, ", ") + "; " + nesting
	fams = append(fams, famDef{"struct-members:compatible", smText + ". Oracle: every exported destination member with a counterpart (same name, letter case ignored) equals it, an exported destination member WITHOUT counterpart still holds what it held before (where the check knows that: at the root and below struct members), " +
		"the round trip recovers the exported matched members of the source, no error, no panic; the content of members that are not exported is not judged",
		nestAll(smC, true, levels), false})
	fams = append(fams, famDef{"struct-members:incompatible", "the same struct shapes in which ONE matched member pair (A, B, v/V, E, a member of E, Ab/AB) is of two different kind classes (the destination or source member ranges over one representative of each of the 6 other classes), " + nesting + "; only values that reach the cross-class node. Oracle: refused with an error, no panic",
		nestAll(smI, false, levels), true})
	if tier == "thorough" {
		activePopulations = []int{0, 1, 2}
	}
	// populated destinations: the compatible families once more, every
	// conversion made into a variable that already holds data
	populatedFam := map[string]bool{}
	for _, f := range append([]famDef(nil), fams...) {
		// sub-universe: not the -wide families in quick, not depth3-wide in
		// thorough (they widen the SCALAR pairs at the leaves, which the
		// reuse of a variable does not depend on; depth3-wide alone would be
		// 8.8 million more evaluations)
		if f.incomp || strings.HasSuffix(f.name, "-wide") && tier != "thorough" || f.name == "compatible:depth3-wide" {
			continue
		}
		name := "populated:" + strings.TrimPrefix(strings.TrimPrefix(f.name, "compatible:"), "struct-members:compatible")
		if f.name == "struct-members:compatible" {
			name = "populated:struct-members"
		}
		populatedFam[name] = true
		fams = append(fams, famDef{name, "every type pair and every value of family " + f.name + ", each converted " + fmt.Sprint(len(activePopulations)) + " times (populations of this tier: " + populationNames() + "): the destination variable (and, on the way back, the variable of the source type) already holds data, as when one variable receives two conversions in a row. " +
			"The data are the check's own images (reference conversion written from the statement, every destination member without counterpart set to a non-zero value; in map keys such members stay zero) of values of the source type: " +
			"distinguished (first value of Val(src): two elements / two entries / all members non-zero), largest (last value of Val(src): three elements, two crossed entries, last diagonal struct), " +
			"spare (the largest with every slice of two or more elements, at any depth, cut to its first element in place, so that the old elements wait behind the length; the middle value of Val(src) for types without such a slice). " +
			"Against the 2-, 0- (nil and empty), 1- and 3-element sources of Val the old destination is thus longer, shorter and of equal length, holds other keys and the same keys with other values, and non-zero members everywhere. " +
			"Oracle: the statement's, whatever the variable held - a slice has exactly the source's elements; every key of the source is present with the source's value; every matched member equals its counterpart; " +
			"a member without counterpart still holds the old data (root and below struct members); the way back recovers the source; no error, no panic. " +
			"A map key that only the OLD destination had may stay (see assumptions) but no other key may appear",
			f.pairs, false})
	}
	for _, k := range zooMissing {
		chk.EngineError("zoo_gen.go has no type for shape %s (re-run go generate in checks/c20)", k)
	}
	for _, f := range fams {
		if !strings.HasPrefix(f.name, "struct-members:") {
			continue
		}
		for _, p := range f.pairs {
			if !inUniverse(p.s, p.d) {
				chk.EngineError("family %s: pair %v is outside the judged universe (an unexported destination member has a counterpart, or two members are equal up to letter case)", f.name, p)
			}
		}
	}
	if len(zooMissing) > 0 {
		os.Exit(chk.Finish(nil, nil))
	}
	// the cheap families first: the deadline, if it ever strikes, strikes the
	// widest compatible family
	sort.SliceStable(fams, func(a, b int) bool {
		wide := func(n string) bool { return strings.HasSuffix(n, "-wide") }
		return !wide(fams[a].name) && wide(fams[b].name)
	})

	states := make([]*wstate, workers)
	for i := range states {
		states[i] = newState()
	}
	type famRes struct {
		name, universe string
		pairs          int
		complete       bool
		wall           float64
	}
	var res []famRes
	for _, f := range fams {
		t0 := time.Now()
		f := f
		ok := runner.Each(workers, deadline, func(emit func(job) bool) {
			for _, p := range f.pairs {
				if !emit(job{f.name, p, f.incomp, populatedFam[f.name]}) {
					return
				}
			}
		}, func(w int, j job) { states[w].do(j) })
		res = append(res, famRes{f.name, f.universe, len(f.pairs), ok, time.Since(t0).Seconds()})
	}

	total := newState()
	for _, st := range states {
		total.evals += st.evals
		total.pairs += st.pairs
		total.e.backSkipped += st.e.backSkipped
		for k := range st.distinct {
			total.distinct[k] = struct{}{}
		}
		for k, v := range st.perFamily {
			total.perFamily[k] += v
		}
		for _, w := range st.wit {
			cur, ok := total.wit[w.fp]
			if !ok {
				c := *w
				total.wit[w.fp] = &c
				continue
			}
			n := cur.count + w.count
			if w.size < cur.size || w.size == cur.size && w.src+w.dst+w.val < cur.src+cur.dst+cur.val {
				*cur = *w
			}
			cur.count = n
		}
	}
	// distinct non-trivial: composite pairs only
	nontrivial := 0
	for k := range total.distinct {
		if strings.ContainsAny(k, "[{(") {
			nontrivial++
		}
	}
	var samples []interface{}
	for _, f := range fams {
		var all []string
		for _, st := range states {
			all = append(all, st.samples[f.name]...)
		}
		sort.Strings(all)
		n := 0
		for i, s := range all {
			if i > 0 && s == all[i-1] {
				continue
			}
			if n == 3 {
				break
			}
			n++
			samples = append(samples, f.name+": "+s[9:])
		}
	}

	fps := make([]string, 0, len(total.wit))
	for fp := range total.wit {
		fps = append(fps, fp)
	}
	sort.Strings(fps)
	for _, fp := range fps {
		w := total.wit[fp]
		// The oracle is deterministic, but the code under test ranges over Go
		// maps, so a defect may depend on the iteration order: the witness is
		// re-run 20 times; it is reported when the same failure was observed
		// again at least once (a wrong conversion result observed twice is
		// not a fluke); never seen again = engine error, not a violation.
		again := 0
		for i := 0; i < 20; i++ {
			if reproduces(w) {
				again++
			}
		}
		if again == 0 {
			chk.EngineError("violation %s on %s -> %s value #%d did not reproduce in 20 re-runs", fp, w.src, w.dst, w.valIndex)
			continue
		}
		if again < 20 {
			w.what += fmt.Sprintf(" [order-dependent: reproduced in %d of 20 re-runs]", again)
		}
		rep := map[string]interface{}{"family": w.family, "src_type": w.src, "dst_type": w.dst, "value_index": w.valIndex, "population_index": w.popIndex, "value": w.val,
			"cases_with_this_fingerprint": w.count, "note": "types are written in signature syntax (c C w W i I l L = int8 uint8 int16 uint16 int32 uint32 int64 uint64, f d = float32 float64, b bool, s string); a struct whose name is not S is the statically declared Go type of that name in checks/c20/zoo_gen.go (member blank = _)",
			"src_go_type": typeString(rtypeNoCache(mustTree(w.src))), "dst_go_type": typeString(rtypeNoCache(mustTree(w.dst))),
			"replay_cmd": "./check.sh C20 quick --replay <this file>"}
		for i := 0; i < w.count; i++ {
			chk.Report(fp, fmt.Sprintf("%s [%d cases share this fingerprint]", w.what, w.count), rep)
		}
	}

	exhaustive := true
	var famCov []interface{}
	for _, r := range res {
		if !r.complete {
			exhaustive = false
		}
		famCov = append(famCov, map[string]interface{}{"family": r.name, "universe": r.universe, "type_pairs": r.pairs, "evaluations": total.perFamily[r.name], "complete": r.complete, "wall_s": r.wall})
	}
	dfCases, dfEvals := familyDecodeFrom(chk)
	mlCases := familyMemberless(chk)
	piCases := familyPlatformInts(chk)
	c2Cases := familyCall2(chk)
	cov := map[string]interface{}{
		"proxy_call2":             map[string]interface{}{"cases": c2Cases, "what": "Proxy.Call2 (bus/proxy.go) against a canned client whose reply is the encoding of a value of the REMOTE return type: identical and renamed structures, members in another order (floats, ints, widened ints, strings; alone, in a list, in a map, nested, at the outer level): the caller's value holds, member by member name, what the reply held"},
		"platform_sized_integers": map[string]interface{}{"cases": piCases, "what": "Go's int and uint (64 bits on this platform) as source and destination next to the sized kinds of the same signedness, alone and in slices, maps and structs, boundary values, both directions"},
		"memberless_structs":      map[string]interface{}{"cases": mlCases, "what": "struct types without members (struct{}, the set idiom map[K]struct{}, marker members) alone, in slices, maps and structs: conversion into the same / widened type succeeds, the way back recovers the source"},
		"decode_from_histories": map[string]interface{}{"histories": dfCases, "calls": dfEvals,
			"what": "conversion.DecodeFrom (the entry point bus/proxy.go uses for replies) over 4 wire/destination type pairs holding maps and slices, every ordered history of <= 3 sources out of 3-5 per pair, each call into a fresh destination; the result of every call must be what ConvertFrom gives for that source alone"},
		"evaluations":                          total.evals,
		"type_pairs":                           total.pairs,
		"static_struct_types":                  len(statics),
		"resembling_name_pairs":                len(namePairs),
		"populations_per_case":                 len(activePopulations),
		"populated_destination_evaluations":    populatedEvals(total.perFamily),
		"struct_member_groups_unnested_pairs":  smGroups,
		"compatible_cases_judged_forward_only": total.e.backSkipped,
		"distinct_nontrivial":                  nontrivial,
		"rule": "every (src type, dst type) pair of each family x every value of Val(src) (booleans both; integers {byte-asymmetric pattern, min, max, -1, 0, 1, 0x7f}; floats {1.5, a second finite value, max, smallest denormal, 0, -0, Inf, NaN}; " +
			"strings {\"q\", \"\", multi-byte, 255 bytes, \"a\"}; slices {two elements, nil, empty, every single element, three elements}; maps {two entries, nil, empty, every single entry of the key/value diagonal, two entries crossed}; " +
			"structs {all distinguished, one member at a time over its whole set, the diagonal} - members of a SOURCE struct that are not exported are given their values too (written through their address); nested positions capped to the first 6 values at level 1 and 3 deeper). " +
			"Families populated:* repeat every case of a compatible family once per population of the destination variables (populations of this tier: " + populationNames() + "; an evaluation = one (type pair, value, population) triple, forward and back conversion). " +
			"Member names of the struct-member families include " + fmt.Sprint(len(namePairs)) + " pairs of resembling names (underscores, digits, letters that are not ASCII, prefixes; listed in the family text). " +
			"compatible_cases_judged_forward_only = cases of the v-into-V group, whose way back would store into the unexported member v: only the forward conversion is judged there. " +
			"distinct_nontrivial = number of distinct (src type, dst type, outcome class) triples in which the types are composite (scalar pairs are counted as trivial)",
		"distinct_pair_outcomes_including_scalars": len(total.distinct),
		"samples":                samples,
		"exhaustive":             exhaustive,
		"families":               famCov,
		"per_family_evaluations": total.perFamily,
		"workers":                workers,
	}
	assumptions := []string{
		"small-scope hypothesis: recursion mistakes of convertSlice / convertMap / convertStruct show on containers of depth <= 2 (3 in thorough) holding 0..3 elements",
		"destination variables: fresh zero values (all families) and variables that already hold data (populated:* families, 2 populations per case in quick and 3 in thorough, see the family texts; the repetition leaves out family depth2-wide in quick and depth3-wide in thorough, which only widen the set of scalar pairs at the leaves); other populations - destinations sharing memory with the source, pointers inside - are not explored",
		"maps are converted by the implementation INTO the existing map (as encoding/json does) and ConvertFrom documents that the destination 'can be populated with default values': a key that only the old destination held is therefore allowed to stay, with whatever value (its survival also shows on the way back, where extra keys are accepted for the same reason); what is judged is that every key of the source is there with the source's value and that no key appears from nowhere. " +
			"Below a slice element or a map entry nothing is assumed about reuse of the old element: members without counterpart and old map keys are not judged there. Slices have no such latitude: a slice must have exactly the source's elements",
		"a destination member without counterpart in the source is left as it was (fresh destination: zero); this is how 'structs matched by field name' is made observable for names that are NOT the same name (names/one-each-side): if the implementation matched them, the member would change or the pair would be refused",
		"not judged (the statement is silent): narrowing and cross-signedness integer pairs, struct members without a counterpart, the content of struct members that are not exported, nil versus empty containers, NaN payload bits, pointer / interface kinds (int and uint: family platform_sized_integers, same-signedness pairs only)",
		"struct members are matched by name with letter case ignored (the repository's TestStruct expects exported E to receive unexported e); not in the universe: an unexported (or blank) destination member that HAS a counterpart in the source, and structs with two members equal up to letter case",
		"conversion.DecodeFrom is exercised with call histories over 4 type pairs only (family decode_from_histories: what an earlier call leaves behind must not reach a later one); its codec half is C02/C03's business. EncodeInto is not exercised (no caller in the repository)",
	}
	os.Exit(chk.Finish(cov, assumptions))
}

// recognize reads a type back from its signature (replay files, witnesses).
// It is sigen.Recognize with Go's identifiers for member names: the member
// names of this check's universe may start with an underscore and hold
// letters that are not ASCII, which the signature grammar does not admit.
func recognize(sig string) (*sigen.T, bool) {
	p := &sigParser{s: sig}
	t := p.typ(0)
	if t == nil || p.i != len(sig) {
		return nil, false
	}
	return t, true
}

type sigParser struct {
	s string
	i int
}

func (p *sigParser) peek() byte {
	if p.i < len(p.s) {
		return p.s[p.i]
	}
	return 0
}

func (p *sigParser) ident() string {
	j := p.i
	for p.i < len(p.s) {
		r, n := utf8.DecodeRuneInString(p.s[p.i:])
		if !(r == '_' || unicode.IsLetter(r) || p.i > j && unicode.IsDigit(r)) {
			break
		}
		p.i += n
	}
	return p.s[j:p.i]
}

func (p *sigParser) typ(depth int) *sigen.T {
	if depth > 64 {
		return nil
	}
	c := p.peek()
	switch {
	case c != 0 && strings.IndexByte(sigen.AllAtoms, c) >= 0:
		p.i++
		return sigen.A(c)
	case c == '[':
		p.i++
		e := p.typ(depth + 1)
		if e == nil || p.peek() != ']' {
			return nil
		}
		p.i++
		return sigen.L(e)
	case c == '{':
		p.i++
		k := p.typ(depth + 1)
		if k == nil {
			return nil
		}
		v := p.typ(depth + 1)
		if v == nil || p.peek() != '}' {
			return nil
		}
		p.i++
		return sigen.M(k, v)
	case c == '(':
		p.i++
		var m []*sigen.T
		for p.peek() != ')' {
			e := p.typ(depth + 1)
			if e == nil {
				return nil
			}
			m = append(m, e)
		}
		p.i++
		if p.peek() != '<' {
			return nil // no tuples in this check
		}
		p.i++
		name := p.ident()
		if name == "" {
			return nil
		}
		var fields []string
		for p.peek() == ',' {
			p.i++
			f := p.ident()
			if f == "" {
				return nil
			}
			fields = append(fields, f)
		}
		if p.peek() != '>' || len(fields) != len(m) {
			return nil
		}
		p.i++
		return sigen.St(name, fields, m...)
	}
	return nil
}

func populatedEvals(per map[string]int) int {
	n := 0
	for k, v := range per {
		if strings.HasPrefix(k, "populated:") {
			n += v
		}
	}
	return n
}

func mustTree(sig string) *sigen.T {
	t, ok := recognize(sig)
	if !ok {
		panic("c20: unparsable signature " + sig)
	}
	return t
}

func findCase(src, dst string, idx int) (kase, bool) {
	s, ok1 := recognize(src)
	d, ok2 := recognize(dst)
	if !ok1 || !ok2 {
		return kase{}, false
	}
	e := newEnv()
	vals := e.vals(s, 0)
	if idx < 0 || idx >= len(vals) {
		return kase{}, false
	}
	return kase{p: pair{s, d}, x: vals[idx]}, true
}

func reproduces(w *witness) bool {
	c, ok := findCase(w.src, w.dst, w.valIndex)
	if !ok {
		return false
	}
	st := newState()
	st.doOne(w.family, w.incomp, c, w.valIndex, w.popIndex)
	_, ok = st.wit[w.fp]
	return ok
}

// doOne judges a single case (used for confirmation and replay).
func (st *wstate) doOne(family string, incomp bool, c kase, idx, pk int) {
	if family == "replay" {
		incomp = !compatible(c.p)
	}
	st.judge(family, incomp, c, idx, pk)
}

// compatible: same class everywhere (used by replay to choose the oracle).
func compatible(p pair) bool {
	if class(p.s) != class(p.d) {
		return false
	}
	switch p.s.Kind {
	case sigen.List:
		return compatible(pair{p.s.Elem[0], p.d.Elem[0]})
	case sigen.Map:
		return compatible(pair{p.s.Elem[0], p.d.Elem[0]}) && compatible(pair{p.s.Elem[1], p.d.Elem[1]})
	case sigen.Struct:
		for _, ij := range matched(p.s, p.d) {
			if !compatible(pair{p.s.Elem[ij[0]], p.d.Elem[ij[1]]}) {
				return false
			}
		}
	}
	return true
}

func replay(path string) int {
	data, err := os.ReadFile(path)
	if err != nil {
		fmt.Println(err)
		return 2
	}
	var f struct {
		Replay struct {
			Src   string `json:"src_type"`
			Dst   string `json:"dst_type"`
			Index int    `json:"value_index"`
			Pop   *int   `json:"population_index"`
		} `json:"replay"`
	}
	if err := json.Unmarshal(data, &f); err != nil {
		fmt.Println(err)
		return 2
	}
	c, ok := findCase(f.Replay.Src, f.Replay.Dst, f.Replay.Index)
	if !ok {
		fmt.Println("cannot rebuild the case")
		return 2
	}
	st := newState()
	pk := -1
	if f.Replay.Pop != nil && *f.Replay.Pop >= 0 && *f.Replay.Pop < len(populations) {
		pk = *f.Replay.Pop
	}
	st.doOne("replay", false, c, f.Replay.Index, pk)
	fmt.Printf("ConvertFrom(*%v, %v %#v)\n", typeString(rtypeNoCache(c.p.d)), typeString(rtypeNoCache(c.p.s)), c.x.Interface())
	if pk >= 0 {
		fwd, _ := st.e.populated(c.p, pk)
		fmt.Printf("  into a destination variable holding the %s population %#v\n", populations[pk], fwd.Elem().Interface())
	}
	if len(st.wit) == 0 {
		fmt.Println("  no violation")
		return 0
	}
	for fp, w := range st.wit {
		fmt.Printf("  VIOLATION %s\n    %s\n", fp, w.what)
	}
	return 1
}
