package main

import (
	"bytes"
	"fmt"
	"reflect"

	"github.com/lugu/qiloop/type/conversion"
	"github.com/lugu/qiloop/type/encoding"

	"verif/internal/report"
)

// familyDecodeFrom drives conversion.DecodeFrom - the entry point the proxies
// use for replies whose wire type differs from the caller's type - with
// HISTORIES: several values of one wire type decoded one after the other into
// fresh destinations. The value delivered for the k-th source must be the one
// ConvertFrom gives for that source alone, whatever was decoded before
// (nothing of an earlier reply may leak into a later one).
func familyDecodeFrom(chk *report.Checker) (cases, evals int) {
	type w1 = map[string]int32
	type d1 = map[string]int64
	type w2 struct {
		M map[string]int32
		L []int32
		S string
		N uint8
	}
	type d2 struct {
		M map[string]int64
		L []int64
		S string
		N uint32
	}
	type w3 = []map[int32]string
	type d3 = []map[int64]string
	type w4 struct {
		In struct {
			K map[uint8]float32
		}
		Tail []string
	}
	type d4 struct {
		In struct {
			K map[uint32]float64
		}
		Tail []string
	}
	fams := []struct {
		name    string
		wire    reflect.Type
		dst     reflect.Type
		sources []interface{}
	}{
		{"map", reflect.TypeOf(w1{}), reflect.TypeOf(d1{}), []interface{}{
			w1{"a": 1, "b": -2, "c": 3}, w1{"d": 4}, w1{}, w1{"a": 9}, w1{"b": 5, "e": 6}}},
		{"struct-with-map-and-slice", reflect.TypeOf(w2{}), reflect.TypeOf(d2{}), []interface{}{
			w2{w1{"a": 1, "b": 2}, []int32{1, 2, 3}, "first", 7}, w2{w1{"c": 3}, []int32{4}, "", 0}, w2{w1{}, nil, "third", 255}, w2{w1{"a": 5}, []int32{6, 7}, "x", 1}}},
		{"slice-of-maps", reflect.TypeOf(w3{}), reflect.TypeOf(d3{}), []interface{}{
			w3{{1: "a", 2: "b"}, {3: "c"}}, w3{{4: "d"}}, w3{}, w3{{}, {5: "e"}}}},
		{"nested-struct", reflect.TypeOf(w4{}), reflect.TypeOf(d4{}), []interface{}{
			w4{struct{ K map[uint8]float32 }{map[uint8]float32{1: 1.5, 2: 2.5}}, []string{"p", "q"}},
			w4{struct{ K map[uint8]float32 }{map[uint8]float32{3: 3.5}}, []string{"r"}},
			w4{struct{ K map[uint8]float32 }{map[uint8]float32{}}, nil}}},
	}
	enc := func(v interface{}) ([]byte, error) {
		var b bytes.Buffer
		err := encoding.NewEncoder(encoding.DefaultCap(), &b).Encode(v)
		return b.Bytes(), err
	}
	norm := func(v reflect.Value) string { return fmt.Sprintf("%v", v.Interface()) } // fmt prints maps sorted, nil and empty alike
	for _, f := range fams {
		// every ordered history of length <= 3 over the sources
		var hists [][]int
		n := len(f.sources)
		for a := 0; a < n; a++ {
			hists = append(hists, []int{a})
			for b := 0; b < n; b++ {
				hists = append(hists, []int{a, b})
				for c := 0; c < n; c++ {
					hists = append(hists, []int{a, b, c})
				}
			}
		}
		for _, h := range hists {
			cases++
			for step, si := range h {
				src := f.sources[si]
				data, err := enc(src)
				if err != nil {
					chk.EngineError("DecodeFrom family: cannot encode %v: %v", src, err)
					return
				}
				want := reflect.New(f.dst)
				if err := conversion.ConvertFrom(want.Interface(), src); err != nil {
					chk.EngineError("DecodeFrom family: ConvertFrom(%v) refused: %v", src, err)
					return
				}
				got := reflect.New(f.dst)
				evals++
				var derr error
				func() {
					defer func() {
						if p := recover(); p != nil {
							derr = fmt.Errorf("panic: %v", p)
						}
					}()
					derr = conversion.DecodeFrom(encoding.NewDecoder(encoding.DefaultCap(), bytes.NewReader(data)), got.Interface(), f.wire)
				}()
				clause := ""
				switch {
				case derr != nil:
					clause = "refused"
				case norm(got.Elem()) != norm(want.Elem()):
					clause = "not-preserved"
				}
				if clause != "" {
					pos := "first-call"
					if step > 0 {
						pos = "after-earlier-calls"
					}
					var earlier []string
					for _, e := range h[:step] {
						earlier = append(earlier, fmt.Sprintf("%v", f.sources[e]))
					}
					chk.Report(report.FPEscape(fmt.Sprintf("DecodeFrom/%s/%s/%s", f.name, clause, pos)),
						fmt.Sprintf("conversion.DecodeFrom of the encoding of %v (wire type %v) into a fresh %v gives %s (error %v), ConvertFrom of the same value gives %s; decoded before in this history: %v",
							src, f.wire, f.dst, norm(got.Elem()), derr, norm(want.Elem()), earlier),
						map[string]interface{}{"family": "DecodeFrom", "wire_type": f.wire.String(), "destination": f.dst.String(), "history": earlier, "source": fmt.Sprintf("%v", src), "hex": fmt.Sprintf("%x", data)})
					break
				}
			}
		}
	}
	return
}
