package main

import (
	"fmt"
	"math"
	"reflect"

	"github.com/lugu/qiloop/type/conversion"

	"verif/internal/report"
)

// familyPlatformInts: Go's platform-sized integer kinds int and uint (64 bits
// here), which no wire signature produces but which Go callers pass: they are
// integers like the sized ones - same signedness and a destination at least as
// wide is a compatible pair, alone and inside slices, maps and structs.
func familyPlatformInts(chk *report.Checker) (cases int) {
	type sU struct {
		A uint
		B string
	}
	type dU struct {
		A uint64
		B string
	}
	type sI struct {
		A int
		N []int
	}
	type dI struct {
		A int64
		N []int64
	}
	cs := []struct {
		name string
		src  interface{}
		dst  reflect.Type
	}{
		{"uint-into-uint", uint(5), reflect.TypeOf(uint(0))},
		{"uint-into-uint/max", uint(math.MaxUint64), reflect.TypeOf(uint(0))},
		{"uint-into-uint64", uint(math.MaxUint64), reflect.TypeOf(uint64(0))},
		{"uint64-into-uint", uint64(math.MaxUint64 - 1), reflect.TypeOf(uint(0))},
		{"uint32-into-uint", uint32(math.MaxUint32), reflect.TypeOf(uint(0))},
		{"uint8-into-uint", uint8(200), reflect.TypeOf(uint(0))},
		{"int-into-int", int(-5), reflect.TypeOf(int(0))},
		{"int-into-int/min", int(math.MinInt64), reflect.TypeOf(int(0))},
		{"int-into-int64", int(math.MaxInt64), reflect.TypeOf(int64(0))},
		{"int64-into-int", int64(math.MinInt64 + 1), reflect.TypeOf(int(0))},
		{"int32-into-int", int32(math.MinInt32), reflect.TypeOf(int(0))},
		{"int8-into-int", int8(-128), reflect.TypeOf(int(0))},
		{"slice-of-uint", []uint{0, 1, math.MaxUint64}, reflect.TypeOf([]uint64{})},
		{"slice-of-int", []int{0, -1, math.MaxInt64}, reflect.TypeOf([]int64{})},
		{"map-keyed-by-uint", map[uint]string{1: "a", math.MaxUint64: "b"}, reflect.TypeOf(map[uint64]string{})},
		{"map-of-int", map[string]int{"a": -1, "b": math.MaxInt64}, reflect.TypeOf(map[string]int64{})},
		{"struct-with-uint", sU{7, "x"}, reflect.TypeOf(dU{})},
		{"struct-with-int-and-slice", sI{-7, []int{1, -2}}, reflect.TypeOf(dI{})},
	}
	conv := func(dst reflect.Value, src interface{}) (err error) {
		defer func() {
			if p := recover(); p != nil {
				err = fmt.Errorf("panic: %v", p)
			}
		}()
		return conversion.ConvertFrom(dst.Interface(), src)
	}
	for _, c := range cs {
		cases++
		dst := reflect.New(c.dst)
		if err := conv(dst, c.src); err != nil {
			chk.Report(report.FPEscape("ConvertFrom/platform-sized-integer/compatible-pair-refused/"+c.name),
				fmt.Sprintf("ConvertFrom(*%v, %T %v) is refused: %v (same signedness, destination at least as wide)", c.dst, c.src, c.src, err),
				map[string]interface{}{"family": "platform-ints", "case": c.name, "source": fmt.Sprintf("%#v", c.src), "destination": c.dst.String()})
			continue
		}
		if fmt.Sprintf("%v", dst.Elem().Interface()) != fmt.Sprintf("%v", c.src) {
			chk.Report(report.FPEscape("ConvertFrom/platform-sized-integer/not-preserved/"+c.name),
				fmt.Sprintf("%T %v converts into %v %v", c.src, c.src, c.dst, dst.Elem().Interface()),
				map[string]interface{}{"family": "platform-ints", "case": c.name, "source": fmt.Sprintf("%#v", c.src), "destination": c.dst.String()})
			continue
		}
		back := reflect.New(reflect.TypeOf(c.src))
		if err := conv(back, dst.Elem().Interface()); err != nil || fmt.Sprintf("%v", back.Elem().Interface()) != fmt.Sprintf("%v", c.src) {
			chk.Report(report.FPEscape("ConvertFrom/platform-sized-integer/way-back/"+c.name),
				fmt.Sprintf("%T %v converts into %v but the way back gives %v, %v", c.src, c.src, c.dst, back.Elem().Interface(), err),
				map[string]interface{}{"family": "platform-ints", "case": c.name, "source": fmt.Sprintf("%#v", c.src), "destination": c.dst.String()})
		}
	}
	return
}
