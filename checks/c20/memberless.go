package main

import (
	"fmt"
	"reflect"

	"github.com/lugu/qiloop/type/conversion"

	"verif/internal/report"
)

// familyMemberless: struct types WITHOUT members (struct{}: the set idiom
// map[K]struct{}, marker types, placeholders) at every position. A value of
// such a type is compatible with itself, and a container of them with the
// widened container: the conversion succeeds, keeps lengths and keys, and
// converting back recovers the source.
func familyMemberless(chk *report.Checker) (cases int) {
	type E struct{}
	type withMarker struct {
		A int32
		M E
		B string
	}
	type withMarkerWide struct {
		A int64
		M E
		B string
	}
	cs := []struct {
		name string
		src  interface{}
		dst  reflect.Type
	}{
		{"empty-struct", E{}, reflect.TypeOf(E{})},
		{"anonymous-empty-struct", struct{}{}, reflect.TypeOf(struct{}{})},
		{"named-into-anonymous", E{}, reflect.TypeOf(struct{}{})},
		{"slice-of-empty-structs", []E{{}, {}, {}}, reflect.TypeOf([]E{})},
		{"empty-slice-of-empty-structs", []E{}, reflect.TypeOf([]E{})},
		{"set-idiom", map[string]struct{}{"a": {}, "b": {}}, reflect.TypeOf(map[string]struct{}{})},
		{"set-idiom-widened-key", map[int32]struct{}{1: {}, -2: {}, 3: {}}, reflect.TypeOf(map[int64]struct{}{})},
		{"marker-member", withMarker{7, E{}, "x"}, reflect.TypeOf(withMarkerWide{})},
		{"marker-member-in-slice", []withMarker{{1, E{}, "a"}, {2, E{}, "b"}}, reflect.TypeOf([]withMarkerWide{})},
		{"map-of-marker-structs", map[string]withMarker{"k": {3, E{}, "c"}}, reflect.TypeOf(map[string]withMarkerWide{})},
		{"nested-empty", struct{ In struct{ Deep E } }{}, reflect.TypeOf(struct{ In struct{ Deep E } }{})},
	}
	conv := func(dst reflect.Value, src interface{}) (err error) {
		defer func() {
			if p := recover(); p != nil {
				err = fmt.Errorf("panic: %v", p)
			}
		}()
		return conversion.ConvertFrom(dst.Interface(), src)
	}
	for _, c := range cs {
		cases++
		dst := reflect.New(c.dst)
		if err := conv(dst, c.src); err != nil {
			chk.Report(report.FPEscape("ConvertFrom/memberless-struct/compatible-pair-refused/"+c.name),
				fmt.Sprintf("ConvertFrom(*%v, %T %v) is refused: %v (a struct type without members is compatible with itself)", c.dst, c.src, c.src, err),
				map[string]interface{}{"family": "memberless", "case": c.name, "source": fmt.Sprintf("%#v", c.src), "destination": c.dst.String()})
			continue
		}
		back := reflect.New(reflect.TypeOf(c.src))
		if err := conv(back, dst.Elem().Interface()); err != nil {
			chk.Report(report.FPEscape("ConvertFrom/memberless-struct/way-back-refused/"+c.name),
				fmt.Sprintf("%T converts into %v but the way back is refused: %v", c.src, c.dst, err),
				map[string]interface{}{"family": "memberless", "case": c.name, "source": fmt.Sprintf("%#v", c.src), "destination": c.dst.String()})
			continue
		}
		if fmt.Sprintf("%v", back.Elem().Interface()) != fmt.Sprintf("%v", c.src) || reflect.ValueOf(c.src).Kind() != reflect.Struct && reflect.ValueOf(c.src).Len() != dst.Elem().Len() {
			chk.Report(report.FPEscape("ConvertFrom/memberless-struct/not-preserved/"+c.name),
				fmt.Sprintf("%T %v converts into %v and back into %v", c.src, c.src, dst.Elem().Interface(), back.Elem().Interface()),
				map[string]interface{}{"family": "memberless", "case": c.name, "source": fmt.Sprintf("%#v", c.src), "destination": c.dst.String()})
		}
	}
	return
}
