package main

import (
	"bytes"
	"fmt"
	"reflect"
	"sort"
	"strings"

	"github.com/lugu/qiloop/bus"
	"github.com/lugu/qiloop/type/encoding"
	"github.com/lugu/qiloop/type/object"

	"verif/internal/report"
)

// familyCall2 drives the conversion where the property says it is used: Proxy.Call2
// with a remote return signature that differs from the type the caller expects. A
// canned bus.Client answers every call with the encoding of a value of the REMOTE
// type; the destination must receive, member by member NAME, what the remote value
// held (seed C20-17 read the reply positionally whenever the two signatures had the
// same wire layout: min and max of a range swapped silently).
type cannedClient struct {
	reply []byte
}

func (c *cannedClient) Call(cancel <-chan struct{}, serviceID, objectID, methodID uint32, payload []byte) ([]byte, error) {
	return append([]byte(nil), c.reply...), nil
}
func (c *cannedClient) Subscribe(serviceID, objectID, actionID uint32) (func(), chan []byte, error) {
	return nil, nil, fmt.Errorf("not supported")
}
func (c *cannedClient) OnDisconnect(cb func(error)) error      { return nil }
func (c *cannedClient) State(signal string, increment int) int { return 0 }
func (c *cannedClient) Channel() bus.Channel {
	return bus.NewChannel(nil, bus.DefaultCap()) // Call2 only asks for the capabilities
}

type c2case struct {
	name      string
	remoteSig string
	localSig  string
	remote    interface{} // value of the remote Go type
	local     reflect.Type
}

func familyCall2(chk *report.Checker) (cases int) {
	// remote types (what the service declares) and local types (what the caller's
	// generated code declares): same member names, other order / widths / struct names
	type rRange struct{ Max, Min float32 }
	type lRange struct{ Min, Max float32 }
	type rRangeSameOrder struct{ Min, Max float32 }
	type rPoint struct {
		Y int32
		X int32
		L string
	}
	type lPoint struct {
		X int32
		Y int32
		L string
	}
	type lPointWide struct {
		X int64
		Y int64
		L string
	}
	type rPair struct{ B, A string }
	type lPair struct{ A, B string }
	type rOuter struct {
		R rRange
		N uint32
	}
	type lOuter struct {
		R lRange
		N uint32
	}
	type lOuterSwapped struct {
		N uint32
		R lRange
	}
	sigRange := func(n string, order ...string) string { return "(ff)<" + n + "," + strings.Join(order, ",") + ">" }
	sigPoint := func(n, w string, order ...string) string {
		return "(" + w + w + "s)<" + n + "," + strings.Join(order, ",") + ">"
	}
	list := []c2case{
		{"identical", sigRange("Range", "min", "max"), sigRange("Range", "min", "max"), rRangeSameOrder{1.5, 9.25}, reflect.TypeOf(lRange{})},
		{"struct-renamed", sigRange("Range_0", "min", "max"), sigRange("Range", "min", "max"), rRangeSameOrder{1.5, 9.25}, reflect.TypeOf(lRange{})},
		{"members-reordered/floats", sigRange("Range", "max", "min"), sigRange("Range", "min", "max"), rRange{Max: 9.25, Min: 1.5}, reflect.TypeOf(lRange{})},
		{"members-reordered/renamed-struct", sigRange("Range_0", "max", "min"), sigRange("Range", "min", "max"), rRange{Max: 9.25, Min: 1.5}, reflect.TypeOf(lRange{})},
		{"members-reordered/ints", sigPoint("Point", "i", "y", "x", "l"), sigPoint("Point", "i", "x", "y", "l"), rPoint{Y: 7, X: -3, L: "p"}, reflect.TypeOf(lPoint{})},
		{"members-reordered/ints-widened", sigPoint("Point", "i", "y", "x", "l"), sigPoint("Point", "l", "x", "y", "l"), rPoint{Y: 7, X: -3, L: "p"}, reflect.TypeOf(lPointWide{})},
		{"members-reordered/strings", "(ss)<Pair,b,a>", "(ss)<Pair,a,b>", rPair{B: "second", A: "first"}, reflect.TypeOf(lPair{})},
		{"members-reordered/in-list", "[" + sigRange("Range", "max", "min") + "]", "[" + sigRange("Range", "min", "max") + "]", []rRange{{9.25, 1.5}, {4, 2}}, reflect.TypeOf([]lRange{})},
		{"members-reordered/in-map", "{s" + sigRange("Range", "max", "min") + "}", "{s" + sigRange("Range", "min", "max") + "}", map[string]rRange{"k": {9.25, 1.5}}, reflect.TypeOf(map[string]lRange{})},
		{"members-reordered/nested", "(" + sigRange("Range", "max", "min") + "I)<Outer,r,n>", "(" + sigRange("Range", "min", "max") + "I)<Outer,r,n>", rOuter{rRange{9.25, 1.5}, 5}, reflect.TypeOf(lOuter{})},
		{"members-reordered/outer", "(" + sigRange("Range", "max", "min") + "I)<Outer,r,n>", "(I" + sigRange("Range", "min", "max") + ")<Outer,n,r>", rOuter{rRange{9.25, 1.5}, 5}, reflect.TypeOf(lOuterSwapped{})},
	}
	for _, c := range list {
		cases++
		var b bytes.Buffer
		if err := encoding.NewEncoder(encoding.DefaultCap(), &b).Encode(c.remote); err != nil {
			chk.EngineError("Call2 family: cannot encode %v: %v", c.remote, err)
			return
		}
		meta := object.MetaObject{
			Description: "canned",
			Methods: map[uint32]object.MetaMethod{
				100: {Uid: 100, ReturnSignature: c.remoteSig, Name: "get", ParametersSignature: "()"},
			},
			Signals:    map[uint32]object.MetaSignal{},
			Properties: map[uint32]object.MetaProperty{},
		}
		clt := &cannedClient{reply: b.Bytes()}
		dst := reflect.New(c.local)
		var cerr error
		func() {
			defer func() {
				if p := recover(); p != nil {
					cerr = fmt.Errorf("panic: %v", p)
				}
			}()
			cerr = bus.NewProxy(clt, meta, 1, 1).Call2("get", bus.NewParams("()"), bus.NewResponse(c.localSig, dst.Interface()))
		}()
		want, got := flatten(reflect.ValueOf(c.remote)), flatten(dst.Elem())
		clause := ""
		switch {
		case cerr != nil:
			clause = "refused"
		case want != got:
			clause = "not-preserved"
		}
		if clause != "" {
			chk.Report(report.FPEscape("Call2/"+c.name+"/"+clause),
				fmt.Sprintf("Proxy.Call2 with remote return signature %s and expected signature %s: the reply carries %s, the caller's %v received %s (error %v); members are matched by name",
					c.remoteSig, c.localSig, want, c.local, got, cerr),
				map[string]interface{}{"family": "Call2", "remote_signature": c.remoteSig, "expected_signature": c.localSig, "reply_hex": fmt.Sprintf("%x", b.Bytes())})
		}
	}
	return
}

// flatten prints a value with struct members sorted by NAME and numbers printed by
// value, so that two struct types with the same members compare equal whatever the
// order and the widths.
func flatten(v reflect.Value) string {
	switch v.Kind() {
	case reflect.Struct:
		var parts []string
		for i := 0; i < v.NumField(); i++ {
			parts = append(parts, strings.ToLower(v.Type().Field(i).Name)+"="+flatten(v.Field(i)))
		}
		sort.Strings(parts)
		return "{" + strings.Join(parts, " ") + "}"
	case reflect.Slice:
		var parts []string
		for i := 0; i < v.Len(); i++ {
			parts = append(parts, flatten(v.Index(i)))
		}
		return "[" + strings.Join(parts, " ") + "]"
	case reflect.Map:
		var parts []string
		for _, k := range v.MapKeys() {
			parts = append(parts, flatten(k)+":"+flatten(v.MapIndex(k)))
		}
		sort.Strings(parts)
		return "map[" + strings.Join(parts, " ") + "]"
	case reflect.Int, reflect.Int8, reflect.Int16, reflect.Int32, reflect.Int64:
		return fmt.Sprint(v.Int())
	case reflect.Uint, reflect.Uint8, reflect.Uint16, reflect.Uint32, reflect.Uint64:
		return fmt.Sprint(v.Uint())
	case reflect.Float32, reflect.Float64:
		return fmt.Sprint(v.Float())
	}
	return fmt.Sprintf("%v", v.Interface())
}
