// C01 - Message framing is lossless, self-delimiting and matches the
// documented layout.
//
// Bounded-exhaustive exploration of net.Message.Write / net.Message.Read
// against the independent reference model (internal/refmodel), see DESIGN.md
// section 3, C01. Families:
//
//	layout    every header of H x payload length 0..64: bytes written ==
//	          refmodel bytes; read back from the refmodel bytes unfragmented
//	          and one byte per read, in the three end-of-stream modes
//	frag      headers of Hf x payload length 0..64 x every set of <= k cut
//	          positions x three end-of-stream modes
//	seq       all sequences of length <= L over 4 messages x every set of
//	          <= k cuts x three end-of-stream modes
//	large     boundary payload lengths up to the limit
//	refuse    wrong magic / version / type (every invalid byte) x announced
//	          payload size {0,1,5,64,70000,limit} x following bytes; over-limit
//	          sizes
//	history   sequences of calls, some of which must go wrong (refused header,
//	          stream ending inside a message, writer reporting an error), each
//	          history in its own fresh process: see history.go
//	wfrag     Message.Write through a writer doing short writes at every set
//	          of <= k cut positions; payload length != Header.Size
package main

import (
	"bytes"
	"encoding/hex"
	"fmt"
	"io"
	"os"
	"sort"
	"strings"
	"time"

	"github.com/lugu/qiloop/bus/net"

	"verif/internal/enum"
	"verif/internal/refmodel"
)

var run *enum.Run

var fieldAt = []struct {
	off  int
	name string
}{{0, "magic"}, {4, "id"}, {8, "size"}, {12, "version"}, {14, "type"}, {15, "flags"}, {16, "service"}, {20, "object"}, {24, "action"}, {28, "payload"}}

func fieldOf(off int) string {
	name := "magic"
	for _, f := range fieldAt {
		if off >= f.off {
			name = f.name
		}
	}
	return name
}

func payload(n int) []byte {
	p := make([]byte, n)
	for i := range p {
		p[i] = byte((31*i + 7) % 256)
	}
	return p
}

func toNet(h refmodel.Header) net.Header {
	return net.Header{Magic: net.Magic, ID: h.ID, Size: h.Size, Version: h.Version, Type: h.Type, Flags: h.Flags,
		Service: h.Service, Object: h.Object, Action: h.Action}
}

func fromNet(h net.Header) refmodel.Header {
	return refmodel.Header{ID: h.ID, Size: h.Size, Version: h.Version, Type: h.Type, Flags: h.Flags,
		Service: h.Service, Object: h.Object, Action: h.Action}
}

var boundary32 = []uint32{0, 1, 2, 0x7f, 0x80, 0xff, 0x100, 0xffff, 0x10000, 0x7fffffff, 0x80000000, 0xfffffffe, 0xffffffff, 0x01020304}

// headers is the universe H: all 8 types x flags {0,1,0x80,0xff} x the cross
// product over {0, 0xffffffff, a byte-asymmetric value distinct per field}
// for id/service/object/action, plus each field alone over the 14-value
// boundary set.
func headers() []refmodel.Header {
	var out []refmodel.Header
	asym := [4]uint32{0x01020304, 0x05060708, 0x090a0b0c, 0x0d0e0f10}
	pick := func(f, i int) uint32 {
		switch i {
		case 0:
			return 0
		case 1:
			return 0xffffffff
		}
		return asym[f]
	}
	for typ := uint8(1); typ <= 8; typ++ {
		for _, fl := range []uint8{0, 1, 0x80, 0xff} {
			for a := 0; a < 3; a++ {
				for b := 0; b < 3; b++ {
					for c := 0; c < 3; c++ {
						for d := 0; d < 3; d++ {
							out = append(out, refmodel.Header{ID: pick(0, a), Type: typ, Flags: fl,
								Service: pick(1, b), Object: pick(2, c), Action: pick(3, d)})
						}
					}
				}
			}
		}
	}
	base := refmodel.Header{ID: asym[0], Type: 1, Flags: 0, Service: asym[1], Object: asym[2], Action: asym[3]}
	for f := 0; f < 4; f++ {
		for _, v := range boundary32 {
			h := base
			switch f {
			case 0:
				h.ID = v
			case 1:
				h.Service = v
			case 2:
				h.Object = v
			case 3:
				h.Action = v
			}
			out = append(out, h)
		}
	}
	return out
}

// fragHeaders is Hf: one header per message type with byte-asymmetric
// fields.
func fragHeaders(thorough bool) []refmodel.Header {
	var out []refmodel.Header
	for typ := uint8(1); typ <= 8; typ++ {
		out = append(out, refmodel.Header{ID: 0x01020304 + uint32(typ), Type: typ, Flags: typ & 1,
			Service: 0x05060708, Object: 0x090a0b0c, Action: 0x0d0e0f10})
	}
	return out
}

func zone(cuts []int, bounds []int) string {
	// bounds: start offsets of the messages in the stream plus the total
	if len(cuts) == 0 {
		return "nocut"
	}
	set := map[string]bool{}
	for _, c := range cuts {
		z := "payload"
		for i := 0; i+1 < len(bounds); i++ {
			if c >= bounds[i] && c < bounds[i+1] {
				rel := c - bounds[i]
				switch {
				case rel == 0:
					z = "msg-boundary"
				case rel < 28:
					z = "header"
				case rel == 28:
					z = "header-end"
				}
			}
		}
		set[z] = true
	}
	var zs []string
	for z := range set {
		zs = append(zs, z)
	}
	sort.Strings(zs)
	return "cut-in-" + strings.Join(zs, "+")
}

type readCase struct {
	stream []byte
	msgs   [][]byte // refmodel encoding of each message of the stream
	hdrs   []refmodel.Header
	cuts   []int
	mode   enum.EOFMode
	chunk  int
	// reuse: every message of the sequence is read into the same Message
	// value (as a caller looping over a connection would do)
	reuse bool
}

// readAll reads len(msgs) messages through a fragmenting reader and returns
// "" when everything the property demands holds, or the failing clause.
func readAll(rd *enum.FragReader, c *readCase) (clause string, detail string) {
	rd.Reset(c.stream, c.cuts, c.mode, c.chunk)
	consumed := 0
	var shared net.Message
	// every message read so far, as the caller holds it (the struct value
	// with its payload slice): a later Read must not change an earlier one
	kept := make([]net.Message, 0, len(c.msgs))
	for i, enc := range c.msgs {
		var fresh net.Message
		mp := &fresh
		if c.reuse {
			mp = &shared
		}
		err := mp.Read(rd)
		m := *mp
		consumed += len(enc)
		if err != nil {
			return "error", fmt.Sprintf("message %d: Read returned %v", i, err)
		}
		got := fromNet(m.Header)
		if m.Header.Magic != net.Magic {
			return "field-magic", fmt.Sprintf("message %d: magic %#x", i, m.Header.Magic)
		}
		want := c.hdrs[i]
		want.Size = uint32(len(enc) - 28)
		if got != want {
			ge, we := refmodel.EncodeHeader(got), refmodel.EncodeHeader(want)
			for k := range ge {
				if ge[k] != we[k] {
					return "field-" + fieldOf(k), fmt.Sprintf("message %d: header read %+v, written %+v", i, got, want)
				}
			}
		}
		if !bytes.Equal(m.Payload, enc[28:]) {
			return "payload-differs", fmt.Sprintf("message %d: payload read %d bytes %s, written %d bytes", i, len(m.Payload), hexHead(m.Payload), len(enc)-28)
		}
		if rd.Pos() != consumed {
			k := "over"
			if rd.Pos() < consumed {
				k = "under"
			}
			return "consumed-" + k, fmt.Sprintf("message %d: reader position %d after the message, expected exactly %d", i, rd.Pos(), consumed)
		}
		kept = append(kept, m)
		for j, old := range kept[:i] {
			if !bytes.Equal(old.Payload, c.msgs[j][28:]) {
				return "earlier-message-overwritten", fmt.Sprintf("reading message %d changed the payload of message %d read before (now %s, was %s)", i, j, hexHead(old.Payload), hexHead(c.msgs[j][28:]))
			}
		}
	}
	return "", ""
}

func hexHead(b []byte) string {
	if len(b) > 48 {
		return hex.EncodeToString(b[:48]) + "..."
	}
	return hex.EncodeToString(b)
}

func (c *readCase) replay(clause, detail string) map[string]interface{} {
	return map[string]interface{}{
		"entry": "net.Message.Read", "stream_hex": hexHead(c.stream), "stream_len": len(c.stream),
		"messages": len(c.msgs), "cuts": c.cuts, "eof_mode": c.mode.String(), "chunk": c.chunk,
		"observed": detail, "expected": "every message read back identical to the one written, reader position exactly at the end of each message", "clause": clause,
	}
}

func (c *readCase) clone() *readCase {
	d := *c
	d.cuts = append([]int(nil), c.cuts...)
	return &d
}

func bounds(msgs [][]byte) []int {
	b := []int{0}
	for _, m := range msgs {
		b = append(b, b[len(b)-1]+len(m))
	}
	return b
}

func failsWith(c *readCase, clause string) bool {
	cl, _ := readAll(enum.NewFragReader(nil, nil, 0, 0), c)
	return cl == clause
}

// attribute reduces a failing read case by experiment, so that one defect
// gets one fingerprint however many deliveries expose it:
//  1. if the same stream fails when delivered unfragmented with a separate
//     EOF, the delivery is irrelevant ("any-delivery");
//  2. else if it fails unfragmented in the same end-of-stream mode, only the
//     mode matters;
//  3. else the cut set is minimised (cuts are dropped while the failure
//     persists) and the zone of the remaining cuts is reported, together
//     with the end-of-stream mode only if the failure disappears with a
//     separate EOF;
//  4. a failing sequence is reduced to a single message when one of its
//     messages fails alone under the projected delivery.
func attribute(c *readCase, clause string) (string, *readCase) {
	cur := c.clone()
	if len(cur.msgs) > 1 {
		b := bounds(cur.msgs)
		for i := range cur.msgs {
			one := &readCase{stream: cur.msgs[i], msgs: [][]byte{cur.msgs[i]}, hdrs: []refmodel.Header{cur.hdrs[i]}, mode: cur.mode, chunk: cur.chunk}
			for _, ct := range cur.cuts {
				if ct > b[i] && ct < b[i+1] {
					one.cuts = append(one.cuts, ct-b[i])
				}
			}
			if i+1 < len(cur.msgs) && cur.mode != enum.NoEOF {
				one.mode = enum.NoEOF
			}
			if failsWith(one, clause) {
				cur = one
				break
			}
		}
	}
	msgs := "msgs=1"
	if len(cur.msgs) > 1 {
		msgs = "msgs=seq"
	}
	size := "payload=small"
	for _, m := range cur.msgs {
		if len(m)-28 == int(net.MaxPayloadSize) {
			size = "payload=limit"
		} else if len(m)-28 > 64 && size == "payload=small" {
			size = "payload=large"
		}
	}
	try := cur.clone()
	try.cuts, try.chunk, try.mode = nil, 0, enum.EOFSeparate
	if failsWith(try, clause) {
		return "any-delivery/" + size + "/" + msgs, try
	}
	try = cur.clone()
	try.cuts, try.chunk = nil, 0
	if failsWith(try, clause) {
		return "unfragmented/" + try.mode.String() + "/" + size + "/" + msgs, try
	}
	if cur.chunk == 0 {
		for again := true; again; {
			again = false
			for i := range cur.cuts {
				t := cur.clone()
				t.cuts = append(append([]int(nil), cur.cuts[:i]...), cur.cuts[i+1:]...)
				if failsWith(t, clause) {
					cur, again = t, true
					break
				}
			}
		}
	}
	z := zone(cur.cuts, bounds(cur.msgs))
	if cur.chunk > 0 {
		z = fmt.Sprintf("chunk=%d", cur.chunk)
	}
	try = cur.clone()
	try.mode = enum.EOFSeparate
	if failsWith(try, clause) {
		return z + "/" + size + "/" + msgs, try
	}
	return z + "/" + cur.mode.String() + "/" + size + "/" + msgs, cur
}

// checkRead evaluates one read case and files a violation if needed.
func checkRead(family string, rd *enum.FragReader, c *readCase) string {
	clause, _ := readAll(rd, c)
	if clause == "" {
		return "ok"
	}
	detail, min := attribute(c, clause)
	fp := fmt.Sprintf("read/%s/%s", clause, detail)
	if c.reuse {
		// only reached when the same case passes with fresh values
		fp += "/same-Message-value-reused"
	}
	rank := fmt.Sprintf("%09d|%02d|%v|%d", len(min.stream), len(min.cuts), min.cuts, min.mode)
	if run.Fail(fp, rank) {
		_, det := readAll(enum.NewFragReader(nil, nil, 0, 0), min)
		run.Keep(fp, rank, fmt.Sprintf("net.Message.Read over a %d-byte stream (%d message(s), cuts %v, %s): %s", len(min.stream), len(min.msgs), min.cuts, min.mode, det),
			min.replay(clause, det), func() bool { return failsWith(min, clause) })
	}
	return clause
}

// writeMsg serialises with the repository's writer.
func writeMsg(h refmodel.Header, p []byte, w io.Writer) error {
	m := net.NewMessage(toNet(h), p)
	return m.Write(w)
}

func familyLayout(hs []refmodel.Header) {
	fam := run.Family("layout")
	maxLen := 64
	done, all := run.Parallel(len(hs), func(i int) {
		h := hs[i]
		rd := enum.NewFragReader(nil, nil, 0, 0)
		local := map[string]int{}
		for n := 0; n <= maxLen; n++ {
			p := payload(n)
			want := refmodel.EncodeMessage(h, p)
			var buf bytes.Buffer
			err := writeMsg(h, p, &buf)
			run.Eval(fam, 1)
			if err != nil || !bytes.Equal(buf.Bytes(), want) {
				clause, det := "error", fmt.Sprint(err)
				if err == nil {
					got := buf.Bytes()
					clause = "length"
					for k := 0; k < len(got) && k < len(want); k++ {
						if got[k] != want[k] {
							clause = "field-" + fieldOf(k)
							break
						}
					}
					det = fmt.Sprintf("wrote %s, documented layout %s", hexHead(got), hexHead(want))
				}
				fp := "write/layout/" + clause
				hh, pp := h, p
				run.Violation(fp, fmt.Sprintf("%09d|%+v", n, h),
					fmt.Sprintf("net.Message.Write of header %+v with a %d-byte payload: %s", h, n, det),
					map[string]interface{}{"entry": "net.Message.Write", "header": fmt.Sprintf("%+v", h), "payload_len": n, "observed": det,
						"expected_hex": hexHead(want)},
					func() bool {
						var b bytes.Buffer
						e := writeMsg(hh, pp, &b)
						return e != nil || !bytes.Equal(b.Bytes(), refmodel.EncodeMessage(hh, pp))
					})
			}
			c := &readCase{stream: want, msgs: [][]byte{want}, hdrs: []refmodel.Header{h}}
			for _, mode := range enum.EOFModes {
				for _, chunk := range []int{0, 1} {
					c.mode, c.chunk = mode, chunk
					out := checkRead("layout", rd, c)
					run.Eval(fam, 1)
					lb := "len0"
					if n == 1 {
						lb = "len1"
					} else if n > 1 {
						lb = "len2-64"
					}
					local[fmt.Sprintf("layout|type%d|flags%#x|%s|%s|chunk%d|%s", h.Type, h.Flags, lb, mode, chunk, out)]++
				}
			}
		}
		run.DistinctSet(local)
	})
	if !all {
		run.Note("layout: %d of %d headers completed before the deadline", done, len(hs))
	}
	run.Sample(12, map[string]interface{}{"family": "layout", "header": fmt.Sprintf("%+v", hs[len(hs)/2]), "payload_lens": "0..64",
		"wire_hex_len5": hex.EncodeToString(refmodel.EncodeMessage(hs[len(hs)/2], payload(5)))})
}

type fragItem struct {
	h refmodel.Header
	n int
}

func shortsBucket(s int) string {
	if s >= 3 {
		return "3+"
	}
	return fmt.Sprint(s)
}

func familyFrag(hs []refmodel.Header, k int) (cutsets int64) {
	fam := run.Family("frag")
	var items []fragItem
	for n := 0; n <= 64; n++ {
		for _, h := range hs {
			items = append(items, fragItem{h, n})
		}
	}
	var total int64
	for _, it := range items {
		total += int64(enum.CountCutSets(28+it.n, k)) * 3
	}
	var completedSets int64
	counts := make([]int64, len(items))
	done, all := run.Parallel(len(items), func(i int) {
		it := items[i]
		enc := refmodel.EncodeMessage(it.h, payload(it.n))
		rd := enum.NewFragReader(nil, nil, 0, 0)
		c := &readCase{stream: enc, msgs: [][]byte{enc}, hdrs: []refmodel.Header{it.h}}
		local := map[string]int{}
		var n int64
		for _, mode := range enum.EOFModes {
			c.mode = mode
			iter := 0
			enum.CutSets(len(enc), k, func(cuts []int) bool {
				c.cuts = cuts
				out := checkRead("frag", rd, c)
				n++
				local[fmt.Sprintf("frag|type%d|%s|shorts%s|%s|%s", it.h.Type, mode, shortsBucket(rd.Shorts), zone(cuts, []int{0, len(enc)}), out)]++
				iter++
				return iter&0xfff != 0 || !run.Expired()
			})
		}
		counts[i] = n
		run.Eval(fam, int(n))
		run.DistinctSet(local)
	})
	for _, n := range counts {
		completedSets += n
	}
	if !all || run.TimedOut() {
		run.Note("frag: %d of %d (header, payload length) items and %d of %d (cut set, eof mode) cases completed before the deadline (items are ordered by payload length)", done, len(items), completedSets, total)
	}
	run.Sample(12, map[string]interface{}{"family": "frag", "header": fmt.Sprintf("%+v", hs[0]), "payload_len": 5, "cuts": []int{3, 30}, "eof_mode": "data+EOF",
		"meaning": "reads may not cross offsets 3 and 30; the read returning the last byte also returns io.EOF"})
	return completedSets
}

func seqMessages() ([]refmodel.Header, [][]byte) {
	lens := []int{0, 1, 5, 40}
	var hs []refmodel.Header
	var encs [][]byte
	for i, n := range lens {
		h := refmodel.Header{ID: 0x11223300 + uint32(i), Type: uint8(1 + 2*i), Flags: uint8(i & 1), Service: 0xa0a1a2a3 + uint32(i),
			Object: 0xb0b1b2b3 - uint32(i), Action: 0xc0c1c2c3 ^ uint32(i)}
		hs = append(hs, h)
		p := payload(n)
		for j := range p {
			p[j] ^= byte(0x40 * i)
		}
		encs = append(encs, refmodel.EncodeMessage(h, p))
	}
	return hs, encs
}

func familySeq(maxLen, k int) {
	fam := run.Family("seq")
	hs, encs := seqMessages()
	var seqs [][]int
	var rec func(prefix []int)
	rec = func(prefix []int) {
		if len(prefix) > 0 {
			seqs = append(seqs, append([]int(nil), prefix...))
		}
		if len(prefix) == maxLen {
			return
		}
		for i := range encs {
			rec(append(prefix, i))
		}
	}
	rec(nil)
	sort.SliceStable(seqs, func(a, b int) bool { return len(seqs[a]) < len(seqs[b]) })
	var total, completed int64
	counts := make([]int64, len(seqs))
	for _, s := range seqs {
		n := 0
		for _, i := range s {
			n += len(encs[i])
		}
		total += int64(enum.CountCutSets(n, k)) * 3
	}
	done, all := run.Parallel(len(seqs), func(si int) {
		s := seqs[si]
		c := &readCase{}
		var wbuf bytes.Buffer
		for _, i := range s {
			c.msgs = append(c.msgs, encs[i])
			c.hdrs = append(c.hdrs, hs[i])
			c.stream = append(c.stream, encs[i]...)
			// the writer side of "written back-to-back"
			if err := writeMsg(hs[i], encs[i][28:], &wbuf); err != nil {
				run.Violation("write/seq/error", fmt.Sprintf("%09d", len(s)), fmt.Sprintf("Message.Write in a sequence failed: %v", err), nil, nil)
			}
		}
		if !bytes.Equal(wbuf.Bytes(), c.stream) {
			seq := append([]int(nil), s...)
			run.Violation("write/seq/bytes-differ", fmt.Sprintf("%09d|%v", len(c.stream), s),
				fmt.Sprintf("messages %v written back-to-back give %s, documented %s", s, hexHead(wbuf.Bytes()), hexHead(c.stream)),
				map[string]interface{}{"sequence": seq}, nil)
		}
		rd := enum.NewFragReader(nil, nil, 0, 0)
		bnd := bounds(c.msgs)
		local := map[string]int{}
		var n int64
		for _, mode := range enum.EOFModes {
			c.mode = mode
			iter := 0
			enum.CutSets(len(c.stream), k, func(cuts []int) bool {
				c.cuts = cuts
				out := checkRead("seq", rd, c)
				n++
				local[fmt.Sprintf("seq|len%d|%s|shorts%s|%s|%s", len(s), mode, shortsBucket(rd.Shorts), zone(cuts, bnd), out)]++
				iter++
				return iter&0xfff != 0 || !run.Expired()
			})
		}
		// the same sequences read into ONE Message value, unfragmented, in
		// each end-of-stream mode (a fresh value per message is used above)
		if len(s) >= 2 {
			c.reuse, c.cuts = true, nil
			for _, mode := range enum.EOFModes {
				c.mode = mode
				fresh := c.clone()
				fresh.reuse = false
				if cl, _ := readAll(rd, fresh); cl != "" {
					continue // fails anyway: reported by the loop above
				}
				out := checkRead("seq", rd, c)
				n++
				local[fmt.Sprintf("seq-reused|len%d|%s|%s", len(s), mode, out)]++
			}
			c.reuse = false
		}
		counts[si] = n
		run.Eval(fam, int(n))
		run.DistinctSet(local)
	})
	for _, n := range counts {
		completed += n
	}
	if !all || run.TimedOut() {
		run.Note("seq: %d of %d sequences and %d of %d (cut set, eof mode) cases completed before the deadline (sequences ordered by length)", done, len(seqs), completed, total)
	}
	run.Sample(12, map[string]interface{}{"family": "seq", "sequence_payload_lens": []int{5, 0, 40}, "cuts": []int{28, 61}, "eof_mode": "more-follows"})
}

func familyLarge(thorough bool) {
	fam := run.Family("large")
	limit := int(net.MaxPayloadSize)
	lens := []int{255, 256, 257, 4095, 4096, 65535, 65536, 1 << 20, limit - 1, limit}
	h := refmodel.Header{ID: 0x01020304, Type: 2, Flags: 1, Service: 0x05060708, Object: 0x090a0b0c, Action: 0x0d0e0f10}
	run.Parallel(len(lens), func(i int) {
		n := lens[i]
		p := payload(n)
		want := refmodel.EncodeMessage(h, p)
		var buf bytes.Buffer
		err := writeMsg(h, p, &buf)
		run.Eval(fam, 1)
		if err != nil || !bytes.Equal(buf.Bytes(), want) {
			clause := "bytes-differ"
			if err != nil {
				clause = "error"
			}
			which := "below-limit"
			if n == limit {
				which = "at-limit"
			}
			run.Violation("write/large/"+clause+"/"+which, fmt.Sprintf("%09d", n),
				fmt.Sprintf("net.Message.Write with a %d-byte payload (limit %d): err=%v", n, limit, err),
				map[string]interface{}{"payload_len": n, "limit": limit}, func() bool {
					var b bytes.Buffer
					e := writeMsg(h, p, &b)
					return e != nil || !bytes.Equal(b.Bytes(), want)
				})
		}
		rd := enum.NewFragReader(nil, nil, 0, 0)
		c := &readCase{stream: want, msgs: [][]byte{want}, hdrs: []refmodel.Header{h}}
		var cutsets [][]int
		cutsets = append(cutsets, nil)
		for _, cpos := range []int{1, 27, 28, 29, 28 + n/2, 28 + n - 1} {
			if cpos > 0 && cpos < len(want) {
				cutsets = append(cutsets, []int{cpos})
			}
		}
		cutsets = append(cutsets, []int{27, 29}, []int{29, 28 + n - 1})
		chunks := []int{0, 4096}
		if thorough || n <= 65536 {
			chunks = append(chunks, 1, 1000)
		}
		local := map[string]int{}
		for _, mode := range enum.EOFModes {
			for _, cs := range cutsets {
				for _, ch := range chunks {
					if ch != 0 && len(cs) > 0 {
						continue
					}
					if run.Expired() {
						return
					}
					c.mode, c.cuts, c.chunk = mode, cs, ch
					out := checkRead("large", rd, c)
					run.Eval(fam, 1)
					local[fmt.Sprintf("large|len%d|%s|chunk%d|cuts%d|%s", n, mode, ch, len(cs), out)]++
				}
			}
		}
		run.DistinctSet(local)
	})
	run.Sample(12, map[string]interface{}{"family": "large", "payload_lens": lens, "limit": limit})
}

type refusal struct {
	kind string // magic / version / type / size
	name string
	raw  []byte
	size uint32 // the announced payload size
}

// refuseSizes are the payload sizes a refused header announces (the size
// kind announces its own): none, one byte, small, above 64 KiB, the limit.
func refuseSizes() []uint32 {
	return []uint32{0, 1, 5, 64, 70000, uint32(net.MaxPayloadSize)}
}

// refusals is the product of the refusal classes with the announced payload
// sizes: every single-byte corruption of the magic (5 values per byte) and
// the little-endian magic, versions {1, 2, 0xff, 0x100, 0x8000, 0xffff},
// EVERY type byte outside 1..8 (0, 9..255), each x refuseSizes(); and the
// over-limit sizes.
func refusals() []refusal {
	base := refmodel.Header{ID: 0x01020304, Type: 1, Service: 0x05060708, Object: 0x090a0b0c, Action: 0x0d0e0f10}
	limit := uint32(net.MaxPayloadSize)
	var out []refusal
	good := func(size uint32) []byte {
		h := base
		h.Size = size
		return refmodel.EncodeHeader(h)
	}
	for _, size := range refuseSizes() {
		for i := 0; i < 4; i++ {
			orig := good(size)[i]
			for _, v := range []byte{0x00, 0xff, orig + 1, orig ^ 1, orig ^ 0x80} {
				if v == orig {
					continue
				}
				b := good(size)
				b[i] = v
				out = append(out, refusal{"magic", fmt.Sprintf("magic/byte%d=%#x", i, v), b, size})
			}
		}
		le := good(size)
		le[0], le[1], le[2], le[3] = 0x42, 0xad, 0xde, 0x42 // 0x42dead42 in little endian
		out = append(out, refusal{"magic", "magic/little-endian", le, size})
		for _, v := range []uint16{1, 2, 0xff, 0x100, 0x8000, 0xffff} {
			b := good(size)
			b[12], b[13] = byte(v), byte(v>>8)
			out = append(out, refusal{"version", fmt.Sprintf("version/%#x", v), b, size})
		}
		for v := 0; v < 256; v++ {
			if v >= 1 && v <= 8 {
				continue
			}
			b := good(size)
			b[14] = uint8(v)
			out = append(out, refusal{"type", fmt.Sprintf("type/%d", v), b, size})
		}
	}
	// over-limit sizes, among them values whose low bytes look small, with
	// every valid message type
	for _, v := range []uint32{limit + 1, limit + 2, limit + 0x100, limit + 0x10000, 0x01000000, 0x7fffffff, 0x80000000, 0x80000001, 0xff000000, 0xffffffff} {
		for typ := uint8(1); typ <= 8; typ++ {
			b := good(v)
			b[14] = typ
			out = append(out, refusal{"size", fmt.Sprintf("size/%#x/type%d", v, typ), b, v})
		}
	}
	// the other fields of a refused header: 9 representative refusals x
	// announced size {0,5} x flags {0,1,0x80,0xff} x valid types 1..8 (when
	// the type is not what is wrong) x id/service/object/action all zero /
	// all ones / byte-asymmetric
	corrupt := []struct {
		kind, name string
		apply      func(b []byte)
	}{
		{"magic", "magic/little-endian", func(b []byte) { b[0], b[1], b[2], b[3] = 0x42, 0xad, 0xde, 0x42 }},
		{"magic", "magic/byte0=0x43", func(b []byte) { b[0] = 0x43 }},
		{"version", "version/0x1", func(b []byte) { b[12], b[13] = 1, 0 }},
		{"version", "version/0xffff", func(b []byte) { b[12], b[13] = 0xff, 0xff }},
		{"type", "type/0", func(b []byte) { b[14] = 0 }},
		{"type", "type/9", func(b []byte) { b[14] = 9 }},
		{"type", "type/255", func(b []byte) { b[14] = 255 }},
		{"size", "size/limit+1", func(b []byte) {
			v := limit + 1
			b[8], b[9], b[10], b[11] = byte(v), byte(v>>8), byte(v>>16), byte(v>>24)
		}},
		{"size", "size/0xffffffff", func(b []byte) { b[8], b[9], b[10], b[11] = 0xff, 0xff, 0xff, 0xff }},
	}
	for _, c := range corrupt {
		for _, size := range []uint32{0, 5} {
			if c.kind == "size" && size != 0 {
				continue
			}
			for _, fl := range []uint8{0, 1, 0x80, 0xff} {
				for typ := uint8(1); typ <= 8; typ++ {
					if c.kind == "type" && typ != 1 {
						continue
					}
					for fi, fill := range [][4]uint32{{0, 0, 0, 0}, {0xffffffff, 0xffffffff, 0xffffffff, 0xffffffff}, {0x01020304, 0x05060708, 0x090a0b0c, 0x0d0e0f10}} {
						h := refmodel.Header{ID: fill[0], Size: size, Type: typ, Flags: fl, Service: fill[1], Object: fill[2], Action: fill[3]}
						b := refmodel.EncodeHeader(h)
						c.apply(b)
						sz := size
						if c.kind == "size" {
							sz = uint32(b[8]) | uint32(b[9])<<8 | uint32(b[10])<<16 | uint32(b[11])<<24
						}
						out = append(out, refusal{c.kind, fmt.Sprintf("%s/flags%#x/type%d/fields%d", c.name, fl, typ, fi), b, sz})
					}
				}
			}
		}
	}
	return out
}

func sizeClass(kind string, size uint32) string {
	if kind == "size" {
		return "over-limit"
	}
	switch {
	case size == 0:
		return "0"
	case size == uint32(net.MaxPayloadSize):
		return "limit"
	case size > 64:
		return "large"
	}
	return "small"
}

// tryRefuse feeds one header that must be refused, followed by follow bytes,
// to Message.Read.
func tryRefuse(raw []byte, follow []byte, chunk int) (string, string) {
	stream := append(append(make([]byte, 0, len(raw)+len(follow)), raw...), follow...)
	rd := enum.NewFragReader(stream, nil, enum.EOFSeparate, chunk)
	var m net.Message
	err := m.Read(rd)
	if err == nil {
		return "accepted", fmt.Sprintf("Read returned nil (header %+v, %d payload bytes)", m.Header, len(m.Payload))
	}
	if rd.Pos() > 28 {
		return "payload-read", fmt.Sprintf("Read refused (%v) but only after taking %d bytes from the stream (header is 28)", err, rd.Pos())
	}
	return "", ""
}

// hugeAnnounced: a refused header announcing more than this is not tried
// inside the check's own process (a repository that does not refuse it would
// allocate what is announced, 16 workers at a time); it is handed to the
// history family, whose processes have a capped address space.
const hugeAnnounced = 64 << 20

func splitRefusals() (inProcess []refusal, huge []string) {
	for _, rf := range refusals() {
		if rf.size > hugeAnnounced {
			for _, follow := range []int{0, 64} {
				huge = append(huge, fmt.Sprintf("R:hdr:%s:%s:%d", rf.kind, hex.EncodeToString(rf.raw), follow))
			}
			continue
		}
		inProcess = append(inProcess, rf)
	}
	return inProcess, huge
}

func familyRefuse(rfs []refusal) {
	fam := run.Family("refuse")
	big := payload(int(net.MaxPayloadSize))
	// the bytes that follow the header: nothing, fewer than announced, exactly
	// the announced payload, more than announced
	follows := func(rf refusal) []int {
		set := map[int]bool{0: true, 5: true, 64: true}
		// streams of the limit's length (10 MiB each) for five representative
		// headers only: a header that is refused never gets that far, and one
		// that is not already shows with the shorter streams
		rep := map[string]bool{"magic/little-endian": true, "version/0x1": true, "type/0": true, "type/9": true, "type/255": true}
		if rf.kind != "size" && (rf.size <= 70000 || rep[rf.name]) {
			set[int(rf.size)] = true
			if rf.size > 0 {
				set[int(rf.size)-1] = true
			}
			if rf.size < uint32(net.MaxPayloadSize) {
				set[int(rf.size)+1] = true
			}
		}
		var out []int
		for n := range set {
			out = append(out, n)
		}
		sort.Ints(out)
		return out
	}
	run.Parallel(len(rfs), func(i int) {
		rf := rfs[i]
		local := map[string]int{}
		for _, follow := range follows(rf) {
			for _, chunk := range []int{0, 1} {
				if chunk == 1 && follow > 70001 {
					continue // one byte per read matters for the header; 10 MiB that way only costs time
				}
				fb := big[:follow]
				clause, det := tryRefuse(rf.raw, fb, chunk)
				run.Eval(fam, 1)
				fc := "none"
				switch {
				case follow == 0:
				case rf.kind != "size" && follow == int(rf.size):
					fc = "announced"
				case rf.kind != "size" && follow < int(rf.size):
					fc = "fewer"
				default:
					fc = "more"
				}
				local[fmt.Sprintf("refuse|%s|announced-%s|follow-%s|chunk%d|%s", rf.kind, sizeClass(rf.kind, rf.size), fc, chunk, clause)]++
				if clause == "" {
					continue
				}
				// attribution: the historical fingerprint read/refuse/<kind>/<clause>
				// stands for "fails whatever the announced size" (decided on the
				// same header announcing 5 bytes); otherwise the size class that
				// is needed is part of the fingerprint
				fp := "read/refuse/" + rf.kind + "/" + clause
				if rf.kind != "size" {
					b5 := append([]byte(nil), rf.raw...)
					b5[8], b5[9], b5[10], b5[11] = 5, 0, 0, 0
					if c5, _ := tryRefuse(b5, big[:5], chunk); c5 == "" {
						fp += "/announced-size=" + sizeClass(rf.kind, rf.size)
					}
				}
				raw, name := rf.raw, rf.name
				run.Violation(fp, fmt.Sprintf("%010d|%09d|%d|%s", rf.size, follow, chunk, rf.name),
					fmt.Sprintf("header with bad %s announcing a %d-byte payload, followed by %d bytes: %s", name, rf.size, follow, det),
					map[string]interface{}{"entry": "net.Message.Read", "header_hex": hex.EncodeToString(raw), "announced_size": rf.size, "following_bytes": follow, "chunk": chunk,
						"observed": det, "expected": "an error, with at most 28 bytes taken from the stream"},
					func() bool { c, _ := tryRefuse(raw, fb, chunk); return c == clause })
			}
		}
		run.DistinctSet(local)
	})
	run.Sample(12, map[string]interface{}{"family": "refuse", "example": "magic in little endian 42adde42..., version 0x100, type 9 announcing 0 / 1 / 5 / 64 / 70000 / limit bytes, size limit+1",
		"headers": len(rfs)})
}

func familyWriteFrag(k int, thorough bool) {
	fam := run.Family("wfrag")
	h := refmodel.Header{ID: 0x01020304, Type: 5, Flags: 1, Service: 0x05060708, Object: 0x090a0b0c, Action: 0x0d0e0f10}
	lens := []int{0, 1, 2, 5, 17, 40}
	if thorough {
		lens = nil
		for n := 0; n <= 48; n++ {
			lens = append(lens, n)
		}
	}
	run.Parallel(len(lens), func(i int) {
		n := lens[i]
		p := payload(n)
		want := refmodel.EncodeMessage(h, p)
		w := &enum.FragWriter{}
		local := map[string]int{}
		var cnt int
		iter := 0
		enum.CutSets(len(want), k, func(cuts []int) bool {
			w.Reset(cuts)
			err := writeMsg(h, p, w)
			cnt++
			out := "ok"
			if err != nil {
				out = "error"
			} else if !bytes.Equal(w.Buf, want) {
				out = "bytes-differ"
			}
			local[fmt.Sprintf("wfrag|shorts%s|%s|%s", shortsBucket(w.Shorts), zone(cuts, []int{0, len(want)}), out)]++
			if out != "ok" {
				cs := append([]int(nil), cuts...)
				failsW := func(cs []int) bool {
					w2 := &enum.FragWriter{}
					w2.Reset(cs)
					e := writeMsg(h, p, w2)
					return e != nil || !bytes.Equal(w2.Buf, want)
				}
				for again := true; again; {
					again = false
					for i := range cs {
						t := append(append([]int(nil), cs[:i]...), cs[i+1:]...)
						if failsW(t) {
							cs, again = t, true
							break
						}
					}
				}
				w2 := &enum.FragWriter{}
				w2.Reset(cs)
				err2 := writeMsg(h, p, w2)
				got := hexHead(w2.Buf)
				fp := "write/short-writes/" + out + "/" + zone(cs, []int{0, len(want)})
				rank := fmt.Sprintf("%09d|%02d|%v", len(want), len(cs), cs)
				if run.Fail(fp, rank) {
					run.Keep(fp, rank, fmt.Sprintf("net.Message.Write of a %d-byte message through a writer that accepts the bytes in pieces ending at %v: err=%v, stream %s, expected %s", len(want), cs, err2, got, hexHead(want)),
						map[string]interface{}{"entry": "net.Message.Write", "payload_len": n, "short_write_cuts": cs, "observed_hex": got, "expected_hex": hexHead(want)},
						func() bool { return failsW(cs) })
				}
			}
			iter++
			return iter&0xfff != 0 || !run.Expired()
		})
		run.Eval(fam, cnt)
		run.DistinctSet(local)
	})
	// payload length different from Header.Size: if Write succeeds the
	// stream must still be a consistent message (size field == number of
	// payload bytes that follow)
	for _, n := range []int{0, 1, 5} {
		for _, size := range []uint32{0, 1, 4, 6, 0xffffffff} {
			if int(size) == n {
				continue
			}
			hh := toNet(h)
			hh.Size = size
			m := net.Message{Header: hh, Payload: payload(n)}
			var buf bytes.Buffer
			err := m.Write(&buf)
			run.Eval(fam, 1)
			out := "refused"
			if err == nil {
				out = "written-consistent"
				b := buf.Bytes()
				if len(b) < 28 || int(uint32(b[8])|uint32(b[9])<<8|uint32(b[10])<<16|uint32(b[11])<<24) != len(b)-28 {
					out = "written-inconsistent"
					run.Violation("write/size-mismatch/inconsistent-stream", fmt.Sprintf("%03d|%d", n, size),
						fmt.Sprintf("Message.Write with Header.Size=%d and a %d-byte payload succeeded and produced %s", size, n, hexHead(b)),
						map[string]interface{}{"header_size": size, "payload_len": n, "written_hex": hexHead(b)}, nil)
				}
			}
			run.Distinct(fmt.Sprintf("wfrag|size-mismatch|%s", out))
		}
	}
	run.Sample(12, map[string]interface{}{"family": "wfrag", "payload_len": 5, "short_write_cuts": []int{4, 29}})
}

func main() {
	if len(os.Args) == 3 && os.Args[1] == "--history" {
		// this process is a fresh one started to run histories (one given on
		// the command line, or a batch on the standard input); does not return
		specs := []string{os.Args[2]}
		if os.Args[2] == "-" {
			b, _ := io.ReadAll(os.Stdin)
			specs = strings.Fields(string(b))
		}
		histChild(specs)
	}
	run = enum.NewRun("C01", 45*time.Second, 9*time.Minute)
	thorough := run.Thorough()
	k, seqLen := 2, 3
	if thorough {
		k = 3
	}
	hs := headers()
	// self-check of the oracle: the reference decoder inverts the reference
	// encoder on every header of H
	for _, h := range hs {
		g, err := refmodel.DecodeHeader(refmodel.EncodeHeader(h))
		if err != nil || g != h {
			run.EngineError("refmodel header self-check failed for %+v: %v", h, err)
		}
	}
	refuseHere, refuseHuge := splitRefusals()
	histExtra := familyHistory(thorough, refuseHuge)
	familyRefuse(refuseHere)
	familyLayout(hs)
	familyLarge(thorough)
	familyWriteFrag(k, thorough)
	familySeq(seqLen, k)
	fh := fragHeaders(thorough)
	familyFrag(fh, k)

	rule := "cases are enumerated family by family (see the header comment of checks/c01/main.go): " +
		"layout = |H| headers x payload lengths 0..64 x {write, read in 3 end-of-stream modes x {unfragmented, 1 byte per read}}; " +
		"frag = |Hf| headers x payload lengths 0..64 x every set of <= k cut positions among the interior offsets x 3 end-of-stream modes; " +
		"seq = every sequence of length <= L over 4 fixed messages (payload 0,1,5,40) x every set of <= k cuts x 3 modes; " +
		"large = 10 boundary payload lengths up to MaxPayloadSize x cuts around the header/payload boundary x chunked readers; " +
		"refuse = (every single-byte corruption of the magic + the little-endian magic, versions {1,2,0xff,0x100,0x8000,0xffff}, every type byte outside 1..8) x announced payload size {0,1,5,64,70000,limit} " +
		"+ 10 over-limit sizes x the 8 valid types + 9 representative refusals x announced size {0,5} x flags {0,1,0x80,0xff} x valid types x {all-zero, all-ones, byte-asymmetric} id/service/object/action, each x following bytes {none, 5, 64, announced-1, announced, announced+1 (10 MiB streams for 5 representative headers)} x {unfragmented, 1 byte per read} - except the headers announcing more than 64 MiB, which are run as one-call histories (followed by 0 and 64 bytes) in the history processes, whose address space is capped at 3 GiB; wfrag = short-write patterns with <= k cuts; " +
		"history = sequences of Read/Write calls executed in fresh processes (GOMAXPROCS=1, GC off), every call judged; thorough: one process per history of length <= 3; quick (and length 4 in thorough): 48 histories back to back per process, and a history that fails is re-run FROM THE START ALONE IN A FRESH PROCESS (as is every step of its reduction) - " +
		"if it fails alone its fingerprint names the calls that must precede the failing one, if it only fails after the other histories of its process that sequence is re-run in a fresh process and it is reported with /depends-on-earlier-calls: " +
		"every operation alone; every pair (operation that must go wrong, valid operation), (valid, wrong) and (valid, valid over 5 messages, payload 0,1,5,40,70000) per direction and across directions, where the read operations that go wrong are " +
		"9 refusal kinds x announced size {0,1,5,70000} + 2 over-limit sizes + a stream ending after {0,1,4,27,28,29,30,32} of 33 bytes x {EOF with the data, EOF separate} and the write operations that fail are " +
		"messages {payload 0,5,40} x accepted bytes {0,1,28,all but one,all} x error {io.EOF, io.ErrClosedPipe, other} x {error with the last bytes, error on the next call}; " +
		"every sequence of length 3 (thorough: and 4) over a 10-letter read alphabet and an 8-letter write alphabet (thorough: also every mixed sequence of length 3 over the 18 letters; the letters are listed under history_family); " +
		"modes: own stream per call / one shared stream / one reused Message value. A failing history is reduced by dropping preceding calls (fresh process per attempt); its fingerprint names the failing call and the calls that must precede it (after=...). " +
		"A case class is (family, message type or sequence length, end-of-stream mode, number of short reads actually experienced by the reader (0,1,2,3+), " +
		"zone of the cuts (header / header-end / payload / message boundary), outcome); distinct_nontrivial counts the distinct classes that were executed"
	extra := map[string]interface{}{
		"headers_H": len(hs), "headers_Hf": len(fh), "max_cuts_k": k, "max_sequence_length": seqLen,
		"payload_limit": net.MaxPayloadSize, "refused_headers": len(refusals()), "refused_headers_announcing_more_than_64MiB_run_in_history_processes": len(refuseHuge) / 2, "history_family": histExtra,
	}
	assumptions := []string{
		"(0, nil) reads are excluded from the fragmentations (io.Reader discourages them; the property speaks of fragmentations of the stream)",
		"payload lengths between 65 bytes and the listed boundary lengths are not enumerated",
		"the size limit is the repository constant net.MaxPayloadSize",
		"short writes (n < len(p) with a nil error) are outside the io.Writer contract; they are enumerated because WriteN documents a retry loop",
		"state kept between calls is explored by the history family only up to 3 calls (4 in thorough) and inside one process on one P (GOMAXPROCS=1, GC off: a pooled object put back by a call is the one the next call gets); concurrent callers are C10's business",
		"a failure observed in one of the in-process families that does not show again when the case is re-run alone is reported with the suffix /depends-on-earlier-calls (it is a violation: the repository keeps state between calls), never as an engine error",
	}
	os.Exit(run.Finish(rule, true, extra, assumptions))
}
